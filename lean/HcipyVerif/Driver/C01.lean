import HcipyVerif.Model.FftWeights
import HcipyVerif.Model.Nft
import HcipyVerif.Model.Multiplex
import HcipyVerif.Model.MftState
import HcipyVerif.Model.Proto
import HcipyVerif.Model.FftGrid
import HcipyVerif.Model.FftIndex
import HcipyVerif.Model.FftSelect
import HcipyVerif.Model.FftIndexN
import HcipyVerif.Model.FftState
import HcipyVerif.Model.FftMulti
import HcipyVerif.Model.FftDecide
import HcipyVerif.Model.Mft
import HcipyVerif.Model.Czt
import HcipyVerif.Model.ZoomN
import HcipyVerif.Model.Axes

/-!
Line-protocol front end of the C01 model.

* `plan [N…] [δ…] [z…] [q…] [fov…] [s…]` (lists in *dims* order x,y,…) — everything
  `FastFourierTransform.__init__`/`make_fft_grid` derive: padded sizes, output sizes, output spacing
  and zero in turns (`Δ = 2π·dT`, `zero = 2π·zeroT + s`), cut-outs, the weight, and the slack of
  the two float decisions (`round(q·N)`, `int(M·fov)`).
* `cons N M Mo δ dT` — the grid-consistency predicate on *reported* sizes.
* `imp fwd|bwd std|emu N M Mo δ z dT s w j` — the modelled pipeline applied to the unit impulse at
  `j`, every output sample as a monomial `c:t:r` = `c·exp(i(2π·t + r))`.
* `sum fwd|bwd …` — the same from the defining sum (right-hand side of the theorems).
* `select regular|separated|unstructured cart ndim none|fftgrid|regular|separated|unstructured fftCheaper`
  — `make_fourier_transform` (`makeFT detectFix`, the detection of the repaired code): input grid kind, whether it is Cartesian, the
  number of dimensions (the output grid, when given, is Cartesian of the same dimension; `fftgrid` =
  regular and the numerical part of `get_fft_parameters` succeeds), the planner's comparison
  (`1` = not `fft > mft`).  Answer `ok fft|mft|naive` or `err value`.
* `selectx kind cart ndim none|okind ocart ondim numFft fftCheaper` — `makeFT detectFix` with a full
  descriptor of the requested grid (kind, Cartesian or not, number of axes, outcome of the numerical
  part of `get_fft_parameters`).  Answer `ok method params|grid kind cart ndim` (the descriptor of the
  object's `output_grid`, `ctorGrid`) or `err value`.
* `impn lit|iter|sum fwd|bwd std|emu [N…] [M…] [Mo…] [δ…] [z…] [dT…] [s…] [w…] [j…]` (lists in *shape*
  order `…,y,x`) — the **literal** 2-D / 3-D array programs `fastForward2/3`, `fastBackward2/3`
  (`lit`, 1–3 axes) or the iterated `fastForwardN`/`fastBackwardN` (`iter`, any number of axes) on the
  unit impulse at the multi-index `j`; all output samples, row-major.  `sum` = the n-D defining sums
  `sumForwardN` / `sumBackwardN` (output weights `dT` per axis) on the same impulse.
* `reproduce N δ Mo dT zeroT s z` — one axis of `get_fft_parameters` followed by the
  FastFourierTransform built from the reconstructed parameters: `getFftParameters`, then
  `plan (p.toAxisIn a z)`; answers `ok b Mo dT zeroT s` where `b` decides
  `AxisReproduced a z o p ∧ FftValuePre (p.toAxisIn a z)` (the conclusion of `fft_grid_roundtrip'`,
  the per-axis content of `AxesReproduced` in `selection_sound'`) and the rest is the output axis
  that plan reports (`zeroT` = its zero in turns + the reconstructed shift in turns); `err value`
  when the requested axis is not an FFT axis of the input axis.
* `impnw std|emu [N…] [M…] [Mo…] [δ…] [z…] [dT…] [s…] [w…] [rel…] [j…]` — `fastForwardNW`
  (`Model/FftWeights.lean`): forward on a grid with per-point weights; `[w…]` as for `impn` (product
  = the cell area kept in `shift_input`), `[rel…]` the `relative_weights` array, row-major.
* `nft fwd|bwd mat|fly [x…];[y…];… [u…];[v…];… [w…] j` — `Model/Nft.lean`: NaiveFourierTransform on
  unstructured points (one coordinate list per dimension for the input and for the output points),
  precomputed-matrix path or on-the-fly path, per-point weights of the source grid (`bwd`: output
  weights already divided by `(2π)^ndim`), unit impulse at `j`; all samples.
* `load shifts N M [buf…] [f…]` — `loadArray` (`Model/FftState.lean`): the persistent internal array
  after the first statements of `forward` from previous contents `buf` (then `ifftshift` when
  `shifts = 1`, as the code rebinds `internal_array`); exact rationals.
* `corestate shifts N M Mo [buf…] j` — `coreState` with the forward kernel on the unit impulse
  at `j`, starting from the previous contents `buf`.
* `multi [sh,N,M,Mo, sh,N,M,Mo, …] [obj,back,j, obj,back,j, …] g` — `multiImpulse` (`Model/FftMulti.lean`): a population
  of live FFT objects (four numbers each) with per-object internal arrays, all initially filled with the garbage value
  `g`, and an interleaved history of calls (three numbers each: object, 0 = forward / 1 = backward, impulse position);
  answers the FFT core of every call (`runOwn`), calls separated by `|`.  `multipool …` — the same through `runPool` (the
  defect class: arrays shared by padded size + skip-clearing flags), used to tell which histories discriminate the two.
* `decide shift [s…]` — `shiftNeeded` / `shiftNeededOld` (`Model/FftDecide.lean`); `decide cutout [M…] [N…]` —
  `cutoutNeeded` / `cutoutNeededOld`; answers the repaired and the old decision.
* `mft fwd|bwd|sumfwd|sumbwd [x…] [y…] [u…] [v…] [w…] j` — `mftForward`/`mftBackward`
  (`Model/Mft.lean`, the two gemm calls) and the defining sums on the unit impulse at flat index `j`;
  `w` with one entry is the scalar-weights branch.  `mft1 fwd|bwd [x…] [u…] [w…] j` — one axis.
* `czt n m nfft ω α j` — `cztBluestein` (`Model/Czt.lean`) on the unit impulse at `j`
  (`w = exp(iω)`, `a = exp(iα)`); `cztsum …` the defining sum; `cztparts n m ω α` — the arrays
  `_Awk2 | _wk2 | hstack(1/wk2[n-1:0:-1], 1/wk2[:m])` of the code.
* `zoomn fwd|bwd [n…] [m…] [nfft…] [nfftInv…] [x0…] [δ…] [u0…] [Δ…] [w…] [j…]` (shape order) —
  `zoomForwardN` / `zoomBackwardN` (`Model/ZoomN.lean`: weights, then the CZT axis loop) on the unit
  impulse; `zoomsum …` the n-D defining sums.
* `zoomchirp fwd|bwd x0 δ u0 Δ` — the chirp parameters `w a` of one axis (`zoomChirp`/`zoomChirpInv`,
  what `zoomAxis`/`zoomAxisInv` hand to the Bluestein pipeline), as monomials.
* `zoomaxes r ndim` — `zoomLoop` (`Model/Axes.lean`): the axis the CZT acts on at each iteration and
  the final layout, labels `t<i>` (tensor axis) / `g<d>` (grid axis with dims-index `d`).
* `fftparams N δ Mo dT zeroT s` — `get_fft_parameters` on one axis (output spacing `2π·dT`, output
  zero `2π·zeroT + s`).  Answer `ok q fov shiftT s` (the shift is `2π·shiftT + s`) or `err value`.
-/
namespace HcipyVerif.Driver.C01
open HcipyVerif.Proto HcipyVerif.Fft HcipyVerif.Axes

structure St where
  dummy : Unit := ()

def showCut : Option (List (Nat × Nat)) → String
  | none => "-"
  | some l => ",".intercalate (l.map fun (a, b) => s!"{a}:{b}")

def showPSum (p : PSum) : String :=
  match p.terms with
  | [] => "0"
  | [x] => s!"{showRat x.c}:{showRat x.t}:{showRat x.r}"
  | _ => "multi"

def zip6 : List Nat → List Rat → List Rat → List Rat → List Rat → List Rat → Option (List AxisIn)
  | [], [], [], [], [], [] => some []
  | n :: ns, d :: ds, z :: zs, q :: qs, f :: fs, s :: ss =>
    (zip6 ns ds zs qs fs ss).map fun rest => ⟨n, d, z, q, f, s⟩ :: rest
  | _, _, _, _, _, _ => none

def minList (l : List Rat) : Rat := l.foldl (fun a b => if b < a then b else a) 1

def parseCfg (dir cfg : String) (args : List String) : Option (Bool × RCfg × Nat) :=
  match args with
  | [N, M, Mo, d, z, dT, s, w, j] =>
    match parseNat? N, parseNat? M, parseNat? Mo, parseRat? d, parseRat? z, parseRat? dT,
      parseRat? s, parseRat? w, parseNat? j with
    | some N, some M, some Mo, some d, some z, some dT, some s, some w, some j =>
      if (dir != "fwd" && dir != "bwd") || (cfg != "std" && cfg != "emu") then none
      else some (dir == "fwd", { N := N, M := M, Mo := Mo, δ := d, z := z, dT := dT, s := s,
                                 w := PSum.ofRat w, emu := cfg == "emu" }, j)
    | _, _, _, _, _, _, _, _, _ => none
  | _ => none

def parseKind? : String → Option GridKind
  | "regular" => some .regular
  | "separated" => some .separated
  | "unstructured" => some .unstructured
  | _ => none

def parseBool? : String → Option Bool
  | "0" => some false
  | "1" => some true
  | _ => none

/-- the `out` token of `select`, for an input of dimension `ndim` -/
def parseOutReq? (ndim : Nat) : String → Option (Option OutReq)
  | "none" => some none
  | "fftgrid" => some (some ⟨⟨.regular, true, ndim⟩, true⟩)
  | s => (parseKind? s).map fun k => some ⟨⟨k, true, ndim⟩, false⟩

def showMethod : Method → String
  | .fft => "fft"
  | .mft => "mft"
  | .naive => "naive"

def showTerm (x : Term) : String := s!"{showRat x.c}:{showRat x.t}:{showRat x.r}"

/-- every term of a formal phase sum, `+`-separated -/
def showPSumFull (p : PSum) : String :=
  match p.terms with
  | [] => "0"
  | ts => "+".intercalate (ts.map showTerm)

def showPSums (l : List PSum) : String := ";".intercalate (l.map showPSumFull)

/-- all multi-indices below `dims`, row-major (head slowest) -/
def allIdx : List Nat → List (List Nat)
  | [] => [[]]
  | n :: ns => (List.range n).flatMap fun i => (allIdx ns).map (i :: ·)

/-- row-major flat index -/
def flatIdx : List Nat → List Nat → Nat
  | _ :: ns, i :: is => i * ns.foldl (· * ·) 1 + flatIdx ns is
  | _, _ => 0

def prodList (l : List Nat) : Nat := l.foldl (· * ·) 1

def impulseN (js : List Nat) (idx : List Nat) : PSum := if idx = js then PSum.ofRat 1 else 0

/-- weights from a list: one entry = the same number everywhere, else indexed row-major -/
def weightFn (dims : List Nat) (w : List Rat) (idx : List Nat) : PSum :=
  match w with
  | [w0] => PSum.ofRat w0
  | _ => PSum.ofRat (w.getD (flatIdx dims idx) 0)

def zipCfg (emu : Bool) : List Nat → List Nat → List Nat → List Rat → List Rat → List Rat → List Rat →
    List Rat → Option (List RCfg)
  | [], [], [], [], [], [], [], [] => some []
  | n :: ns, m :: ms, o :: os, d :: ds, z :: zs, t :: ts, s :: ss, w :: ws =>
    (zipCfg emu ns ms os ds zs ts ss ws).map fun rest =>
      { N := n, M := m, Mo := o, δ := d, z := z, dT := t, s := s, w := PSum.ofRat w, emu := emu } :: rest
  | _, _, _, _, _, _, _, _ => none

def zipZAx : List Nat → List Nat → List Nat → List Nat → List Rat → List Rat → List Rat → List Rat →
    Option (List (ZAx Rat))
  | [], [], [], [], [], [], [], [] => some []
  | n :: ns, m :: ms, a :: as, b :: bs, x :: xs, d :: ds, u :: us, e :: es =>
    (zipZAx ns ms as bs xs ds us es).map fun rest =>
      { n := n, m := m, nfft := a, nfftInv := b, x0 := x, δ := d, u0 := u, Δ := e } :: rest
  | _, _, _, _, _, _, _, _ => none

def showAx : Ax → String
  | .t i => s!"t{i}"
  | .g d => s!"g{d}"

def showAxes (l : List Ax) : String := "[" ++ ",".intercalate (l.map showAx) ++ "]"

def showKind : GridKind → String
  | .regular => "regular"
  | .separated => "separated"
  | .unstructured => "unstructured"

def showVia : Via → String
  | .params => "params"
  | .grid => "grid"

/-- the literal array programs for 1–3 axes -/
def literalN (fwd : Bool) (gs : List RCfg) (js : List Nat) : Option (List PSum) :=
  let T := PSum.turns; let E := PSum.rad
  match gs, js with
  | [gx], [jx] =>
    if fwd then some ((List.range gx.Mo).map fun k => fastForward T E gx (PSum.impulse jx) k)
    else some ((List.range gx.N).map fun k => fastBackward T E gx (PSum.impulse jx) k)
  | [gy, gx], [jy, jx] =>
    let f : Nat → Nat → PSum := fun iy ix => if iy = jy ∧ ix = jx then PSum.ofRat 1 else 0
    if fwd then some ((allIdx [gy.Mo, gx.Mo]).map fun
      | [ky, kx] => fastForward2 T E gy gx f ky kx
      | _ => 0)
    else some ((allIdx [gy.N, gx.N]).map fun
      | [ky, kx] => fastBackward2 T E gy gx f ky kx
      | _ => 0)
  | [gz, gy, gx], [jz, jy, jx] =>
    let f : Nat → Nat → Nat → PSum := fun iz iy ix =>
      if iz = jz ∧ iy = jy ∧ ix = jx then PSum.ofRat 1 else 0
    if fwd then some ((allIdx [gz.Mo, gy.Mo, gx.Mo]).map fun
      | [kz, ky, kx] => fastForward3 T E gz gy gx f kz ky kx
      | _ => 0)
    else some ((allIdx [gz.N, gy.N, gx.N]).map fun
      | [kz, ky, kx] => fastBackward3 T E gz gy gx f kz ky kx
      | _ => 0)
  | _, _ => none

instance (a : InAxis) (z : Rat) (o : OutAxis) (p : FftParams) : Decidable (AxisReproduced a z o p) := by
  unfold AxisReproduced; infer_instance

instance (a : AxisIn) : Decidable (FftValuePre a) := by
  unfold FftValuePre; infer_instance

def cztOp (sum : Bool) : List String → String
  | [n, m, nfft, om, al, j] =>
    match parseNat? n, parseNat? m, parseNat? nfft, parseRat? om, parseRat? al, parseNat? j with
    | some n, some m, some nfft, some om, some al, some j =>
      if n = 0 || nfft < n + m - 1 || j ≥ n then "err value" else
      let outs := (List.range m).map fun k =>
        if !sum then cztBluestein n m nfft PSum.rad om al (PSum.impulse j) k
        else cztSum n PSum.rad om al (PSum.impulse j) k
      "ok " ++ showPSums outs
    | _, _, _, _, _, _ => "bad-op"
  | _ => "bad-op"

def zoomOp (sum : Bool) : List String → String
  | [dir, ns, ms, nf, nfi, x0s, ds, u0s, Ds, ws, js] =>
    match parseNatList? ns, parseNatList? ms, parseNatList? nf, parseNatList? nfi, parseRatList? x0s,
      parseRatList? ds, parseRatList? u0s, parseRatList? Ds, parseRatList? ws, parseNatList? js with
    | some ns, some ms, some nf, some nfi, some x0s, some ds, some u0s, some Ds, some w, some js =>
      if dir != "fwd" && dir != "bwd" then "bad-op" else
      match zipZAx ns ms nf nfi x0s ds u0s Ds with
      | none => "bad-op"
      | some axs =>
        let fwd := dir == "fwd"
        let src := if fwd then ns else ms
        let dst := if fwd then ms else ns
        if js.length != axs.length then "bad-op" else
        if axs.any (fun a => a.n = 0 || a.m = 0 || a.nfft < a.n + a.m - 1 || a.nfftInv < a.n + a.m - 1)
            || (w.length != 1 && w.length != prodList src) then "err value" else
        let E := PSum.rad
        let wf := weightFn src w
        let outs := (allIdx dst).map fun ks =>
          match sum, fwd with
          | false, true => zoomForwardN E axs wf (impulseN js) ks
          | false, false => zoomBackwardN E axs wf (impulseN js) ks
          | true, true => zoomSumForwardN E axs wf (impulseN js) ks
          | true, false => zoomSumBackwardN E axs wf (impulseN js) ks
        "ok " ++ showPSums outs
    | _, _, _, _, _, _, _, _, _, _ => "bad-op"
  | _ => "bad-op"

def multiOp (pool : Bool) (cfgs calls g : String) : String :=
    match parseNatList? cfgs, parseNatList? calls, parseRat? g with
    | some cf, some cl, some g =>
      if cf.length % 4 != 0 || cl.length % 3 != 0 || cf.length = 0 then "err value" else
      let objs : List ObjCfg := (List.range (cf.length / 4)).map fun i =>
        ⟨cf.getD (4 * i) 0 != 0, cf.getD (4 * i + 1) 0, cf.getD (4 * i + 2) 0, cf.getD (4 * i + 3) 0⟩
      let cs : List (Nat × Bool × Nat) := (List.range (cl.length / 3)).map fun i =>
        (cl.getD (3 * i) 0, cl.getD (3 * i + 1) 0 != 0, cl.getD (3 * i + 2) 0)
      if objs.any (fun o => o.M = 0 || o.N > o.M || o.Mo > o.M || o.N = 0 || o.Mo = 0) then "err value"
      else if cs.any (fun (o, b, j) => o ≥ objs.length || j ≥ (objs.getD o ⟨false, 1, 1, 1⟩).src b) then "err value"
      else "ok " ++ "|".intercalate (((if pool then multiPoolImpulse else multiImpulse) objs cs g).map showPSums)
    | _, _, _ => "bad-op"

def step (st : St) : List String → St × String
  | ["impn", mode, dir, cfg, Ns, Ms, Mos, ds, zs, dTs, ss, ws, js] =>
    match parseNatList? Ns, parseNatList? Ms, parseNatList? Mos, parseRatList? ds, parseRatList? zs,
      parseRatList? dTs, parseRatList? ss, parseRatList? ws, parseNatList? js with
    | some Ns, some Ms, some Mos, some ds, some zs, some dTs, some ss, some ws, some js =>
      if (dir != "fwd" && dir != "bwd") || (cfg != "std" && cfg != "emu") ||
          (mode != "lit" && mode != "iter" && mode != "sum") then (st, "bad-op") else
      match zipCfg (cfg == "emu") Ns Ms Mos ds zs dTs ss ws with
      | none => (st, "bad-op")
      | some gs =>
        if js.length != gs.length then (st, "bad-op") else
        if gs.any (fun g => g.M = 0 || g.N > g.M || g.Mo > g.M) then (st, "err value") else
        let fwd := dir == "fwd"
        if mode == "lit" then
          match literalN fwd gs js with
          | none => (st, "err value")
          | some outs => (st, "ok " ++ showPSums outs)
        else if mode == "sum" then
          -- the n-D defining sums the theorems `fast_*_nd_eq_sum` have on their right-hand side
          let T := PSum.turns; let E := PSum.rad
          let outs :=
            if fwd then (allIdx (gs.map (·.Mo))).map fun ks => sumForwardN T E gs (impulseN js) ks
            else (allIdx (gs.map (·.N))).map fun ks =>
              sumBackwardN T E (fun g => PSum.ofRat g.dT) gs (impulseN js) ks
          (st, "ok " ++ showPSums outs)
        else
          let T := PSum.turns; let E := PSum.rad
          let outs :=
            if fwd then (allIdx (gs.map (·.Mo))).map fun ks => fastForwardN T E gs (impulseN js) ks
            else (allIdx (gs.map (·.N))).map fun ks => fastBackwardN T E gs (impulseN js) ks
          (st, "ok " ++ showPSums outs)
    | _, _, _, _, _, _, _, _, _ => (st, "bad-op")
  | ["impnw", cfg, Ns, Ms, Mos, ds, zs, dTs, ss, ws, rels, js] =>
    match parseNatList? Ns, parseNatList? Ms, parseNatList? Mos, parseRatList? ds, parseRatList? zs,
      parseRatList? dTs, parseRatList? ss, parseRatList? ws, parseRatList? rels, parseNatList? js with
    | some Ns, some Ms, some Mos, some ds, some zs, some dTs, some ss, some ws, some rels, some js =>
      if cfg != "std" && cfg != "emu" then (st, "bad-op") else
      match zipCfg (cfg == "emu") Ns Ms Mos ds zs dTs ss ws with
      | none => (st, "bad-op")
      | some gs =>
        if js.length != gs.length then (st, "bad-op") else
        if gs.any (fun g => g.M = 0 || g.N > g.M || g.Mo > g.M) || rels.length != prodList Ns then
          (st, "err value") else
        let rel : List Nat → PSum := fun idx => PSum.ofRat (rels.getD (flatIdx Ns idx) 0)
        let outs := (allIdx (gs.map (·.Mo))).map fun ks =>
          fastForwardNW PSum.turns PSum.rad gs rel (impulseN js) ks
        (st, "ok " ++ showPSums outs)
    | _, _, _, _, _, _, _, _, _, _ => (st, "bad-op")
  | ["nft", dir, path, xss, uss, ws, j] =>
    match parseRatLists? xss, parseRatLists? uss, parseRatList? ws, parseNat? j with
    | some xs, some us, some w, some j =>
      if (dir != "fwd" && dir != "bwd") || (path != "mat" && path != "fly") then (st, "bad-op") else
      let n := (xs.headD []).length
      let m := (us.headD []).length
      let fwd := dir == "fwd"
      if xs.isEmpty || xs.length != us.length || xs.any (·.length != n) || us.any (·.length != m) ||
          w.length != (if fwd then n else m) || j ≥ (if fwd then n else m) then (st, "err value") else
      (st, "ok " ++ showPSums (nftImpulse fwd (path == "mat") xs us w j))
    | _, _, _, _ => (st, "bad-op")
  | ["mux", dir, path, xss, uss, ws, tss, t, j] =>
    match parseRatLists? xss, parseRatLists? uss, parseRatList? ws, parseNatList? tss, parseNat? t, parseNat? j with
    | some xs, some us, some w, some ts, some t, some j =>
      if (dir != "fwd" && dir != "bwd") || (path != "mat" && path != "fly") then (st, "bad-op") else
      let n := (xs.headD []).length
      let m := (us.headD []).length
      let fwd := dir == "fwd"
      if xs.isEmpty || xs.length != us.length || xs.any (·.length != n) || us.any (·.length != m) || n = 0 || m = 0 ||
          w.length != (if fwd then n else m) || j ≥ (if fwd then n else m) || t ≥ tensorSize ts then (st, "err value") else
      (st, "ok " ++ showPSums (multiplexNftImpulse fwd (path == "mat") xs us w ts t j))
    | _, _, _, _, _, _ => (st, "bad-op")
  | ["mftstate", pre, alloc, ndim, dss] =>
    match parseBool? pre, parseBool? alloc, parseNat? ndim, parseNatList? dss with
    | some pre, some alloc, some ndim, some ds =>
      if (ndim != 1 && ndim != 2) || ds.any (· > 1) then (st, "err value") else
      let ps : List Prec := ds.map fun d => if d == 0 then Prec.single else Prec.double
      (st, "ok " ++ " ".intercalate (mftTrace ⟨pre, alloc, ndim⟩ ps))
    | _, _, _, _ => (st, "bad-op")
  | ["load", sh, N, M, bufs, fs] =>
    match parseBool? sh, parseNat? N, parseNat? M, parseRatList? bufs, parseRatList? fs with
    | some sh, some N, some M, some buf, some f =>
      if M = 0 || N > M || buf.length != M || f.length != N then (st, "err value") else
      let a : Nat → Rat := loadArray N M (fun p => buf.getD p 0) (fun j => f.getD j 0)
      let a' : Nat → Rat := if sh then ifftshift M a else a
      (st, "ok " ++ showRatList ((List.range M).map a'))
    | _, _, _, _, _ => (st, "bad-op")
  | ["multi", cfgs, calls, g] => (st, multiOp false cfgs calls g)
  | ["multipool", cfgs, calls, g] => (st, multiOp true cfgs calls g)
  | ["decide", "shift", ss] =>
    match parseRatList? ss with
    | some s => (st, s!"ok {showBool (shiftNeeded s)} {showBool (shiftNeededOld s)}")
    | none => (st, "bad-op")
  | ["decide", "cutout", Ms, Ns] =>
    match parseNatList? Ms, parseNatList? Ns with
    | some M, some N =>
      if M.length != N.length then (st, "err value") else
      (st, s!"ok {showBool (cutoutNeeded M N)} {showBool (cutoutNeededOld M N)}")
    | _, _ => (st, "bad-op")
  | ["corestate", sh, N, M, Mo, bufs, j] =>
    match parseBool? sh, parseNat? N, parseNat? M, parseNat? Mo, parseRatList? bufs, parseNat? j with
    | some sh, some N, some M, some Mo, some buf, some j =>
      if M = 0 || N > M || Mo > M || buf.length != M || j ≥ N then (st, "err value") else
      let ker : Int → PSum := fun n => PSum.turns (-((n : Rat) / (M : Rat)))
      let outs := (List.range Mo).map fun k =>
        coreState sh N M Mo ker (fun p => PSum.ofRat (buf.getD p 0)) (PSum.impulse j) k
      (st, "ok " ++ showPSums outs)
    | _, _, _, _, _, _ => (st, "bad-op")
  | ["mft", dir, xs, ys, us, vs, ws, j] =>
    match parseRatList? xs, parseRatList? ys, parseRatList? us, parseRatList? vs, parseRatList? ws,
      parseNat? j with
    | some x, some y, some u, some v, some w, some j =>
      let fwd := dir == "fwd" || dir == "sumfwd"
      let nsrc := if fwd then y.length * x.length else v.length * u.length
      if (w.length != 1 && w.length != nsrc) || j ≥ nsrc then (st, "err value") else
      match dir with
      | "fwd" => (st, "ok " ++ showPSums (mftForwardImpulse x y u v w j))
      | "bwd" => (st, "ok " ++ showPSums (mftBackwardImpulse x y u v w j))
      | "sumfwd" => (st, "ok " ++ showPSums (mftSumForwardImpulse x y u v w j))
      | "sumbwd" => (st, "ok " ++ showPSums (mftSumBackwardImpulse x y u v w j))
      | _ => (st, "bad-op")
    | _, _, _, _, _, _ => (st, "bad-op")
  | ["mft1", dir, xs, us, ws, j] =>
    match parseRatList? xs, parseRatList? us, parseRatList? ws, parseNat? j with
    | some x, some u, some w, some j =>
      let nsrc := if dir == "fwd" then x.length else u.length
      if (w.length != 1 && w.length != nsrc) || j ≥ nsrc then (st, "err value") else
      match dir with
      | "fwd" => (st, "ok " ++ showPSums (mftForward1Impulse x u w j))
      | "bwd" => (st, "ok " ++ showPSums (mftBackward1Impulse x u w j))
      | _ => (st, "bad-op")
    | _, _, _, _ => (st, "bad-op")
  | "czt" :: args => (st, cztOp false args)
  | "cztsum" :: args => (st, cztOp true args)
  | ["cztparts", n, m, om, al] =>
    match parseNat? n, parseNat? m, parseRat? om, parseRat? al with
    | some n, some m, some om, some al =>
      if n = 0 then (st, "err value") else
      let awk2 := (List.range n).map fun i => cztAwk2 PSum.rad om al i
      let wk2 := (List.range m).map fun i => cztWk2 PSum.rad om i
      let ker := (List.range (n + m - 1)).map fun r =>
        cztKernel n m (fun i => (cztWk2 PSum.rad om i)⁻¹) r
      (st, "ok " ++ showPSums awk2 ++ " | " ++ showPSums wk2 ++ " | " ++ showPSums ker)
    | _, _, _, _ => (st, "bad-op")
  | "zoomn" :: args => (st, zoomOp false args)
  | "zoomsum" :: args => (st, zoomOp true args)
  | ["zoomchirp", dir, x0, d, u0, D] =>
    match parseRat? x0, parseRat? d, parseRat? u0, parseRat? D with
    | some x0, some d, some u0, some D =>
      if dir == "fwd" then
        let p := zoomChirp d u0 D
        (st, s!"ok {showPSumFull (PSum.rad p.1)} {showPSumFull (PSum.rad p.2)}")
      else if dir == "bwd" then
        let p := zoomChirpInv x0 d D
        let E' : Rat → PSum := fun r => PSum.rad (-r)
        (st, s!"ok {showPSumFull (E' p.1)} {showPSumFull (E' p.2)}")
      else (st, "bad-op")
    | _, _, _, _ => (st, "bad-op")
  | ["zoomaxes", r, ndim] =>
    match parseNat? r, parseNat? ndim with
    | some r, some ndim =>
      let (hits, fin) := zoomLoop r ndim
      (st, s!"ok {showAxes hits} {showAxes fin} {showAxes (initLayout r ndim)}")
    | _, _ => (st, "bad-op")
  | ["selectx", kind, cart, ndim, "none", cheaper] =>
    match parseKind? kind, parseBool? cart, parseNat? ndim, parseBool? cheaper with
    | some kind, some cart, some ndim, some cheaper =>
      match makeFT detectFix ⟨kind, cart, ndim⟩ none cheaper with
      | .ok c =>
        let g := ctorGrid ⟨kind, cart, ndim⟩ none c
        (st, s!"ok {showMethod c.method} {showVia c.via} {showKind g.kind} {showBool g.cartesian} {g.ndim}")
      | .error e => (st, "err " ++ e)
    | _, _, _, _ => (st, "bad-op")
  | ["selectx", kind, cart, ndim, okind, ocart, ondim, numFft, cheaper] =>
    match parseKind? kind, parseBool? cart, parseNat? ndim, parseKind? okind, parseBool? ocart,
      parseNat? ondim, parseBool? numFft, parseBool? cheaper with
    | some kind, some cart, some ndim, some okind, some ocart, some ondim, some numFft, some cheaper =>
      let i : GridDesc := ⟨kind, cart, ndim⟩
      let o : Option OutReq := some ⟨⟨okind, ocart, ondim⟩, numFft⟩
      match makeFT detectFix i o cheaper with
      | .ok c =>
        let g := ctorGrid i o c
        (st, s!"ok {showMethod c.method} {showVia c.via} {showKind g.kind} {showBool g.cartesian} {g.ndim}")
      | .error e => (st, "err " ++ e)
    | _, _, _, _, _, _, _, _ => (st, "bad-op")
  | ["plan", ns, ds, zs, qs, fs, ss] =>
    match parseNatList? ns, parseRatList? ds, parseRatList? zs, parseRatList? qs,
      parseRatList? fs, parseRatList? ss with
    | some ns, some ds, some zs, some qs, some fs, some ss =>
      match zip6 ns ds zs qs fs ss with
      | none => (st, "bad-op")
      | some axes =>
        if axes.any (fun a => a.N = 0 || a.delta = 0) then (st, "err value") else
        let ps := axes.map plan
        let Ns := ps.map (·.N); let Ms := ps.map (·.M); let Mos := ps.map (·.Mo)
        let w := ps.foldl (fun acc p => acc * p.delta) 1
        let out := s!"ok M={showNatList Ms} Mo={showNatList Mos} dT={showRatList (ps.map (·.dT))} " ++
          s!"zeroT={showRatList (ps.map (·.zeroT))} cutin={showCut (cutouts Ns Ms)} " ++
          s!"cutout={showCut (cutouts Mos Ms)} w={showRat w} " ++
          s!"slackq={showRatList (axes.map fun a => roundSlack (a.q * a.N))} " ++
          s!"slackfov={showRatList ((axes.zip ps).map fun (a, p) => outSlack p.M a.fov)}"
        (st, out)
    | _, _, _, _, _, _ => (st, "bad-op")
  | ["cons", N, M, Mo, d, dT] =>
    match parseNat? N, parseNat? M, parseNat? Mo, parseRat? d, parseRat? dT with
    | some N, some M, some Mo, some d, some dT =>
      (st, "ok " ++ showBool (decide (FftConsistent N M Mo d dT)))
    | _, _, _, _, _ => (st, "bad-op")
  | "imp" :: dir :: cfg :: args =>
    match parseCfg dir cfg args with
    | none => (st, "bad-op")
    | some (fwd, g, j) =>
      if g.M = 0 || g.N > g.M || g.Mo > g.M then (st, "err value") else
      let outs :=
        if fwd then (List.range g.Mo).map fun k => fastForward PSum.turns PSum.rad g (PSum.impulse j) k
        else (List.range g.N).map fun k => fastBackward PSum.turns PSum.rad g (PSum.impulse j) k
      (st, "ok " ++ ";".intercalate (outs.map showPSum))
  | "sum" :: dir :: cfg :: args =>
    match parseCfg dir cfg args with
    | none => (st, "bad-op")
    | some (fwd, g, j) =>
      let outs :=
        if fwd then (List.range g.Mo).map fun k => sumForward PSum.turns PSum.rad g (PSum.impulse j) k
        else (List.range g.N).map fun k =>
          sumBackward PSum.turns PSum.rad g (PSum.ofRat g.dT) (PSum.impulse j) k
      (st, "ok " ++ ";".intercalate (outs.map showPSum))
  | ["select", kind, cart, ndim, out, cheaper] =>
    match parseKind? kind, parseBool? cart, parseNat? ndim, parseBool? cheaper with
    | some kind, some cart, some ndim, some cheaper =>
      match parseOutReq? ndim out with
      | none => (st, "bad-op")
      | some o =>
        match makeFT detectFix ⟨kind, cart, ndim⟩ o cheaper with
        | .ok c => (st, "ok " ++ showMethod c.method)
        | .error e => (st, "err " ++ e)
    | _, _, _, _ => (st, "bad-op")
  | ["reproduce", N, d, Mo, dT, zT, s, z] =>
    match parseNat? N, parseRat? d, parseNat? Mo, parseRat? dT, parseRat? zT, parseRat? s, parseRat? z with
    | some N, some d, some Mo, some dT, some zT, some s, some z =>
      let a : InAxis := ⟨N, d⟩
      let o : OutAxis := ⟨Mo, dT, zT, s⟩
      match getFftParameters a o with
      | none => (st, "err value")
      | some p =>
        let pl := plan (p.toAxisIn a z)
        let good := decide (AxisReproduced a z o p ∧ FftValuePre (p.toAxisIn a z))
        (st, s!"ok {showBool good} {pl.Mo} {showRat pl.dT} {showRat (pl.zeroT + p.shiftT)} {showRat pl.shift}")
    | _, _, _, _, _, _, _ => (st, "bad-op")
  | ["fftparams", N, d, Mo, dT, zT, s] =>
    match parseNat? N, parseRat? d, parseNat? Mo, parseRat? dT, parseRat? zT, parseRat? s with
    | some N, some d, some Mo, some dT, some zT, some s =>
      match getFftParameters ⟨N, d⟩ ⟨Mo, dT, zT, s⟩ with
      | none => (st, "err value")
      | some p => (st, s!"ok {showRat p.q} {showRat p.fov} {showRat p.shiftT} {showRat p.s}")
    | _, _, _, _, _, _ => (st, "bad-op")
  | _ => (st, "bad-op")

end HcipyVerif.Driver.C01
