import HcipyVerif.Model.Proto
import HcipyVerif.Model.Jones

/-!
Line-protocol front end of the C08 model (`Model/Jones.lean` run at exact rationals).

```
C08 stokes  [xr,xi,yr,yi,zr,zi,wr,wi] [a,b,c,d]   -> ok [I,Q,U,V]      Stokes(J C(S) Jᴴ)
C08 mueller [xr,…,wi]                             -> ok [m11,m12,…,m44] Re(U (J⊗J̄) Uᴴ), row-major
C08 mroute  [xr,…,wi] [a,b,c,d]                   -> ok [I,Q,U,V]      mueller · S
C08 vstokes [pr,pi,qr,qi]                         -> ok [I,Q,U,V]
C08 sstokes [er,ei]                               -> ok [I,Q,U,V]
C08 apply   [J…] [pr,pi,qr,qi]                    -> ok [pr',pi',qr',qi']           J·E
C08 mul     [J…] [E…]                             -> ok [8 numbers]                 J·E (matrices)
C08 applyadj [J…] [pr,pi,qr,qi]                   -> ok [4 numbers]                 Jᴴ·E (backward)
C08 adj     [J…]                                  -> ok [8 numbers]                 Jᴴ
C08 retarder c s pc ps xc xs                      -> ok [8 numbers]  PhaseRetarder Jones matrix
C08 polarizer c s                                 -> ok [8 numbers]
C08 hwp c s | qwp c s h                           -> ok [8 numbers]  HalfWavePlate / QuarterWavePlate (h = √½) Jones matrix
C08 elmueller retarder c s pc ps xc xs | polarizer c s -> ok [16 numbers]  Mueller matrix (`muellerDef`) of the executed element matrix
C08 ports tensor c s cq sq pc ps xc xs [E…] [a,b,c,d] -> ok [I1,Q1,U1,V1,I2,Q2,U2,V2,I,Q,U,V]  Stokes vectors of the two ports
                                                     P(θ)·R·E, P(θ+π/2)·R·E (R = retarder cq sq p x) and of the input
C08 ports vector c s cq sq pc ps xc xs [E…]           -> ok [12 numbers]
C08 degrees tensor [J…] [a,b,c,d] | vector [E…] | scalar [er,ei]
                                                  -> ok [dop², dolp², Q/I, U/I, V/I] | err zero-intensity
```
-/
namespace HcipyVerif.Driver.C08
open HcipyVerif.Proto HcipyVerif.Jones

structure St where
  dummy : Unit := ()

def j2? : List Rat → Option (J2 Rat)
  | [a, b, c, d, e, f, g, h] => some ⟨⟨a, b⟩, ⟨c, d⟩, ⟨e, f⟩, ⟨g, h⟩⟩
  | _ => none

def s4? : List Rat → Option (S4 Rat)
  | [a, b, c, d] => some ⟨a, b, c, d⟩
  | _ => none

def v2? : List Rat → Option (V2 Rat)
  | [a, b, c, d] => some ⟨⟨a, b⟩, ⟨c, d⟩⟩
  | _ => none

def showS4 (s : S4 Rat) : String := showRatList [s.i, s.q, s.u, s.v]
def showJ2 (j : J2 Rat) : String :=
  showRatList [j.a11.re, j.a11.im, j.a12.re, j.a12.im, j.a21.re, j.a21.im, j.a22.re, j.a22.im]
def showV2 (e : V2 Rat) : String := showRatList [e.x.re, e.x.im, e.y.re, e.y.im]

def showDegrees (s : S4 Rat) : String :=
  if s.i = 0 then "err zero-intensity" else "ok " ++ showRatList [s.dopSq, s.dolpSq, s.qn, s.un, s.vn]

def step (st : St) : List String → St × String
  | ["ports", kind, c, s, cq, sq, pc, ps, xc, xs, e, sv] =>
    match parseRat? c, parseRat? s, parseRat? cq, parseRat? sq, parseRat? pc, parseRat? ps, parseRat? xc, parseRat? xs with
    | some c, some s, some cq, some sq, some pc, some ps, some xc, some xs =>
      let r := retarder cq sq ⟨pc, ps⟩ ⟨xc, xs⟩
      match kind, (parseRatList? e).bind j2?, (parseRatList? sv).bind s4?, (parseRatList? e).bind v2? with
      | "tensor", some e, some sv, _ =>
        let pq := splitterPorts c s r e
        let a := jonesStokes pq.1 sv; let b := jonesStokes pq.2 sv; let i := jonesStokes e sv
        (st, "ok " ++ showRatList [a.i, a.q, a.u, a.v, b.i, b.q, b.u, b.v, i.i, i.q, i.u, i.v])
      | "vector", _, _, some e =>
        let pq := splitterPortsV c s r e
        let a := vecStokes pq.1; let b := vecStokes pq.2; let i := vecStokes e
        (st, "ok " ++ showRatList [a.i, a.q, a.u, a.v, b.i, b.q, b.u, b.v, i.i, i.q, i.u, i.v])
      | _, _, _, _ => (st, "bad-op")
    | _, _, _, _, _, _, _, _ => (st, "bad-op")
  | ["degrees", "tensor", j, s] =>
    match (parseRatList? j).bind j2?, (parseRatList? s).bind s4? with
    | some j, some s => (st, showDegrees (jonesStokes j s))
    | _, _ => (st, "bad-op")
  | ["degrees", "vector", e] =>
    match (parseRatList? e).bind v2? with
    | some e => (st, showDegrees (vecStokes e))
    | _ => (st, "bad-op")
  | ["degrees", "scalar", e] =>
    match parseRatList? e with
    | some [a, b] => (st, showDegrees (scalarStokes ⟨a, b⟩))
    | _ => (st, "bad-op")
  | ["stokes", j, s] =>
    match (parseRatList? j).bind j2?, (parseRatList? s).bind s4? with
    | some j, some s => (st, "ok " ++ showS4 (jonesStokes j s))
    | _, _ => (st, "bad-op")
  | ["mueller", j] =>
    match (parseRatList? j).bind j2? with
    | some j => (st, "ok " ++ showRatList ((List.range 16).map fun n => muellerDef j (n / 4) (n % 4)))
    | _ => (st, "bad-op")
  | ["mroute", j, s] =>
    match (parseRatList? j).bind j2?, (parseRatList? s).bind s4? with
    | some j, some s => (st, "ok " ++ showS4 (mulVec (muellerDef j) s))
    | _, _ => (st, "bad-op")
  | ["vstokes", e] =>
    match (parseRatList? e).bind v2? with
    | some e => (st, "ok " ++ showS4 (vecStokes e))
    | _ => (st, "bad-op")
  | ["sstokes", e] =>
    match parseRatList? e with
    | some [a, b] => (st, "ok " ++ showS4 (scalarStokes ⟨a, b⟩))
    | _ => (st, "bad-op")
  | ["apply", j, e] =>
    match (parseRatList? j).bind j2?, (parseRatList? e).bind v2? with
    | some j, some e => (st, "ok " ++ showV2 (j.apply e))
    | _, _ => (st, "bad-op")
  | ["mul", j, e] =>
    match (parseRatList? j).bind j2?, (parseRatList? e).bind j2? with
    | some j, some e => (st, "ok " ++ showJ2 (j * e))
    | _, _ => (st, "bad-op")
  | ["applyadj", j, e] =>
    match (parseRatList? j).bind j2?, (parseRatList? e).bind v2? with
    | some j, some e => (st, "ok " ++ showV2 (j.adj.apply e))
    | _, _ => (st, "bad-op")
  | ["adj", j] =>
    match (parseRatList? j).bind j2? with
    | some j => (st, "ok " ++ showJ2 j.adj)
    | _ => (st, "bad-op")
  | ["retarder", c, s, pc, ps, xc, xs] =>
    match parseRat? c, parseRat? s, parseRat? pc, parseRat? ps, parseRat? xc, parseRat? xs with
    | some c, some s, some pc, some ps, some xc, some xs =>
      (st, "ok " ++ showJ2 (retarder c s ⟨pc, ps⟩ ⟨xc, xs⟩))
    | _, _, _, _, _, _ => (st, "bad-op")
  | ["elmueller", "retarder", c, s, pc, ps, xc, xs] =>
    match parseRat? c, parseRat? s, parseRat? pc, parseRat? ps, parseRat? xc, parseRat? xs with
    | some c, some s, some pc, some ps, some xc, some xs =>
      (st, "ok " ++ showRatList ((List.range 16).map fun n => muellerDef (retarder c s ⟨pc, ps⟩ ⟨xc, xs⟩) (n / 4) (n % 4)))
    | _, _, _, _, _, _ => (st, "bad-op")
  | ["elmueller", "polarizer", c, s] =>
    match parseRat? c, parseRat? s with
    | some c, some s => (st, "ok " ++ showRatList ((List.range 16).map fun n => muellerDef (polarizer c s) (n / 4) (n % 4)))
    | _, _ => (st, "bad-op")
  | ["hwp", c, s] =>
    match parseRat? c, parseRat? s with
    | some c, some s => (st, "ok " ++ showJ2 (halfWavePlate c s))
    | _, _ => (st, "bad-op")
  | ["qwp", c, s, h] =>
    match parseRat? c, parseRat? s, parseRat? h with
    | some c, some s, some h => (st, "ok " ++ showJ2 (quarterWavePlate c s h))
    | _, _, _ => (st, "bad-op")
  | ["polarizer", c, s] =>
    match parseRat? c, parseRat? s with
    | some c, some s => (st, "ok " ++ showJ2 (polarizer c s))
    | _, _ => (st, "bad-op")
  | _ => (st, "bad-op")

end HcipyVerif.Driver.C08
