import HcipyVerif.Model.Proto
import HcipyVerif.Model.FieldProg
import HcipyVerif.Model.FourierSwitch
import HcipyVerif.Model.FourierConfig
import HcipyVerif.Driver.C19Ref
import HcipyVerif.Gen.FieldDispatch

/-!
Line-protocol front end of the C19 model.

```
C19 reset
C19 grid <id> <shape | ->            grid.shape of grid <id> ("-": not separated)
C19 run <statement tokens …>          runs the program under BOTH routes from empty stores
```
Programs are token streams; expressions are in postfix form.

```
statement := "=.<x>" expr ";" | "al.<h>.<x>" ";" | "i.<op>.<x>" expr ";"
           | "set.<ix>.<x>" expr ";" | "setm.<x>" expr(mask) "," expr ";"
           | "iset.<op>.<ix>.<x>" expr ";" | "isetm.<op>.<x>" expr(mask) "," expr ";"
           | "out.<op>.<x>" expr "," expr ";" | "sreal.<x>" expr ";" | "simag.<x>" expr ";"
           | "fill.<x>" expr ";" | "sortip.<x>" ";"
ix        := at0.<i> | atl.<i> | sl.<a>.<b>.<c> | psl.<a|n>.<b|n>.<c> | tk.[i,j,…]
expr tok  := "v<x>" | "L:<shape>:<k>:<re>[:<im>]" | "S:<k>:<re>[:<im>]" | "F:<g>:<shape>:<k>:<re>[:<im>]"
           | add sub mul div max min gt lt | neg pos abs sq conj re im
           | "<red>.<axis>" (sum mean max min . all last first)
           | ge le eq ne and or | not | "<ix>" | mask | shaped | "rs.<shape>" | ravel | copy | pickle
           | "rk.<red>.<axis>" (keepdims) | "cs.<axis>" | "cp.<axis>" | sort | argsort | "amax.<axis>" | "amin.<axis>"
           | "as.<k>" | ftrace | fdot | mm1 | where | clip        (red also: prod any all; k also: i)
```
C19 select <cpu> <mkl:0|1> <fftw:0|1> <m1,m2,…|-> <threads|-> <big:0|1> <dtype> <failing m.t>*
      `_make_func`: answer `ok sel=<m>.<t>|E:<err> calls=<m.t,…|-> warns=<n> prec=<p|-> workers=<n|-> std=<0|1>`
C19 mft <pre:0|1> <alloc:0|1> <call>*      call := <f|b>.<64|128>; one MFT object, provenance kernels
      answer `ok <state>/<result> …` per call, state = m<64|128|->i<64|128|->k<0|1> (k: `keyedB`), result = fresh | stale
C19 nft <pre:0|1> <call>*                  answer `ok f<0|1>b<0|1>/<fresh|stale> …`
C19 mftk <pre:0|1> <alloc:0|1> [x…] [y…] [u…] [v…] [w…] [wout…] <call>*     call := <f|b>.<64|128>.<j>
      one MFT object over the *concrete* kernel `FourierConfig.mftKern` (C01's matrices and the two gemm stages, values = formal
      phase sums), reused over the script of unit impulses at flat index j; answer `ok <r0> | <r1> | …`, r = `;`-separated samples,
      each a `+`-separated list of terms `c:t:r` (= c·exp(2πi·t)·exp(i·r))
C19 dispatch                                the regenerated dispatch table `Gen/FieldDispatch.lean` against the wrapping policies:
      answer `ok <entries> <attributes> <entries not handled as predicted|-> <attributes missing on the wrapper|-> <elementwise entries> <of those keeping the grid> <old>/<new> per entry`
C19 ref <good|badslice|badarray> <op>*      the reference model `Model/FieldRef.lean` (buffers, windows, grid objects), see Driver/C19Ref.lean
```
Answer of `run`: `ok O <obs>* | N <obs>* | DO <obs>* | DN <obs>* | A <0|1> <i|->` — the per-statement
observations of the subclass route and of the wrapper route, then the final read-out of every variable under
each, then `agree?` (the hypothesis of `backends_same_values`) and the index of the first statement in which
a `.shaped` is applied to objects the two routes tag differently.
`obs := <x>=<tag>:<shape>:<k>:<re>[:<im>] | <x>=E:<err>`, tag `f<g>` / `p` / `s`.
-/
namespace HcipyVerif.Driver.C19
open HcipyVerif.Proto HcipyVerif.FieldProg

structure St where
  grids : Grids := []

def parseKind? : String → Option Kind
  | "r" => some .real | "c" => some .cplx | "b" => some .bool | "i" => some .int | _ => none

def showKind : Kind → String
  | .real => "r" | .cplx => "c" | .bool => "b" | .int => "i"

def mkData (re : List Rat) (im : List Rat) : List Cx :=
  if im.isEmpty then re.map fun r => ⟨r, 0⟩ else List.zipWith (fun r i => ⟨r, i⟩) re im

/-- `<shape>:<k>:<re>[:<im>]` -/
def parseArr? : List String → Option Arr
  | [sh, k, re] => do
    let sh ← parseNatList? sh; let k ← parseKind? k; let re ← parseRatList? re
    if k == .cplx then none else
    if re.length != Prim.prod sh then none else pure ⟨sh, k, mkData re []⟩
  | [sh, k, re, im] => do
    let sh ← parseNatList? sh; let k ← parseKind? k; let re ← parseRatList? re; let im ← parseRatList? im
    if k != .cplx then none else
    if re.length != Prim.prod sh || im.length != re.length then none else pure ⟨sh, k, mkData re im⟩
  | _ => none

def parseBin? : String → Option BinOp
  | "add" => some .add | "sub" => some .sub | "mul" => some .mul | "div" => some .div
  | "max" => some .max | "min" => some .min | "gt" => some .gt | "lt" => some .lt
  | "ge" => some .ge | "le" => some .le | "eq" => some .eq | "ne" => some .ne
  | "and" => some .and | "or" => some .or | _ => none

def parseUn? : String → Option UnOp
  | "neg" => some .neg | "pos" => some .pos | "abs" => some .abs | "sq" => some .sq
  | "conj" => some .conj | "re" => some .re | "im" => some .im | "not" => some .not | _ => none

def parseRed? : String → Option RedOp
  | "sum" => some .sum | "mean" => some .mean | "max" => some .max | "min" => some .min
  | "prod" => some .prod | "any" => some .any | "all" => some .all | _ => none

def parseAxis? : String → Option Axis
  | "all" => some .all | "last" => some .last | "first" => some .first | _ => none

def parseIx? : List String → Option Ix
  | ["at0", i] => (parseInt? i).map .at0
  | ["atl", i] => (parseInt? i).map .atLast
  | ["sl", a, b, c] => do pure (.slice (← parseNat? a) (← parseNat? b) (← parseNat? c))
  | ["psl", a, b, c] => do
    let a ← if a == "n" then some none else (parseInt? a).map some
    let b ← if b == "n" then some none else (parseInt? b).map some
    pure (.pyslice a b (← parseInt? c))
  | ["tk", l] => (parseIntList? l).map .takeLast
  | _ => none

def parseFn1? : List String → Option Prim.Fn1
  | ["rk", r, ax] => do pure (.redKeep (← parseRed? r) (← parseAxis? ax))
  | ["cs", ax] => (parseAxis? ax).map .cumsum
  | ["cp", ax] => (parseAxis? ax).map .cumprod
  | ["sort"] => some .sortLast
  | ["argsort"] => some .argsortLast
  | ["amax", ax] => (parseAxis? ax).map .argmax
  | ["amin", ax] => (parseAxis? ax).map .argmin
  | ["as", k] => (parseKind? k).map .astype
  | ["ftrace"] => some .fieldTrace
  | _ => none

/-- one postfix token applied to the expression stack (top = head) -/
def pushTok (stack : List Expr) (tok : String) : Option (List Expr) :=
  if tok.startsWith "v" then
    (parseNat? (tok.drop 1).toString).map fun x => .var x :: stack
  else if tok.startsWith "L:" then
    (parseArr? ((tok.drop 2).toString.splitOn ":")).map fun a => .lit a :: stack
  else if tok.startsWith "F:" then
    match (tok.drop 2).toString.splitOn ":" with
    | g :: rest => do
      let g ← parseNat? g; let a ← parseArr? rest
      pure (.field a g :: stack)
    | _ => none
  else if tok.startsWith "S:" then
    match (tok.drop 2).toString.splitOn ":" with
    | ["r", re] => (parseRat? re).map fun r => .scal ⟨r, 0⟩ .real :: stack
    | ["c", re, im] => do
      let r ← parseRat? re; let i ← parseRat? im
      pure (.scal ⟨r, i⟩ .cplx :: stack)
    | _ => none
  else
    match parseBin? tok, stack with
    | some op, r :: l :: rest => some (.bin op l r :: rest)
    | some _, _ => none
    | none, _ =>
    match parseUn? tok, stack with
    | some u, e :: rest => some (.un u e :: rest)
    | some _, _ => none
    | none, _ =>
    match parseFn1? (tok.splitOn "."), stack with
    | some f, e :: rest => some (.app1 f e :: rest)
    | some _, _ => none
    | none, _ =>
    match tok, stack with
    | "fdot", b :: a :: rest => some (.app2 .fieldDot a b :: rest)
    | "mm1", b :: a :: rest => some (.app2 .matmul1d a b :: rest)
    | "where", c :: b :: a :: rest => some (.app3 .where_ a b c :: rest)
    | "clip", c :: b :: a :: rest => some (.app3 .clip a b c :: rest)
    | "mask", m :: e :: rest => some (.mask e m :: rest)
    | "shaped", e :: rest => some (.shaped e :: rest)
    | "ravel", e :: rest => some (.ravel e :: rest)
    | "copy", e :: rest => some (.copy e :: rest)
    | "pickle", e :: rest => some (.pickle e :: rest)
    | _, _ =>
    match parseIx? (tok.splitOn "."), tok.splitOn ".", stack with
    | some i, _, e :: rest => some (.idx i e :: rest)
    | none, [r, ax], e :: rest =>
      if r == "rs" then (parseNatList? ax).map fun s => .reshape s e :: rest
      else do
        let r ← parseRed? r; let ax ← parseAxis? ax
        pure (.red r ax e :: rest)
    | _, _, _ => none

def parseExpr? (toks : List String) : Option Expr :=
  match toks.foldlM pushTok [] with
  | some [e] => some e
  | _ => none

def splitAt (sep : String) (toks : List String) : List String × List String :=
  (toks.takeWhile (· != sep), (toks.dropWhile (· != sep)).drop 1)

def parseStmt? (toks : List String) : Option Stmt :=
  match toks with
  | [] => none
  | hd :: body =>
    match hd.splitOn "." with
    | ["=", x] => do pure (.assign (← parseNat? x) (← parseExpr? body))
    | ["al", h, x] => if body.isEmpty then do pure (.alias (← parseNat? h) (← parseNat? x)) else none
    | ["i", op, x] => do pure (.update (← parseNat? x) (.iop (← parseBin? op)) [← parseExpr? body])
    | ["setm", x] =>
      let (m, e) := splitAt "," body
      do pure (.update (← parseNat? x) .setMask [← parseExpr? m, ← parseExpr? e])
    | ["isetm", op, x] =>
      let (m, e) := splitAt "," body
      do pure (.update (← parseNat? x) (.iopMask (← parseBin? op)) [← parseExpr? m, ← parseExpr? e])
    | ["out", op, x] =>
      let (a, b) := splitAt "," body
      do pure (.update (← parseNat? x) (.out (← parseBin? op)) [← parseExpr? a, ← parseExpr? b])
    | ["sreal", x] => do pure (.update (← parseNat? x) .setReal [← parseExpr? body])
    | ["simag", x] => do pure (.update (← parseNat? x) .setImag [← parseExpr? body])
    | ["fill", x] => do pure (.update (← parseNat? x) .fill [← parseExpr? body])
    | ["sortip", x] => if body.isEmpty then do pure (.update (← parseNat? x) .sortLast []) else none
    | "set" :: rest =>
      match rest.reverse with
      | x :: ixr => do pure (.update (← parseNat? x) (.setIx (← parseIx? ixr.reverse)) [← parseExpr? body])
      | [] => none
    | "iset" :: op :: rest =>
      match rest.reverse with
      | x :: ixr => do pure (.update (← parseNat? x) (.iopIx (← parseIx? ixr.reverse) (← parseBin? op)) [← parseExpr? body])
      | [] => none
    | _ => none

/-- statements are terminated by ";" -/
def splitStmts (toks : List String) (fuel : Nat) : Option (List (List String)) :=
  match fuel with
  | 0 => if toks.isEmpty then some [] else none
  | fuel + 1 =>
    if toks.isEmpty then some [] else
    if !toks.contains ";" then none else
    let (s, rest) := splitAt ";" toks
    (splitStmts rest fuel).map (s :: ·)

def parseProg? (toks : List String) : Option (List Stmt) :=
  (splitStmts toks toks.length) >>= fun ss => ss.mapM parseStmt?

def showTag : Tag → String
  | .field g => s!"f{g}" | .plain => "p" | .scalar => "s"

def showErr : Err → String
  | .value => "value" | .type => "type" | .index => "index" | .attr => "attr" | .unsupported => "unsupported"

def showVal (v : Val) : String :=
  let a := v.1
  let base := s!"{showTag v.2}:{showNatList a.shape}:{showKind a.kind}:{showRatList (a.data.map (·.re))}"
  if a.kind == .cplx then base ++ ":" ++ showRatList (a.data.map (·.im)) else base

def showObs : Obs → String
  | .error e => s!"E:{showErr e}"
  | .ok (x, v) => s!"{x}={showVal v}"

def showDump (d : List (Nat × Except Err Val)) : String :=
  " ".intercalate (d.map fun (x, r) => match r with
    | .error e => s!"{x}=E:{showErr e}"
    | .ok v => s!"{x}={showVal v}")


/-! ## Fourier half -/
section Fourier
open HcipyVerif.FourierSwitch

def parseMethod (s : String) : Method :=
  match s with
  | "mkl" => .mkl | "fftw" => .fftw | "scipy" => .scipy | "numpy" => .numpy | _ => .other

def showMethod : Method → String
  | .mkl => "mkl" | .fftw => "fftw" | .scipy => "scipy" | .numpy => "numpy" | .other => "other"

def parseDtIn? : String → Option DtIn
  | "half" => some .half | "single" => some .single | "double" => some .double
  | "longdouble" => some .longdouble | "integer" => some .integer | _ => none

def showPrec : Prec → String
  | .single => "single" | .double => "double" | .longdouble => "longdouble"

def parseBit? : String → Option Bool
  | "0" => some false | "1" => some true | _ => none

/-- `m.t`: a known method name and a number of threads -/
def parseFail? (s : String) : Option (Method × Nat) :=
  match s.splitOn "." with
  | [m, t] => if parseMethod m == .other then none else (parseNat? t).map fun t => (parseMethod m, t)
  | _ => none

def showCall (p : Method × Nat) : String := s!"{showMethod p.1}.{p.2}"

def stepSelect : List String → Option String
  | cpu :: mkl :: fftw :: ms :: th :: big :: dt :: fails => do
    let cpu ← parseNat? cpu; let mkl ← parseBit? mkl; let fftw ← parseBit? fftw; let big ← parseBit? big
    let dt ← parseDtIn? dt
    let methods := if ms == "-" then [] else (ms.splitOn ",").map parseMethod
    let threads ← if th == "-" then some none else (parseNat? th).map some
    let fails ← fails.mapM parseFail?
    let avail : Method → Bool := fun m => match m with | .mkl => mkl | .fftw => fftw | _ => true
    let works : Method → Nat → Bool := fun m t => !fails.contains (m, t)
    let calls := selectCalls cpu avail works methods threads big
    let cs := if calls.isEmpty then "-" else ",".intercalate (calls.map showCall)
    let w := warnCount cpu avail works methods threads big
    match select cpu avail works methods threads big with
    | .ok (m, t) =>
      let wk := match workersArg m t with | some n => toString n | none => "-"
      pure s!"ok sel={showCall (m, t)} calls={cs} warns={w} prec={showPrec (outPrec m dt)} workers={wk} std={if dt.standard then 1 else 0}"
    | .error e =>
      let es := match e with | .value => "value" | .unbound => "unbound"
      pure s!"ok sel=E:{es} calls={cs} warns={w} prec=- workers=- std={if dt.standard then 1 else 0}"
  | _ => none

def parseCall? (i : Nat) (s : String) : Option (Dir × CPrec × (Nat × CPrec)) :=
  match s.splitOn "." with
  | [d, p] => do
    let d ← match d with | "f" => some Dir.fwd | "b" => some Dir.bwd | _ => none
    let p ← match p with | "64" => some CPrec.c64 | "128" => some CPrec.c128 | _ => none
    pure (d, p, (i, p))
  | _ => none

def parseScript? (toks : List String) : Option (List (Dir × CPrec × (Nat × CPrec))) :=
  (toks.zipIdx).mapM fun (s, i) => parseCall? i s

def showCP : Option CPrec → String
  | some .c64 => "64" | some .c128 => "128" | none => "-"

/-- run the script on one object, reporting the cache keys after every call and whether the result
is the one of a fresh switch-less object -/
def mftStates (pre alloc : Bool) : MftCache CPrec BufProv → List (Dir × CPrec × (Nat × CPrec)) → List String
  | _, [] => []
  | c, (d, p, x) :: rest =>
    let c' := (mftCall provKern pre alloc c d p x).2
    let k := if keyedB provKern c' then "k1" else "k0"
    s!"m{showCP (c'.mats.map (·.1))}i{showCP (c'.interm.map (·.1))}{k}" :: mftStates pre alloc c' rest

/-- results through `mftRun` (the object of `mft_switch_independent`), states through `mftCall`/`keyedB` -/
def mftTrace (pre alloc : Bool) (script : List (Dir × CPrec × (Nat × CPrec))) : List String :=
  let rs := mftRun provKern pre alloc script
  let fs := script.map fun s => mftFresh provKern s.1 s.2.1 s.2.2
  let flags := List.zipWith (fun r f => if r == f then "fresh" else "stale") rs fs
  List.zipWith (fun st fl => s!"{st}/{fl}") (mftStates pre alloc {} script) flags

def nftProv : NftKern Nat Dir (Dir × Nat × Option CPrec) where
  matrix d := d
  apply a x := (a, x, none)
  direct d x := (d, x, none)
  castTo p r := (r.1, r.2.1, some p)

def nftStates (pre : Bool) : NftCache Dir → List (Dir × CPrec × Nat) → List String
  | _, [] => []
  | c, (d, p, x) :: rest =>
    let c' := (nftCall nftProv pre c d p x).2
    s!"f{if c'.fwd.isSome then 1 else 0}b{if c'.bwd.isSome then 1 else 0}" :: nftStates pre c' rest

/-- results through `nftRunFrom` with the switch as given and with the switch off (the two sides of
`nft_switch_independent`) -/
def nftTrace (pre : Bool) (script : List (Dir × CPrec × (Nat × CPrec))) : List String :=
  let sc := script.map fun s => (s.1, s.2.1, s.2.2.1)
  let rs := (nftRunFrom nftProv pre {} sc).1
  let fs := (nftRunFrom nftProv false {} sc).1
  let flags := List.zipWith (fun r f => if r == f then "fresh" else "stale") rs fs
  List.zipWith (fun st fl => s!"{st}/{fl}") (nftStates pre {} sc) flags

/-! ### the switch model over the concrete kernel of C01's MatrixFourierTransform model -/
open HcipyVerif.Fft in
def showPTerm (x : Term) : String := s!"{showRat x.c}:{showRat x.t}:{showRat x.r}"

open HcipyVerif.Fft in
def showPS (p : PSum) : String :=
  match p.terms with
  | [] => "0"
  | ts => "+".intercalate (ts.map showPTerm)

def parseKCall? (s : String) : Option (Dir × CPrec × Nat) :=
  match s.splitOn "." with
  | [d, p, j] => do
    let d ← match d with | "f" => some Dir.fwd | "b" => some Dir.bwd | _ => none
    let p ← match p with | "64" => some CPrec.c64 | "128" => some CPrec.c128 | _ => none
    let j ← parseNat? j
    pure (d, p, j)
  | _ => none

open HcipyVerif.Fft HcipyVerif.FourierConfig in
/-- `mftRun` of the concrete kernel on a script of unit impulses; all output samples of every call -/
def mftkRun (pre alloc : Bool) (x y u v w wOut : List Rat) (script : List (Dir × CPrec × Nat)) : List (List PSum) :=
  let K := mftKern PSum.rad PSum.conj x.length y.length u.length v.length (coordOf x) (coordOf y) (coordOf u) (coordOf v)
    (Weights.ofRats w) (Weights.ofRats wOut)
  let rs := mftRun K pre alloc (script.map fun (d, p, j) => (d, p, PSum.impulse j))
  (rs.zip script).map fun (r, (d, _, _)) =>
    (List.range (match d with | .fwd => v.length * u.length | .bwd => y.length * x.length)).map r

def stepFourier : List String → Option String
  | "select" :: rest => stepSelect rest
  | "mftk" :: pre :: alloc :: x :: y :: u :: v :: w :: wo :: calls => do
    let pre ← parseBit? pre; let alloc ← parseBit? alloc
    let x ← parseRatList? x; let y ← parseRatList? y; let u ← parseRatList? u; let v ← parseRatList? v
    let w ← parseRatList? w; let wo ← parseRatList? wo
    let sc ← calls.mapM parseKCall?
    let rs := mftkRun pre alloc x y u v w wo sc
    pure ("ok " ++ " | ".intercalate (rs.map fun r => ";".intercalate (r.map showPS)))
  | "mft" :: pre :: alloc :: calls => do
    let pre ← parseBit? pre; let alloc ← parseBit? alloc; let sc ← parseScript? calls
    pure ("ok " ++ " ".intercalate (mftTrace pre alloc sc))
  | "nft" :: pre :: calls => do
    let pre ← parseBit? pre; let sc ← parseScript? calls
    pure ("ok " ++ " ".intercalate (nftTrace pre sc))
  | _ => none

end Fourier

def step (st : St) : List String → St × String
  | ["reset"] => ({}, "ok")
  | ["grid", id, sh] =>
    match parseNat? id with
    | none => (st, "bad-op")
    | some id =>
      if sh == "-" then ({ st with grids := (id, none) :: st.grids.filter (·.1 != id) }, "ok")
      else match parseNatList? sh with
        | some s => ({ st with grids := (id, some s) :: st.grids.filter (·.1 != id) }, "ok")
        | none => (st, "bad-op")
  | "run" :: toks =>
    match parseProg? toks with
    | none => (st, "bad-op")
    | some prog =>
      let (tro, fo) := runO st.grids {} prog
      let (trn, fn) := runN st.grids {} prog
      let so := " ".intercalate (tro.map showObs)
      let sn := " ".intercalate (trn.map showObs)
      let dOld := match fo with | some s => showDump s.dump | none => "-"
      let dNew := match fn with | some s => showDump s.dump | none => "-"
      let ag := if agree? st.grids prog then "1" else "0"
      let at_ := match disagreeAt st.grids prog with | some i => toString i | none => "-"
      (st, s!"ok O {so} | N {sn} | DO {dOld} | DN {dNew} | A {ag} {at_}")
  | ["dispatch"] => (st, HcipyVerif.FieldDispatch.report HcipyVerif.Gen.FieldDispatch.table HcipyVerif.Gen.FieldDispatch.attributes)
  | "ref" :: toks =>
    match HcipyVerif.Driver.C19Ref.stepRef toks with
    | some r => (st, r)
    | none => (st, "bad-op")
  | toks =>
    match stepFourier toks with
    | some r => (st, r)
    | none => (st, "bad-op")

end HcipyVerif.Driver.C19
