import HcipyVerif.Model.Proto
import HcipyVerif.Model.Serial

/-!
Line-protocol front end of the C16 model.

A dictionary tree travels as one token without spaces:

```
T := N | T | F | i<int> | f<rat> | s<name> | a<dtype>(<n>,…)[<rat>,…] | l[T,…] | d{<key>:T,…}
```

Requests (after the `C16` token):

* `dict coords|grid|field|basis <tree>` — `from_dict` then `to_dict`: `ok <tree>` or `err <kind>`
* `pickle field c|f <tree>` — `__getstate__`/`__setstate__` round trip for a C- or Fortran-ordered
  data array, answer as for `dict` (`pickle-bad`: the C-bytes-with-real-flag variant)
* `fits field new|old <tree>` — `write_field` then `read_field` through the FITS model:
  `ok w=<ok|kind> img=<tree|N> r=<ok|kind|-> out=<tree|->`
* `fits basis new|old <tree>` — the same for mode bases
* `ravel [shape] [index]`, `unravel [shape] k` — with NumPy's checks: `ok …` or `err value`
* `dict gridold <tree>` — `Grid.from_dict` with the unrepaired registry (D161)
* `getstate field c|f <tree>` — `Field.__getstate__()` for a C- or Fortran-ordered data array:
  `ok shape=[…] dtype=<dt> fortran=<T|F> raw=<arr>` (`raw` = the bytes decoded with the dtype)
* `todict-st grid|field|basis good|bad <tree>` — `to_dict` and the FITS writer as programs over the
  object (`toDictM`, `write…M`; `bad` = the variant reading the property `weights`):
  `ok before=<N|S> after=<N|S> tree=<tree|err> wafter=<N|S> w=<ok|kind>` where `N`/`S` say whether the
  grid's `_weights` is `None` or set
* `file grid asdf|fits new|old <tree>`, `file field|basis asdf new <tree>` — the grid-file / ASDF
  layer with `AsdfLib.observed`: `ok sc=<T|F|-> w=<ok|kind> file=<tree|-> r=<ok|kind|-> out=<tree|->`
* `guess <name>` — `_guess_file_format`: `ok asdf|fits|pickle|none`; `format <name> <fmt|->` — the format
  a reader / writer ends up with: `ok <format>` or `err value|notimpl`
* `filert grid|field|basis <c|f|-> <name> <fmt|-> <tree>` — `write_*(x, name, fmt)` then
  `read_*(name, fmt)` (`writeGridFile` … `readBasisFile`; layout for the pickle of a field):
  `ok w=<ok|kind> fam=<asdf|fits|pickle|-> r=<ok|kind|-> out=<tree|->`
* `chain grid|field|basis <c|f|-> <name:fmt,name:fmt,…> <tree>` — a chain of file round trips (`gridChain`,
  `fieldChain`, `basisChain`): `ok <tree of the last object read>` or `err <kind>`
-/
namespace HcipyVerif.Driver.C16
open HcipyVerif.Proto HcipyVerif.Serial

structure St where
  dummy : Unit := ()

def keyName : Key → String
  | .type => "type" | .delta => "delta" | .dims => "dims" | .zero => "zero" | .coords => "coords"
  | .sepCoords => "separated_coords" | .system => "coordinate_system" | .weights => "weights"
  | .values => "values" | .grid => "grid" | .tm => "transformation_matrix"
  | .isSparse => "is_sparse" | .data => "data" | .indices => "indices" | .indptr => "indptr"
  | .shape => "shape"

def allKeys : List Key :=
  [.type, .delta, .dims, .zero, .coords, .sepCoords, .system, .weights, .values, .grid, .tm,
   .isSparse, .data, .indices, .indptr, .shape]

def parseKey? (s : String) : Option Key := allKeys.find? fun k => keyName k == s

def tagName : Tag → String
  | .regular => "regular" | .separated => "separated" | .unstructured => "unstructured"
  | .cartesian => "cartesian" | .polar => "polar" | .noneSys => "none" | .other => "other"

def parseTag (s : String) : Tag :=
  match [Tag.regular, .separated, .unstructured, .cartesian, .polar, .noneSys].find?
      fun t => tagName t == s with
  | some t => t
  | none => .other

def showNum : PyNum → String
  | .int i => s!"i{i}"
  | .float q => s!"f{showRat q}"

def showArr (a : Arr) : String :=
  "a" ++ a.dtype ++ "(" ++ ",".intercalate (a.shape.map toString) ++ ")[" ++
    ",".intercalate (a.data.map showRat) ++ "]"

mutual
def showTree : Tree → String
  | .null => "N"
  | .bool b => if b then "T" else "F"
  | .num x => showNum x
  | .str s => "s" ++ tagName s
  | .arr a => showArr a
  | .list l => "l[" ++ showTrees l ++ "]"
  | .dict kv => "d{" ++ showKvs kv ++ "}"
def showTrees : List Tree → String
  | [] => ""
  | [t] => showTree t
  | t :: r => showTree t ++ "," ++ showTrees r
def showKvs : List (Key × Tree) → String
  | [] => ""
  | [(k, t)] => keyName k ++ ":" ++ showTree t
  | (k, t) :: r => keyName k ++ ":" ++ showTree t ++ "," ++ showKvs r
end

def isNumChar (c : Char) : Bool := c.isDigit || c == '-' || c == '/'
def isNameChar (c : Char) : Bool := c.isAlphanum || c == '_'

/-- comma-separated tokens up to the closing character `close` -/
def parseSeq {α} (p : String → Option α) (close : Char) (cs : List Char) :
    Option (List α × List Char) :=
  let (body, rest) := cs.span (· != close)
  match rest with
  | [] => none
  | _ :: rest' =>
    if body.isEmpty then some ([], rest')
    else ((String.ofList body).splitOn ",").mapM p |>.map fun l => (l, rest')

mutual
def parseTree : Nat → List Char → Option (Tree × List Char)
  | 0, _ => none
  | _ + 1, 'N' :: r => some (.null, r)
  | _ + 1, 'T' :: r => some (.bool true, r)
  | _ + 1, 'F' :: r => some (.bool false, r)
  | _ + 1, 'i' :: r =>
    let (tok, rest) := r.span isNumChar
    (parseInt? (String.ofList tok)).map fun i => (.num (.int i), rest)
  | _ + 1, 'f' :: r =>
    let (tok, rest) := r.span isNumChar
    (parseRat? (String.ofList tok)).map fun q => (.num (.float q), rest)
  | _ + 1, 's' :: r =>
    let (tok, rest) := r.span isNameChar
    some (.str (parseTag (String.ofList tok)), rest)
  | _ + 1, 'a' :: r =>
    let (dt, rest) := r.span isNameChar
    match rest with
    | '(' :: rest =>
      match parseSeq parseNat? ')' rest with
      | some (shape, '[' :: rest) =>
        match parseSeq parseRat? ']' rest with
        | some (data, rest) => some (.arr ⟨String.ofList dt, shape, data⟩, rest)
        | none => none
      | _ => none
    | _ => none
  | fuel + 1, 'l' :: '[' :: r =>
    match r with
    | ']' :: rest => some (.list [], rest)
    | _ => (parseItems fuel r).map fun (l, rest) => (.list l, rest)
  | fuel + 1, 'd' :: '{' :: r =>
    match r with
    | '}' :: rest => some (.dict [], rest)
    | _ => (parseKvs fuel r).map fun (l, rest) => (.dict l, rest)
  | _ + 1, _ => none
def parseItems : Nat → List Char → Option (List Tree × List Char)
  | 0, _ => none
  | fuel + 1, cs =>
    match parseTree fuel cs with
    | some (t, ',' :: rest) => (parseItems fuel rest).map fun (l, rest') => (t :: l, rest')
    | some (t, ']' :: rest) => some ([t], rest)
    | _ => none
def parseKvs : Nat → List Char → Option (List (Key × Tree) × List Char)
  | 0, _ => none
  | fuel + 1, cs =>
    let (kn, rest) := cs.span isNameChar
    match parseKey? (String.ofList kn), rest with
    | some k, ':' :: rest =>
      match parseTree fuel rest with
      | some (t, ',' :: rest) => (parseKvs fuel rest).map fun (l, rest') => ((k, t) :: l, rest')
      | some (t, '}' :: rest) => some ([(k, t)], rest)
      | _ => none
    | _, _ => none
end

def parseTree? (s : String) : Option Tree :=
  let cs := s.toList
  match parseTree (cs.length + 1) cs with
  | some (t, []) => some t
  | _ => none

def showErr : Err → String
  | .key => "key" | .value => "value" | .type => "type" | .attr => "attr" | .notImpl => "notimpl"

def answer : Except Err Tree → String
  | .ok t => "ok " ++ showTree t
  | .error e => "err " ++ showErr e

def status {α} : Except Err α → String
  | .ok _ => "ok"
  | .error e => showErr e

def showImage (f : Except Err FitsFile) : String :=
  match f with
  | .ok ⟨some a, _⟩ => showArr a
  | _ => "N"

def fitsAnswer {α} (w : Except Err FitsFile) (rd : FitsFile → Except Err α)
    (td : α → Except Err Tree) : String :=
  match w with
  | .error e => s!"ok w={showErr e} img=N r=- out=-"
  | .ok file =>
    let r := rd file
    let out := match r with
      | .ok x => match td x with
        | .ok t => showTree t
        | .error e => "toDict:" ++ showErr e
      | .error _ => "-"
    s!"ok w=ok img={showImage w} r={status r} out={out}"

def deinterleave : List Rat → List Rat × List Rat
  | a :: b :: r => let (x, y) := deinterleave r; (a :: x, b :: y)
  | _ => ([], [])

def interleave : List Rat → List Rat → List Rat
  | a :: x, b :: y => a :: b :: interleave x y
  | _, _ => []

/-- pickle round trip of the model; a complex array (re/im interleaved on the wire) is a pair of
real arrays of the same shape and layout -/
def pickleRT (bad : Bool) (l : Layout) (f : Field) : Field :=
  let go := fun (f : Field) =>
    if bad then Field.setState (f.getStateBad l) else Field.setState (f.getState l)
  if f.values.dtype.startsWith "c" then
    let (re, im) := deinterleave f.values.data
    let fr := go { f with values := { f.values with data := re } }
    let fi := go { f with values := { f.values with data := im } }
    { fr with values := { fr.values with data := interleave fr.values.data fi.values.data } }
  else go f

/-- `Field.__getstate__()`; complex data as a pair of real arrays of the same layout -/
def getStateShown (l : Layout) (f : Field) : String :=
  let raw :=
    if f.values.dtype.startsWith "c" then
      let (re, im) := deinterleave f.values.data
      let sr := Field.getState { f with values := { f.values with data := re } } l
      let si := Field.getState { f with values := { f.values with data := im } } l
      interleave sr.raw si.raw
    else (f.getState l).raw
  let s := f.getState l
  let n := if f.values.dtype.startsWith "c" then raw.length / 2 else raw.length
  "ok shape=" ++ showNatList s.shape ++ " dtype=" ++ s.dtype ++ " fortran=" ++
    (if s.isFortran then "T" else "F") ++ " raw=" ++ showArr ⟨s.dtype, [n], raw⟩

def parseLayout? (s : String) : Option Layout :=
  if s == "c" then some .c else if s == "f" then some .f else none

def nullFlag (g : Option Grid) : String :=
  match g with
  | some g => if g.weights.isNull then "N" else "S"
  | none => "-"

/-- the wire decoder of grids: any coordinate-system name (the registry is what is under test) -/
def decodeGrid (t : Tree) : Except Err Grid := Grid.fromDictWith (fun _ => true) t

def stAnswer {α} (before after wafter : Option Grid) (tree : Except Err Tree)
    (w : Except Err α) : String :=
  let tr := match tree with
    | .ok t => showTree t
    | .error e => "err:" ++ showErr e
  s!"ok before={nullFlag before} after={nullFlag after} tree={tr} wafter={nullFlag wafter} w={status w}"

def fileAnswer' {α} (w : Except Err Tree) (rd : Tree → Except Err α) (td : α → Except Err Tree) :
    String :=
  match w with
  | .error e => s!"ok w={showErr e} file=- r=- out=-"
  | .ok ft =>
    let r := rd ft
    let out := match r with
      | .ok x => match td x with
        | .ok t => showTree t
        | .error e => "toDict:" ++ showErr e
      | .error _ => "-"
    s!"ok w=ok file={showTree ft} r={status r} out={out}"

def scFlag (g : Option Grid) : String :=
  match g with
  | some g => if g.weights.isNpScalar then "T" else "F"
  | none => "-"

/-- `sc` says whether the weights of the grid written are a NumPy scalar (`Tree.isNpScalar`): the
only case in which the ASDF layer hands back something else than what was stored -/
def fileAnswer {α} (g : Option Grid) (w : Except Err Tree) (rd : Tree → Except Err α)
    (td : α → Except Err Tree) : String :=
  "ok sc=" ++ scFlag g ++ (fileAnswer' w rd td).drop 2

def fmtShown : Option Fmt → String
  | some f => f.name
  | none => "none"

def parseFmtArg (s : String) : Option String := if s == "-" then none else some s

def storedFam {P} (st : Stored P) : String := st.fmt.name

/-- answer of `filert`: write status, the format of the file written, read status, object read -/
def filertAnswer {P α} (w : Except Err (Stored P)) (rd : Stored P → Except Err α)
    (td : α → Except Err Tree) : String :=
  match w with
  | .error e => s!"ok w={showErr e} fam=- r=- out=-"
  | .ok c =>
    let r := rd c
    let out := match r with
      | .ok x => match td x with
        | .ok t => showTree t
        | .error e => "toDict:" ++ showErr e
      | .error _ => "-"
    s!"ok w=ok fam={storedFam c} r={status r} out={out}"

/-- `filert` for a field; a complex array (re/im interleaved on the wire) is a pair of real arrays of
the same shape, dtype tag and layout: both go through the model, the results are interleaved again -/
def filertField (l : Layout) (nm : List Char) (fm : Option String) (f : Field) : String :=
  if f.values.dtype.startsWith "c" then
    let (re, im) := deinterleave f.values.data
    let fr : Field := { f with values := { f.values with data := re } }
    let fi : Field := { f with values := { f.values with data := im } }
    let wi := writeFieldFile AsdfLib.observed l nm fm fi
    filertAnswer (writeFieldFile AsdfLib.observed l nm fm fr)
      (fun c => do
        let xr ← readFieldFile nm fm c
        let xi ← wi.bind (readFieldFile nm fm)
        pure ({ xr with values := { xr.values with data := interleave xr.values.data xi.values.data } } : Field))
      (fun x => .ok x.toDict)
  else
    filertAnswer (writeFieldFile AsdfLib.observed l nm fm f) (readFieldFile nm fm) (fun x => .ok x.toDict)

/-- the wire decoder of mode bases: a tree without the key `grid` is a basis without grid (such a basis
has no dictionary form of its own; the harness sends the `transformation_matrix` / `is_sparse` part) -/
def decodeBasis (t : Tree) : Except Err ModeBasis :=
  match t.get .grid with
  | .ok _ => ModeBasis.fromDict t
  | .error _ =>
    let dummy : Grid := ⟨.cartesian, .unstructured [], .null⟩
    (ModeBasis.fromDict (t.set .grid dummy.toDict)).map fun b => { b with grid := none }

/-- `name:fmt,name:fmt,…` (`fmt` = `-` for None) -/
def parseHops (s : String) : Option (List Hop) :=
  (s.splitOn ",").mapM fun tok =>
    match tok.splitOn ":" with
    | [n, f] => if n.isEmpty then none else some (n.toList, parseFmtArg f)
    | _ => none

/-- `chain` for a field; complex data as a pair of real arrays (see `filertField`) -/
def chainField (l : Layout) (hops : List Hop) (f : Field) : Except Err Field :=
  -- the layout of the object first written, for every hop (`field_file_chain`: the result does not
  -- depend on the layouts)
  let lh := hops.map fun h => (l, h)
  if f.values.dtype.startsWith "c" then do
    let (re, im) := deinterleave f.values.data
    let xr ← fieldChain AsdfLib.observed lh { f with values := { f.values with data := re } }
    let xi ← fieldChain AsdfLib.observed lh { f with values := { f.values with data := im } }
    pure { xr with values := { xr.values with data := interleave xr.values.data xi.values.data } }
  else fieldChain AsdfLib.observed lh f

def parseRoute? (s : String) : Option Route :=
  match s with
  | "dict" => some .dict | "asdf" => some .asdf | "pickle" => some .pickle | "pickle-object" => some .pickleObject
  | "fits-tree" => some .fitsTree | "fits-image-field" => some .fitsImageField
  | "fits-image-basis" => some .fitsImageBasis | _ => none

def step (st : St) : List String → St × String
  | ["dict", "gridold", t] =>
    match parseTree? t with
    | some t => (st, answer ((Grid.fromDictOld t).map Grid.toDict))
    | none => (st, "bad-op")
  | ["getstate", "field", lay, t] =>
    match parseTree? t, parseLayout? lay with
    | some t, some l =>
      match Field.fromDict t with
      | .ok f => (st, getStateShown l f)
      | .error e => (st, "err " ++ showErr e)
    | _, _ => (st, "bad-op")
  | ["todict-st", what, which, t] =>
    let gd? : Option (StateM Grid Tree) :=
      if which == "good" then some Grid.toDictM
      else if which == "bad" then some (Grid.toDictMBad fun _ => .null) else none
    match parseTree? t, gd? with
    | some t, some gd =>
      if what == "grid" then
        match decodeGrid t with
        | .ok g =>
          let (tree, g1) := gd.run g
          let (w, g2) := (writeGridM gd AsdfLib.observed).run g1
          (st, stAnswer (some g) (some g1) (some g2) (.ok tree) w)
        | .error e => (st, "err " ++ showErr e)
      else if what == "field" then
        match Field.fromDict t with
        | .ok f =>
          let (tree, f1) := (Field.toDictMWith gd).run f
          let (w, f2) := (writeFieldFitsM gd).run f1
          (st, stAnswer (some f.grid) (some f1.grid) (some f2.grid) (.ok tree) w)
        | .error e => (st, "err " ++ showErr e)
      else if what == "basis" then
        match ModeBasis.fromDict t with
        | .ok b =>
          let (tree, b1) := (ModeBasis.toDictMWith gd).run b
          let (w, b2) := (writeBasisFitsM gd).run b1
          (st, stAnswer b.grid b1.grid b2.grid tree w)
        | .error e => (st, "err " ++ showErr e)
      else (st, "bad-op")
    | _, _ => (st, "bad-op")
  | ["file", "grid", fmt, which, t] =>
    match parseTree? t with
    | some t =>
      match decodeGrid t with
      | .ok g =>
        if fmt == "asdf" && which == "new" then
          (st, fileAnswer (some g) ((writeGridAsdf AsdfLib.observed g).map (·.tree))
            (fun ft => readGridAsdf ⟨ft⟩) (fun x => .ok x.toDict))
        else if fmt == "asdf" && which == "old" then
          (st, fileAnswer (some g) ((writeGridAsdf AsdfLib.observed g).map (·.tree))
            (fun ft => readGridAsdfOld ⟨ft⟩) (fun x => .ok x.toDict))
        else if fmt == "fits" && which == "new" then
          (st, fileAnswer (some g) ((writeGridFits AsdfLib.observed g).map (·.tree))
            (fun ft => readGridFits ⟨none, ft⟩) (fun x => .ok x.toDict))
        else if fmt == "fits" && which == "old" then
          (st, fileAnswer (some g) ((writeGridFits AsdfLib.observed g).map (·.tree))
            (fun ft => readGridFitsOld ⟨none, ft⟩) (fun x => .ok x.toDict))
        else (st, "bad-op")
      | .error e => (st, "err " ++ showErr e)
    | none => (st, "bad-op")
  | ["file", "field", "asdf", "new", t] =>
    match parseTree? t with
    | some t =>
      match Field.fromDict t with
      | .ok f => (st, fileAnswer (some f.grid) ((writeFieldAsdf AsdfLib.observed f).map (·.tree))
          (fun ft => readFieldAsdf ⟨ft⟩) (fun x => .ok x.toDict))
      | .error e => (st, "err " ++ showErr e)
    | none => (st, "bad-op")
  | ["file", "basis", "asdf", "new", t] =>
    match parseTree? t with
    | some t =>
      match ModeBasis.fromDict t with
      | .ok b => (st, fileAnswer b.grid ((writeBasisAsdf AsdfLib.observed b).map (·.tree))
          (fun ft => readBasisAsdf ⟨ft⟩) ModeBasis.toDict)
      | .error e => (st, "err " ++ showErr e)
    | none => (st, "bad-op")
  | ["dict", "coords", t] =>
    match parseTree? t with
    | some t => (st, answer ((Coords.fromDict t).map Coords.toDict))
    | none => (st, "bad-op")
  | ["dict", "grid", t] =>
    match parseTree? t with
    | some t => (st, answer ((Grid.fromDict t).map Grid.toDict))
    | none => (st, "bad-op")
  | ["dict", "field", t] =>
    match parseTree? t with
    | some t => (st, answer ((Field.fromDict t).map Field.toDict))
    | none => (st, "bad-op")
  | ["dict", "basis", t] =>
    match parseTree? t with
    | some t => (st, answer ((ModeBasis.fromDict t).bind ModeBasis.toDict))
    | none => (st, "bad-op")
  | ["pickle", "field", lay, t] =>
    match parseTree? t, (if lay == "c" then some Layout.c else if lay == "f" then some Layout.f else none) with
    | some t, some l =>
      (st, answer ((Field.fromDict t).map fun f => (pickleRT false l f).toDict))
    | _, _ => (st, "bad-op")
  | ["pickle-bad", "field", lay, t] =>
    match parseTree? t, (if lay == "c" then some Layout.c else if lay == "f" then some Layout.f else none) with
    | some t, some l =>
      (st, answer ((Field.fromDict t).map fun f => (pickleRT true l f).toDict))
    | _, _ => (st, "bad-op")
  | ["fits", "field", which, t] =>
    match parseTree? t, which with
    | some t, "new" =>
      match Field.fromDict t with
      | .ok f => (st, fitsAnswer (writeFieldFits f) readFieldFits (fun x => .ok x.toDict))
      | .error e => (st, "err " ++ showErr e)
    | some t, "old" =>
      match Field.fromDict t with
      | .ok f => (st, fitsAnswer (writeFieldFits f) readFieldFitsOld (fun x => .ok x.toDict))
      | .error e => (st, "err " ++ showErr e)
    | _, _ => (st, "bad-op")
  | ["fits", "basis", which, t] =>
    match parseTree? t, which with
    | some t, "new" =>
      match ModeBasis.fromDict t with
      | .ok b => (st, fitsAnswer (writeBasisFits b) readBasisFits ModeBasis.toDict)
      | .error e => (st, "err " ++ showErr e)
    | some t, "old" =>
      match ModeBasis.fromDict t with
      | .ok b => (st, fitsAnswer (writeBasisFitsOld b) readBasisFitsOld ModeBasis.toDict)
      | .error e => (st, "err " ++ showErr e)
    | _, _ => (st, "bad-op")
  | ["dtype", route, ds, vals] =>
    match parseRoute? route, DType.parse? ds, parseRatList? vals with
    | some r, some d, some vs =>
      if !d.wellFormed || !DType.all.contains d then (st, "bad-op") else
      match readDType r d with
      | .error e => (st, "err " ++ showErr e)
      | .ok d' =>
        match r, fitsCard d with
        | .fitsImageField, .ok c | .fitsImageBasis, .ok c =>
          let stored := vs.map c.store
          (st, s!"ok read={d'.str} tag={d.tag} holds={vs.all fun v => d.kind == .float || d.kind == .complex || (v.den == 1 && d.holds v.num)} card={c.bitpix}/{c.bzero} " ++
               s!"fits={stored.all fun x => x.den != 1 || c.fits x.num} stored={showRatList stored} back={showRatList (stored.map c.load)}")
        | _, _ => (st, s!"ok read={d'.str} tag={d.tag} holds={vs.all fun v => d.kind == .float || d.kind == .complex || (v.den == 1 && d.holds v.num)}")
    | _, _, _ => (st, "bad-op")
  | ["spstore", fmt, variant, t] =>
    match parseTree? t with
    | some t =>
      match Csc.fromDict t with
      | .ok raw =>
        let store? : Option SpStore :=
          if fmt == "csc" then some (.csc raw) else if fmt == "csr" then some (.csr raw)
          else if fmt == "other" then some .noIndices else none
        match store?, variant with
        | some store, "new" =>
          match store.toCsc with
          | some c => (st, s!"ok wf={c.wellFormed} dense={showArr (cscToDense c)} csrdense={showArr (match store with | .csr r => csrToDense r | _ => cscToDense c)} tree=" ++ showTree c.toDict)
          | none => (st, "ok unmodelled")
        | some store, "old" =>
          match store.toDictOld with
          | .ok tr => (st, s!"ok wf={match Csc.fromDict tr with | .ok c => c.wellFormed | .error _ => false} tree=" ++ showTree tr)
          | .error e => (st, "err " ++ showErr e)
        | _, _ => (st, "bad-op")
      | .error _ => (st, "bad-op")
    | none => (st, "bad-op")
  | ["overwrite", fam, ex, ov] =>
    -- write_*(x, name, fmt, overwrite) onto a path that holds a file (ex = T: a pickle of `false`, the old object) or
    -- not, for a file family; the new object is `true`
    let stored : Option (Stored Bool) :=
      if fam == "asdf" then some (.asdf ⟨.null⟩) else if fam == "fits" then some (.fits ⟨none, .null⟩)
      else if fam == "pickle" then some (.pickle true) else none
    let flag : String → Option Bool := fun s => if s == "T" then some true else if s == "F" then some false else none
    match stored, flag ex, flag ov with
    | some w, some e, some o =>
      let r := writeOver (if e then some (.pickle false) else none) o (.ok w)
      let holds := match r.1 with
        | none => "nothing" | some (.pickle false) => "old" | some _ => "new"
      match r.2 with
      | .ok _ => (st, "ok holds=" ++ holds)
      | .error .fileExists => (st, "err os holds=" ++ holds)
      | .error (.writer er) => (st, "err " ++ showErr er ++ " holds=" ++ holds)
    | _, _, _ => (st, "bad-op")
  | ["guess", name] => (st, "ok " ++ fmtShown (guessFormat name.toList))
  | ["format", name, fmt] =>
    match formatOf name.toList (parseFmtArg fmt) with
    | .ok f => (st, "ok " ++ f.name)
    | .error e => (st, "err " ++ showErr e)
  | ["filert", what, lay, name, fmt, t] =>
    match parseTree? t with
    | some t =>
      let nm := name.toList
      let fm := parseFmtArg fmt
      if what == "grid" then
        match decodeGrid t with
        | .ok g => (st, filertAnswer (writeGridFile AsdfLib.observed nm fm g) (readGridFile nm fm)
            (fun x => .ok x.toDict))
        | .error e => (st, "err " ++ showErr e)
      else if what == "field" then
        match Field.fromDict t, parseLayout? lay with
        | .ok f, some l => (st, filertField l nm fm f)
        | .error e, _ => (st, "err " ++ showErr e)
        | _, none => (st, "bad-op")
      else if what == "basis" then
        match decodeBasis t with
        | .ok b => (st, filertAnswer (writeBasisFile AsdfLib.observed nm fm b) (readBasisFile nm fm)
            ModeBasis.toDict)
        | .error e => (st, "err " ++ showErr e)
      else (st, "bad-op")
    | none => (st, "bad-op")
  | ["chain", what, lay, hops, t] =>
    match parseTree? t, parseHops hops with
    | some t, some hs =>
      if what == "grid" then
        match decodeGrid t with
        | .ok g => (st, answer ((gridChain AsdfLib.observed hs g).map Grid.toDict))
        | .error e => (st, "err " ++ showErr e)
      else if what == "field" then
        match Field.fromDict t, parseLayout? lay with
        | .ok f, some l => (st, answer ((chainField l hs f).map Field.toDict))
        | .error e, _ => (st, "err " ++ showErr e)
        | _, none => (st, "bad-op")
      else if what == "basis" then
        match decodeBasis t with
        | .ok b => (st, answer ((basisChain AsdfLib.observed hs b).bind ModeBasis.toDict))
        | .error e => (st, "err " ++ showErr e)
      else (st, "bad-op")
    | _, _ => (st, "bad-op")
  | ["ravel", shape, idx] =>
    match parseNatList? shape, parseNatList? idx with
    | some s, some i =>
      match ravelChecked s i with
      | .ok n => (st, s!"ok {n}")
      | .error e => (st, "err " ++ showErr e)
    | _, _ => (st, "bad-op")
  | ["unravel", shape, k] =>
    match parseNatList? shape, parseNat? k with
    | some s, some k =>
      match unravelChecked s k with
      | .ok idx => (st, "ok " ++ showNatList idx)
      | .error e => (st, "err " ++ showErr e)
    | _, _ => (st, "bad-op")
  | _ => (st, "bad-op")

end HcipyVerif.Driver.C16
