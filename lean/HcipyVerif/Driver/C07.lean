import HcipyVerif.Model.Proto
import HcipyVerif.Model.PhaseOptics

/-!
Line-protocol front end of the C07 model.

```
C07 coef <family> fwd|bwd <n|->     -> ok κ          exponent coefficient of the multiplier
C07 magnify m1 m2                   -> ok w d        weight factor |m1 m2| and squared field divisor
C07 magnifyold m1 m2                -> ok d | err value   (unrepaired: sqrt of the signed product)
```
-/
namespace HcipyVerif.Driver.C07
open HcipyVerif.Proto HcipyVerif.PhaseOptics

structure St where
  dummy : Unit := ()

def step (st : St) : List String → St × String
  | ["coef", fam, dir, n] =>
    let n? : Option Rat := if n == "-" then some 0 else parseRat? n
    let d? : Option Dir := if dir == "fwd" then some .fwd else if dir == "bwd" then some .bwd else none
    match parseFamily? fam, d?, n? with
    | some f, some d, some n => (st, "ok " ++ showRat (coef f d n))
    | _, _, _ => (st, "bad-op")
  | ["magnify", m1, m2] =>
    match parseRat? m1, parseRat? m2 with
    | some a, some b => (st, s!"ok {showRat (magWeightFactor a b)} {showRat (magDivisorSq a b)}")
    | _, _ => (st, "bad-op")
  | ["magnifyold", m1, m2] =>
    match parseRat? m1, parseRat? m2 with
    | some a, some b =>
      match magDivisorSqOld a b with
      | some d => (st, "ok " ++ showRat d)
      | none => (st, "err value")
    | _, _ => (st, "bad-op")
  | _ => (st, "bad-op")

end HcipyVerif.Driver.C07
