import HcipyVerif.Model.Proto
import HcipyVerif.Model.PhaseOptics
import HcipyVerif.Model.PassiveOptics

/-!
Line-protocol front end of the C07 model.

```
C07 coef <family> fwd|bwd <n|->     -> ok κ          exponent coefficient of the multiplier
C07 magnify m1 m2                   -> ok w d        weight factor |m1 m2| and squared field divisor
C07 magweights fwd|bwd m1 m2 [w]    -> ok [w']       cell areas of the returned grid: w_i·|m1 m2| (forward), w_i/|m1 m2| (backward)
C07 lazyw auto|- slot read|noread j n -> ok [w']     weights a reader sees on the grid `CartesianGrid.scale` produced from a grid whose
                                                         `_weights` slot is `-` (empty) | `s:w` | `[w…]`, read before the call or not (`LazyW.scale`, `seen`)
C07 lazywold auto|- slot j n        -> ok [w']     the same for `LazyW.scaleOld` (rescale only a materialised slot): the harness checks that the
                                                         running code does NOT behave like it on unread grids without automatic weights
C07 magnifyold m1 m2                -> ok d | err value   (unrepaired: sqrt of the signed product)
C07 mask fwd|bwd [E] [t] [w]        -> ok [E'] pin pout  Apodizer / any phase-only element: E·t (E·conj t), total power
                                                         before / after **with the input weights** (complex lists are flat re,im,…)
C07 maskpol tensor [t] [J] [S] | vector [t] [E]  -> ok [I',Q',U',V',I,Q,U,V]  Stokes vector of one pixel after / before a scalar
                                                         transmission t (Jones-matrix pixel with input Stokes vector S / Jones-vector pixel)
C07 powerpol tensor [t] [J…] [S] [w] | vector [t] [E…] [w] -> ok P P'   `Wavefront.total_power` (Σ I_i w_i) of a polarised wavefront
                                                         before / after the per-pixel scalar transmission t (flat lists: 8 / 4 reals per pixel)
C07 fibre [E] [m] [w]               -> ok [a] pin mnorm [back]   a = Σ conj(E) w m, Σ|E|²w, Σ|m|²w, power of a·m
C07 knife N M start [mask] [apod] [lyot] [x] -> ok [row']  lyot·crop(ifft(fft(pad(x·apod))·mask)), M ∣ 4 (Gaussian kernels)
C07 knifep N M start [mask] [apod] [lyot] [x] -> ok out=c:t,c:t;…  the same `knifeRow` at the formal phase sums (`knifeRowP`), EXACT for every
                                                         internal length M ≤ 64: per output pixel the terms c·exp(2πi t) (pixels separated by `;`)
C07 knifet N M start [ker] [mask] [apod] [lyot] [x] -> ok [row']  the same `knifeRow` for any M > 0, the forward kernel
                                                         `exp(-2πi k/M)`, k < M, supplied as a table (backward kernel = its conjugate)
```
-/
namespace HcipyVerif.Driver.C07
open HcipyVerif.Proto HcipyVerif.PhaseOptics HcipyVerif.Passive HcipyVerif.Jones

def cxList? : List Rat → Option (List (Cx Rat))
  | [] => some []
  | a :: b :: rest => (cxList? rest).map fun l => ⟨a, b⟩ :: l
  | _ => none

def cxFn (l : List (Cx Rat)) : Nat → Cx Rat := fun i => l.getD i ⟨0, 0⟩
def ratFn (l : List Rat) : Nat → Rat := fun i => l.getD i 0
def flat (f : Nat → Cx Rat) (n : Nat) : List Rat := (List.range n).flatMap fun i => [(f i).re, (f i).im]
/-- a kernel `ℤ → ℂ` of period `M` read from a table of `M` values -/
def tableKer (l : List (Cx Rat)) (M : Nat) (n : Int) : Cx Rat := l.getD ((n % (M : Int)).toNat) ⟨0, 0⟩
def j2List? : List Rat → Option (List (J2 Rat))
  | [] => some []
  | a :: b :: c :: d :: e :: f :: g :: h :: rest => (j2List? rest).map fun l => ⟨⟨a, b⟩, ⟨c, d⟩, ⟨e, f⟩, ⟨g, h⟩⟩ :: l
  | _ => none
def v2List? : List Rat → Option (List (V2 Rat))
  | [] => some []
  | a :: b :: c :: d :: rest => (v2List? rest).map fun l => ⟨⟨a, b⟩, ⟨c, d⟩⟩ :: l
  | _ => none
def parseCx? (s : String) : Option (List (Cx Rat)) := (parseRatList? s).bind cxList?

structure St where
  dummy : Unit := ()

def step (st : St) : List String → St × String
  | ["coef", fam, dir, n] =>
    let n? : Option Rat := if n == "-" then some 0 else parseRat? n
    let d? : Option Dir := if dir == "fwd" then some .fwd else if dir == "bwd" then some .bwd else none
    match parseFamily? fam, d?, n? with
    | some f, some d, some n => (st, "ok " ++ showRat (coef f d n))
    | _, _, _ => (st, "bad-op")
  | ["magnify", m1, m2] =>
    match parseRat? m1, parseRat? m2 with
    | some a, some b => (st, s!"ok {showRat (magWeightFactor a b)} {showRat (magDivisorSq a b)}")
    | _, _ => (st, "bad-op")
  | ["magweights", dir, m1, m2, w] =>
    match parseRat? m1, parseRat? m2, parseRatList? w with
    | some a, some b, some w =>
      if (dir ≠ "fwd" ∧ dir ≠ "bwd") ∨ a = 0 ∨ b = 0 then (st, "bad-op") else
      let out := if dir == "fwd" then magWeights a b (ratFn w) else magWeightsBack a b (ratFn w)
      (st, "ok " ++ showRatList ((List.range w.length).map out))
    | _, _, _ => (st, "bad-op")
  | ["lazyw", auto, slot, rd, j, n] =>
    -- slot: `-` (nobody read the weights yet) | `s:<w>` | `[w…]`;  auto: `-` (unstructured coordinates) | automatic weight
    let auto? : Option (Option Rat) := if auto == "-" then some none else (parseRat? auto).map some
    let slot? : Option LazyW :=
      if slot == "-" then some .unset
      else if slot.startsWith "s:" then (parseRat? (slot.drop 2).toString).map .scalar
      else (parseRatList? slot).map .points
    match auto?, slot?, parseRat? j, n.toNat? with
    | some a, some s, some j, some n =>
      if rd ≠ "read" ∧ rd ≠ "noread" then (st, "bad-op") else
      let s := if rd == "read" then s.read a else s
      -- the coordinates are scaled too: a reader of the result would recompute automatic weights from them
      let out := (s.scale a j).seen (a.map (· * j))
      (st, "ok " ++ showRatList ((List.range n).map out))
    | _, _, _, _ => (st, "bad-op")
  | ["lazywold", auto, slot, j, n] =>
    -- the variant that rescales only a materialised slot (seed C07-10): what a reader of the scaled grid would see
    let auto? : Option (Option Rat) := if auto == "-" then some none else (parseRat? auto).map some
    let slot? : Option LazyW :=
      if slot == "-" then some .unset
      else if slot.startsWith "s:" then (parseRat? (slot.drop 2).toString).map .scalar
      else (parseRatList? slot).map .points
    match auto?, slot?, parseRat? j, n.toNat? with
    | some a, some s, some j, some n =>
      (st, "ok " ++ showRatList ((List.range n).map ((s.scaleOld j).seen (a.map (· * j)))))
    | _, _, _, _ => (st, "bad-op")
  | ["magnifyold", m1, m2] =>
    match parseRat? m1, parseRat? m2 with
    | some a, some b =>
      match magDivisorSqOld a b with
      | some d => (st, "ok " ++ showRat d)
      | none => (st, "err value")
    | _, _ => (st, "bad-op")
  | ["mask", dir, e, tt, w] =>
    match parseCx? e, parseCx? tt, parseRatList? w with
    | some e, some tt, some w =>
      if e.length ≠ tt.length ∨ e.length ≠ w.length ∨ (dir ≠ "fwd" ∧ dir ≠ "bwd") then (st, "bad-op") else
      let n := e.length
      let out := if dir == "fwd" then maskFwd (cxFn tt) (cxFn e) else maskBwd (cxFn tt) (cxFn e)
      (st, s!"ok {showRatList (flat out n)} {showRat (power (cxFn e) (ratFn w) n)} {showRat (power out (ratFn w) n)}")
    | _, _, _ => (st, "bad-op")
  | ["maskpol", "tensor", t, j, sv] =>
    match parseRatList? t, parseRatList? j, parseRatList? sv with
    | some [tr, ti], some [a, b, c, d, e, f, g, h], some [s0, s1, s2, s3] =>
      let e : J2 Rat := ⟨⟨a, b⟩, ⟨c, d⟩, ⟨e, f⟩, ⟨g, h⟩⟩
      let o := jonesStokes (maskJ ⟨tr, ti⟩ e) ⟨s0, s1, s2, s3⟩
      let i := jonesStokes e ⟨s0, s1, s2, s3⟩
      (st, "ok " ++ showRatList [o.i, o.q, o.u, o.v, i.i, i.q, i.u, i.v])
    | _, _, _ => (st, "bad-op")
  | ["maskpol", "vector", t, ev] =>
    match parseRatList? t, parseRatList? ev with
    | some [tr, ti], some [a, b, c, d] =>
      let e : V2 Rat := ⟨⟨a, b⟩, ⟨c, d⟩⟩
      let o := vecStokes (maskV ⟨tr, ti⟩ e)
      let i := vecStokes e
      (st, "ok " ++ showRatList [o.i, o.q, o.u, o.v, i.i, i.q, i.u, i.v])
    | _, _ => (st, "bad-op")
  | ["powerpol", "tensor", t, j, sv, w] =>
    match parseCx? t, (parseRatList? j).bind j2List?, parseRatList? sv, parseRatList? w with
    | some t, some j, some [s0, s1, s2, s3], some w =>
      if t.length ≠ j.length ∨ w.length ≠ j.length then (st, "bad-op") else
      let z : J2 Rat := ⟨⟨0, 0⟩, ⟨0, 0⟩, ⟨0, 0⟩, ⟨0, 0⟩⟩
      let e : Nat → J2 Rat := fun i => j.getD i z
      (st, s!"ok {showRat (powerJ e ⟨s0, s1, s2, s3⟩ (ratFn w) j.length)} {showRat (powerJ (fun i => maskJ (cxFn t i) (e i)) ⟨s0, s1, s2, s3⟩ (ratFn w) j.length)}")
    | _, _, _, _ => (st, "bad-op")
  | ["powerpol", "vector", t, ev, w] =>
    match parseCx? t, (parseRatList? ev).bind v2List?, parseRatList? w with
    | some t, some ev, some w =>
      if t.length ≠ ev.length ∨ w.length ≠ ev.length then (st, "bad-op") else
      let z : V2 Rat := ⟨⟨0, 0⟩, ⟨0, 0⟩⟩
      let e : Nat → V2 Rat := fun i => ev.getD i z
      (st, s!"ok {showRat (powerV e (ratFn w) ev.length)} {showRat (powerV (fun i => maskV (cxFn t i) (e i)) (ratFn w) ev.length)}")
    | _, _, _ => (st, "bad-op")
  | ["fibre", e, m, w] =>
    match parseCx? e, parseCx? m, parseRatList? w with
    | some e, some m, some w =>
      if e.length ≠ m.length ∨ e.length ≠ w.length then (st, "bad-op") else
      let n := e.length
      let a := fibreAmp (cxFn e) (cxFn m) (ratFn w) n
      (st, s!"ok {showRatList [a.re, a.im]} {showRat (power (cxFn e) (ratFn w) n)} {showRat (power (cxFn m) (ratFn w) n)} {showRat (power (fibreBack a (cxFn m)) (ratFn w) n)}")
    | _, _, _ => (st, "bad-op")
  | ["knife", nn, mm, start, mask, apod, lyot, x] =>
    match parseNat? nn, parseNat? mm, parseNat? start, parseCx? mask, parseCx? apod, parseCx? lyot, parseCx? x with
    | some n, some m, some s, some mask, some apod, some lyot, some x =>
      if (m ≠ 1 ∧ m ≠ 2 ∧ m ≠ 4) ∨ s + n > m ∨ mask.length ≠ m ∨ apod.length ≠ n ∨ lyot.length ≠ n ∨ x.length ≠ n then (st, "bad-op") else
      let xin : Nat → Cx Rat := fun i => cxFn x i * cxFn apod i
      let row := knifeRow n m s (gaussKerF m) (gaussKerB m) ⟨1 / (m : Rat), 0⟩ (cxFn mask) xin
      (st, "ok " ++ showRatList (flat (fun j => cxFn lyot j * row j) n))
    | _, _, _, _, _, _, _ => (st, "bad-op")
  | ["knifep", nn, mm, start, mask, apod, lyot, x] =>
    match parseNat? nn, parseNat? mm, parseNat? start, parseCx? mask, parseCx? apod, parseCx? lyot, parseCx? x with
    | some n, some m, some s, some mask, some apod, some lyot, some x =>
      if m = 0 ∨ m > 64 ∨ s + n > m ∨ mask.length ≠ m ∨ apod.length ≠ n ∨ lyot.length ≠ n ∨ x.length ≠ n then (st, "bad-op") else
      let showT := fun (t : Fft.Term) => if t.r == 0 then s!"{showRat t.c}:{showRat t.t}" else "?"
      let row := (List.range n).map fun j => knifeRowP n m s (cxFn mask) (cxFn apod) (cxFn lyot) (cxFn x) j
      (st, "ok out=" ++ ";".intercalate (row.map fun ps => ",".intercalate (ps.terms.map showT)))
    | _, _, _, _, _, _, _ => (st, "bad-op")
  | ["knifet", nn, mm, start, ker, mask, apod, lyot, x] =>
    match parseNat? nn, parseNat? mm, parseNat? start, parseCx? ker, parseCx? mask, parseCx? apod, parseCx? lyot, parseCx? x with
    | some n, some m, some s, some ker, some mask, some apod, some lyot, some x =>
      if m = 0 ∨ s + n > m ∨ ker.length ≠ m ∨ mask.length ≠ m ∨ apod.length ≠ n ∨ lyot.length ≠ n ∨ x.length ≠ n then (st, "bad-op") else
      let xin : Nat → Cx Rat := fun i => cxFn x i * cxFn apod i
      let row := knifeRow n m s (tableKer ker m) (fun k => (tableKer ker m k).conj) ⟨1 / (m : Rat), 0⟩ (cxFn mask) xin
      (st, "ok " ++ showRatList (flat (fun j => cxFn lyot j * row j) n))
    | _, _, _, _, _, _, _, _ => (st, "bad-op")
  | _ => (st, "bad-op")

end HcipyVerif.Driver.C07
