import HcipyVerif.Model.Proto
import HcipyVerif.Model.Coronagraph

/-! Line-protocol front end of the C09 model.

* `count ORDER` → `ok modes=M coeffs=C exps=j:k,j:k,…`
* `setup ORDER [a] [x] [y]` → `ok n=N modes=M rank=R slack=Q` (stores the Gram–Schmidt basis)
* `apply [re] [im]` → `ok [re'] [im']` (perfect coronagraph on both real components)
* `lyot Fre Fim Bre Bim [mre] [mim] SRE SIM [Ere] [Eim]` (matrices `[row];[row]`, stop `-` `-` for none)
* `occulted Fre Fim Bre Bim [mre] [mim] [Ere] [Eim]`
* `lyotb …`, `occultedb …` → the same arguments, the `backward` methods (`lyotBackward`, `occultedBackward`)
* `lyotadj Fre Fim Bre Bim [mre] [mim] SRE SIM [xre] [xim] [yre] [yim]` → `ok adj=max|B−Fᴴ| lhs=⟨y,forward x⟩ rhs=⟨backward y,x⟩`
* `levels NY NX DX DY Q S W` → level bookkeeping of the multi-scale coronagraphs
* `pmat T Tinv [c] [w] MU` → stores the real object's `transformation` (`n` rows `[..];[..]`),
  `transformation_inverse` (`k` rows), `coeffs`, grid weights; answers the defects of the theorem
  hypotheses: `ok n=N k=K leftinv=max|T⁺T−I| adj=max|T⁺−μTᵀW|`
* `pmodes ORDER [a] [x] [y]` → `ok nulls=max|perfectMat(mode)| scale=max|mode|` (hypothesis `NullsModes`)
* `msalg N D SRE SIM ERE EIM L (RAWRE RAWIM WINRE WINIM FRE FIM BRE BIM NR (RRE RIM)*NR)*L` → the
  multi-scale algebra at Gaussian rationals: `ok OUTRE OUTIM M0RE M0IM M1RE M1IM …` (`msForward`, `msMasks`)
* `msalgb …` → the same arguments, `msBackward` (conjugated stop first, conjugated masks)
* `msteleb N D MRE MIM FRE FIM BRE BIM L ([S] [wre] [wim])*L YRE YIM` → `ok nested= equal= [msBackward exactLevels] [idealForward conj(m)]`
* `mstele N D [m] F B L ([S] [w])*L [E]` → `ok nested=0|1 equal=0|1 [msForward exactLevels] [idealForward]`
* `papply [E]` → `ok [perfectMat T T⁺ c E] pin=powerW pout=powerW`
* `pmatrix` → `ok row;row;…` the matrix `perfectMatrix T T⁺ c` (`get_transformation_matrix_forward()`)
* `vvrun [history wl] [table wl] [table ch] [table sh] C2 S2 PLUS` → one chromatic vortex object driven through a history of
  wavelengths (`chromRun`, parameter = table lookup `wl ↦ (cos δ/2, sin δ/2)`): `ok [vortexTerm entries] [Re V e] [Im V e] [leak per step] [leak per step, shared-instance variant]
  [Re J per step, 4 entries each] [Im J …] [co re] [co im] [cross re] [cross im]` (`vvLeak`, `retarderJones`, `coPolar`, `crossPolar`)
* `vvset C2 S2 PLUS W1 PARAM (use wl | PARAM)*` with `PARAM = const ch sh | fn [twl] [tch] [tsh]` → one vortex object constructed with
  the first parameter and driven through a history of uses and assignments (+ `clear_cache()`), `setRun`:
  `ok [leak per use] [leak per use, kind-frozen-at-construction variant, dummy wavelength W1] [leak per use, setter-without-clear variant]
  [ch per use] [sh per use]`
-/
namespace HcipyVerif.Driver.C09
open HcipyVerif.Proto HcipyVerif.Coronagraph

structure St where
  n : Nat := 0
  basis : List (Vec Rat n) := []
  pn : Nat := 0
  pk : Nat := 0
  pT : Vector (Vec Rat pk) pn := Vector.ofFn fun _ => Vector.ofFn fun _ => 0
  pTinv : Vector (Vec Rat pn) pk := Vector.ofFn fun _ => Vector.ofFn fun _ => 0
  pc : Vec Rat pk := Vector.ofFn fun _ => 0
  pw : Vec Rat pn := Vector.ofFn fun _ => 0

def ofList (l : List Rat) (n : Nat) : Vec Rat n :=
  let a := l.toArray
  Vector.ofFn fun i => a.getD i.1 0

def toList {K} {n : Nat} (v : Vec K n) : List K := v.toList

def cvec (re im : List Rat) (n : Nat) : Vec CRat n :=
  let a := re.toArray
  let b := im.toArray
  Vector.ofFn fun i => ⟨a.getD i.1 0, b.getD i.1 0⟩

def showC {n : Nat} (v : Vec CRat n) : String :=
  showRatList ((toList v).map (·.re)) ++ " " ++ showRatList ((toList v).map (·.im))

def isZero {n : Nat} (v : Vec Rat n) : Bool := v.toList.all fun q => q == 0

/-- a matrix with `m` rows of length `n` from two lists of rows -/
def cmat (re im : List (List Rat)) (m n : Nat) : Vector (Vec CRat n) m :=
  let rows : Array (Vec CRat n) := ((re.zip im).map fun (r, i) => cvec r i n).toArray
  Vector.ofFn fun k => rows.getD k.1 (Vector.replicate n 0)

/-- a real matrix with `m` rows of length `n` -/
def rmat (ll : List (List Rat)) (m n : Nat) : Vector (Vec Rat n) m :=
  let rows : Array (Vec Rat n) := (ll.map fun r => ofList r n).toArray
  Vector.ofFn fun k => rows.getD k.1 (Vector.replicate n 0)

def rabs (q : Rat) : Rat := if q < 0 then -q else q

def maxAbs (l : List Rat) : Rat := l.foldl (fun acc q => max acc (rabs q)) 0

def rect (ll : List (List Rat)) (n : Nat) : Bool := ll.all (·.length == n)

def showPad : Pad → String
  | .ok b a => s!"ok:{b}:{a}"
  | .raises => "value"

def showPair (p : Rat × Rat) : String := s!"{showRat p.1},{showRat p.2}"

def rc (q : Rat) : CRat := ⟨q, 0⟩

def vvRunOp (hist twl tch tsh : List Rat) (c2 s2 : Rat) (plus : Bool) : String :=
  if twl.length != tch.length || twl.length != tsh.length then "bad-op" else
  if hist.any (fun wl => !twl.contains wl) then "bad-op" else
  let table := twl.zip (tch.zip tsh)
  let param : Rat → Rat × Rat := fun wl => ((table.find? (fun e => e.1 == wl)).map (·.2)).getD (0, 0)
  let i : CRat := ⟨0, 1⟩
  let leak (p : Rat × Rat) : Rat := (vvLeak CRat.conj i (rc p.1) (rc p.2) (rc c2) (rc s2) plus).re
  let used := chromRun param hist
  let shared := chromRunShared param hist
  let js := used.map fun p => retarderJones i (rc p.1) (rc p.2) (rc c2) (rc s2)
  let ents := js.flatMap fun J => [J.j11, J.j12, J.j21, J.j22]
  let co := used.map fun p => coPolar CRat.conj i (rc p.1) (rc p.2) (rc c2) (rc s2) plus
  let cr := used.map fun p => crossPolar CRat.conj i (rc p.1) (rc p.2) (rc c2) (rc s2) plus
  let V := vortexTerm (rc c2) (rc s2)
  let ve := V.apply (circ i plus)
  s!"ok {showRatList [V.j11.re, V.j12.re, V.j21.re, V.j22.re]} {showRatList [ve.1.re, ve.2.re]} {showRatList [ve.1.im, ve.2.im]} {showRatList (used.map leak)} {showRatList (shared.map leak)} {showRatList (ents.map (·.re))} {showRatList (ents.map (·.im))} {showRatList (co.map (·.re))} {showRatList (co.map (·.im))} {showRatList (cr.map (·.re))} {showRatList (cr.map (·.im))}"

/-- events of op `vvset`: `const ch sh` | `fn [twl] [tch] [tsh]` | `use wl` -/
def parseParam? : List String → Option (Param Rat (Rat × Rat) × List String)
  | "const" :: ch :: sh :: rest =>
    match parseRat? ch, parseRat? sh with
    | some ch, some sh => some (.const (ch, sh), rest)
    | _, _ => none
  | "fn" :: twl :: tch :: tsh :: rest =>
    match parseRatList? twl, parseRatList? tch, parseRatList? tsh with
    | some twl, some tch, some tsh =>
      if twl.length != tch.length || twl.length != tsh.length then none else
      let table := twl.zip (tch.zip tsh)
      some (.fn (fun wl => ((table.find? (fun e => e.1 == wl)).map (·.2)).getD (0, 0)), rest)
    | _, _, _ => none
  | _ => none

def parseEvs? (fuel : Nat) (toks : List String) : Option (List (Ev Rat (Rat × Rat))) :=
  match fuel with
  | 0 => none
  | fuel + 1 =>
    match toks with
    | [] => some []
    | "use" :: wl :: rest =>
      match parseRat? wl, parseEvs? fuel rest with
      | some wl, some evs => some (.use wl :: evs)
      | _, _ => none
    | toks =>
      match parseParam? toks with
      | some (p, rest) =>
        match parseEvs? fuel rest with
        | some evs => some (.set p :: evs)
        | none => none
      | none => none

def vvSetOp (c2 s2 : Rat) (plus : Bool) (w1 : Rat) (toks : List String) : String :=
  match parseParam? toks with
  | none => "bad-op"
  | some (p0, rest) =>
    match parseEvs? (rest.length + 1) rest with
    | none => "bad-op"
    | some evs =>
      let i : CRat := ⟨0, 1⟩
      let leak (p : Rat × Rat) : Rat := (vvLeak CRat.conj i (rc p.1) (rc p.2) (rc c2) (rc s2) plus).re
      let used := setRun p0 evs
      let frozen := setRunFrozen w1 p0 evs
      let noclear := setRunNoClear p0 evs
      s!"ok {showRatList (used.map leak)} {showRatList (frozen.map leak)} {showRatList (noclear.map leak)} {showRatList (used.map (·.1))} {showRatList (used.map (·.2))}"

def lyotOp (occ back : Bool) (fre fim bre bim mre mim sre sim ere eim : String) : String :=
  match parseRatLists? fre, parseRatLists? fim, parseRatLists? bre, parseRatLists? bim,
        parseRatList? mre, parseRatList? mim, parseRatList? ere, parseRatList? eim with
  | some fre, some fim, some bre, some bim, some mre, some mim, some ere, some eim =>
    let n := ere.length
    let m := mre.length
    if eim.length != n || mim.length != m || fre.length != m || fim.length != m ||
       bre.length != n || bim.length != n || !rect fre n || !rect fim n || !rect bre m || !rect bim m
    then "bad-op" else
    let F := cmat fre fim m n
    let B := cmat bre bim n m
    let mask := cvec mre mim m
    let E := cvec ere eim n
    let run (stop : Option (Vec CRat n)) : String :=
      if back then "ok " ++ showC (lyotBackward CRat.conj F B mask stop E) else "ok " ++ showC (lyotForward F B mask stop E)
    if occ then "ok " ++ showC (if back then occultedBackward CRat.conj F B mask E else occultedForward F B mask E) else
    if sre == "-" && sim == "-" then run none else
    match parseRatList? sre, parseRatList? sim with
    | some sre, some sim =>
      if sre.length != n || sim.length != n then "bad-op" else run (some (cvec sre sim n))
    | _, _ => "bad-op"
  | _, _, _, _, _, _, _, _ => "bad-op"

def showC1 (a : CRat) : String := showRat a.re ++ "," ++ showRat a.im

/-- `lyotadj`: the hypothesis (`B = Fᴴ`) and both sides of `lyot_backward_adjoint`. -/
def lyotAdj (fre fim bre bim mre mim sre sim xre xim yre yim : String) : String :=
  match parseRatLists? fre, parseRatLists? fim, parseRatLists? bre, parseRatLists? bim,
        parseRatList? mre, parseRatList? mim, parseRatList? xre, parseRatList? xim, parseRatList? yre, parseRatList? yim with
  | some fre, some fim, some bre, some bim, some mre, some mim, some xre, some xim, some yre, some yim =>
    let n := xre.length
    let m := mre.length
    if xim.length != n || yre.length != n || yim.length != n || mim.length != m || fre.length != m || fim.length != m ||
       bre.length != n || bim.length != n || !rect fre n || !rect fim n || !rect bre m || !rect bim m
    then "bad-op" else
    let F := cmat fre fim m n
    let B := cmat bre bim n m
    let mask := cvec mre mim m
    let x := cvec xre xim n
    let y := cvec yre yim n
    let stop : Option (Option (Vec CRat n)) :=
      if sre == "-" && sim == "-" then some none else
      match parseRatList? sre, parseRatList? sim with
      | some a, some b => if a.length != n || b.length != n then none else some (some (cvec a b n))
      | _, _ => none
    match stop with
    | none => "bad-op"
    | some stop =>
      let defect := maxAbs ((List.finRange n).flatMap fun i => (List.finRange m).flatMap fun k =>
        let d := propAdjointDefect CRat.conj F B i k
        [d.re, d.im])
      let lhs := cdot CRat.conj y (lyotForward F B mask stop x)
      let rhs := cdot CRat.conj (lyotBackward CRat.conj F B mask stop y) x
      s!"ok adj={showRat defect} lhs={showC1 lhs} rhs={showC1 rhs}"
  | _, _, _, _, _, _, _, _, _, _ => "bad-op"

def pairs {α} : List α → List (α × α)
  | a :: b :: t => (a, b) :: pairs t
  | _ => []

/-- levels of an `msalg` request -/
def parseLevels (d n : Nat) : Nat → List String → Option (List (MSLevel CRat d n))
  | 0, [] => some []
  | 0, _ => none
  | l + 1, rre :: rim :: wre :: wim :: fre :: fim :: bre :: bim :: nr :: rest => do
    let rre ← parseRatList? rre
    let rim ← parseRatList? rim
    let wre ← parseRatList? wre
    let wim ← parseRatList? wim
    let fre ← parseRatLists? fre
    let fim ← parseRatLists? fim
    let bre ← parseRatLists? bre
    let bim ← parseRatLists? bim
    let nr ← parseNat? nr
    if rre.length != d || rim.length != d || wre.length != d || wim.length != d || fre.length != d || fim.length != d ||
       bre.length != n || bim.length != n || !rect fre n || !rect fim n || !rect bre d || !rect bim d ||
       rest.length < 2 * nr then none else
    let (rt, rest') := rest.splitAt (2 * nr)
    let Rs ← (pairs rt).mapM fun (a, b) => do
      let a ← parseRatLists? a
      let b ← parseRatLists? b
      if a.length != d || b.length != d || !rect a d || !rect b d then none else some (cmat a b d d)
    let tail ← parseLevels d n l rest'
    some ({ raw := cvec rre rim d, win := cvec wre wim d, R := Rs, F := cmat fre fim d n, B := cmat bre bim n d } :: tail)
  | _, _ => none

def parseSpecs (d : Nat) : Nat → List String → Option (List (Vector Bool d × Vec Rat d) × List String)
  | 0, rest => some ([], rest)
  | l + 1, s :: w :: rest => do
    let s ← parseRatList? s
    let w ← parseRatList? w
    if s.length != d || w.length != d then none else
    let sa := s.toArray
    let (tail, rest') ← parseSpecs d l rest
    some (((Vector.ofFn fun i : Fin d => sa.getD i.1 0 != 0), ofList w d) :: tail, rest')
  | _, _ => none

/-- `msalg` / `msalgb`: the multi-scale algebra (`msForward` / `msBackward`) and the masks. -/
def msAlgOp (back : Bool) : List String → String
  | n :: d :: sre :: sim :: ere :: eim :: l :: rest =>
    match parseNat? n, parseNat? d, parseRatList? ere, parseRatList? eim, parseNat? l with
    | some n, some d, some ere, some eim, some l =>
      if ere.length != n || eim.length != n then "bad-op" else
      match parseLevels d n l rest with
      | none => "bad-op"
      | some ls =>
        let E := cvec ere eim n
        let stop : Option (Option (Vec CRat n)) :=
          if sre == "-" && sim == "-" then some none else
          match parseRatList? sre, parseRatList? sim with
          | some a, some b => if a.length != n || b.length != n then none else some (some (cvec a b n))
          | _, _ => none
        match stop with
        | none => "bad-op"
        | some stop =>
          let out := if back then msBackward CRat.conj ls stop E else msForward ls stop E
          let ms := msMasks ls
          "ok " ++ showC out ++ String.join (ms.map fun M => " " ++ showC M)
    | _, _, _, _, _ => "bad-op"
  | _ => "bad-op"

def parseSpecsC (d : Nat) : Nat → List String → Option (List (Vector Bool d × Vec CRat d) × List String)
  | 0, rest => some ([], rest)
  | l + 1, s :: w :: wi :: rest => do
    let s ← parseRatList? s
    let w ← parseRatList? w
    let wi ← parseRatList? wi
    if s.length != d || w.length != d || wi.length != d then none else
    let sa := s.toArray
    let (tail, rest') ← parseSpecsC d l rest
    some (((Vector.ofFn fun i : Fin d => sa.getD i.1 0 != 0), cvec w wi d) :: tail, rest')
  | _, _ => none

/-- `msteleb N D MRE MIM FRE FIM BRE BIM L ([S] [wre] [wim])*L YRE YIM`: `multiscale_backward_telescopes` at the
Gaussian rationals (windows real or complex): hypothesis and both sides. -/
def msTeleB : List String → String
  | n :: d :: mre :: mim :: fre :: fim :: bre :: bim :: l :: rest =>
    match parseNat? n, parseNat? d, parseRatList? mre, parseRatList? mim, parseRatLists? fre, parseRatLists? fim,
          parseRatLists? bre, parseRatLists? bim, parseNat? l with
    | some n, some d, some mre, some mim, some fre, some fim, some bre, some bim, some l =>
      if mre.length != d || mim.length != d || fre.length != d || fim.length != d || bre.length != n || bim.length != n ||
         !rect fre n || !rect fim n || !rect bre d || !rect bim d then "bad-op" else
      match parseSpecsC d l rest with
      | some (sps, [yre, yim]) =>
        match parseRatList? yre, parseRatList? yim with
        | some yre, some yim =>
          if yre.length != n || yim.length != n then "bad-op" else
          let mv := cvec mre mim d
          let F := cmat fre fim d n
          let B := cmat bre bim n d
          let y := cvec yre yim n
          let lhs := msBackward CRat.conj (exactLevels mv F B sps) none y
          let rhs := idealForward (Vector.ofFn fun p => CRat.conj mv[p]) F B y
          s!"ok nested={showBool (nestedOK (onesVec CRat d) sps)} equal={showBool (toList lhs == toList rhs)} {showC lhs} {showC rhs}"
        | _, _ => "bad-op"
      | _ => "bad-op"
    | _, _, _, _, _, _, _, _, _ => "bad-op"
  | _ => "bad-op"

def step (st : St) : List String → St × String
  | ["reset"] => ({}, "ok")
  | ["count", o] =>
    match parseNat? o with
    | some o =>
      let ex := ",".intercalate ((modeExps o).map fun e => s!"{e.1}:{e.2}")
      (st, s!"ok modes={modeCount o} coeffs={coeffsLen o} exps={ex}")
    | none => (st, "bad-op")
  | ["setup", o, a, x, y] =>
    match parseNat? o, parseRatList? a, parseRatList? x, parseRatList? y with
    | some o, some a, some x, some y =>
      let n := a.length
      if x.length != n || y.length != n then (st, "bad-op") else
      let ms := modes (ofList a n) (ofList x n) (ofList y n) o
      let b := gs ms
      let rank := (b.filter fun u => !isZero u).length
      -- conditioning witness: least ⟨r,r⟩/⟨f,f⟩ over the independent modes (1 if there is none)
      let slack := (ms.zip b).foldl (fun acc (f, r) =>
        if isZero r then acc else min acc (dot r r / dot f f)) (1 : Rat)
      ({ n := n, basis := b }, s!"ok n={n} modes={ms.length} rank={rank} slack={showRat slack}")
    | _, _, _, _ => (st, "bad-op")
  | ["apply", re, im] =>
    match parseRatList? re, parseRatList? im with
    | some re, some im =>
      if re.length != st.n || im.length != st.n then (st, "bad-op") else
      let r := residual st.basis (ofList re st.n)
      let i := residual st.basis (ofList im st.n)
      (st, s!"ok {showRatList (toList r)} {showRatList (toList i)} power={showRat (power r + power i)}")
    | _, _ => (st, "bad-op")
  | ["pmat", t, ti, c, w, mu] =>
    match parseRatLists? t, parseRatLists? ti, parseRatList? c, parseRatList? w, parseRat? mu with
    | some t, some ti, some c, some w, some mu =>
      let n := t.length
      let k := ti.length
      if c.length != k || w.length != n || !rect t k || !rect ti n then (st, "bad-op") else
      let T := rmat t n k
      let Tinv := rmat ti k n
      let wv := ofList w n
      let li := maxAbs ((List.finRange k).flatMap fun j => (List.finRange k).map fun l => leftInvDefect T Tinv j l)
      let ad := maxAbs ((List.finRange k).flatMap fun j => (List.finRange n).map fun i => adjointDefect T Tinv wv mu j i)
      ({ st with pn := n, pk := k, pT := T, pTinv := Tinv, pc := ofList c k, pw := wv },
        s!"ok n={n} k={k} leftinv={showRat li} adj={showRat ad}")
    | _, _, _, _, _ => (st, "bad-op")
  | ["pmodes", o, a, x, y] =>
    match parseNat? o, parseRatList? a, parseRatList? x, parseRatList? y with
    | some o, some a, some x, some y =>
      if a.length != st.pn || x.length != st.pn || y.length != st.pn then (st, "bad-op") else
      let ms := modes (ofList a st.pn) (ofList x st.pn) (ofList y st.pn) o
      let nulls := maxAbs (ms.flatMap fun m => toList (perfectMat st.pT st.pTinv st.pc m))
      let scale := maxAbs (ms.flatMap fun m => toList m)
      (st, s!"ok nulls={showRat nulls} scale={showRat scale}")
    | _, _, _, _ => (st, "bad-op")
  | ["papply", e] =>
    match parseRatList? e with
    | some e =>
      if e.length != st.pn then (st, "bad-op") else
      let E := ofList e st.pn
      let out := perfectMat st.pT st.pTinv st.pc E
      (st, s!"ok {showRatList (toList out)} pin={showRat (powerW st.pw E)} pout={showRat (powerW st.pw out)}")
    | none => (st, "bad-op")
  | ["pmatrix"] =>
    let M := perfectMatrix st.pT st.pTinv st.pc
    (st, "ok " ++ showRatLists ((toList M).map fun r => toList r))
  | ["vvrun", hist, twl, tch, tsh, c2, s2, plus] =>
    match parseRatList? hist, parseRatList? twl, parseRatList? tch, parseRatList? tsh, parseRat? c2, parseRat? s2, parseNat? plus with
    | some hist, some twl, some tch, some tsh, some c2, some s2, some plus =>
      if plus > 1 then (st, "bad-op") else (st, vvRunOp hist twl tch tsh c2 s2 (plus == 1))
    | _, _, _, _, _, _, _ => (st, "bad-op")
  | "vvset" :: c2 :: s2 :: plus :: w1 :: rest =>
    match parseRat? c2, parseRat? s2, parseNat? plus, parseRat? w1 with
    | some c2, some s2, some plus, some w1 =>
      if plus > 1 then (st, "bad-op") else (st, vvSetOp c2 s2 (plus == 1) w1 rest)
    | _, _, _, _ => (st, "bad-op")
  | "msalg" :: rest => (st, msAlgOp false rest)
  | "msalgb" :: rest => (st, msAlgOp true rest)
  | "msteleb" :: rest => (st, msTeleB rest)
  | "mstele" :: n :: d :: m :: f :: b :: l :: rest =>
    match parseNat? n, parseNat? d, parseRatList? m, parseRatLists? f, parseRatLists? b, parseNat? l with
    | some n, some d, some m, some f, some b, some l =>
      if m.length != d || f.length != d || b.length != n || !rect f n || !rect b d then (st, "bad-op") else
      match parseSpecs d l rest with
      | some (sps, [e]) =>
        match parseRatList? e with
        | some e =>
          if e.length != n then (st, "bad-op") else
          let mv := ofList m d
          let F := rmat f d n
          let B := rmat b n d
          let E := ofList e n
          let lhs := msForward (exactLevels mv F B sps) none E
          let rhs := idealForward mv F B E
          (st, s!"ok nested={showBool (nestedOK (onesVec Rat d) sps)} equal={showBool (toList lhs == toList rhs)} {showRatList (toList lhs)} {showRatList (toList rhs)}")
        | none => (st, "bad-op")
      | _ => (st, "bad-op")
    | _, _, _, _, _, _ => (st, "bad-op")
  | ["lyot", fre, fim, bre, bim, mre, mim, sre, sim, ere, eim] =>
    (st, lyotOp false false fre fim bre bim mre mim sre sim ere eim)
  | ["lyotb", fre, fim, bre, bim, mre, mim, sre, sim, ere, eim] =>
    (st, lyotOp false true fre fim bre bim mre mim sre sim ere eim)
  | ["lyotadj", fre, fim, bre, bim, mre, mim, sre, sim, xre, xim, yre, yim] =>
    (st, lyotAdj fre fim bre bim mre mim sre sim xre xim yre yim)
  | ["occulted", fre, fim, bre, bim, mre, mim, ere, eim] =>
    (st, lyotOp true false fre fim bre bim mre mim "-" "-" ere eim)
  | ["occultedb", fre, fim, bre, bim, mre, mim, ere, eim] =>
    (st, lyotOp true true fre fim bre bim mre mim "-" "-" ere eim)
  | ["levels", ny, nx, dx, dy, q, s, w] =>
    match parseNat? ny, parseNat? nx, parseRat? dx, parseRat? dy, parseRat? q, parseRat? s, parseNat? w with
    | some ny, some nx, some dx, some dy, some q, some s, some w =>
      if s ≤ 1 || q ≤ 0 || ny = 0 || nx = 0 || dx ≤ 0 || dy ≤ 0 then (st, "err value") else
      let p : MSParams := { ny, nx, dx, dy, q, s, w }
      let lv := levels q s
      if lv > 60 then (st, "err other") else
      let one (i : Nat) : String :=
        let d := dimsLevel p i
        s!"{showRat (qLevel s i)}|{showPair (numAiry p i)}|{d.1},{d.2}|{showPair (deltaLevel p i)}|{showPair (zeroLevel p i)}|{propKind i}|{originIndex d.1},{originIndex d.2}"
      let lvls := ";".intercalate ((List.range lv).map one)
      let pads := ";".intercalate ((padLevels p lv).map showPad)
      (st, s!"ok levels={lv} boundary={showBool (levelsBoundary q s)} accepted={showBool (accepted p lv)} lv={lvls} pad={if pads.isEmpty then "-" else pads}")
    | _, _, _, _, _, _, _ => (st, "bad-op")
  | _ => (st, "bad-op")

end HcipyVerif.Driver.C09
