import HcipyVerif.Model.Proto
import HcipyVerif.Model.Layer

/-! Line-protocol front end of the C15 model.

```
fin new nx ny vx vy cn2 L0 seed | fin evolve t | fin reset 0|1 | fin setcn2 c | fin setl0 l | fin setvel vx vy
      → ok c=[cx,cy] t=T rng=P orig=P noise=P v=[vx,vy] par=[cn2,L0] npar=[cn2,L0]
inf new nx ny dx dy vx vy cn2 L0 seed | inf evolve t | inf reset 0|1 | inf setcn2 c | inf setl0 l | inf setvel vx vy
      → ok c=[..] t=T sub=[..] rng=P orig=P hist=H v=[..] par=[cn2,L0] pars=cn2|L0;… scr=s:h:j:p,…
        (p = index into pars: the parameters the sample was generated with; backwards evolution: err value;
         `inf evolveq t` = evolve, answer without pars/scr)
phases sx sy [kx…] [ky…]   (phasesold …)                      → ok [S_0,…]      flat, x fastest
extrude left|right|top|bottom W H [new…] [screen…]            → ok […]          (naturals)
```
-/
namespace HcipyVerif.Driver.C15
open HcipyVerif.Proto HcipyVerif.Layer HcipyVerif.Shift

structure St where
  fin : Option FinL := none
  inf : Option InfL := none

def showV2 (v : V2) : String := s!"[{showRat v.1},{showRat v.2}]"

def showPar (p : Par) : String := s!"[{showRat p.cn2},{showRat p.L0}]"

def showFin (L : FinL) : String :=
  s!"ok c={showV2 L.center} t={showRat L.t} rng={L.rng.pos} orig={L.orig.pos} noise={L.noise.pos} " ++
  s!"v={showV2 L.vel} par={showPar L.par} npar={showPar L.noisePar}"

def showSym (pars : List Par) (s : Sym) : String := s!"{s.start}:{s.hist}:{s.j}:{pars.idxOf s.par}"

def showInf (L : InfL) : String :=
  let pars := (L.screen.map (·.par)).eraseDups
  s!"ok c={showV2 L.center} t={showRat L.t} sub={showV2 L.sub} rng={L.rng.pos} orig={L.orig.pos} hist={L.hist} " ++
  s!"v={showV2 L.vel} par={showPar L.par} pars=" ++ ";".intercalate (pars.map fun p => s!"{showRat p.cn2}|{showRat p.L0}") ++
  " scr=" ++ ",".intercalate (L.screen.map (showSym pars))

/-- bookkeeping only (long histories of tiny steps: the screen is printed at the reads' operations only) -/
def showInfQ (L : InfL) : String :=
  s!"ok c={showV2 L.center} t={showRat L.t} sub={showV2 L.sub} rng={L.rng.pos} orig={L.orig.pos} hist={L.hist} " ++
  s!"v={showV2 L.vel} par={showPar L.par}"

def parseBool? (s : String) : Option Bool :=
  if s == "0" then some false else if s == "1" then some true else none

def parseWhere? (s : String) : Option Where :=
  if s == "left" then some .left else if s == "right" then some .right
  else if s == "top" then some .top else if s == "bottom" then some .bottom else none

def step (st : St) : List String → St × String
  | ["reset"] => ({}, "ok")
  | ["fin", "new", nx, ny, vx, vy, cn2, l0, seed] =>
    match parseNat? nx, parseNat? ny, parseRat? vx, parseRat? vy, parseRat? cn2, parseRat? l0, parseNat? seed with
    | some nx, some ny, some vx, some vy, some cn2, some l0, some seed =>
      let L := FinL.new nx ny (vx, vy) ⟨cn2, l0⟩ seed
      ({ st with fin := some L }, showFin L)
    | _, _, _, _, _, _, _ => (st, "bad-op")
  | ["fin", "setcn2", c] =>
    match st.fin, parseRat? c with
    | some L, some c => let L := L.setCn2 c; ({ st with fin := some L }, showFin L)
    | _, _ => (st, "bad-op")
  | ["fin", "setl0", c] =>
    match st.fin, parseRat? c with
    | some L, some c => let L := L.setL0 c; ({ st with fin := some L }, showFin L)
    | _, _ => (st, "bad-op")
  | ["fin", "setvel", vx, vy] =>
    match st.fin, parseRat? vx, parseRat? vy with
    | some L, some vx, some vy => let L := L.setVel (vx, vy); ({ st with fin := some L }, showFin L)
    | _, _, _ => (st, "bad-op")
  | ["fin", "evolve", t] =>
    match st.fin, parseRat? t with
    | some L, some t => let L := L.evolve t; ({ st with fin := some L }, showFin L)
    | _, _ => (st, "bad-op")
  | ["fin", "reset", b] =>
    match st.fin, parseBool? b with
    | some L, some b => let L := L.reset b; ({ st with fin := some L }, showFin L)
    | _, _ => (st, "bad-op")
  | ["inf", "new", nx, ny, dx, dy, vx, vy, cn2, l0, seed] =>
    match parseNat? nx, parseNat? ny, parseRat? dx, parseRat? dy, parseRat? vx, parseRat? vy, parseRat? cn2,
        parseRat? l0, parseNat? seed with
    | some nx, some ny, some dx, some dy, some vx, some vy, some cn2, some l0, some seed =>
      if dx = 0 || dy = 0 then (st, "bad-op") else
      let L := InfL.new nx ny (dx, dy) (vx, vy) ⟨cn2, l0⟩ seed
      ({ st with inf := some L }, showInf L)
    | _, _, _, _, _, _, _, _, _ => (st, "bad-op")
  | ["inf", "setcn2", c] =>
    match st.inf, parseRat? c with
    | some L, some c => let L := L.setCn2 c; ({ st with inf := some L }, showInf L)
    | _, _ => (st, "bad-op")
  | ["inf", "setl0", c] =>
    match st.inf, parseRat? c with
    | some L, some c => let L := L.setL0 c; ({ st with inf := some L }, showInf L)
    | _, _ => (st, "bad-op")
  | ["inf", "setvel", vx, vy] =>
    match st.inf, parseRat? vx, parseRat? vy with
    | some L, some vx, some vy => let L := L.setVel (vx, vy); ({ st with inf := some L }, showInf L)
    | _, _, _ => (st, "bad-op")
  | ["inf", "evolve", t] =>
    match st.inf, parseRat? t with
    | some L, some t =>
      match L.evolve t with
      | some L => ({ st with inf := some L }, showInf L)
      | none => (st, "err value")
    | _, _ => (st, "bad-op")
  | ["inf", "evolveq", t] =>
    match st.inf, parseRat? t with
    | some L, some t =>
      match L.evolve t with
      | some L => ({ st with inf := some L }, showInfQ L)
      | none => (st, "err value")
    | _, _ => (st, "bad-op")
  | ["inf", "reset", b] =>
    match st.inf, parseBool? b with
    | some L, some b => let L := L.reset b; ({ st with inf := some L }, showInf L)
    | _, _ => (st, "bad-op")
  | ["phases", sx, sy, kx, ky] =>
    match parseRat? sx, parseRat? sy, parseRatList? kx, parseRatList? ky with
    | some sx, some sy, some kx, some ky => (st, "ok " ++ showRatList (phases sx sy kx ky))
    | _, _, _, _ => (st, "bad-op")
  | ["phasesold", sx, sy, kx, ky] =>
    match parseRat? sx, parseRat? sy, parseRatList? kx, parseRatList? ky with
    | some sx, some sy, some kx, some ky => (st, "ok " ++ showRatList (phasesOld sx sy kx ky))
    | _, _, _, _ => (st, "bad-op")
  | ["extrude", w, W, H, new, s] =>
    match parseWhere? w, parseNat? W, parseNat? H, parseNatList? new, parseNatList? s with
    | some w, some W, some H, some new, some s =>
      if s.length ≠ H * W || new.length ≠ (if w.horizontal then H else W) then (st, "err value")
      else (st, "ok " ++ showNatList (extrude w W H new s))
    | _, _, _, _, _ => (st, "bad-op")
  | _ => (st, "bad-op")

end HcipyVerif.Driver.C15
