import HcipyVerif.Model.Proto
import HcipyVerif.Model.Layer
import HcipyVerif.Model.LayerHeap
import HcipyVerif.Model.MultiLayer

/-! Line-protocol front end of the C15 model.

```
fin new nx ny vx vy cn2 L0 seed | fin evolve t | fin reset 0|1 | fin setcn2 c | fin setl0 l | fin setvel vx vy
      → ok c=[cx,cy] t=T rng=P orig=P noise=P v=[vx,vy] par=[cn2,L0] npar=[cn2,L0]
inf new nx ny dx dy vx vy cn2 L0 seed | inf evolve t | inf reset 0|1 | inf setcn2 c | inf setl0 l | inf setvel vx vy
      → ok c=[..] t=T sub=[..] rng=P orig=P hist=H v=[..] par=[cn2,L0] pars=cn2|L0;… scr=s:h:j:p,…
        (p = index into pars: the parameters the sample was generated with + the changes logged on the running layer; backwards evolution: err value;
         `inf evolveq t` = evolve, answer without pars/scr)
phases sx sy [kx…] [ky…]   (phasesold …)                      → ok [S_0,…]      flat, x fastest
extrude left|right|top|bottom W H [new…] [screen…]            → ok […]          (naturals)
arext left|right|top|bottom W H amp [screen…] [stencil positions…] [normals…] [A row];[A row]… [B row];…
      → ok [new screen…]        numeric `_extrude`: A·screen[stencil] + B·normals·amp, then the list surgery (exact rationals)
phasefor a λ                                                   → ok a/λ
synth M [x…] [y…] [kx…] [ky…] [Re C…] [Im C…]                  → ok [a_0,…,a_{M-1}];…   one list per point (x fastest):
      `Shift.synth` with the exact character `cycChar M` into ℚ[ℤ/M] (kx, ky in turns per length: kx[m]·x[n] ∈ (1/M)ℤ; 4 ∣ M;
      i = X^(M/4)); the value of `fourier.backward(C)` at the point is Σ_r a_r e^{2πi r/M}
hfin new int|gen|genshared nx ny vx vy cn2 L0 seed | hfin evolve t | reset b | setcn2 c | setl0 l | setvel vx vy | read |
     cdraw n  (the caller draws n numbers from the generator it passed as `seed=`)
      → the `fin` answer of the view + valid=0|1 cache=0|1 caller=P|- al=<rng is orig><orig is caller><rng is caller>
        cells=N [shown=pos|cn2|L0|cx|cy after read]            (heap model with lazy noise and cached screen)
hinf new int|gen|genshared nx ny dx dy vx vy cn2 L0 seed | hinf evolve t | evolveq t | reset b | set… | cdraw n
      → the `inf` answer of the view + caller= al= cells=
elements 0|1 [h…]                                              → ok L2,P3/2,L0,… order=[2,0,…] sum=S   `calculate_propagators` for the layer heights (err index: no layer)
atm new 0|1 [h…] | atm setlayers [h…] | atm setscint 0|1 | atm seth j h | atm prop | atm calc
      → ok dirty=0|1 scint=0|1 el=L2,P3/2,…                    the `_dirty` flag and the element list of `MultiLayerAtmosphere`
mla begin | mla addfin nx ny vx vy cn2 L0 seed | mla addinf nx ny dx dy vx vy cn2 L0 seed (→ ok n) | mla build |
mla swap (atm.layers = new same-seed layers with the current settings) | mla rewrap (MultiLayerAtmosphere(atm.layers)) |
mla evolve t | mla reset | mla resetold | mla setcn2 T | mla setl0 l | mla direct j evolve t|reset b|setcn2 c|setl0 l|setvel vx vy
      → ok|err value  t=T total=C ;; <fin answer | inf answer without pars/scr + scr=<hash of the symbolic screen>> ;; …
atmphase λ [a…]                                                → ok Σ a_i/λ        one pixel of `MultiLayerAtmosphere.phase_for(λ)`
```
-/
namespace HcipyVerif.Driver.C15
open HcipyVerif.Proto HcipyVerif.Layer HcipyVerif.Shift

structure St where
  fin : Option FinL := none
  inf : Option InfL := none
  hfin : Option (HFin × Bool) := none
  hinf : Option (HInf × Bool) := none
  atm : Option Atm := none
  specs : List Spec := []
  mla : Option MLA := none

def showV2 (v : V2) : String := s!"[{showRat v.1},{showRat v.2}]"

def showPar (p : Par) : String := s!"[{showRat p.cn2},{showRat p.L0}]"

def showFin (L : FinL) : String :=
  s!"ok c={showV2 L.center} t={showRat L.t} rng={L.rng.pos} orig={L.orig.pos} noise={L.noise.pos} " ++
  s!"v={showV2 L.vel} par={showPar L.par} npar={showPar L.noisePar}"

def showSym (pars : List (Par × List (Nat × Par))) (s : Sym) : String :=
  s!"{s.start}:{s.hist}:{s.j}:{pars.idxOf (s.par, s.plog)}"

/-- legend entry: the parameters of the sample, then the logged changes `@hist|cn2|L0` (latest first) -/
def showParLog (p : Par × List (Nat × Par)) : String :=
  s!"{showRat p.1.cn2}|{showRat p.1.L0}" ++ String.join (p.2.map fun e => s!"@{e.1}|{showRat e.2.cn2}|{showRat e.2.L0}")

def showReq (r : InterpReq) : String :=
  s!"req={showV2 r.offset} reqc={showRat r.matrix.1},{showRat r.matrix.2},{r.order},{if r.nearest then "nearest" else "other"}"

def showInf (L : InfL) : String :=
  let pars := (L.screen.map fun s => (s.par, s.plog)).eraseDups
  s!"ok c={showV2 L.center} t={showRat L.t} sub={showV2 L.sub} {showReq L.interpRequest} rng={L.rng.pos} orig={L.orig.pos} hist={L.hist} " ++
  s!"v={showV2 L.vel} par={showPar L.par} pars=" ++ ";".intercalate (pars.map showParLog) ++
  " scr=" ++ ",".intercalate (L.screen.map (showSym pars))

/-- bookkeeping only (long histories of tiny steps: the screen is printed at the reads' operations only) -/
def showInfQ (L : InfL) : String :=
  s!"ok c={showV2 L.center} t={showRat L.t} sub={showV2 L.sub} {showReq L.interpRequest} rng={L.rng.pos} orig={L.orig.pos} hist={L.hist} " ++
  s!"v={showV2 L.vel} par={showPar L.par}"

def b01 (b : Bool) : String := if b then "1" else "0"

def showHeap {σ : Type} (H : HL σ) (caller : Bool) : String :=
  s!" caller={if caller then toString (H.get 0).pos else "-"} al={b01 (H.rngH == H.origH)}" ++
  s!"{b01 (caller && H.origH == 0)}{b01 (caller && H.rngH == 0)} cells={H.cells.length}"

def showHFin (H : HFin) (caller : Bool) (read : Bool) : String :=
  let C := H.view finAccess
  showFin C.base ++ s!" valid={b01 C.valid} cache={b01 C.cache.isSome}" ++ showHeap H caller ++
  (if read then
    match C.cache with
    | some (n, p, c) => s!" shown={n.pos}|{showRat p.cn2}|{showRat p.L0}|{showRat c.1}|{showRat c.2}"
    | none => " shown=none"
   else "")

def parseKind? (s : String) : Option SeedKind :=
  if s == "int" then some .int else if s == "gen" then some .gen else if s == "genshared" then some .genShared else none

def hfinOp (st : St) (o : COp) : St × String :=
  match st.hfin with
  | some (H, c) => let H := H.step finAccess o; ({ st with hfin := some (H, c) }, showHFin H c (o == .read))
  | none => (st, "bad-op")

def hinfOp (st : St) (o : Op) (quiet : Bool := false) : St × String :=
  match st.hinf with
  | some (H, c) =>
    match o with
    | .evolve t =>
      if t < (H.view infAccess).t then (st, "err value") else
      let H := H.step infAccess o
      ({ st with hinf := some (H, c) }, (if quiet then showInfQ else showInf) (H.view infAccess) ++ showHeap H c)
    | _ =>
      let H := H.step infAccess o
      ({ st with hinf := some (H, c) }, showInf (H.view infAccess) ++ showHeap H c)
  | none => (st, "bad-op")

def parseBool? (s : String) : Option Bool :=
  if s == "0" then some false else if s == "1" then some true else none

def parseWhere? (s : String) : Option Where :=
  if s == "left" then some .left else if s == "right" then some .right
  else if s == "top" then some .top else if s == "bottom" then some .bottom else none

def showEl : El → String
  | .layer j => s!"L{j}"
  | .prop d => s!"P{showRat d}"

def showEls (es : List El) : String := ",".intercalate (es.map showEl)

def showAtm (A : Atm) : String := s!"ok dirty={b01 A.dirty} scint={b01 A.scint} el={showEls A.elements}"

def atmOp (st : St) (o : AOp) : St × String :=
  match st.atm with
  | some A => let A := A.step o; ({ st with atm := some A }, showAtm A)
  | none => (st, "bad-op")

def parHash (p : Par) : Nat := p.cn2.num.natAbs * 31 + p.cn2.den * 17 + p.L0.num.natAbs * 13 + p.L0.den

/-- a short fingerprint of the symbolic screen: start, history code, element, parameters and logged parameter changes of
every sample, in place -/
def symHash (l : List Sym) : Nat :=
  l.foldl (fun h s =>
    let q := s.plog.foldl (fun a e => (a * 1009 + e.1 * 7 + parHash e.2) % 2305843009213693951) (parHash s.par)
    (h * 1000003 + (s.start * 7919 + s.hist * 104729 + s.j + 1 + q * 15485863)) % 2305843009213693951) 0

/-- bookkeeping of the layer, and — from its `view`, what `phase_for` is a function of — a fingerprint of the screen -/
def showAny (a : AnyL) (v : Sum (Rng × Par × V2) (List Sym × V2)) : String :=
  (match a with
   | .fin L => "F " ++ showFin L
   | .inf L => "I " ++ showInfQ L) ++
  (match v with
   | .inl (n, p, c) => s!" shown={n.pos}|{showRat p.cn2}|{showRat p.L0}|{showRat c.1}|{showRat c.2}"
   | .inr (scr, sub) => s!" scr={symHash scr} vsub={showV2 sub}")

/-- the answer is printed from the `view` (for an operation: the one `MLA.screens` yields for it) -/
def showMLA (A : MLA) (v : List (Sum (Rng × Par × V2) (List Sym × V2)) × Rat) (ok : Bool) : String :=
  (if ok then "ok" else "err value") ++ s!" t={showRat v.2} total={showRat (totalCn2 A.layers)}" ++
  String.join ((A.layers.zip v.1).map fun av => " ;; " ++ showAny av.1 av.2)

def mlaOp (st : St) (o : MOp) (old : Bool := false) : St × String :=
  match st.mla with
  | some A =>
    let ok := match o with
      | .evolve t => (evolveAll t A.layers).2
      | .direct j (.evolve t) => match A.layers[j]? with
        | some a => (a.evolve? t).isSome
        | none => false
      | .direct j _ => j < A.layers.length
      | _ => true
    let A' := if old then A.stepOld o else A.step o
    let v := if old then A'.view else (A.screens [o]).headD A'.view
    ({ st with mla := some A' }, showMLA A' v ok)
  | none => (st, "bad-op")

def step (st : St) : List String → St × String
  | ["reset"] => ({}, "ok")
  | ["elements", s, hs] =>
    match parseBool? s, parseRatList? hs with
    | some s, some hs =>
      if hs.isEmpty then (st, "err index") else
      let es := buildElements s hs
      (st, s!"ok {showEls es} order={showNatList (layerOrder es)} sum={showRat (propSum es)}")
    | _, _ => (st, "bad-op")
  | ["atm", "new", s, hs] =>
    match parseBool? s, parseRatList? hs with
    | some s, some hs =>
      if hs.isEmpty then (st, "err index") else let A := Atm.new hs s; ({ st with atm := some A }, showAtm A)
    | _, _ => (st, "bad-op")
  | ["atm", "setlayers", hs] =>
    match parseRatList? hs with
    | some hs => if hs.isEmpty then (st, "err index") else atmOp st (.setLayers hs)
    | none => (st, "bad-op")
  | ["atm", "setscint", b] =>
    match parseBool? b with
    | some b => atmOp st (.setScint b)
    | none => (st, "bad-op")
  | ["atm", "seth", j, h] =>
    match st.atm, parseNat? j, parseRat? h with
    | some A, some j, some h => if j < A.heights.length then atmOp st (.setHeight j h) else (st, "err index")
    | _, _, _ => (st, "bad-op")
  | ["atm", "prop"] => atmOp st .propagate
  | ["atm", "calc"] => atmOp st .recalc
  | ["mla", "begin"] => ({ st with specs := [], mla := none }, "ok 0")
  | ["mla", "addfin", nx, ny, vx, vy, cn2, l0, seed] =>
    match parseNat? nx, parseNat? ny, parseRat? vx, parseRat? vy, parseRat? cn2, parseRat? l0, parseNat? seed with
    | some nx, some ny, some vx, some vy, some cn2, some l0, some seed =>
      let sp := st.specs ++ [⟨false, nx, ny, (0, 0), (vx, vy), ⟨cn2, l0⟩, seed⟩]
      ({ st with specs := sp }, s!"ok {sp.length}")
    | _, _, _, _, _, _, _ => (st, "bad-op")
  | ["mla", "addinf", nx, ny, dx, dy, vx, vy, cn2, l0, seed] =>
    match parseNat? nx, parseNat? ny, parseRat? dx, parseRat? dy, parseRat? vx, parseRat? vy, parseRat? cn2,
        parseRat? l0, parseNat? seed with
    | some nx, some ny, some dx, some dy, some vx, some vy, some cn2, some l0, some seed =>
      if dx = 0 || dy = 0 then (st, "bad-op") else
      let sp := st.specs ++ [⟨true, nx, ny, (dx, dy), (vx, vy), ⟨cn2, l0⟩, seed⟩]
      ({ st with specs := sp }, s!"ok {sp.length}")
    | _, _, _, _, _, _, _, _, _ => (st, "bad-op")
  | ["mla", "build"] =>
    if st.specs.isEmpty then (st, "err index") else
    let A := MLA.new st.specs; ({ st with mla := some A }, showMLA A A.view true)
  | ["mla", "evolve", t] =>
    match parseRat? t with
    | some t => mlaOp st (.evolve t)
    | none => (st, "bad-op")
  | ["mla", "reset"] => mlaOp st .reset
  | ["mla", "resetold"] => mlaOp st .reset true
  | ["mla", "swap"] =>
    match st.mla with
    | some A =>
      let A' := A.setLayers (currentSpecs st.specs A.layers)
      ({ st with mla := some A' }, showMLA A' A'.view true)
    | none => (st, "bad-op")
  | ["mla", "rewrap"] =>
    match st.mla with
    | some A => let A' := A.rewrap; ({ st with mla := some A' }, showMLA A' A'.view true)
    | none => (st, "bad-op")
  | ["mla", "setcn2", c] =>
    match st.mla, parseRat? c with
    | some A, some c => if totalCn2 A.layers = 0 then (st, "err zero") else mlaOp st (.setCn2 c)
    | _, _ => (st, "bad-op")
  | ["mla", "setl0", l] =>
    match parseRat? l with
    | some l => mlaOp st (.setL0 l)
    | none => (st, "bad-op")
  | ["mla", "direct", j, "evolve", t] =>
    match parseNat? j, parseRat? t with
    | some j, some t => mlaOp st (.direct j (.evolve t))
    | _, _ => (st, "bad-op")
  | ["mla", "direct", j, "reset", b] =>
    match parseNat? j, parseBool? b with
    | some j, some b => mlaOp st (.direct j (.reset b))
    | _, _ => (st, "bad-op")
  | ["mla", "direct", j, "setcn2", c] =>
    match parseNat? j, parseRat? c with
    | some j, some c => mlaOp st (.direct j (.setCn2 c))
    | _, _ => (st, "bad-op")
  | ["mla", "direct", j, "setl0", c] =>
    match parseNat? j, parseRat? c with
    | some j, some c => mlaOp st (.direct j (.setL0 c))
    | _, _ => (st, "bad-op")
  | ["mla", "direct", j, "setvel", vx, vy] =>
    match parseNat? j, parseRat? vx, parseRat? vy with
    | some j, some vx, some vy => mlaOp st (.direct j (.setVel (vx, vy)))
    | _, _, _ => (st, "bad-op")
  | ["atmphase", l, as] =>
    match parseRat? l, parseRatList? as with
    | some l, some as => if l = 0 then (st, "err value") else (st, "ok " ++ showRat (atmPhase l as))
    | _, _ => (st, "bad-op")
  | ["fin", "new", nx, ny, vx, vy, cn2, l0, seed] =>
    match parseNat? nx, parseNat? ny, parseRat? vx, parseRat? vy, parseRat? cn2, parseRat? l0, parseNat? seed with
    | some nx, some ny, some vx, some vy, some cn2, some l0, some seed =>
      let L := FinL.new nx ny (vx, vy) ⟨cn2, l0⟩ seed
      ({ st with fin := some L }, showFin L)
    | _, _, _, _, _, _, _ => (st, "bad-op")
  | ["fin", "setcn2", c] =>
    match st.fin, parseRat? c with
    | some L, some c => let L := L.setCn2 c; ({ st with fin := some L }, showFin L)
    | _, _ => (st, "bad-op")
  | ["fin", "setl0", c] =>
    match st.fin, parseRat? c with
    | some L, some c => let L := L.setL0 c; ({ st with fin := some L }, showFin L)
    | _, _ => (st, "bad-op")
  | ["fin", "setvel", vx, vy] =>
    match st.fin, parseRat? vx, parseRat? vy with
    | some L, some vx, some vy => let L := L.setVel (vx, vy); ({ st with fin := some L }, showFin L)
    | _, _, _ => (st, "bad-op")
  | ["fin", "evolve", t] =>
    match st.fin, parseRat? t with
    | some L, some t => let L := L.evolve t; ({ st with fin := some L }, showFin L)
    | _, _ => (st, "bad-op")
  | ["fin", "reset", b] =>
    match st.fin, parseBool? b with
    | some L, some b => let L := L.reset b; ({ st with fin := some L }, showFin L)
    | _, _ => (st, "bad-op")
  | ["inf", "new", nx, ny, dx, dy, vx, vy, cn2, l0, seed] =>
    match parseNat? nx, parseNat? ny, parseRat? dx, parseRat? dy, parseRat? vx, parseRat? vy, parseRat? cn2,
        parseRat? l0, parseNat? seed with
    | some nx, some ny, some dx, some dy, some vx, some vy, some cn2, some l0, some seed =>
      if dx = 0 || dy = 0 then (st, "bad-op") else
      let L := InfL.new nx ny (dx, dy) (vx, vy) ⟨cn2, l0⟩ seed
      ({ st with inf := some L }, showInf L)
    | _, _, _, _, _, _, _, _, _ => (st, "bad-op")
  | ["inf", "setcn2", c] =>
    match st.inf, parseRat? c with
    | some L, some c => let L := L.setCn2 c; ({ st with inf := some L }, showInf L)
    | _, _ => (st, "bad-op")
  | ["inf", "setl0", c] =>
    match st.inf, parseRat? c with
    | some L, some c => let L := L.setL0 c; ({ st with inf := some L }, showInf L)
    | _, _ => (st, "bad-op")
  | ["inf", "setvel", vx, vy] =>
    match st.inf, parseRat? vx, parseRat? vy with
    | some L, some vx, some vy => let L := L.setVel (vx, vy); ({ st with inf := some L }, showInf L)
    | _, _, _ => (st, "bad-op")
  | ["inf", "evolve", t] =>
    match st.inf, parseRat? t with
    | some L, some t =>
      match L.evolve t with
      | some L => ({ st with inf := some L }, showInf L)
      | none => (st, "err value")
    | _, _ => (st, "bad-op")
  | ["inf", "evolveq", t] =>
    match st.inf, parseRat? t with
    | some L, some t =>
      match L.evolve t with
      | some L => ({ st with inf := some L }, showInfQ L)
      | none => (st, "err value")
    | _, _ => (st, "bad-op")
  | ["inf", "reset", b] =>
    match st.inf, parseBool? b with
    | some L, some b => let L := L.reset b; ({ st with inf := some L }, showInf L)
    | _, _ => (st, "bad-op")
  | ["hfin", "new", k, nx, ny, vx, vy, cn2, l0, seed] =>
    match parseKind? k, parseNat? nx, parseNat? ny, parseRat? vx, parseRat? vy, parseRat? cn2, parseRat? l0, parseNat? seed with
    | some k, some nx, some ny, some vx, some vy, some cn2, some l0, some seed =>
      let H := HFin.new k nx ny (vx, vy) ⟨cn2, l0⟩ ⟨seed, 0⟩
      ({ st with hfin := some (H, k != .int) }, showHFin H (k != .int) false)
    | _, _, _, _, _, _, _, _ => (st, "bad-op")
  | ["hfin", "setcn2", c] => match parseRat? c with
    | some c => hfinOp st (.op (.setCn2 c))
    | none => (st, "bad-op")
  | ["hfin", "setl0", c] => match parseRat? c with
    | some c => hfinOp st (.op (.setL0 c))
    | none => (st, "bad-op")
  | ["hfin", "setvel", vx, vy] => match parseRat? vx, parseRat? vy with
    | some vx, some vy => hfinOp st (.op (.setVel (vx, vy)))
    | _, _ => (st, "bad-op")
  | ["hfin", "evolve", t] => match parseRat? t with
    | some t => hfinOp st (.op (.evolve t))
    | none => (st, "bad-op")
  | ["hfin", "reset", b] => match parseBool? b with
    | some b => hfinOp st (.op (.reset b))
    | none => (st, "bad-op")
  | ["hfin", "read"] => hfinOp st .read
  | ["hfin", "cdraw", n] =>
    match st.hfin, parseNat? n with
    | some (H, true), some n => let H := H.foreignDraw 0 n; ({ st with hfin := some (H, true) }, showHFin H true false)
    | _, _ => (st, "bad-op")
  | ["hinf", "new", k, nx, ny, dx, dy, vx, vy, cn2, l0, seed] =>
    match parseKind? k, parseNat? nx, parseNat? ny, parseRat? dx, parseRat? dy, parseRat? vx, parseRat? vy, parseRat? cn2,
        parseRat? l0, parseNat? seed with
    | some k, some nx, some ny, some dx, some dy, some vx, some vy, some cn2, some l0, some seed =>
      if dx = 0 || dy = 0 then (st, "bad-op") else
      let H := HInf.new k nx ny (dx, dy) (vx, vy) ⟨cn2, l0⟩ ⟨seed, 0⟩
      ({ st with hinf := some (H, k != .int) }, showInf (H.view infAccess) ++ showHeap H (k != .int))
    | _, _, _, _, _, _, _, _, _, _ => (st, "bad-op")
  | ["hinf", "setcn2", c] => match parseRat? c with
    | some c => hinfOp st (.setCn2 c)
    | none => (st, "bad-op")
  | ["hinf", "setl0", c] => match parseRat? c with
    | some c => hinfOp st (.setL0 c)
    | none => (st, "bad-op")
  | ["hinf", "setvel", vx, vy] => match parseRat? vx, parseRat? vy with
    | some vx, some vy => hinfOp st (.setVel (vx, vy))
    | _, _ => (st, "bad-op")
  | ["hinf", "evolve", t] => match parseRat? t with
    | some t => hinfOp st (.evolve t)
    | none => (st, "bad-op")
  | ["hinf", "evolveq", t] => match parseRat? t with
    | some t => hinfOp st (.evolve t) true
    | none => (st, "bad-op")
  | ["hinf", "reset", b] => match parseBool? b with
    | some b => hinfOp st (.reset b)
    | none => (st, "bad-op")
  | ["hinf", "cdraw", n] =>
    match st.hinf, parseNat? n with
    | some (H, true), some n =>
      let H := H.foreignDraw 0 n; ({ st with hinf := some (H, true) }, showInf (H.view infAccess) ++ showHeap H true)
    | _, _ => (st, "bad-op")
  | ["arext", w, W, H, amp, scr, idx, rnd, A, B] =>
    match parseWhere? w, parseNat? W, parseNat? H, parseRat? amp, parseRatList? scr, parseNatList? idx, parseRatList? rnd,
        parseRatLists? A, parseRatLists? B with
    | some w, some W, some H, some amp, some scr, some idx, some rnd, some A, some B =>
      if scr.length ≠ H * W || A.length ≠ (if w.horizontal then H else W) || B.length ≠ A.length then (st, "err value")
      else (st, "ok " ++ showRatList (arExtrude w W H A B idx rnd amp scr))
    | _, _, _, _, _, _, _, _, _ => (st, "bad-op")
  | ["synth", M, xs, ys, kx, ky, cre, cim] =>
    match parseNat? M, parseRatList? xs, parseRatList? ys, parseRatList? kx, parseRatList? ky, parseRatList? cre,
        parseRatList? cim with
    | some M, some xs, some ys, some kx, some ky, some cre, some cim =>
      if cre.length ≠ kx.length * ky.length then (st, "err value") else
      match synthCyc M xs ys kx ky cre cim with
      | some r => (st, "ok " ++ showRatLists r)
      | none => (st, "err value")
    | _, _, _, _, _, _, _ => (st, "bad-op")
  | ["phasefor", a, l] =>
    match parseRat? a, parseRat? l with
    | some a, some l => if l = 0 then (st, "err value") else (st, "ok " ++ showRat (phaseFor a l))
    | _, _ => (st, "bad-op")
  | ["phases", sx, sy, kx, ky] =>
    match parseRat? sx, parseRat? sy, parseRatList? kx, parseRatList? ky with
    | some sx, some sy, some kx, some ky => (st, "ok " ++ showRatList (phases sx sy kx ky))
    | _, _, _, _ => (st, "bad-op")
  | ["phasesold", sx, sy, kx, ky] =>
    match parseRat? sx, parseRat? sy, parseRatList? kx, parseRatList? ky with
    | some sx, some sy, some kx, some ky => (st, "ok " ++ showRatList (phasesOld sx sy kx ky))
    | _, _, _, _ => (st, "bad-op")
  | ["extrude", w, W, H, new, s] =>
    match parseWhere? w, parseNat? W, parseNat? H, parseNatList? new, parseNatList? s with
    | some w, some W, some H, some new, some s =>
      if s.length ≠ H * W || new.length ≠ (if w.horizontal then H else W) then (st, "err value")
      else (st, "ok " ++ showNatList (extrude w W H new s))
    | _, _, _, _, _ => (st, "bad-op")
  | _ => (st, "bad-op")

end HcipyVerif.Driver.C15
