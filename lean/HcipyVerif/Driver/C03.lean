import HcipyVerif.Model.Proto

/-! Line-protocol front end of the C03 model (stub: not built yet). -/
namespace HcipyVerif.Driver.C03

structure St where
  dummy : Unit := ()

def step (st : St) : List String → St × String
  | _ => (st, "bad-op")

end HcipyVerif.Driver.C03
