import HcipyVerif.Model.Proto
import HcipyVerif.Model.Fraunhofer
import HcipyVerif.Model.FraunhoferPipe
import HcipyVerif.Model.FraunhoferObj

/-! Line-protocol front end of the C03 model (Fraunhofer bookkeeping).

```
C03 setup lam f [dxp,dyp] [Nx,Ny] [zx,zy]      -> ok lamf=… norm=re:im uvscale=… wp=…
C03 session [dxp,dyp] [Nx,Ny] [zx,zy] const a | affine a b   -> ok      (one propagator object, f(λ)=a or a+bλ)
C03 setf const a | affine a b                  -> ok      (prop.focal_length = …)
C03 at lam                                     -> as setup, for the session's current focal length
C03 focal [dx,dy] [Mx,My] [zx,zy]              -> ok uvdelta=[…] uvzero=[…] wfac=… class=… M=[…] gain=… slack=[…] tolclass=… allclose=… snapdelta=[…]|-
                                                  (slack = |q N − round(q N)| per axis, exact; tolclass / allclose = class under the
                                                  tolerant test with 1e-10 / np.allclose's defaults; snapdelta = spacing of the FFT's own grid)
C03 focal cur                                  -> same, for the grid made by the last mkfocal/ffpg
C03 mkfocal [qx,qy] [ax,ay] [srx,sry]           -> ok delta=[…] dims=[…] zero=[…] slack=[…]   (make_focal_grid)
C03 ffpg q numairy|- lf                        -> ok delta=[…] dims=[…] zero=[…] slack=[…]   (make_focal_grid_from_pupil_grid)
C03 impulse-idx [jx,jy] [kx,ky]                -> ok amp=… turns=…   (pupil index, focal index of the last `focal`)
C03 impulse-at [jx,jy] [x,y]                   -> ok amp=… turns=…   (pupil index, arbitrary focal point)
C03 mirror [sx,sy]                             -> ok delta=[…] zero=[…]   the current focal grid `.scaled([sx,sy])` (per-axis factors)
C03 lens fwd|bwd cheaper emu [jx,jy] [kx,ky]   -> ok method=fft|mft val=c:t   the modelled *pipeline* (selection by
                                                  `choose detectFix`, then `fastForward2`/`mftForward` (or backward),
                                                  then the norm factor) on a unit impulse; value c·exp(2πi·t)
C03 lens-sep cheaper [jx,jy] [kx,ky] [X…] [Y…] -> same, forward, separated non-regular focal grid
C03 obj fwd|bwd lam cheaper mat emu stokes|- [kx,ky] ncomp [jx,jy,amp]… cur | sep [X…] [Y…] | pts [X…] [Y…] [w…]
                                               -> ok method=… lam=… stokes=…|- vals=c:t;c:t;…
                                                  the propagator *object* of the current session (`LensProp.forward/backward`)
                                                  on a whole wavefront record: tensor component t = amp_t × unit impulse at
                                                  sample (jx,jy)_t (fwd: pupil sample, result at focal sample k; bwd: the reverse;
                                                  a point-list grid uses [k,0]); wavelength and Stokes vector of the result
C03 alias f0|f1|c<i> …                         -> ok arrays=n ids=field:stokes|-;…   ndarray identities of every wavefront a call history
                                                  creates (f0/f1: new user wavefront without/with Stokes vector, propagated;
                                                  c<i>: wavefront number i of the log propagated again)
```
-/
namespace HcipyVerif.Driver.C03
open HcipyVerif.Proto HcipyVerif.Fraunhofer

structure St where
  session : Option Session := none
  /-- the session as constructed and the `focal_length` assignments since (for the object ops) -/
  session0 : Option Session := none
  sets : List FocalSpec := []
  setup : Option Setup := none
  focal : Option RegGrid := none

def showVal (p : HcipyVerif.Fft.PSum) : String :=
  match p.terms with
  | [] => "0:0"
  | [x] => if x.r = 0 then s!"{showRat x.c}:{showRat x.t}" else "radians"
  | _ => "multi"

def showMethod : HcipyVerif.Fft.Method → String
  | .fft => "fft" | .mft => "mft" | .naive => "naive"

def pair? : List Nat → Option (Nat × Nat)
  | [a, b] => some (a, b)
  | _ => none

def parseFlag? : String → Option Bool
  | "0" => some false
  | "1" => some true
  | _ => none

def okLen (n : Nat) (a : List Rat) (b : List Nat) (c : List Rat) : Bool :=
  a.length == n && b.length == n && c.length == n && n > 0

def showImpulse (r : Rat × Rat) : String := s!"ok amp={showRat r.1} turns={showRat r.2}"

def focalInfo (s : Setup) (g : RegGrid) : String :=
  let uv := uvGridTurns s g
  let (cls, Ms) := classify s g
  let gain := if cls == .full then showRat (powerGain s g Ms) else "-"
  -- near-miss class: exact slack, the class under the code's own float test (1e-10) and under np.allclose's defaults,
  -- and the spacing of the grid an FFT built for the tolerant padded sizes would really evaluate on
  let tol := classifyLoose (1 / 10000000000) 0 s g
  let ac := classifyLoose (1 / 100000000) (1 / 100000) s g
  let snap := if ac.1 == .other then "-" else showRatList (snappedGrid s g ac.2).delta
  s!"ok uvdelta={showRatList uv.delta} uvzero={showRatList uv.zero} wfac={showRat (uvWeightFactor s g.ndim)} class={cls.show} M={showNatList Ms} gain={gain} slack={showRatList (commSlack s g)} tolclass={tol.1.show} allclose={ac.1.show} snapdelta={snap}"

def showGrid (g : RegGrid) (slack : List Rat) : String :=
  s!"ok delta={showRatList g.delta} dims={showNatList g.dims} zero={showRatList g.zero} slack={showRatList slack}"

def parseSpec? : List String → Option FocalSpec
  | ["const", a] => (parseRat? a).map .const
  | ["affine", a, b] => do let a ← parseRat? a; let b ← parseRat? b; pure (.affine a b)
  | _ => none

def setupInfo (s : Setup) : String :=
  let nf := normFactor s
  s!"ok lamf={showRat (lamf s)} norm={showRat nf.1}:{showRat nf.2} uvscale={showRat (uvScaleTurns s)} wp={showRat s.pupil.weight}"

def natOfRat? (q : Rat) : Option Nat := if q.den = 1 ∧ 0 ≤ q.num then some q.num.toNat else none

/-- `[jx,jy,amp]` → `(jy, jx, amp)` -/
def parseComp? (s : String) : Option (Nat × Nat × Rat) :=
  match parseRatList? s with
  | some [jx, jy, a] => do let jx ← natOfRat? jx; let jy ← natOfRat? jy; pure (jy, jx, a)
  | _ => none

def parseStokes? (s : String) : Option (Option (Rat × Rat × Rat × Rat)) :=
  if s == "-" then some none else
  match parseRatList? s with
  | some [a, b, c, d] => some (some (a, b, c, d))
  | _ => none

def showStokes : Option (Rat × Rat × Rat × Rat) → String
  | none => "-"
  | some (a, b, c, d) => showRatList [a, b, c, d]

def parseFocalGrid? (cur : Option RegGrid) : List String → Option (Option FocalSpecGrid)
  | ["cur"] => some (cur.map .regular)
  | ["sep", xs, ys] => do let xs ← parseRatList? xs; let ys ← parseRatList? ys; pure (some (.separated xs ys))
  | ["pts", xs, ys, ws] => do
    let xs ← parseRatList? xs; let ys ← parseRatList? ys; let ws ← parseRatList? ws
    pure (if xs.length == ys.length && xs.length == ws.length then some (.points xs ys ws) else none)
  | _ => none

def parseCall? (s : String) : Option Call :=
  if s == "f0" then some (.fresh false) else if s == "f1" then some (.fresh true)
  else if s.startsWith "c" then (s.drop 1).toNat?.map .chain else none

def showRef (w : WfRef) : String :=
  s!"{w.field}:" ++ (match w.stokes with | some i => toString i | none => "-")

/-- the `obj` op: runs `LensProp.forward/backward` on the impulse wavefront -/
def runObj (ss : Session) (sets : List FocalSpec) (fg : FocalSpecGrid) (dir : Dir) (lam : Rat) (cheaper mat emu : Bool)
    (stokes : Option (Rat × Rat × Rat × Rat)) (k : Nat × Nat) (comps : List (Nat × Nat × Rat)) : Option String :=
  match lensObjAfter ss sets fg cheaper mat emu with
  | none => none
  | some P =>
    if lam * P.focalLength lam = 0 then none else
    let wf := impulseWf comps lam stokes
    let out := match dir with
      | .fwd => P.forward scalarsQ wf
      | .bwd => P.backward scalarsQ wf
    let vals := (List.range comps.length).map fun t => showVal (out.field t k.2 k.1)
    some s!"ok method={showMethod (P.plan lam).m} lam={showRat out.wavelength} stokes={showStokes out.stokes} vals={";".intercalate vals}"

def step (st : St) : List String → St × String
  | ["reset"] => ({}, "ok")
  | "obj" :: dir :: lam :: cheaper :: mat :: emu :: stokes :: k :: ncomp :: rest =>
    match (if dir == "fwd" then some Dir.fwd else if dir == "bwd" then some Dir.bwd else none), parseRat? lam,
      parseFlag? cheaper, parseFlag? mat, parseFlag? emu, parseStokes? stokes, (parseNatList? k).bind pair?, ncomp.toNat? with
    | some dir, some lam, some cheaper, some mat, some emu, some stokes, some k, some n =>
      if rest.length < n then (st, "bad-op") else
      match (rest.take n).mapM parseComp?, parseFocalGrid? st.focal (rest.drop n) with
      | some comps, some fg =>
        match st.session0, fg with
        | some ss, some fg =>
          match runObj ss st.sets fg dir lam cheaper mat emu stokes k comps with
          | some r => (st, r)
          | none => (st, "err value")
        | _, _ => (st, "err value")
      | _, _ => (st, "bad-op")
    | _, _, _, _, _, _, _, _ => (st, "bad-op")
  | "alias" :: calls =>
    match calls.mapM parseCall? with
    | some cs =>
      let (_, log) := runCalls ⟨0⟩ [] cs
      (st, s!"ok arrays={(log.flatMap WfRef.ids).eraseDups.length} ids=" ++ ";".intercalate (log.map showRef))
    | none => (st, "bad-op")
  | ["setup", lam, f, d, n, z] =>
    match parseRat? lam, parseRat? f, parseRatList? d, parseNatList? n, parseRatList? z with
    | some lam, some f, some d, some n, some z =>
      if lam * f = 0 || !okLen d.length d n z then (st, "err value") else
      let s : Setup := { lam := lam, f := f, pupil := { delta := d, dims := n, zero := z } }
      let nf := normFactor s
      ({ st with setup := some s, focal := none },
        s!"ok lamf={showRat (lamf s)} norm={showRat nf.1}:{showRat nf.2} uvscale={showRat (uvScaleTurns s)} wp={showRat s.pupil.weight}")
    | _, _, _, _, _ => (st, "bad-op")
  | "session" :: d :: n :: z :: spec =>
    match parseRatList? d, parseNatList? n, parseRatList? z, parseSpec? spec with
    | some d, some n, some z, some f =>
      if !okLen d.length d n z then (st, "err value") else
      ({ session := some { pupil := { delta := d, dims := n, zero := z }, focalLength := f },
         session0 := some { pupil := { delta := d, dims := n, zero := z }, focalLength := f }, sets := [] }, "ok")
    | _, _, _, _ => (st, "bad-op")
  | "setf" :: spec =>
    match st.session, parseSpec? spec with
    | some s, some f => ({ st with session := some (s.setFocalLength f), sets := st.sets ++ [f] }, "ok")
    | none, some _ => (st, "err value")
    | _, none => (st, "bad-op")
  | ["at", lam] =>
    match st.session, parseRat? lam with
    | some s, some lam =>
      let su := s.instanceAt lam
      if lamf su = 0 then (st, "err value") else ({ st with setup := some su }, setupInfo su)
    | none, some _ => (st, "err value")
    | _, none => (st, "bad-op")
  | ["focal", "cur"] =>
    match st.setup, st.focal with
    | some s, some g => (st, focalInfo s g)
    | _, _ => (st, "err value")
  | ["focal", d, n, z] =>
    match st.setup, parseRatList? d, parseNatList? n, parseRatList? z with
    | some s, some d, some n, some z =>
      if !okLen d.length d n z then (st, "err value") else
      let g : RegGrid := { delta := d, dims := n, zero := z }
      ({ st with focal := some g }, focalInfo s g)
    | none, _, _, _ => (st, "err value")
    | _, _, _, _ => (st, "bad-op")
  | ["mkfocal", q, a, r] =>
    match parseRatList? q, parseRatList? a, parseRatList? r with
    | some q, some a, some r =>
      if q.length ≠ a.length || q.length ≠ r.length || q.any (· ≤ 0) then (st, "err value") else
      let (g, slack) := makeFocalGrid q a r
      ({ st with focal := some g }, showGrid g slack)
    | _, _, _ => (st, "bad-op")
  | ["ffpg", q, a, lf] =>
    match st.setup, parseRat? q, (if a == "-" then some none else (parseRat? a).map some), parseRat? lf with
    | some s, some q, some a, some lf =>
      if q < 1 then (st, "err value") else
      let (g, slack) := focalFromPupil s.pupil q a lf
      ({ st with focal := some g }, showGrid g slack)
    | none, some _, some _, some _ => (st, "err value")
    | _, _, _, _ => (st, "bad-op")
  | ["impulse-idx", j, k] =>
    match st.setup, st.focal, parseNatList? j, parseNatList? k with
    | some s, some g, some j, some k =>
      if j.length ≠ s.pupil.ndim || k.length ≠ g.ndim then (st, "err value") else
      (st, showImpulse (impulseResponse s s.pupil.weight (g.point k) (s.pupil.point j)))
    | _, _, some _, some _ => (st, "err value")
    | _, _, _, _ => (st, "bad-op")
  | ["impulse-at", j, x] =>
    match st.setup, parseNatList? j, parseRatList? x with
    | some s, some j, some x =>
      if j.length ≠ s.pupil.ndim || x.length ≠ s.pupil.ndim then (st, "err value") else
      (st, showImpulse (impulseResponse s s.pupil.weight x (s.pupil.point j)))
    | none, some _, some _ => (st, "err value")
    | _, _, _ => (st, "bad-op")
  | ["mirror", c] =>
    match parseRatList? c, st.focal with
    | some c, some g =>
      if c.length == g.delta.length then
        let g' := g.scaledAxes c
        ({ st with focal := some g' }, s!"ok delta={showRatList g'.delta} zero={showRatList g'.zero}")
      else (st, "err value")
    | none, _ => (st, "bad-op")
    | _, none => (st, "err value")
  | ["lens", dir, cheaper, emu, j, k] =>
    match (if dir == "fwd" then some Dir.fwd else if dir == "bwd" then some Dir.bwd else none),
      parseFlag? cheaper, parseFlag? emu, (parseNatList? j).bind pair?, (parseNatList? k).bind pair? with
    | some dir, some cheaper, some emu, some j, some k =>
      match st.setup, st.focal with
      | some s, some g =>
        match lensImpulse s g dir cheaper emu j k with
        | some (m, v) => (st, s!"ok method={showMethod m} val={showVal v}")
        | none => (st, "err value")
      | _, _ => (st, "err value")
    | _, _, _, _, _ => (st, "bad-op")
  | ["lens-sep", cheaper, j, k, xs, ys] =>
    match parseFlag? cheaper, (parseNatList? j).bind pair?, (parseNatList? k).bind pair?, parseRatList? xs, parseRatList? ys with
    | some cheaper, some j, some k, some xs, some ys =>
      match st.setup with
      | some s =>
        if k.1 ≥ xs.length || k.2 ≥ ys.length then (st, "err value") else
        match lensImpulseSep s xs ys cheaper j k with
        | some (m, v) => (st, s!"ok method={showMethod m} val={showVal v}")
        | none => (st, "err value")
      | none => (st, "err value")
    | _, _, _, _, _ => (st, "bad-op")
  | _ => (st, "bad-op")

end HcipyVerif.Driver.C03
