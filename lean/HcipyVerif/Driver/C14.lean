import HcipyVerif.Model.Proto
import HcipyVerif.Model.ModeBasis
import HcipyVerif.Model.Mirror

/-!
Line-protocol front end of the C14 model.

Scalars are Gaussian rationals `re` or `re:im` (each part `num/den`); vectors `[a,b,c]`;
matrices `row;row;…` (`-` = no rows).  Bases live in named registers.

```
reset
new NAME ndarray NPIX NMODES ROWS                      (a 2-D ndarray)
new NAME spmat csc|csr|coo NPIX NMODES P Q DATA        (csc/csr: indptr indices; coo: row col)
new NAME seq list|tuple ITEMS                          (ITEMS: item;item;… or -; item = d|VECTOR
                                                        or s|NROWS|NCOLS|INDICES|VALUES)
                                          -> ok KIND NPIX NMODES ROWS | err value   (through `fromInput`)
desc NAME                                 -> ok KIND NPIX NMODES ROWS
lc NAME COEFFS                            -> ok VECTOR
get NAME DST new|old int K | slice A B C | list [..] | mask [0,1,..]
                                          -> ok mode VECTOR | ok basis KIND NPIX NMODES ROWS | err index|value
add A B DST | extend A B DST | append A VEC DST | tosparse A DST | todense A DST
                                          -> ok KIND NPIX NMODES ROWS | err value
nnz NAME                                  -> ok N   (stored entries; dense: npix*nmodes)
lstsq NAME VECTOR                         -> ok VECTOR | err rank
sliceidx N A B C                          -> ok START STOP STEP [positions] | err value   (`sliceIndices`, `sliceIdx`; `-` = None)
seginfl NPIX COLS XS YS                   -> ok ROWS   (`segInfl`: segments as rows of COLS, grid coordinates XS YS)
mirror new NPIX NMODES ROWS | assign V | alias H | edit H I X | flatten | random V
       | setif NPIX NMODES ROWS | read    -> ok … (read: ok VECTOR hit|miss; the K-th read, K = 0,1,…, hands out array K)
       | sedit K I X                      -> ok      (in-place edit of handed-out surface array K)
       | held K                           -> ok VECTOR (contents of handed-out surface array K)
       | opd                              -> ok VECTOR hit|miss  (`readOpd`: one read of the surface — it takes an ordinal K
                                             like a read, nobody keeps that array — and the doubled values)
       | segset NSEG ID P T TL            -> ok      (`setSegment`: set_segment_actuators on a mirror of NSEG segments)
       | segget NSEG ID                   -> ok P T TL (`getSegment`: get_segment_actuators)
       | phase WL                         -> ok TURNS hit|miss   (`readPhase`: phase_for(WL) = 2π·TURNS; a read like opd)
       | forward|backward WL AMPS TURNS   -> ok AMPS' TURNS' POWER hit|miss  (`forward`/`backward` on the field AMPS·exp(2πi·TURNS); a read like opd)
       | ideal                            -> ok SURFACE OPD | err spec-diverged
                                             (the cache-free specification, stepped alongside by `Spec.step`: its read and its opd;
                                              `err` when its state is not `spec` of the cached mirror's state)
```
-/
namespace HcipyVerif.Driver.C14
open HcipyVerif.Proto HcipyVerif.ModeBasis HcipyVerif.Mirror

structure St where
  regs : List (String × Basis CRat) := []
  mirror : Option (Mirror CRat) := none
  /-- the cache-free specification, stepped alongside the mirror -/
  ideal : Option (Spec CRat) := none

def parseC? (s : String) : Option CRat :=
  match s.splitOn ":" with
  | [a] => (parseRat? a).map fun r => ⟨r, 0⟩
  | [a, b] => do let r ← parseRat? a; let i ← parseRat? b; pure ⟨r, i⟩
  | _ => none

def showC (c : CRat) : String :=
  if c.im = 0 then showRat c.re else s!"{showRat c.re}:{showRat c.im}"

def parseVec? := parseListWith? parseC?
def showVec := showList showC

def parseLists? {α} (p : String → Option (List α)) (s : String) : Option (List (List α)) :=
  if s == "-" then some [] else (s.splitOn ";").mapM p

def parseMat? := parseLists? parseVec?

def showMat (m : List (List CRat)) : String :=
  if m.isEmpty then "-" else ";".intercalate (m.map showVec)

def desc (b : Basis CRat) : String :=
  s!"{if b.isSparse then "sparse" else "dense"} {b.npix} {b.nmodes} {showMat (toDense b)}"

def lookup (st : St) (n : String) : Option (Basis CRat) := (st.regs.find? (·.1 == n)).map (·.2)

def store (st : St) (n : String) (b : Basis CRat) : St :=
  { st with regs := (n, b) :: st.regs.filter (·.1 != n) }

def parseOptInt? (s : String) : Option (Option Int) :=
  if s == "-" then some none else (parseInt? s).map some

def parseIndex? : List String → Option Index
  | ["int", k] => (parseInt? k).map Index.int
  | ["slice", a, b, c] => do
    let a ← parseOptInt? a; let b ← parseOptInt? b; let c ← parseOptInt? c
    pure (Index.slice a b c)
  | ["list", l] => (parseIntList? l).map Index.list
  | ["mask", l] => do
    let l ← parseNatList? l
    if l.all (fun x => x ≤ 1) then pure (Index.mask (l.map (· == 1))) else none
  | _ => none

def showErr : IdxErr → String
  | .index => "err index"
  | .value => "err value"

def wellShaped (npix nmodes : Nat) (rows : List (List CRat)) : Bool :=
  rows.length == npix && rows.all (·.length == nmodes)

def nnz : Basis CRat → Nat
  | .dense n m _ => n * m
  | .sparse _ _ cols => (cols.map List.length).sum

def parseMode? (s : String) : Option (Mode CRat) :=
  match s.splitOn "|" with
  | ["d", v] => (parseVec? v).map Mode.vec
  | ["s", nr, nc, idx, vals] => do
    let nr ← parseNat? nr; let nc ← parseNat? nc
    let ix ← parseNatList? idx; let vs ← parseVec? vals
    if ix.length == vs.length then pure (Mode.sp nr nc (ix.zip vs)) else none
  | _ => none

/-- the description of the Python object handed to `ModeBasis(...)`; the shapes and index ranges
that NumPy/SciPy guarantee are validated by `Input.valid` (never defaulted) — the predicate
`fromInput_WF` is about -/
def parseInput? (args : List String) : Option (Input CRat) := do
  let inp ← (match args with
    | ["ndarray", npix, nmodes, rows] => do
      let n ← parseNat? npix; let m ← parseNat? nmodes; let r ← parseMat? rows
      pure (Input.ndarray n m r)
    | ["spmat", fmt, npix, nmodes, p, q, data] => do
      let n ← parseNat? npix; let m ← parseNat? nmodes
      let p ← parseNatList? p; let q ← parseNatList? q; let d ← parseVec? data
      let f ← (match fmt with | "csc" => some SpFmt.csc | "csr" => some SpFmt.csr | "coo" => some SpFmt.coo | _ => none)
      pure (Input.spmat f n m p q d)
    | ["seq", kind, items] => do
      let t ← (if kind == "tuple" then some true else if kind == "list" then some false else none)
      let ms ← (if items == "-" then some [] else (items.splitOn ";").mapM parseMode?)
      pure (Input.seq t ms)
    | _ => none)
  if inp.valid then pure inp else none

def mirrorStep (st : St) : List String → St × String
  | ["new", npix, nmodes, rows] =>
    match parseNat? npix, parseNat? nmodes, parseMat? rows with
    | some n, some m, some r =>
      if wellShaped n m r then
        ({ st with mirror := some (Mirror.init r m), ideal := some (spec (Mirror.init r m)) }, "ok")
      else (st, "bad-op")
    | _, _, _ => (st, "bad-op")
  | args =>
    match st.mirror with
    | none => (st, "bad-op")
    | some mir =>
      let fin (op : Op CRat) (out : Mirror CRat → String) : St × String :=
        let r := Mirror.step mir op
        ({ st with mirror := some r.1, ideal := st.ideal.map fun s => (s.step op).1 }, out r.1)
      match args with
      | ["assign", v] =>
        match parseVec? v with
        | some v => fin (.assign v) fun m => s!"ok {m.cur}"
        | none => (st, "bad-op")
      | ["random", v] =>
        match parseVec? v with
        | some v => fin (.random v) fun m => s!"ok {m.cur}"
        | none => (st, "bad-op")
      | ["alias", h] =>
        match parseNat? h with
        | some h => if h < mir.heap.length then fin (.reassign h) fun m => s!"ok {m.cur}" else (st, "bad-op")
        | none => (st, "bad-op")
      | ["edit", h, i, x] =>
        match parseNat? h, parseNat? i, parseC? x with
        | some h, some i, some x =>
          if h < mir.heap.length && i < (mir.heap.getD h []).length then fin (.edit h i x) fun _ => "ok"
          else (st, "bad-op")
        | _, _, _ => (st, "bad-op")
      | ["flatten"] => fin .flatten fun m => s!"ok {m.cur}"
      | ["setif", npix, nmodes, rows] =>
        match parseNat? npix, parseNat? nmodes, parseMat? rows with
        | some n, some m, some r =>
          if wellShaped n m r then fin (.setInfl r m) fun _ => "ok" else (st, "bad-op")
        | _, _, _ => (st, "bad-op")
      | ["read"] =>
        let hit := decide (mir.cached = some (acts mir))
        let r := Mirror.read mir
        ({ st with mirror := some r.1, ideal := st.ideal.map fun s => (s.step .read).1 },
          s!"ok {showVec r.2} {if hit then "hit" else "miss"}")
      | ["opd"] =>
        let hit := decide (mir.cached = some (acts mir))
        let r := Mirror.readOpd mir
        ({ st with mirror := some r.1, ideal := st.ideal.map fun s => (s.step .read).1 },
          s!"ok {showVec r.2} {if hit then "hit" else "miss"}")
      | ["segset", nseg, id, p, t, tl] =>
        -- `set_segment_actuators(id, p, t, tl)` on a mirror of NSEG segments (`setSegment`: three in-place edits)
        match parseNat? nseg, parseNat? id, parseC? p, parseC? t, parseC? tl with
        | some nseg, some id, some p, some t, some tl =>
          if id < nseg && (acts mir).length == 3 * nseg then
            ({ st with mirror := some (setSegment mir nseg id p t tl),
                       ideal := st.ideal.map fun s =>
                         (((s.step (.edit mir.cur id p)).1.step (.edit mir.cur (id + nseg) t)).1.step
                           (.edit mir.cur (id + 2 * nseg) tl)).1 }, "ok")
          else (st, "bad-op")
        | _, _, _, _, _ => (st, "bad-op")
      | ["segget", nseg, id] =>
        match parseNat? nseg, parseNat? id with
        | some nseg, some id =>
          if id < nseg && (acts mir).length == 3 * nseg then
            let r := getSegment mir nseg id
            (st, s!"ok {showC r.1} {showC r.2.1} {showC r.2.2}")
          else (st, "bad-op")
        | _, _ => (st, "bad-op")
      | ["phase", wl] =>
        -- `phase_for(WL)` in turns (`readPhase`): the phase is 2π times the answer
        match parseC? wl with
        | some wl =>
          if wl = 0 then (st, "bad-op") else
          let hit := decide (mir.cached = some (acts mir))
          let r := readPhase wl mir
          ({ st with mirror := some r.1, ideal := st.ideal.map fun s => (s.step .read).1 },
            s!"ok {showVec r.2} {if hit then "hit" else "miss"}")
        | none => (st, "bad-op")
      | ["ideal"] =>
        match st.ideal with
        | some s =>
          if spec mir = s then
            match (s.step .read).2 with
            | some v => (st, s!"ok {showVec v} {showVec s.opd}")
            | none => (st, "err internal")
          else (st, "err spec-diverged")
        | none => (st, "bad-op")
      | ["acts"] => (st, s!"ok {showVec (acts mir)}")
      | ["sedit", k, i, x] =>
        -- in-place edit of the array the K-th read of `dm.surface` returned
        match parseNat? k, parseNat? i, parseC? x with
        | some k, some i, some x =>
          match mir.outs[k]? with
          | some h =>
            if i < (mir.sheap.getD h []).length then fin (.editSurface k i x) fun _ => "ok" else (st, "bad-op")
          | none => (st, "bad-op")
        | _, _, _ => (st, "bad-op")
      | ["held", k] =>
        -- what the caller sees in the array the K-th read returned
        match parseNat? k with
        | some k =>
          match mir.outs[k]? with
          | some h => (st, s!"ok {showVec (mir.sheap.getD h [])}")
          | none => (st, "bad-op")
        | none => (st, "bad-op")
      | [dir, wl, amps, turns] =>
        -- `forward(wf)` / `backward(wf)` for the field `AMPS[i] · exp(2πi · TURNS[i])` at wavelength WL
        match parseC? wl, parseVec? amps, parseVec? turns with
        | some wl, some amps, some turns =>
          if wl = 0 || amps.length != turns.length || amps.length != mir.infl.length
              || (dir != "forward" && dir != "backward") then (st, "bad-op") else
          let e : List (PVal CRat) := List.zipWith PVal.mk amps turns
          let hit := decide (mir.cached = some (acts mir))
          let r := if dir == "forward" then Mirror.forward wl e mir else Mirror.backward wl e mir
          ({ st with mirror := some r.1, ideal := st.ideal.map fun s => (s.step .read).1 },
            s!"ok {showVec (r.2.map (·.amp))} {showVec (r.2.map (·.turns))} {showC (power (fun a => ⟨CRat.normSq a, 0⟩) r.2)} {if hit then "hit" else "miss"}")
        | _, _, _ => (st, "bad-op")
      | _ => (st, "bad-op")

def step (st : St) : List String → St × String
  | ["reset"] => ({}, "ok")
  | "new" :: name :: spec =>
    -- every basis is built by `fromInput` from a description of the Python object
    match parseInput? spec with
    | none => (st, "bad-op")
    | some inp =>
      match fromInput inp with
      | some b => (store st name b, "ok " ++ desc b)
      | none => (st, "err value")
  | ["desc", name] =>
    match lookup st name with
    | some b => (st, "ok " ++ desc b)
    | none => (st, "bad-op")
  | ["nnz", name] =>
    match lookup st name with
    | some b => (st, s!"ok {nnz b}")
    | none => (st, "bad-op")
  | ["lc", name, c] =>
    match lookup st name, parseVec? c with
    | some b, some c => if c.length == b.nmodes then (st, "ok " ++ showVec (linComb b c)) else (st, "bad-op")
    | _, _ => (st, "bad-op")
  | "get" :: name :: dst :: which :: ix =>
    match lookup st name, parseIndex? ix with
    | some b, some ix =>
      if which != "new" && which != "old" then (st, "bad-op") else
      match (if which == "old" then getItemOld b ix else getItem b ix) with
      | .error e => (st, showErr e)
      | .ok (.mode v) => (st, "ok mode " ++ showVec v)
      | .ok (.basis r) => (store st dst r, "ok basis " ++ desc r)
    | _, _ => (st, "bad-op")
  | ["add", a, b, dst] =>
    match lookup st a, lookup st b with
    | some a, some b =>
      match add a b with
      | some r => (store st dst r, "ok " ++ desc r)
      | none => (st, "err value")
    | _, _ => (st, "bad-op")
  | ["extend", a, b, dst] =>
    match lookup st a, lookup st b with
    | some a, some b =>
      match extend a b with
      | some r => (store st dst r, "ok " ++ desc r)
      | none => (st, "err value")
    | _, _ => (st, "bad-op")
  | ["append", a, v, dst] =>
    match lookup st a, parseVec? v with
    | some a, some v =>
      match append a v with
      | some r => (store st dst r, "ok " ++ desc r)
      | none => (st, "err value")
    | _, _ => (st, "bad-op")
  | ["tosparse", a, dst] =>
    match lookup st a with
    | some a => let r := sparsify a; (store st dst r, "ok " ++ desc r)
    | none => (st, "bad-op")
  | ["todense", a, dst] =>
    match lookup st a with
    | some a => let r := densify a; (store st dst r, "ok " ++ desc r)
    | none => (st, "bad-op")
  | ["lstsq", name, y] =>
    match lookup st name, parseVec? y with
    | some b, some y =>
      if y.length != b.npix then (st, "bad-op") else
      match lstsq CRat.conj b y with
      | none => (st, "err rank")
      | some x =>
        -- self-certificate: the normal equations hold exactly
        if certified CRat.conj b x y then (st, "ok " ++ showVec x)
        else (st, "err internal")
    | _, _ => (st, "bad-op")
  | ["sliceidx", n, a, b, c] =>
    -- `slice(A, B, C).indices(N)` and the positions it selects (`-` = None)
    match parseNat? n, parseOptInt? a, parseOptInt? b, parseOptInt? c with
    | some n, some a, some b, some c =>
      match sliceIndices n a b c, sliceIdx n a b c with
      | some t, some l => (st, s!"ok {t.1} {t.2.1} {t.2.2} {showList (fun (x : Nat) => toString x) l}")
      | none, none => (st, "err value")
      | _, _ => (st, "err internal")
    | _, _, _, _ => (st, "bad-op")
  | ["seginfl", npix, cols, xs, ys] =>
    -- the influence functions `SegmentedDeformableMirror` builds from its segments (`segInfl`)
    match parseNat? npix, parseMat? cols, parseVec? xs, parseVec? ys with
    | some n, some cols, some xs, some ys =>
      if xs.length == n && ys.length == n && cols.all (·.length == n) then
        (st, "ok " ++ showMat (segInfl cols xs ys))
      else (st, "bad-op")
    | _, _, _, _ => (st, "bad-op")
  | "mirror" :: rest => mirrorStep st rest
  | _ => (st, "bad-op")

end HcipyVerif.Driver.C14
