import HcipyVerif.Model.Proto
import HcipyVerif.Model.FftGrid
import HcipyVerif.Model.FftIndex
import HcipyVerif.Model.FilterM

/-!
Line-protocol front end of the C02 model.

* `adj std|emu N M Mo δ z dT s w j k` — adjointness of the modelled FFT pipeline on impulses:
  `F_kj` = forward of the unit impulse at `j`, sample `k`; `B_jk` = backward of the unit impulse at
  `k`, sample `j`; answers whether `F_kj·(Δ/2π) = conj(B_jk)·w` holds exactly (coefficients equal,
  phases opposite modulo one turn), followed by both monomials.
* `full N q fov` — whether the request gives a full (uncropped) FFT pair, i.e. `Mo = M`.
* `filterm fwd|bwd n M [re…] [im…] b j` — `filterMX` (`Model/FilterM.lean`): the matrix-field branch of
  `FourierFilter._operation` on one grid axis (`n` samples zero-padded into `M`, cut-out start
  `M/2 - n/2`), transfer function `D r a' b'` = entry `4r + 2a' + b'` of the lists (real and imaginary
  parts, native FFT order), applied to the unit impulse in component `b`, sample `j`; `bwd` uses
  `fmCtrX` (`field_conjugate_transpose`).  Answers all outputs `(a, i)`, component-major, as
  `c:t:r+…` sums separated by `;`.
* `filtermm fwd|bwd n M ncol [re…] [im…] b c j` — `filterMXM`: the same branch on a matrix-valued field of
  tensor shape `(2, ncol)`; unit impulse in row `b`, column `c`, sample `j`; all outputs `(a, c', i)`
  row-major.
-/
namespace HcipyVerif.Driver.C02
open HcipyVerif.Proto HcipyVerif.Fft

structure St where
  dummy : Unit := ()

def showPSum (p : PSum) : String :=
  match p.terms with
  | [] => "0"
  | [x] => s!"{showRat x.c}:{showRat x.t}:{showRat x.r}"
  | _ => "multi"

def showPSumFull (p : PSum) : String :=
  match p.terms with
  | [] => "0"
  | ts => "+".intercalate (ts.map fun x => s!"{showRat x.c}:{showRat x.t}:{showRat x.r}")

def adjointOk (dT w : Rat) (F B : PSum) : Bool :=
  match F.terms, B.terms with
  | [x], [y] => x.c * dT == y.c * w && fracPart (x.t + y.t) == 0 && x.r + y.r == 0
  | [], [] => true
  | _, _ => false

def step (st : St) : List String → St × String
  | ["adj", cfg, N, M, Mo, d, z, dT, s, w, j, k] =>
    match parseNat? N, parseNat? M, parseNat? Mo, parseRat? d, parseRat? z, parseRat? dT,
      parseRat? s, parseRat? w, parseNat? j, parseNat? k with
    | some N, some M, some Mo, some d, some z, some dT, some s, some w, some j, some k =>
      if cfg != "std" && cfg != "emu" then (st, "bad-op")
      else if M = 0 || N > M || Mo > M || j ≥ N || k ≥ Mo then (st, "err value") else
      let g : RCfg := { N := N, M := M, Mo := Mo, δ := d, z := z, dT := dT, s := s,
                        w := PSum.ofRat w, emu := cfg == "emu" }
      let F := fastForward PSum.turns PSum.rad g (PSum.impulse j) k
      let B := fastBackward PSum.turns PSum.rad g (PSum.impulse k) j
      (st, s!"ok {showBool (adjointOk dT w F B)} {showPSum F} {showPSum B}")
    | _, _, _, _, _, _, _, _, _, _ => (st, "bad-op")
  | ["full", N, q, fov] =>
    match parseNat? N, parseRat? q, parseRat? fov with
    | some N, some q, some fov =>
      let M := paddedSize N q
      (st, s!"ok {showBool (outSize M fov == M)} {M} {showRat (roundSlack (q * N))} {showRat (outSlack M fov)}")
    | _, _, _ => (st, "bad-op")
  | ["filterm", dir, n, M, res, ims, b, j] =>
    match parseNat? n, parseNat? M, parseRatList? res, parseRatList? ims, parseNat? b, parseNat? j with
    | some n, some M, some re, some im, some b, some j =>
      if dir != "fwd" && dir != "bwd" then (st, "bad-op")
      else if M = 0 || n = 0 || n > M || re.length != 4 * M || im.length != 4 * M || b > 1 || j ≥ n then
        (st, "err value")
      else
        let outs := filterMImpulse (dir == "bwd") n M re im (b == 1) j
        (st, "ok " ++ ";".intercalate (outs.map showPSumFull))
    | _, _, _, _, _, _ => (st, "bad-op")
  | ["filtermm", dir, n, M, ncol, res, ims, b, c, j] =>
    match parseNat? n, parseNat? M, parseNat? ncol, parseRatList? res, parseRatList? ims, parseNat? b, parseNat? c, parseNat? j with
    | some n, some M, some ncol, some re, some im, some b, some c, some j =>
      if dir != "fwd" && dir != "bwd" then (st, "bad-op")
      else if M = 0 || n = 0 || n > M || ncol = 0 || re.length != 4 * M || im.length != 4 * M || b > 1 || c ≥ ncol || j ≥ n then
        (st, "err value")
      else
        let outs := filterMMImpulse (dir == "bwd") n M ncol re im (b == 1) c j
        (st, "ok " ++ ";".intercalate (outs.map showPSumFull))
    | _, _, _, _, _, _, _, _ => (st, "bad-op")
  | _ => (st, "bad-op")

end HcipyVerif.Driver.C02
