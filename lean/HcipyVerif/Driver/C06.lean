import HcipyVerif.Model.Proto
import HcipyVerif.Model.OpIR
import HcipyVerif.Model.Effects
import HcipyVerif.Model.Elements

/-!
Line-protocol front end of the C06 model.

* `C06 effects NAME` → `ok safe=B retIsInput=B retShares=B writes=a,b|- safeGrid=B safeStokes=B retSharesGrid=B touches=copy,wrap,a,…|- created=N` :
  (`touches`: what the run did to the input object, in order — `.copy()` of it, a wavefront wrapped around its
  array, attribute writes; `created`: number of wavefront objects the run created.)
  (`safeGrid`/`safeStokes`: the checker's verdict on `Effects.viewProg` — the program as it acts on the heap of
  grid objects / Stokes vectors; `retSharesGrid`: does the result point to the input's grid object.) The static verdict of the
  checker on the named effect program of `Model/Elements.lean` and the observable footprint of
  running it (the footprint does not depend on the input value or on the meaning of the array
  operations; the driver runs it on a fixed input with a fixed interpretation).
* `C06 first-fft NAME` → `ok safe=B sharesInput=B overwrite=B` : `safe` on the named effect program and what its
  first Fourier transform is handed (`Elements.firstFft`: the argument uses the caller's buffer / may be overwritten);
  compared with the arguments of the first `fftn` call of a real `FourierFilter` (harness: `first_fft_tie`).
* `C06 first-fft-old NS SD PAD` (bits) → the same for the defect class `fourierFilterIdentityTestOld (castOf NS SD) PAD`
  (new-style fields? field already of the dtype? zero padding?); the harness checks the verdicts against the seeded
  regression's description (rejected exactly for 1 1 0).
* `C06 effects-loop NAME N` → the same for `(loopProgramByName NAME).unroll N`: the program with `N` rounds of its loop
  (scales of a multi-scale coronagraph beyond the first, elements of a layered atmosphere); theorem
  `shipped_loop_programs_safeAll`.
* `C06 internal NAME` → `ok safe=B memo=a,b|- scratch=c|-` : verdict of `safeInternal` on the named
  program with element-internal cells and the attribute names of its memo cells / scratch buffers.
* `C06 history NAME EV…` → `ok safe=B cells=c,… TOK…` : runs `Effects.runHistory` / `Effects.callI` on the named
  program with element-internal cells, from a fresh element, over the events `c:FIELD:WAVELENGTH:GRID` (a call
  with a wavefront of these abstract values) and `s:I:X` (parameter `I` set to `X`).  One token per event: `s` for
  a parameter change; for a call `h<bits>f<bit>` — `cellHit` of every memo cell of the program (in the order of
  `cells=`) in the state `runHistory` reached before the call, and whether the result of `callI` in that state
  equals the result of `callI` on a fresh element with the current parameters (`history_independent`).
* `C06 denote-family FAMILY ARG… @ X1 @ X2 …` → `ok par=lin|conj|mixed expect=lin|conj Y1 Y2 …` : the term of the
  family is built **by `Elements.familyTerm`** (the Lean schema the theorems `family_parity` /
  `family_semilinear` speak about) from the arguments, and evaluated exactly at Gaussian dyadic rationals (`OpIR.CDy`: every float is one) on every
  input vector. `ARG` is `v CLIST` (a vector), `m NROWS CLIST` (a matrix, row major) or `-` (an absent optional
  part); `CLIST = [re,im,re,im,…]`. `expect` is `Family.conj` of the family.
* `C06 keep-excited THETA [x,…]` → `ok [y,…] sumsq=S` : `OpIR.Old.keepExcited` — the model of the *defect class*
  "keep only what this input excites" (homogeneous, not additive: `keepExcited_homogeneous`,
  `keepExcited_not_additive`) — run on exact rationals.  The harness feeds the outputs of this op to its own
  wide-magnitude linearity rule (`wide_tolerance`) as a self-test: the rule must flag the map with a faint term and
  must not flag it on single inputs times a factor.
* `C06 denote-family-blocks R FAMILY ARG… @ X1 @ X2 …` → the same, with `OpIR.denoteBlocks`: every input is a polarised
  field stored component after component (`R` = 2 or 4 components of equal length); the family's term is applied to
  each component (`family_semilinear_blocks`).
-/
namespace HcipyVerif.Driver.C06
open HcipyVerif.Proto HcipyVerif.OpIR HcipyVerif.Effects

structure St where
  dummy : Unit := ()

/-- `n` or `n/d` with `d` a power of two (what a float is): no gcd, no normalisation. -/
def parseDy? (s : String) : Option Dy :=
  match s.splitOn "/" with
  | [n] => (n.toInt?).map fun i => ⟨i, 0⟩
  | [n, d] =>
    match n.toInt?, d.toNat? with
    | some i, some k =>
      let e := Nat.log2 k
      if k ≠ 0 && 2 ^ e = k then some ⟨i, e⟩ else none
    | _, _ => none
  | _ => none

def pairUp : List Dy → Option (List CDy)
  | [] => some []
  | re :: im :: rest => (pairUp rest).map (⟨re, im⟩ :: ·)
  | [_] => none

def parseCList? (s : String) : Option (List CDy) := (parseListWith? parseDy? s).bind pairUp

def chunks {α} (k : Nat) (fuel : Nat) (l : List α) : List (List α) :=
  match fuel with
  | 0 => []
  | fuel + 1 => if l.isEmpty || k = 0 then [] else l.take k :: chunks k fuel (l.drop k)

def parseMat? (n l : String) : Option (List (List CDy)) :=
  match parseNat? n, parseCList? l with
  | some n, some flat =>
    if n = 0 then (if flat.isEmpty then some [] else none)
    else if flat.length % n ≠ 0 then none
    else some (chunks (flat.length / n) n flat)
  | _, _ => none

/-- `v CLIST | m NROWS CLIST | -` …, up to the end of the token list. -/
def parseArgs : Nat → List String → Option (List (HcipyVerif.Elements.Arg CDy))
  | _, [] => some []
  | 0, _ => none
  | fuel + 1, "-" :: rest => (parseArgs fuel rest).map (.none :: ·)
  | fuel + 1, "v" :: l :: rest =>
    match parseCList? l, parseArgs fuel rest with
    | some v, some as => some (.vec v :: as)
    | _, _ => none
  | fuel + 1, "m" :: n :: l :: rest =>
    match parseMat? n l, parseArgs fuel rest with
    | some A, some as => some (.mat A :: as)
    | _, _ => none
  | _, _ => none

/-- split `a b @ c @ d` into `[a,b]` and `[[c],[d]]` -/
def splitAt (toks : List String) : List (List String) :=
  toks.foldr (fun t acc => if t == "@" then [] :: acc else
    match acc with
    | g :: gs => (t :: g) :: gs
    | [] => [[t]]) [[]]

def showCList (l : List CDy) : String :=
  "[" ++ ",".intercalate (l.map fun z => showRat z.re.toRat ++ "," ++ showRat z.im.toRat) ++ "]"

def showParity : Option Bool → String
  | some false => "lin" | some true => "conj" | none => "mixed"

def showAttr : Attr → String
  | .wavelength => "wavelength" | .stokes => "stokes" | .grid => "grid"

/-- A fixed interpretation of the array operations and a fixed input, for running programs. -/
def demoSem (op : Nat) (args : List Int) : Int := args.foldl (fun acc a => 31 * acc + a) (op : Int)
def demoIn : InVal := ⟨5, 3, 7, 11⟩

/-- interpretation of the opaque operations for histories: polynomial hashes (injective enough) -/
def histSem : ISem :=
  { s1 := fun f a => 1000003 * (f : Int) + 31 * a + 7,
    s2 := fun f a b => 1000003 * (f : Int) + 8191 * a + 131 * b + 11 }

def parseEvent? (s : String) : Option Event :=
  match s.splitOn ":" with
  | ["c", f, w, g] =>
    match parseInt? f, parseInt? w, parseInt? g with
    | some f, some w, some g => some (.call ⟨f, w, 0, g⟩)
    | _, _, _ => none
  | ["s", i, x] =>
    match parseNat? i, parseInt? x with
    | some i, some x => some (.setParam i x)
    | _, _ => none
  | _ => none

/-- token of event number `k` of the history `evs`, for program `p` -/
def historyToken (p : IProg) (evs : List Event) (k : Nat) : String :=
  match evs[k]? with
  | some (.call v) =>
    let E := runHistory histSem p (EState.fresh fun _ => 0) (evs.take k)
    let hits := (memoCells p).map fun c => showBool (cellHit p E v c)
    let same := (callI histSem p E v).1 == (callI histSem p (EState.fresh E.params) v).1
    "h" ++ String.join hits ++ "f" ++ showBool same
  | some (.setParam _ _) => "s"
  | none => "?"

/-- the answer of `effects` / `effects-loop` for program `p` -/
def effectsAnswer (p : Prog) : String :=
  let o := call demoSem p demoIn
  let w := if o.writes.isEmpty then "-" else ",".intercalate (o.writes.map showAttr)
  let sg := match retSharesAttr demoSem .grid p demoIn with
    | some b => showBool b | none => "-"
  let showTouch : Touch → String
    | .copyInput => "copy" | .wrapInput => "wrap" | .write a => showAttr a
  let t := if o.touches.isEmpty then "-" else ",".intercalate (o.touches.map showTouch)
  s!"ok safe={showBool (safe p)} retIsInput={showBool o.retIsInput} retShares={showBool o.retSharesBuf} writes={w} safeGrid={showBool (safeAttr .grid p)} safeStokes={showBool (safeAttr .stokes p)} retSharesGrid={sg} touches={t} created={o.created}"

def bit? : String → Option Bool
  | "1" => some true
  | "0" => some false
  | _ => none

def firstFftAnswer (p : Prog) : String :=
  match HcipyVerif.Elements.firstFft demoSem p demoIn with
  | some (sh, ip) => s!"ok safe={showBool (safe p)} sharesInput={showBool sh} overwrite={showBool ip}"
  | none => s!"ok safe={showBool (safe p)} sharesInput=- overwrite=-"

def step (st : St) : List String → St × String
  | ["first-fft-old", ns, sd, pd] =>
    match bit? ns, bit? sd, bit? pd with
    | some ns, some sd, some pd =>
      (st, firstFftAnswer (HcipyVerif.Elements.fourierFilterIdentityTestOld (HcipyVerif.Elements.castOf ns sd) pd))
    | _, _, _ => (st, "bad-op")
  | ["first-fft", name] =>
    match HcipyVerif.Elements.programByName name with
    | some p => (st, firstFftAnswer p)
    | none => (st, "bad-op")
  | ["effects", name] =>
    match HcipyVerif.Elements.programByName name with
    | some p => (st, effectsAnswer p)
    | none => (st, "bad-op")
  | ["effects-loop", name, n] =>
    match HcipyVerif.Elements.loopProgramByName name, parseNat? n with
    | some L, some n => (st, effectsAnswer (L.unroll n))
    | _, _ => (st, "bad-op")
  | ["internal", name] =>
    match HcipyVerif.Elements.internalByName name with
    | some (p, memo, scratch) =>
      let sh := fun (l : List String) => if l.isEmpty then "-" else ",".intercalate l
      (st, s!"ok safe={showBool (safeInternal p)} memo={sh memo} scratch={sh scratch}")
    | none => (st, "bad-op")
  | "history" :: name :: evToks =>
    match HcipyVerif.Elements.internalByName name, evToks.mapM parseEvent? with
    | some (p, _, _), some evs =>
      let cells := memoCells p
      let cs := if cells.isEmpty then "-" else ",".intercalate (cells.map toString)
      let toks := (List.range evs.length).map (historyToken p evs)
      (st, s!"ok safe={showBool (safeInternal p)} cells={cs} {" ".intercalate toks}")
    | _, _ => (st, "bad-op")
  | "denote-family" :: fam :: rest =>
    match HcipyVerif.Elements.Family.ofString? fam, splitAt rest with
    | some f, argToks :: inputs =>
      match parseArgs (argToks.length + 1) argToks, inputs.mapM (fun g => match g with
          | [v] => parseCList? v
          | _ => none) with
      | some args, some xs =>
        if xs.isEmpty then (st, "bad-op") else
        match HcipyVerif.Elements.familyTerm f args with
        | some t =>
          let outs := xs.map fun x => showCList (denote CDy.conj t x)
          (st, s!"ok par={showParity (parity t)} expect={showParity (some f.conj)} {" ".intercalate outs}")
        | none => (st, "bad-args")
      | _, _ => (st, "bad-op")
    | _, _ => (st, "bad-op")
  | "denote-family-blocks" :: reps :: fam :: rest =>
    match parseNat? reps, HcipyVerif.Elements.Family.ofString? fam, splitAt rest with
    | some r, some f, argToks :: inputs =>
      match parseArgs (argToks.length + 1) argToks, inputs.mapM (fun g => match g with
          | [v] => parseCList? v
          | _ => none) with
      | some args, some xs =>
        if xs.isEmpty || r = 0 || xs.any (fun x => x.length % r != 0) then (st, "bad-op") else
        match HcipyVerif.Elements.familyTerm f args with
        | some t =>
          let outs := xs.map fun x => showCList (denoteBlocks CDy.conj t (x.length / r) r x)
          (st, s!"ok par={showParity (parity t)} expect={showParity (some f.conj)} {" ".intercalate outs}")
        | none => (st, "bad-args")
      | _, _ => (st, "bad-op")
    | _, _, _ => (st, "bad-op")
  | ["keep-excited", th, xs] =>
    match parseRat? th, parseRatList? xs with
    | some θ, some x => (st, s!"ok {showRatList (Old.keepExcited θ x)} sumsq={showRat (Old.sumsq x)}")
    | _, _ => (st, "bad-op")
  | _ => (st, "bad-op")

end HcipyVerif.Driver.C06
