import HcipyVerif.Model.Proto
import HcipyVerif.Model.OpIR
import HcipyVerif.Model.Effects
import HcipyVerif.Model.Elements

/-!
Line-protocol front end of the C06 model.

* `C06 effects NAME` → `ok safe=B retIsInput=B retShares=B writes=a,b|-` : the static verdict of the
  checker on the named effect program of `Model/Elements.lean` and the observable footprint of
  running it (the footprint does not depend on the input value or on the meaning of the array
  operations; the driver runs it on a fixed input with a fixed interpretation).
* `C06 internal NAME` → `ok safe=B memo=a,b|- scratch=c|-` : verdict of `safeInternal` on the named
  program with element-internal cells and the attribute names of its memo cells / scratch buffers.
* `C06 denote TERM @ [re,im,re,im,…]` → `ok par=lin|conj|mixed [re,im,…]` : exact evaluation of an
  operator term at Gaussian rationals. `TERM` is prefix notation over tokens:
  `id | zero N | mul CLIST | mat NROWS CLIST | add T T | sub T T | comp T T | scale RE IM T | conj`.
-/
namespace HcipyVerif.Driver.C06
open HcipyVerif.Proto HcipyVerif.OpIR HcipyVerif.Effects

structure St where
  dummy : Unit := ()

def pairUp : List Rat → Option (List CRat)
  | [] => some []
  | re :: im :: rest => (pairUp rest).map (⟨re, im⟩ :: ·)
  | [_] => none

def parseCList? (s : String) : Option (List CRat) := (parseRatList? s).bind pairUp

def chunks {α} (k : Nat) (fuel : Nat) (l : List α) : List (List α) :=
  match fuel with
  | 0 => []
  | fuel + 1 => if l.isEmpty || k = 0 then [] else l.take k :: chunks k fuel (l.drop k)

/-- Prefix parser; returns the term and the unread tokens. -/
def parseTerm : Nat → List String → Option (Term CRat × List String)
  | 0, _ => none
  | _ + 1, [] => none
  | fuel + 1, tok :: rest =>
    match tok with
    | "id" => some (.id, rest)
    | "conj" => some (.conj, rest)
    | "zero" =>
      match rest with
      | n :: rest => (parseNat? n).map fun n => (.zero n, rest)
      | [] => none
    | "mul" =>
      match rest with
      | l :: rest => (parseCList? l).map fun m => (.mulField m, rest)
      | [] => none
    | "mat" =>
      match rest with
      | n :: l :: rest =>
        match parseNat? n, parseCList? l with
        | some n, some flat =>
          if n = 0 then (if flat.isEmpty then some (.matrix [], rest) else none)
          else if flat.length % n ≠ 0 then none
          else some (.matrix (chunks (flat.length / n) n flat), rest)
        | _, _ => none
      | _ => none
    | "scale" =>
      match rest with
      | re :: im :: rest =>
        match parseRat? re, parseRat? im, parseTerm fuel rest with
        | some re, some im, some (t, rest) => some (.scale ⟨re, im⟩ t, rest)
        | _, _, _ => none
      | _ => none
    | "add" =>
      match parseTerm fuel rest with
      | some (s, rest) => (parseTerm fuel rest).map fun (t, rest) => (.add s t, rest)
      | none => none
    | "sub" =>
      match parseTerm fuel rest with
      | some (s, rest) => (parseTerm fuel rest).map fun (t, rest) => (.sub s t, rest)
      | none => none
    | "comp" =>
      match parseTerm fuel rest with
      | some (s, rest) => (parseTerm fuel rest).map fun (t, rest) => (.comp s t, rest)
      | none => none
    | _ => none

def showCList (l : List CRat) : String :=
  "[" ++ ",".intercalate (l.map fun z => showRat z.re ++ "," ++ showRat z.im) ++ "]"

def showParity : Option Bool → String
  | some false => "lin" | some true => "conj" | none => "mixed"

def showAttr : Attr → String
  | .wavelength => "wavelength" | .stokes => "stokes" | .grid => "grid"

/-- A fixed interpretation of the array operations and a fixed input, for running programs. -/
def demoSem (op : Nat) (args : List Int) : Int := args.foldl (fun acc a => 31 * acc + a) (op : Int)
def demoIn : InVal := ⟨5, 3, 7, 11⟩

def step (st : St) : List String → St × String
  | ["effects", name] =>
    match HcipyVerif.Elements.programByName name with
    | some p =>
      let o := call demoSem p demoIn
      let w := if o.writes.isEmpty then "-" else ",".intercalate (o.writes.map showAttr)
      (st, s!"ok safe={showBool (safe p)} retIsInput={showBool o.retIsInput} retShares={showBool o.retSharesBuf} writes={w}")
    | none => (st, "bad-op")
  | ["internal", name] =>
    match HcipyVerif.Elements.internalByName name with
    | some (p, memo, scratch) =>
      let sh := fun (l : List String) => if l.isEmpty then "-" else ",".intercalate l
      (st, s!"ok safe={showBool (safeInternal p)} memo={sh memo} scratch={sh scratch}")
    | none => (st, "bad-op")
  | "denote" :: rest =>
    match parseTerm (rest.length + 1) rest with
    | some (t, ["@", v]) =>
      match parseCList? v with
      | some x => (st, s!"ok par={showParity (parity t)} {showCList (denote CRat.conj t x)}")
      | none => (st, "bad-op")
    | _ => (st, "bad-op")
  | _ => (st, "bad-op")

end HcipyVerif.Driver.C06
