import HcipyVerif.Model.Proto
import HcipyVerif.Model.Detector

/-! Line-protocol front end of the C17 model (detectors).

```
new noiseless <s> <dims>                one detector per `new`; dims = coarse shape, slowest first; <s> = one factor
                                        (`Geom.uniform`) or a list of per-axis factors in the order of dims
new noisy <s> <dims> <dark> <flat|->    NoisyDetector, photon noise off, read noise 0 (`pInit`; `0 -` = `allOff`)
set flat|dark|sigma <list>              assign a parameter (one value per pixel); set photon 0|1
int <power-list> <dt> <weight>          -> ok | err value
read                                    -> ok <image-list>            (noiseless: `step`)
                                           ok <image-list> off|on     (noisy: `pStep`; the flag is `PSt.off` before the read-out)
                                           ok random off|on           (noisy with photon or read noise on)
readrng <δ-list> <z-list>               noisy read-out with the random draws given (`pReadOutRng`): δ = Poisson draw − expectation,
                                        z = standard-normal deviates of the read noise
                                        -> ok <image-list> <lam-list|-> <spec-list|->
                                        lam = what the photon-noise stage is handed (`-` when it is off); spec = the closed form
                                        `Σ bin(p)·dt·w ⊕ dark·Σ dt·w` (`sumCharges`, `darkTime`) over the integrations since the last
                                        read-out (`-` when the dark current rate was assigned during the exposure)
imgs                                    -> ok <list;list;…|->   `images` of all observations so far: the images returned, in order
                                        (read-outs with photon / read noise on are not images)
twin                                    noisy kinds: -> ok <list;…|->  the images a noiseless detector returns on the history with the
                                        setters removed (`reads g {} (strip history)`)
tint input|foreign|plain                the grid label of the power handed to integrate (`tStep`)   -> ok
tread                                   -> ok detector|input|foreign   (label of the image read out)
ntset dark|flat|sigma none|detector|input|foreign   the grid a parameter map of the noisy detector carries (`ntStep`) -> ok
ntint input|foreign|plain / ntread      the same for the noisy pipeline (`ntStep`)
wcreate <re> <im> <wt>                  a new Wavefront object (handle = number of objects so far)   -> ok
wfield <j> <re> <im> / wweights <j> <wt>   the caller changes object j                                 -> ok
wint <j> <dt> <w> / wread               integrate object j as it is now / read out (`wStep`)          -> as int / read

reference-level model of the noiseless detector (`rStep`; a handle is the position in the list of references
handed to the caller, counted from 0 in the order `ralloc` / `rread` hand them out):
ralloc <list>                           the caller creates a power buffer       -> ok
rwrite <handle> <list>                  the caller overwrites an array it holds -> ok | err ref
rint <handle> <dt> <weight>             integrate with that buffer              -> ok | err value
rread                                   -> ok <image-list>   (the new array, as it is when returned)
rdump                                   -> ok <[ref,…]> <list;list;…>  references and present contents of all handles
```
-/
namespace HcipyVerif.Driver.C17
open HcipyVerif.Proto HcipyVerif.Detector HcipyVerif.Binning

inductive Kind where | noiseless | noisy
deriving BEq

structure St where
  kind : Kind := .noiseless
  geom : Geom := Geom.uniform []
  st : Detector.St Rat := {}
  pst : PSt Rat := { flat := [], dark := [], sigma := [] }
  rst : RSt Rat := {}
  tst : TSt := {}
  /-- re-used wavefront objects (`wStep`) and the grid label through the noisy pipeline (`ntStep`) -/
  wst : WSt Rat := {}
  ntst : NTSt := {}
  /-- every observation of the history so far (`run` / `pRun` collect exactly this list) -/
  obs : List (Obs Rat) := []
  /-- the history of a noisy detector so far, setters included -/
  pops : List (POp Rat) := []
  /-- noisy kinds: the integrations accepted since the last read-out, and whether the dark current rate has stayed
  what it was when the first of them was made (then the closed form of `noisy_charge_is_sum_plus_dark` applies) -/
  cur : List (List Rat × Rat × Rat) := []
  darkConst : Bool := true

/-- `<s>`: one factor for every axis, or a list of per-axis factors (same order and length as `dims`, none zero) -/
def parseGeom? (s dims : String) : Option Geom :=
  match parseNatList? dims with
  | none => none
  | some dims =>
    match parseNat? s with
    | some s => if s = 0 then none else some (Geom.uniform dims s)
    | none =>
      match parseNatList? s with
      | some ss => if h : ss.length = dims.length then (if ss.contains 0 then none else some { dims := dims, ss := ss, hl := h }) else none
      | none => none

def showObs : Obs Rat → String
  | .done => "ok"
  | .refused => "err value"
  | .image img => "ok " ++ showRatList img
  | .failed => "err attribute"
  | .random => "ok random"

def apply (st : St) (op : Op Rat) : St × String :=
  match st.kind with
  | .noiseless => let r := Detector.step st.geom st.st op; ({ st with st := r.1, obs := st.obs ++ [r.2] }, showObs r.2)
  | .noisy =>
    let r := Detector.pStep st.geom st.pst (lift op)
    let flag := match op with
      | .readOut => if st.pst.off st.geom then " off" else " on"
      | _ => ""
    let cur := match op, r.2 with
      | .integrate p dt w, .done => st.cur ++ [(p, dt, w)]
      | .integrate _ _ _, _ => st.cur
      | .readOut, _ => []
    let dc := match op with
      | .readOut => true
      | _ => st.darkConst
    ({ st with pst := r.1, obs := st.obs ++ [r.2], pops := st.pops ++ [lift op], cur := cur, darkConst := dc }, showObs r.2 ++ flag)

def step (st : St) : List String → St × String
  | ["reset"] => ({}, "ok")
  | ["new", kind, s, dims] =>
    match parseGeom? s dims with
    | some g =>
      match kind with
      | "noiseless" => ({ kind := .noiseless, geom := g }, "ok")
      | _ => (st, "bad-op")
    | none => (st, "bad-op")
  | ["new", "noisy", s, dims, dark, flat] =>
    match parseGeom? s dims, parseRat? dark with
    | some g, some dark =>
      let n := g.npix
      let flat? := if flat == "-" then some (List.replicate n (1 : Rat)) else parseRatList? flat
      match flat? with
      | some fl =>
        if fl.length ≠ n then (st, "bad-op") else
        ({ kind := .noisy, geom := g, pst := pInit g dark fl }, "ok")
      | none => (st, "bad-op")
    | _, _ => (st, "bad-op")
  | ["readrng", d, z] =>
    if st.kind != .noisy then (st, "bad-op") else
    match parseRatList? d, parseRatList? z with
    | some d, some z =>
      if d.length ≠ st.geom.npix || z.length ≠ st.geom.npix then (st, "bad-op") else
      let r := pReadOutRng st.geom st.pst d z
      ({ st with pst := r.1, pops := st.pops ++ [.readOut], cur := [], darkConst := true }, "ok " ++ showRatList r.2 ++ " " ++
        (if st.pst.photon then showRatList (st.pst.lam st.geom) else "-") ++ " " ++
        (if st.darkConst then
          showRatList (vadd (sumCharges st.geom st.cur) (st.pst.dark.map (· * darkTime st.cur))) else "-"))
    | _, _ => (st, "bad-op")
  | ["int", p, dt, w] =>
    match parseRatList? p, parseRat? dt, parseRat? w with
    | some p, some dt, some w => apply st (.integrate p dt w)
    | _, _, _ => (st, "bad-op")
  | ["read"] => apply st .readOut
  | ["imgs"] => (st, "ok " ++ showRatLists (images st.obs))
  | ["twin"] =>
    if st.kind != .noisy then (st, "bad-op") else
    (st, "ok " ++ showRatLists (images (reads st.geom ({} : Detector.St Rat) (strip st.pops))))
  | ["wcreate", re, im, wt] =>
    match parseRatList? re, parseRatList? im, parseRatList? wt with
    | some re, some im, some wt => ({ st with wst := (wStep st.geom st.wst (.create re im wt)).1 }, "ok")
    | _, _, _ => (st, "bad-op")
  | ["wfield", j, re, im] =>
    match parseNat? j, parseRatList? re, parseRatList? im with
    | some j, some re, some im =>
      if j < st.wst.wfs.length then ({ st with wst := (wStep st.geom st.wst (.setField j re im)).1 }, "ok") else (st, "bad-op")
    | _, _, _ => (st, "bad-op")
  | ["wweights", j, wt] =>
    match parseNat? j, parseRatList? wt with
    | some j, some wt =>
      if j < st.wst.wfs.length then ({ st with wst := (wStep st.geom st.wst (.setWeights j wt)).1 }, "ok") else (st, "bad-op")
    | _, _ => (st, "bad-op")
  | ["wint", j, dt, w] =>
    match parseNat? j, parseRat? dt, parseRat? w with
    | some j, some dt, some w =>
      if j < st.wst.wfs.length then
        let r := wStep st.geom st.wst (.integrate j dt w)
        ({ st with wst := r.1 }, match r.2 with | some o => showObs o | none => "bad-op")
      else (st, "bad-op")
    | _, _, _ => (st, "bad-op")
  | ["wread"] =>
    let r := wStep st.geom st.wst .readOut
    ({ st with wst := r.1 }, match r.2 with | some o => showObs o | none => "bad-op")
  | ["ntset", prm, tag] =>
    let t? : Option (Option GTag) := match tag with
      | "none" => some none
      | "detector" => some (some .detector)
      | "input" => some (some .input)
      | "foreign" => some (some .foreign)
      | _ => none
    match t?, prm with
    | some t, "dark" => ({ st with ntst := (ntStep st.ntst (.setDark t)).1 }, "ok")
    | some t, "flat" => ({ st with ntst := (ntStep st.ntst (.setFlat t)).1 }, "ok")
    | some t, "sigma" => ({ st with ntst := (ntStep st.ntst (.setSigma t)).1 }, "ok")
    | _, _ => (st, "bad-op")
  | ["ntint", p] =>
    let p? : Option PTag := match p with
      | "input" => some .onInput
      | "foreign" => some .onForeign
      | "plain" => some .plain
      | _ => none
    match p? with
    | some p => ({ st with ntst := (ntStep st.ntst (.integrate p)).1 }, "ok")
    | none => (st, "bad-op")
  | ["ntread"] =>
    let r := ntStep st.ntst .readOut
    ({ st with ntst := r.1 }, match r.2 with
      | some .detector => "ok detector"
      | some .input => "ok input"
      | some .foreign => "ok foreign"
      | none => "bad-op")
  | ["tint", p] =>
    let p? : Option PTag := match p with
      | "input" => some .onInput
      | "foreign" => some .onForeign
      | "plain" => some .plain
      | _ => none
    match p? with
    | some p => ({ st with tst := (tStep st.tst (.integrate p)).1 }, "ok")
    | none => (st, "bad-op")
  | ["tread"] =>
    let r := tStep st.tst .readOut
    ({ st with tst := r.1 }, match r.2 with
      | some .detector => "ok detector"
      | some .input => "ok input"
      | some .foreign => "ok foreign"
      | none => "bad-op")
  | ["ralloc", v] =>
    if st.kind != .noiseless then (st, "bad-op") else
    match parseRatList? v with
    | some v => ({ st with rst := (rStep st.geom st.rst (.alloc v)).1 }, "ok")
    | none => (st, "bad-op")
  | ["rwrite", k, v] =>
    if st.kind != .noiseless then (st, "bad-op") else
    match parseNat? k, parseRatList? v with
    | some k, some v =>
      match st.rst.known[k]? with
      | some r =>
        let res := rStep st.geom st.rst (.write r v)
        ({ st with rst := res.1 }, if res.2 = .done then "ok" else "err ref")
      | none => (st, "err ref")
    | _, _ => (st, "bad-op")
  | ["rint", k, dt, w] =>
    if st.kind != .noiseless then (st, "bad-op") else
    match parseNat? k, parseRat? dt, parseRat? w with
    | some k, some dt, some w =>
      match st.rst.known[k]? with
      | some r =>
        let res := rStep st.geom st.rst (.integrate r dt w)
        ({ st with rst := res.1 }, if res.2 = .done then "ok" else "err value")
      | none => (st, "err ref")
    | _, _, _ => (st, "bad-op")
  | ["rread"] =>
    if st.kind != .noiseless then (st, "bad-op") else
    let res := rStep st.geom st.rst .readOut
    match res.2 with
    | .ref r => ({ st with rst := res.1 }, "ok " ++ showRatList (res.1.at r))
    | _ => (st, "bad-op")
  | ["rdump"] =>
    if st.kind != .noiseless then (st, "bad-op") else
    (st, "ok " ++ showNatList st.rst.known ++ " " ++ showRatLists (st.rst.known.map st.rst.at))
  | ["set", "photon", b] =>
    if st.kind != .noisy then (st, "bad-op") else
    match b with
    | "0" => ({ st with pst := (Detector.pStep st.geom st.pst (.setPhoton false)).1, pops := st.pops ++ [.setPhoton false] }, "ok")
    | "1" => ({ st with pst := (Detector.pStep st.geom st.pst (.setPhoton true)).1, pops := st.pops ++ [.setPhoton true] }, "ok")
    | _ => (st, "bad-op")
  | ["set", what, l] =>
    if st.kind != .noisy then (st, "bad-op") else
    match parseRatList? l with
    | some l =>
      if l.length ≠ st.geom.npix then (st, "bad-op") else
      match what with
      | "flat" => ({ st with pst := (Detector.pStep st.geom st.pst (.setFlat l)).1, pops := st.pops ++ [.setFlat l] }, "ok")
      | "dark" => ({ st with pst := (Detector.pStep st.geom st.pst (.setDark l)).1, pops := st.pops ++ [.setDark l],
                              darkConst := st.darkConst && st.cur.isEmpty }, "ok")
      | "sigma" => ({ st with pst := (Detector.pStep st.geom st.pst (.setSigma l)).1, pops := st.pops ++ [.setSigma l] }, "ok")
      | _ => (st, "bad-op")
    | none => (st, "bad-op")
  | _ => (st, "bad-op")

end HcipyVerif.Driver.C17
