import HcipyVerif.Model.Proto
import HcipyVerif.Model.FieldRef

/-!
Line-protocol front end of the C19 *reference* model (`Model/FieldRef.lean`).

```
C19 ref <sty> <op tokens …>        sty ∈ good | badslice | badarray
op := N x c [v1,…,vk]   x = Field(vals, Grid(c))
    | F x y [v…]        x = Field(vals, y.grid)
    | A y x             y = x
    | C y x             y = x.copy()
    | P y x             y = pickle.loads(pickle.dumps(x))
    | S y x start step len      y = x[start : start+step*len : step]
    | V y x             y = np.asarray(x)
    | Y y x             y = np.array(x, dtype=x.dtype)
    | W x i v           x[i] = v
    | I x v             x += v
```
Answer: `ok <dump after op 0> | <dump after op 1> | …`, a dump being space-separated
`x:<f|a>:[v1,…]:b<bufid>:g<gridid|->:c<content|->` by increasing name (`-` if nothing is bound);
if op `k` fails the dumps of the ops before it are followed by `| E<k>` (`ok E0` if the first fails).
Unparsable input: `none` (the caller answers `bad-op`); nothing is defaulted.
-/
namespace HcipyVerif.Driver.C19Ref
open HcipyVerif.Proto HcipyVerif.FieldRef

def parseSty? : String → Option Sty
  | "good" => some good
  | "badslice" => some badSlice
  | "badarray" => some badArray
  | _ => none

/-- Parse the flat token groups; `fuel` bounds the recursion (one token consumed per op at least). -/
def parseOps? : Nat → List String → Option (List Op)
  | _, [] => some []
  | 0, _ :: _ => none
  | fuel + 1, "N" :: x :: c :: vs :: rest => do
    let x ← parseNat? x; let c ← parseNat? c; let vs ← parseIntList? vs
    let r ← parseOps? fuel rest; pure (.new x c vs :: r)
  | fuel + 1, "F" :: x :: y :: vs :: rest => do
    let x ← parseNat? x; let y ← parseNat? y; let vs ← parseIntList? vs
    let r ← parseOps? fuel rest; pure (.newOn x y vs :: r)
  | fuel + 1, "A" :: y :: x :: rest => do
    let y ← parseNat? y; let x ← parseNat? x
    let r ← parseOps? fuel rest; pure (.alias y x :: r)
  | fuel + 1, "C" :: y :: x :: rest => do
    let y ← parseNat? y; let x ← parseNat? x
    let r ← parseOps? fuel rest; pure (.copy y x :: r)
  | fuel + 1, "P" :: y :: x :: rest => do
    let y ← parseNat? y; let x ← parseNat? x
    let r ← parseOps? fuel rest; pure (.pickle y x :: r)
  | fuel + 1, "S" :: y :: x :: a :: b :: c :: rest => do
    let y ← parseNat? y; let x ← parseNat? x
    let a ← parseNat? a; let b ← parseNat? b; let c ← parseNat? c
    let r ← parseOps? fuel rest; pure (.slice y x a b c :: r)
  | fuel + 1, "V" :: y :: x :: rest => do
    let y ← parseNat? y; let x ← parseNat? x
    let r ← parseOps? fuel rest; pure (.asarray y x :: r)
  | fuel + 1, "Y" :: y :: x :: rest => do
    let y ← parseNat? y; let x ← parseNat? x
    let r ← parseOps? fuel rest; pure (.array y x :: r)
  | fuel + 1, "W" :: x :: i :: v :: rest => do
    let x ← parseNat? x; let i ← parseNat? i; let v ← parseInt? v
    let r ← parseOps? fuel rest; pure (.write x i v :: r)
  | fuel + 1, "I" :: x :: v :: rest => do
    let x ← parseNat? x; let v ← parseInt? v
    let r ← parseOps? fuel rest; pure (.iadd x v :: r)
  | _ + 1, _ => none

def showOptNat : Option Nat → String
  | some n => toString n
  | none => "-"

def showCell : Option Int → String
  | some v => toString v
  | none => "?"

def showEntry (e : Entry) : String :=
  s!"{e.name}:{if e.isField then "f" else "a"}:{showList showCell e.vals}:b{e.buf}:g{showOptNat e.grid}:c{showOptNat e.content}"

def showDump (s : State) : String :=
  match dump s with
  | [] => "-"
  | es => " ".intercalate (es.map showEntry)

def stepRef : List String → Option String
  | sty :: toks => do
    let sty ← parseSty? sty
    let ops ← parseOps? toks.length toks
    let (states, fin) := trace sty ops {}
    let parts := states.map showDump ++ (if fin then [] else [s!"E{states.length}"])
    pure ("ok " ++ " | ".intercalate parts)
  | [] => none

end HcipyVerif.Driver.C19Ref
