import HcipyVerif.Model.Proto
import HcipyVerif.Model.NearField

/-! Line-protocol front end of the C04 model (near-field propagator bookkeeping).

```
C04 setup fresnel|angular nx ny dx dy lam z n q s        (q, s: a scalar or a per-axis pair [x,y])
   -> ok M=[mx,my] cut=y0:y1:x0:x1|none branch=ir|tf slack=… regime=0|1 noevan=0|1 minrad=… nudelta=[…] nuzero=[…]
C04 set distance|refractive_index|num_oversampling|zero_padding|wavelength v   -> ok   (a setter on the same object)
C04 info          -> the setup line for the parameters now in force
C04 tfq qx qy     -> the transfer-function sample that multiplies FFT bin (qy,qx), i.e. the one at the centred index
                      (ix,iy) = `ifftshiftIdx` of the bin (what `modelD` uses):
                      ok at=[ix,iy] turns=[…]   (fresnel: sub-sample phases in turns mod 1)
                    | ok at=[ix,iy] rad=[…] evz=… evzold=…   (angular: sub-sample radicands (n/λ)² - ν²; decay distance
                                                   of evanescent components, repaired and unrepaired code)
C04 emb           -> ok rows=[…] cols=[…] padok=0|1: internal row of every input row, internal column of every input
                      column (`embRows`, `embCols` — the components of `cutoutEmb`)
C04 stokesI [a,b,c,d] [xr,xi,yr,yi,zr,zi,wr,wi] -> ok I=… phys=0|1   (`stokesI`, `stokesPhysical`; stateless)
C04 mdot n 0|1 Dre Dim vre vim -> ok re=[…] im=[…]   (`mdot`: D·v, or Dᴴ·v when the flag is 1; D row-major n², v n; stateless)
C04 filt 0|1 Dre Dim xre xim -> ok re=[…] im=[…]: the `FourierFilter._operation` pipeline itself (`filtOp`: `filterP` /
                      `filterPBackward` = pad at `cutStart`, `Fft.dft2`, `shiftD`, multiply, inverse `Fft.dft2`, crop) on Gaussian
                      rationals, forward (0) or backward (1), for the filter set up (internal sizes must be in {1,2,4});
                      D centred, row-major My·Mx; x row-major ny·nx
C04 filtp 0|1 Dre Dim xre xim -> ok out=c:t,c:t;…: the same pipeline on formal phase sums (`filtOpP`), any internal size with
                      My·Mx ≤ 256: per output pixel (row-major, `;`-separated) the terms `c·exp(2πi t)` as `c:t`
C04 filtmp n 0|1 Dre Dim xre xim -> ok out=…: the pipeline with an n×n matrix transfer function on a vector field (`filtMOpP`:
                      `filterMP` / `filterMPBackward`) on formal phase sums; D index (i·n+j)·My·Mx + pixel, x index t·ny·nx + pixel;
                      n²·My·Mx ≤ 256; output as `filtp`, index t·ny·nx + pixel
C04 prop 0|1 xre xim -> ok out=…: the Fresnel propagator set up (either branch of the regime switch, My·Mx ≤ 256) applied to x,
                      exactly, on formal phase sums (`propOpP`: `fresnelPropagatorForward/Backward psumScalar` = `fourierFilter` with
                      `fresnelTF` (mean of the `fresnelSubTurns` phases) or, on the impulse-response branch, `fresnelIrTF`)
C04 tfx qx qy     -> ok out=c:t,…: the transfer function of the Fresnel propagator set up at FFT bin (qy,qx), exactly, whichever
                      branch `make_instance` takes (`tfOpP` = `fresnelTFSwitched psumScalar`)
C04 dtypes [d…] [s…] -> ok t a d e s;…: dtype / tensor-shape bookkeeping of one `FourierFilter` object over a sequence of calls
                      (`traceCalls`): call i has dtype d_i (0 = complex64, 1 = complex128) and tensor shape code s_i (0 = scalar,
                      2 = (2,), 3 = (3,), 22 = (2,2), …); per call: transfer function recomputed (t), scratch array reallocated (a),
                      dtype of the cached transfer function (d), dtype (e) and shape code (s) of the scratch array afterwards; stateless
C04 ir jy         -> ok amp=… turns=[…] (fresnel) | ok r2=[…] (angular): impulse response on row jy of the
                      enlarged grid, for jx = 0..Mx-1 and all s² dithers (x dither fastest)
```
-/
namespace HcipyVerif.Driver.C04
open HcipyVerif.Proto HcipyVerif.NearField

structure St where
  p : Option Params := none

def parseKind? : String → Option Kind
  | "fresnel" => some .fresnel
  | "angular" => some .angular
  | _ => none

def showCut : Option (Nat × Nat × Nat × Nat) → String
  | none => "none"
  | some (a, b, c, d) => s!"{a}:{b}:{c}:{d}"

/-- `a` (broadcast to both axes) or `[a,b]`. -/
def parseRat2? (s : String) : Option (Rat × Rat) :=
  match parseRat? s with
  | some a => some (a, a)
  | none => match parseRatList? s with
    | some [a, b] => some (a, b)
    | _ => none

def parseNat2? (s : String) : Option (Nat × Nat) :=
  match parseNat? s with
  | some a => some (a, a)
  | none => match parseNatList? s with
    | some [a, b] => some (a, b)
    | _ => none

def info (p : Params) : String :=
  let nd := [nuDelta p.dx (mx p), nuDelta p.dy (my p)]
  let nz := [nu p.dx (mx p) 0 0, nu p.dy (my p) 0 0]
  s!"ok M={showNatList [mx p, my p]} cut={showCut (cutout p)} branch={if impulseBranch p then "ir" else "tf"} " ++
  s!"slack={showRat (branchSlack p)} regime={showBool (statedRegime p)} noevan={showBool (noEvanescent p)} " ++
  s!"minrad={showRat (minRadicand p)} nudelta={showRatList nd} nuzero={showRatList nz}"

def parseSetter? (name val : String) : Option Setter :=
  match name with
  | "distance" => (parseRat? val).map .distance
  | "refractive_index" => (parseRat? val).bind fun n => if n ≤ 0 then none else some (.refractiveIndex n)
  | "num_oversampling" => (parseNat2? val).bind fun s => if s.1 = 0 || s.2 = 0 then none else some (.oversampling s.1 s.2)
  | "zero_padding" => (parseRat2? val).bind fun q => if q.1 < 1 || q.2 < 1 then none else some (.zeroPadding q.1 q.2)
  | "wavelength" => (parseRat? val).bind fun l => if l ≤ 0 then none else some (.wavelength l)
  | _ => none

def shapeOfCode (n : Nat) : List Nat := if n = 0 then [] else if n < 10 then [n] else [n / 10, n % 10]
def codeOfShape : List Nat → Nat
  | [] => 0
  | [a] => a
  | a :: b :: _ => a * 10 + b
def showDt : Dt → String
  | .c64 => "0"
  | .c128 => "1"

def step (st : St) : List String → St × String
  | ["reset"] => ({}, "ok")
  | ["dtypes", ds, ss] =>
    match parseNatList? ds, parseNatList? ss with
    | some ds, some ss =>
      if ds.length ≠ ss.length || ds.any (· > 1) || ss.any (fun c => c ≥ 100 || c % 10 = 0 && c ≠ 0) then (st, "err value") else
      let calls := (ds.zip ss).map fun (d, c) => ({ dt := if d = 0 then .c64 else .c128, ts := shapeOfCode c } : Call)
      let tr := traceCalls {} calls
      let showS := fun (x : Bool × Bool × FState) =>
        let tfd := match x.2.2.tf with | some d => showDt d | none => "-"
        let ad := match x.2.2.arr with | some (d, ts) => s!"{showDt d} {codeOfShape ts}" | none => "- -"
        s!"{showBool x.1} {showBool x.2.1} {tfd} {ad}"
      (st, "ok " ++ ";".intercalate (tr.map showS))
    | _, _ => (st, "bad-op")
  | ["setup", kind, nx, ny, dx, dy, lam, z, n, q, s] =>
    match parseKind? kind, parseNat? nx, parseNat? ny, parseRat? dx, parseRat? dy, parseRat? lam,
          parseRat? z, parseRat? n, parseRat2? q, parseNat2? s with
    | some kind, some nx, some ny, some dx, some dy, some lam, some z, some n, some q, some s =>
      if nx = 0 || ny = 0 || dx ≤ 0 || dy ≤ 0 || lam ≤ 0 || n ≤ 0 || q.1 < 1 || q.2 < 1 || s.1 = 0 || s.2 = 0 then (st, "err value") else
      let p : Params := { kind := kind, nx := nx, ny := ny, dx := dx, dy := dy, lam := lam, z := z, n := n, qx := q.1, qy := q.2, sx := s.1, sy := s.2 }
      ({ p := some p }, info p)
    | _, _, _, _, _, _, _, _, _, _ => (st, "bad-op")
  | ["set", name, val] =>
    match st.p, parseSetter? name val with
    | some p, some su => ({ p := some (withParam p su) }, "ok")
    | none, some _ => (st, "err value")
    | _, none => (st, "bad-op")
  | ["info"] =>
    match st.p with
    | some p => (st, info p)
    | none => (st, "err value")
  | ["tfq", qx, qy] =>
    match st.p, parseNat? qx, parseNat? qy with
    | some p, some qx, some qy =>
      if qx ≥ mx p || qy ≥ my p then (st, "err index") else
      let ix := ifftshiftIdx (mx p) qx
      let iy := ifftshiftIdx (my p) qy
      match p.kind with
      | .fresnel => (st, s!"ok at={showNatList [ix, iy]} turns={showRatList (fresnelSubTurns p ix iy)}")
      | .angular => (st, s!"ok at={showNatList [ix, iy]} rad={showRatList (angularSubRadicands p ix iy)} evz={showRat (evanescentZ p)} evzold={showRat (evanescentZOld p)}")
    | none, some _, some _ => (st, "err value")
    | _, _, _ => (st, "bad-op")
  | ["emb"] =>
    match st.p with
    | some p => (st, s!"ok rows={showNatList (embRows p)} cols={showNatList (embCols p)} padok={showBool (padOK p)}")
    | none => (st, "err value")
  | ["stokesI", sv, e] =>
    match parseRatList? sv, parseRatList? e with
    | some [a, b, c, d], some [xr, xi, yr, yi, zr, zi, wr, wi] =>
      (st, s!"ok I={showRat (stokesI a b c d xr xi yr yi zr zi wr wi)} phys={showBool (stokesPhysical a b c d)}")
    | _, _ => (st, "bad-op")
  | ["mdot", n, adj, dre, dim, vre, vim] =>
    match parseNat? n, parseNat? adj, parseRatList? dre, parseRatList? dim, parseRatList? vre, parseRatList? vim with
    | some n, some adj, some dre, some dim, some vre, some vim =>
      if adj > 1 || dre.length ≠ n * n || dim.length ≠ n * n || vre.length ≠ n || vim.length ≠ n then (st, "err value") else
      let D := (dre.zip dim).map fun (a, b) => (⟨a, b⟩ : GRat)
      let v := (vre.zip vim).map fun (a, b) => (⟨a, b⟩ : GRat)
      let r := mdot n (adj == 1) D v
      (st, s!"ok re={showRatList (r.map (·.re))} im={showRatList (r.map (·.im))}")
    | _, _, _, _, _, _ => (st, "bad-op")
  | ["filt", back, dre, dim, xre, xim] =>
    match st.p, parseNat? back, parseRatList? dre, parseRatList? dim, parseRatList? xre, parseRatList? xim with
    | some p, some back, some dre, some dim, some xre, some xim =>
      let ok4 := fun (m : Nat) => m = 1 || m = 2 || m = 4
      if back > 1 || !(ok4 (my p)) || !(ok4 (mx p)) || !(padOK p) || dre.length ≠ my p * mx p || dim.length ≠ my p * mx p
          || xre.length ≠ p.ny * p.nx || xim.length ≠ p.ny * p.nx then (st, "err value") else
      let D := (dre.zip dim).map fun (a, b) => (⟨a, b⟩ : GRat)
      let x := (xre.zip xim).map fun (a, b) => (⟨a, b⟩ : GRat)
      let r := filtOp p (back == 1) D x
      (st, s!"ok re={showRatList (r.map (·.re))} im={showRatList (r.map (·.im))}")
    | none, some _, some _, some _, some _, some _ => (st, "err value")
    | _, _, _, _, _, _ => (st, "bad-op")
  | ["filtp", back, dre, dim, xre, xim] =>
    match st.p, parseNat? back, parseRatList? dre, parseRatList? dim, parseRatList? xre, parseRatList? xim with
    | some p, some back, some dre, some dim, some xre, some xim =>
      if back > 1 || my p * mx p > 256 || !(padOK p) || dre.length ≠ my p * mx p || dim.length ≠ my p * mx p
          || xre.length ≠ p.ny * p.nx || xim.length ≠ p.ny * p.nx then (st, "err value") else
      let D := (dre.zip dim).map fun (a, b) => (⟨a, b⟩ : GRat)
      let x := (xre.zip xim).map fun (a, b) => (⟨a, b⟩ : GRat)
      let r := filtOpP p (back == 1) D x
      let showT := fun (t : Fft.Term) => if t.r == 0 then s!"{showRat t.c}:{showRat t.t}" else "?"
      (st, "ok out=" ++ ";".intercalate (r.map fun s => ",".intercalate (s.terms.map showT)))
    | none, some _, some _, some _, some _, some _ => (st, "err value")
    | _, _, _, _, _, _ => (st, "bad-op")
  | ["filtmp", n, back, dre, dim, xre, xim] =>
    match st.p, parseNat? n, parseNat? back, parseRatList? dre, parseRatList? dim, parseRatList? xre, parseRatList? xim with
    | some p, some n, some back, some dre, some dim, some xre, some xim =>
      if back > 1 || n = 0 || n * n * (my p * mx p) > 256 || !(padOK p) || dre.length ≠ n * n * (my p * mx p) || dim.length ≠ dre.length
          || xre.length ≠ n * (p.ny * p.nx) || xim.length ≠ xre.length then (st, "err value") else
      let D := (dre.zip dim).map fun (a, b) => (⟨a, b⟩ : GRat)
      let x := (xre.zip xim).map fun (a, b) => (⟨a, b⟩ : GRat)
      let r := filtMOpP p n (back == 1) D x
      let showT := fun (t : Fft.Term) => if t.r == 0 then s!"{showRat t.c}:{showRat t.t}" else "?"
      (st, "ok out=" ++ ";".intercalate (r.map fun s => ",".intercalate (s.terms.map showT)))
    | none, some _, some _, some _, some _, some _, some _ => (st, "err value")
    | _, _, _, _, _, _, _ => (st, "bad-op")
  | ["prop", back, xre, xim] =>
    match st.p, parseNat? back, parseRatList? xre, parseRatList? xim with
    | some p, some back, some xre, some xim =>
      if back > 1 || my p * mx p > 256 || !(padOK p) || p.kind != .fresnel || (impulseBranch p && p.z == 0)
          || xre.length ≠ p.ny * p.nx || xim.length ≠ p.ny * p.nx then (st, "err value") else
      let x := (xre.zip xim).map fun (a, b) => (⟨a, b⟩ : GRat)
      let r := propOpP p (back == 1) x
      let showT := fun (t : Fft.Term) => if t.r == 0 then s!"{showRat t.c}:{showRat t.t}" else "?"
      (st, "ok out=" ++ ";".intercalate (r.map fun s => ",".intercalate (s.terms.map showT)))
    | none, some _, some _, some _ => (st, "err value")
    | _, _, _, _ => (st, "bad-op")
  | ["tfx", qx, qy] =>
    match st.p, parseNat? qx, parseNat? qy with
    | some p, some qx, some qy =>
      if qx ≥ mx p || qy ≥ my p || !(padOK p) || p.kind != .fresnel || (impulseBranch p && p.z == 0) then (st, "err value") else
      let showT := fun (t : Fft.Term) => if t.r == 0 then s!"{showRat t.c}:{showRat t.t}" else "?"
      (st, "ok out=" ++ ",".intercalate ((tfOpP p qy qx).terms.map showT))
    | none, some _, some _ => (st, "err value")
    | _, _, _ => (st, "bad-op")
  | ["ir", jy] =>
    match st.p, parseNat? jy with
    | some p, some jy =>
      if jy ≥ my p then (st, "err index") else
      if p.z = 0 then (st, "err value") else
      match p.kind with
      | .fresnel => (st, s!"ok amp={showRat (fresnelIrAmp p)} turns={showRatList (fresnelIrRow p jy)}")
      | .angular => (st, s!"ok r2={showRatList (angularIrRow p jy)}")
    | none, some _ => (st, "err value")
    | _, _ => (st, "bad-op")
  | _ => (st, "bad-op")

end HcipyVerif.Driver.C04
