import HcipyVerif.Model.Proto
import HcipyVerif.Model.Aperture
import HcipyVerif.Model.AperturePupil
import HcipyVerif.Model.ApertureHistory
import HcipyVerif.Model.ApertureTelescopes

/-!
Line-protocol front end of the C12 model.

```
C12 eval  sep|pts|polar <tol> <xs> <ys> <shape…> →  ok <values> <near flags> <path==pointwise 0/1> [polar: <#points where diskAgree fails away from a boundary>]
C12 super <nx> <ny> <tol> <xs> <ys> <shape…>     →  ok <means> <near flags>  |  err index  |  err zerodiv
C12 superstat mean|sum|min|max <nx> <ny> <tol> <xs> <ys> <shape…>   →  as `super`, for the given statistic
C12 superlist <stat> <nx> <ny> <tol> <xs> <ys> <n> <shape 1> … <shape n>   →  ok <values 1> <flags 1> … | err …
C12 regsub sep <tol> <xs> <ys> <even> <r> <a> <dirs> <cx> <cy>
        →  ok some <y0> <x0> <nr> <nc> <f_sub ravelled> <near flags> <edge 0/1>  |  ok none <edge 0/1>
C12 regsub pts <tol> <xs> <ys> <even> <r> <a> <dirs> <cx> <cy>
        →  ok <mask> <f_sub> <near flags of the masked points> <near-the-box flags of all points>
C12 hexpos <rings> <pitch> <ap> <nsel> <sel…>      →  ok <[x0,y0,x1,y1,…] of the kept segment centres>
C12 hist cart|polar <tol> <xs> <ys> <ops: - | scale:sx:sy;shift:dx:dy;rot:c:s;reverse;weights> <shape…>
        →  ok <values> <near flags> <evalObj==pointwise (where agree) 0/1> <current points [x0,y0,…]>  |  undefined   (`evalAfter`, Model/ApertureHistory.lean)
C12 hexcount luvoir_a|luvoir_b                    →  ok <#kept segments> <rings> <pitch> <ap> <clip radii>   (the constants of Model/ApertureTelescopes.lean)
C12 hexpupil sep|pts|polar <tol> <xs> <ys> <segment|-> <rings> <pitch> <ap> <loop 0/1> <hw> <obs|-> <spiders [px,py,c,s,…]> <trs [..] | s:t> <nsel> <sel…> <segment shape>
        →  as `eval` (the pupil or the i-th returned segment)  |  err trs-length <#positions>  |  err no-segment <#positions>
C12 hicat sep|pts|polar <tol> <xs> <ys> <segment|-> <gaps 0/1> <hw> <spiders> <pitchA> <apA> <pitchB> <apB> <segA shape> <segB shape> <central shape>
   sel ::= nonzero S | notpos S | cpos S | pos S | strips [a,b,c,…]
C12 keck sep|pts|polar …      C12 vlt sep|pts|polar <tol> <xs> <ys> <segment|-> <ro> <ri> <spiders> <start/end points> <m3>
```
`sep`: `xs`, `ys` are the axes of a separated grid (the fast code path is run);
`pts`: `xs`, `ys` are the coordinate arrays of an unstructured grid (the slow path is run);
`polar`: `xs` are the radii, `ys` the interleaved direction cosines `[c0,s0,c1,s1,…]` of a polar grid
(the polar path `evalPolar` is run).
`regsub` reports what `make_regular_polygon_aperture(...)(grid, return_with_mask=True)` returns: the
bounding slices and the sub-array (fast path) resp. the boolean mask and the masked values (slow path).
Shapes are written in prefix notation:
`disk r | halfplane gt a b c | circle r cx cy | ellipse cM sM cm sm cx cy mn | rect hx hy cx cy | regpoly even r a [c0,s0,…] cx cy |
 irrpoly [x0,y0,…] hx hy bx by | spider sx sy c s hl hw | spiderinf px py c s hw | const v |
 compl S | mul S S | sub S S | rot c s S | shift dx dy S | seg [px,py,t,…] S`
-/
namespace HcipyVerif.Driver.C12
open HcipyVerif.Proto HcipyVerif.Aperture

structure St where
  dummy : Unit := ()

def pairs? : List Rat → Option (List (Rat × Rat))
  | [] => some []
  | a :: b :: t => (pairs? t).map ((a, b) :: ·)
  | _ => none

def triples? : List Rat → Option (List (Pt × Rat))
  | [] => some []
  | a :: b :: c :: t => (triples? t).map (((a, b), c) :: ·)
  | _ => none

def rats? (toks : List String) (n : Nat) : Option (List Rat × List String) :=
  if toks.length < n then none else
    ((toks.take n).mapM parseRat?).map fun l => (l, toks.drop n)

def parseShape? : Nat → List String → Option (Shape × List String)
  | 0, _ => none
  | fuel + 1, tok :: rest =>
    match tok with
    | "circle" => do
      let ([r, cx, cy], rest) ← rats? rest 3 | none
      pure (.circle r cx cy, rest)
    | "disk" => do
      let ([r], rest) ← rats? rest 1 | none
      pure (.disk r, rest)
    | "halfplane" =>
      match rest with
      | g :: rest => do
        let g ← (if g == "1" then some true else if g == "0" then some false else none)
        let ([a, b, c], rest) ← rats? rest 3 | none
        pure (.halfplane g a b c, rest)
      | _ => none
    | "ellipse" => do
      let ([a, b, c, d, cx, cy, mn], rest) ← rats? rest 7 | none
      pure (.ellipse a b c d cx cy mn, rest)
    | "rect" => do
      let ([hx, hy, cx, cy], rest) ← rats? rest 4 | none
      pure (.rect hx hy cx cy, rest)
    | "regpoly" =>
      match rest with
      | ev :: r :: a :: dirs :: cx :: cy :: rest => do
        let ev ← (if ev == "1" then some true else if ev == "0" then some false else none)
        let r ← parseRat? r; let a ← parseRat? a
        let dirs ← (parseRatList? dirs).bind pairs?
        let cx ← parseRat? cx; let cy ← parseRat? cy
        pure (.regpoly ev r a dirs cx cy, rest)
      | _ => none
    | "irrpoly" =>
      match rest with
      | vs :: rest => do
        let vs ← (parseRatList? vs).bind pairs?
        let ([hx, hy, bx, by_], rest) ← rats? rest 4 | none
        pure (.irrpoly vs hx hy bx by_, rest)
      | _ => none
    | "spider" => do
      let ([sx, sy, c, s, hl, hw], rest) ← rats? rest 6 | none
      pure (.spider sx sy c s hl hw, rest)
    | "spiderinf" => do
      let ([px, py, c, s, hw], rest) ← rats? rest 5 | none
      pure (.spiderInf px py c s hw, rest)
    | "const" => do
      let ([v], rest) ← rats? rest 1 | none
      pure (.const v, rest)
    | "compl" => do
      let (a, rest) ← parseShape? fuel rest
      pure (.compl a, rest)
    | "mul" => do
      let (a, rest) ← parseShape? fuel rest
      let (b, rest) ← parseShape? fuel rest
      pure (.mul a b, rest)
    | "sub" => do
      let (a, rest) ← parseShape? fuel rest
      let (b, rest) ← parseShape? fuel rest
      pure (.sub a b, rest)
    | "rot" => do
      let ([c, s], rest) ← rats? rest 2 | none
      let (a, rest) ← parseShape? fuel rest
      pure (.rot c s a, rest)
    | "shift" => do
      let ([dx, dy], rest) ← rats? rest 2 | none
      let (a, rest) ← parseShape? fuel rest
      pure (.shift dx dy a, rest)
    | "seg" =>
      match rest with
      | l :: rest => do
        let segs ← (parseRatList? l).bind triples?
        let (a, rest) ← parseShape? fuel rest
        pure (.seg segs a, rest)
      | _ => none
    | _ => none
  | _, [] => none

/-- several shapes one after the other -/
def parseShapes? : Nat → List String → Option (List Shape)
  | _, [] => some []
  | 0, _ => none
  | fuel + 1, toks => do
    let (s, rest) ← parseShape? 1000 toks
    let ss ← parseShapes? fuel rest
    pure (s :: ss)

def parseStat? (stat : String) : Option Stat :=
  if stat == "mean" then some .mean else if stat == "sum" then some .sum
  else if stat == "min" then some .min else if stat == "max" then some .max else none

def parseWhole? (toks : List String) : Option Shape :=
  match parseShape? 1000 toks with
  | some (s, []) => some s
  | _ => none

def evalResp (st : St) (mode : String) (tol : Rat) (xs ys : List Rat) (s : Shape) (selfCheck : Bool := true) : St × String :=
  let flag := fun (b : Unit → Bool) => if selfCheck then showBool (b ()) else "-"
  if mode == "sep" then
    let pts := sepPoints xs ys
    let vals := evalSep s xs ys
    (st, s!"ok {showRatList vals} {showList showBool (pts.map (near tol s))} {flag fun _ => vals == pts.map (val s)}")
  else if mode == "pts" then
    if xs.length != ys.length then (st, "bad-op") else
    let pts := xs.zip ys
    let vals := evalPts s pts
    (st, s!"ok {showRatList vals} {showList showBool (pts.map (near tol s))} {flag fun _ => vals == pts.map (val s)}")
  else if mode == "polar" then
    match pairs? ys with
    | some dirs =>
      if xs.length != dirs.length then (st, "bad-op") else
      let qs : List PPt := (xs.zip dirs).map fun q => (q.1, q.2.1, q.2.2)
      let pts := qs.map toCart
      let vals := evalPolar s qs
      -- `evalPolar = map val ∘ toCart` is a theorem for exact unit direction vectors (`PolarPt`); the floats cos θ,
      -- sin θ are not.  What holds for them is `polar_path_eq_inside_float`: equality wherever `diskAgree` holds.
      -- The flag is that conclusion; the extra field counts the points where `diskAgree` fails although the point
      -- is not within `tol` of a decision boundary (must be 0 for radii ≥ 0: `polar_float_rim`).
      let nearF := pts.map (near tol s)
      let agree := qs.map (diskAgree s)
      let self := vals.length == pts.length &&
        (vals.zip (pts.zip agree)).all fun (v, p, a) => !a || v == val s p
      let slack := ((agree.zip nearF).filter fun (a, n) => !a && !n).length
      (st, s!"ok {showRatList vals} {showList showBool nearF} {showBool self} {slack}")
    | none => (st, "bad-op")
  else (st, "bad-op")

def sixes? : List Rat → Option (List SpiderC)
  | [] => some []
  | a :: b :: c :: d :: e :: f :: t => (sixes? t).map ((a, b, c, d, e, f) :: ·)
  | _ => none

def fours? : List Rat → Option (List (Pt × Pt))
  | [] => some []
  | a :: b :: c :: d :: t => (fours? t).map (((a, b), (c, d)) :: ·)
  | _ => none

def parseBool? (s : String) : Option Bool :=
  if s == "1" then some true else if s == "0" then some false else none


def quads? : List Rat → Option (List SpiderI)
  | [] => some []
  | a :: b :: c :: d :: t => (quads? t).map ((a, b, c, d) :: ·)
  | _ => none

def triplesR? : List Rat → Option (List (Rat × Rat × Rat))
  | [] => some []
  | a :: b :: c :: t => (triplesR? t).map ((a, b, c) :: ·)
  | _ => none

/-- `n` subset criteria one after the other -/
def parseSels? : Nat → List String → Option (List Sel × List String)
  | 0, rest => some ([], rest)
  | n + 1, "strips" :: l :: rest => do
    let t ← (parseRatList? l).bind triplesR?
    let (ss, rest) ← parseSels? n rest
    pure (.strips t :: ss, rest)
  | n + 1, kind :: rest => do
    let (s, rest) ← parseShape? 1000 rest
    let sel ← (if kind == "nonzero" then some (Sel.nonzero s) else if kind == "notpos" then some (Sel.notPos s)
      else if kind == "cpos" then some (Sel.complPos s) else if kind == "pos" then some (Sel.pos s) else none)
    let (ss, rest) ← parseSels? n rest
    pure (sel :: ss, rest)
  | _ + 1, [] => none

def flatPts (l : List Pt) : List Rat := l.flatMap fun p => [p.1, p.2]

/-- transmissions: a list (one per kept segment) or `s:<t>` (a scalar, broadcast) -/
def parseTrs? (tok : String) (n : Nat) : Option (Except Nat (List Rat)) :=
  if tok.startsWith "s:" then (parseRat? (tok.drop 2).toString).map fun t => .ok (List.replicate n t)
  else (parseRatList? tok).map fun l => if l.length = n then .ok l else .error n

def parseShapes3? (toks : List String) : Option (Shape × Shape × Shape) := do
  let (a, rest) ← parseShape? 1000 toks
  let (b, rest) ← parseShape? 1000 rest
  let (c, rest) ← parseShape? 1000 rest
  if rest.isEmpty then pure (a, b, c) else none

def pickSegment (st : St) (mode : String) (tol : Rat) (xs ys : List Rat) (seg : String) (pupil : Shape)
    (segments : List Shape) : St × String :=
  -- the pupil itself: hundreds of segments; the self-check (a theorem: `fast_path_eq_inside`) is skipped for Cartesian requests
  if seg == "-" then evalResp st mode tol xs ys pupil (mode == "polar") else
  match parseNat? seg with
  | none => (st, "bad-op")
  | some i =>
    match segments[i]? with
    | none => (st, s!"err no-segment {segments.length}")
    | some q => evalResp st mode tol xs ys q

/-- the regular polygon's `return_with_mask=True` results -/
def regsubResp (st : St) (mode : String) (tol : Rat) (xs ys : List Rat) (even : Bool) (r a : Rat)
    (dirs : List (Rat × Rat)) (cx cy : Rat) : St × String :=
  let shape := Shape.regpoly even r a dirs cx cy
  if mode == "sep" then
    let edge := xs.any (fun x => nearLin tol r (rabs (x - cx))) || ys.any (fun y => nearLin tol r (rabs (y - cy)))
    match regpolySub even r a dirs (xs.map (· - cx)) (ys.map (· - cy)) with
    | none => (st, s!"ok none {showBool edge}")
    | some sub =>
      let nearF : Arr Bool := ⟨sub.F.nr, sub.F.nc, fun i j => near tol shape (xs.getD (sub.x0 + j) 0, ys.getD (sub.y0 + i) 0)⟩
      (st, s!"ok some {sub.y0} {sub.x0} {sub.F.nr} {sub.F.nc} {showRatList sub.F.ravel} {showList showBool nearF.ravel} {showBool edge}")
  else if mode == "pts" then
    if xs.length != ys.length then (st, "bad-op") else
    let pts := xs.zip ys
    let (fsub, m) := regpolySlowSub even r a dirs cx cy pts
    let nearBox := pts.map fun p => nearLin tol r (rabs (p.1 - cx)) || nearLin tol r (rabs (p.2 - cy))
    (st, s!"ok {showList showBool m} {showRatList fsub} {showList showBool ((compress m pts).map (near tol shape))} {showList showBool nearBox}")
  else (st, "bad-op")

/-- one in-place operation `name:arg:arg` -/
def parseIOp? (tok : String) : Option IOp :=
  match tok.splitOn ":" with
  | ["scale", a, b] => do some (.scale (← parseRat? a) (← parseRat? b))
  | ["shift", a, b] => do some (.shift (← parseRat? a) (← parseRat? b))
  | ["rot", a, b] => do some (.rot (← parseRat? a) (← parseRat? b))
  | ["reverse"] => some .reverse
  | ["weights"] => some .weights
  | _ => none

def parseIOps? (tok : String) : Option (List IOp) :=
  if tok == "-" then some [] else (tok.splitOn ";").mapM parseIOp?

/-- `evalAfter`: the object after its history, the field on it, the current points -/
def histResp (st : St) (tol : Rat) (g : GObj) (ops : List IOp) (s : Shape) : St × String :=
  match runOps ops g, evalAfter s ops g with
  | some g', some vals =>
    let pts := g'.points
    let self := match g' with
      | .cart _ => vals == pts.map (val s)
      | .polar qs => vals.length == pts.length &&
          (vals.zip (pts.zip (qs.map (diskAgree s)))).all fun (v, p, a) => !a || v == val s p
    -- `inplace_op_moves_points`, run: the points of the object are the geometrically transformed points
    let moved := ops.foldl (fun (l : List Pt) o => o.reorder (l.map o.onPt)) g.points
    (st, s!"ok {showRatList vals} {showList showBool (pts.map (near tol s))} {showBool (self && moved == pts)} {showRatList (pts.flatMap fun p => [p.1, p.2])}")
  | _, _ => (st, "undefined")

def step (st : St) : List String → St × String
  | "hist" :: kind :: tol :: xs :: ys :: ops :: shape =>
    match parseRat? tol, parseRatList? xs, parseRatList? ys, parseIOps? ops, parseWhole? shape with
    | some tol, some xs, some ys, some ops, some s =>
      if kind == "cart" then
        if xs.length != ys.length then (st, "bad-op") else histResp st tol (.cart (xs.zip ys)) ops s
      else if kind == "polar" then
        match pairs? ys with
        | some dirs =>
          if xs.length != dirs.length then (st, "bad-op") else
          histResp st tol (.polar ((xs.zip dirs).map fun q => (q.1, q.2.1, q.2.2))) ops s
        | none => (st, "bad-op")
      else (st, "bad-op")
    | _, _, _, _, _ => (st, "bad-op")
  | "eval" :: mode :: tol :: xs :: ys :: shape =>
    match parseRat? tol, parseRatList? xs, parseRatList? ys, parseWhole? shape with
    | some tol, some xs, some ys, some s => evalResp st mode tol xs ys s
    | _, _, _, _ => (st, "bad-op")
  -- the Keck pupil built inside the model from the integer ring arithmetic
  | ["keck", mode, tol, xs, ys, rings, pitch, ap, segR, segA, dirs, trs, obsR, spiders, hw] =>
    match parseRat? tol, parseRatList? xs, parseRatList? ys, parseNat? rings,
          [pitch, ap, segR, segA, obsR, hw].mapM parseRat?,
          (parseRatList? dirs).bind pairs?, parseRatList? trs, (parseRatList? spiders).bind pairs? with
    | some tol, some xs, some ys, some rings, some [pitch, ap, segR, segA, obsR, hw], some dirs, some trs, some sp =>
      if trs.length != (hexQR rings).length then (st, "bad-op") else
      evalResp st mode tol xs ys (keckShape rings pitch ap segR segA dirs trs obsR sp hw)
    | _, _, _, _, _, _, _, _ => (st, "bad-op")
  | ["regsub", mode, tol, xs, ys, even, r, a, dirs, cx, cy] =>
    match parseRat? tol, parseRatList? xs, parseRatList? ys, parseBool? even, [r, a, cx, cy].mapM parseRat?,
          (parseRatList? dirs).bind pairs? with
    | some tol, some xs, some ys, some even, some [r, a, cx, cy], some dirs =>
      regsubResp st mode tol xs ys even r a dirs cx cy
    | _, _, _, _, _, _ => (st, "bad-op")
  -- the VLT pupil and its quadrants; the quadrants' half-planes are computed in the model
  | ["vlt", mode, tol, xs, ys, seg, ro, ri, spiders, se, m3] =>
    match parseRat? tol, parseRatList? xs, parseRatList? ys, [ro, ri].mapM parseRat?,
          (parseRatList? spiders).bind sixes?, (parseRatList? se).bind fours?, parseRatList? m3 with
    | some tol, some xs, some ys, some [ro, ri], some sp, some se, some m3l =>
      let m3? : Option (Option (Rat × Rat × Rat × Rat)) :=
        match m3l with
        | [] => some none
        | [hx, hy, cx, cy] => some (some (hx, hy, cx, cy))
        | _ => none
      match m3? with
      | none => (st, "bad-op")
      | some m3 =>
        let pupil := vltShape ro ri sp m3
        if seg == "-" then evalResp st mode tol xs ys pupil else
        match parseNat? seg with
        | none => (st, "bad-op")
        | some i =>
          if se.length != 4 then (st, "bad-op") else
          match vltSegment i (vltLines se) pupil m3 with
          | none => (st, "err singular")
          | some q => evalResp st mode tol xs ys q
    | _, _, _, _, _, _, _ => (st, "bad-op")
  -- the hexagonally segmented pupils: lattice, dropped segments, composition, all inside the model
  | ["hexcount", name] =>
    match posCfgOf name with
    | some c => (st, s!"ok {c.positions.length} {c.rings} {showRat c.pitch} {showRat c.ap} {showRatList c.radii}")
    | none => (st, "bad-op")
  | "hexpos" :: rings :: pitch :: ap :: nsel :: sels =>
    match parseNat? rings, parseRat? pitch, parseRat? ap, (parseNat? nsel).bind (parseSels? · sels) with
    | some rings, some pitch, some ap, some (sels, []) =>
      (st, s!"ok {showRatList (flatPts (selectPositions sels (hexPositions rings pitch ap)))}")
    | _, _, _, _ => (st, "bad-op")
  | "hexpupil" :: mode :: tol :: xs :: ys :: seg :: rings :: pitch :: ap :: loop :: hw :: obs :: spiders :: trs :: nsel :: rest =>
    match parseRat? tol, parseRatList? xs, parseRatList? ys, parseNat? rings, [pitch, ap, hw].mapM parseRat?, parseBool? loop,
          (if obs == "-" then some none else (parseRat? obs).map some), (parseRatList? spiders).bind quads?,
          (parseNat? nsel).bind (parseSels? · rest) with
    | some tol, some xs, some ys, some rings, some [pitch, ap, hw], some loop, some obs, some sp, some (sels, shapeToks) =>
      match parseWhole? shapeToks with
      | none => (st, "bad-op")
      | some segment =>
        let c0 : HexCfg := ⟨rings, pitch, ap, sels, segment, [], obs, sp, hw, loop⟩
        match parseTrs? trs c0.positions.length with
        | none => (st, "bad-op")
        | some (.error n) => (st, s!"err trs-length {n}")
        | some (.ok trs) =>
          let c : HexCfg := { c0 with trs := trs }
          pickSegment st mode tol xs ys seg c.shape c.segmentShapes
    | _, _, _, _, _, _, _, _, _ => (st, "bad-op")
  | "hicat" :: mode :: tol :: xs :: ys :: seg :: gaps :: hw :: spiders :: pitchA :: apA :: pitchB :: apB :: shapes =>
    match parseRat? tol, parseRatList? xs, parseRatList? ys, parseBool? gaps, [hw, pitchA, apA, pitchB, apB].mapM parseRat?,
          (parseRatList? spiders).bind quads?, parseShapes3? shapes with
    | some tol, some xs, some ys, some gaps, some [hw, pitchA, apA, pitchB, apB], some sp, some (segA, segB, central) =>
      let c : HicatCfg := ⟨pitchA, apA, segA, pitchB, apB, segB, central, gaps, sp, hw⟩
      pickSegment st mode tol xs ys seg c.shape c.segmentShapes
    | _, _, _, _, _, _, _ => (st, "bad-op")
  | ["hexqr", rings] =>
    match parseNat? rings with
    | some n => (st, "ok " ++ ";".intercalate ((hexQR n).map fun qr => s!"{qr.1},{qr.2}"))
    | none => (st, "bad-op")
  | "super" :: nx :: ny :: tol :: xs :: ys :: shape =>
    match parseNat? nx, parseNat? ny, parseRat? tol, parseRatList? xs, parseRatList? ys, parseWhole? shape with
    | some nx, some ny, some tol, some xs, some ys, some s =>
      match ditherGrids nx ny xs ys, supersampled s nx ny xs ys with
      | some gs, .ok vals =>
        -- a pixel is flagged when any of its sub-samples is near a decision boundary
        let flags := gs.foldl (fun acc g => List.zipWith (fun a b => a || b) acc ((sepPoints g.1 g.2).map (near tol s)))
          (List.replicate (xs.length * ys.length) false)
        (st, s!"ok {showRatList vals} {showList showBool flags}")
      | _, .error .zeroDiv => (st, "err zerodiv")
      | _, _ => (st, "err index")
    | _, _, _, _, _, _ => (st, "bad-op")
  -- the statistics 'mean' | 'sum' | 'min' | 'max' of evaluate_supersampled on a separated grid
  | "superstat" :: stat :: nx :: ny :: tol :: xs :: ys :: shape =>
    let stat? : Option Stat :=
      if stat == "mean" then some .mean else if stat == "sum" then some .sum
      else if stat == "min" then some .min else if stat == "max" then some .max else none
    match stat?, parseNat? nx, parseNat? ny, parseRat? tol, parseRatList? xs, parseRatList? ys, parseWhole? shape with
    | some stat, some nx, some ny, some tol, some xs, some ys, some s =>
      match ditherGrids nx ny xs ys, supersampledStat stat s nx ny xs ys with
      | some gs, .ok vals =>
        let flags := gs.foldl (fun acc g => List.zipWith (fun a b => a || b) acc ((sepPoints g.1 g.2).map (near tol s)))
          (List.replicate (xs.length * ys.length) false)
        (st, s!"ok {showRatList vals} {showList showBool flags}")
      | _, .error .zeroDiv => (st, "err zerodiv")
      | _, .error .attribute => (st, "err attribute")
      | _, .error .index => (st, "err index")
      | _, .error .value => (st, "err value")
      | none, .ok _ => (st, "err index")
    | _, _, _, _, _, _, _ => (st, "bad-op")
  -- a list of generators: `C12 superlist <stat> <nx> <ny> <tol> <xs> <ys> <n> <shape 1> … <shape n>`
  --   → ok <values 1> <near flags 1> … <values n> <near flags n>  |  err index|zerodiv|attribute|value
  | "superlist" :: stat :: nx :: ny :: tol :: xs :: ys :: n :: shapes =>
    match parseStat? stat, parseNat? nx, parseNat? ny, parseRat? tol, parseRatList? xs, parseRatList? ys, parseNat? n,
          parseShapes? 64 shapes with
    | some stat, some nx, some ny, some tol, some xs, some ys, some n, some ss =>
      if ss.length != n then (st, "bad-op") else
      match supersampledList stat nx ny xs ys ss with
      | .ok fs =>
        match ditherGrids nx ny xs ys with
        | none => (st, "err index")
        | some gs =>
          let one := fun (sf : Shape × List Rat) =>
            let flags := gs.foldl (fun acc g => List.zipWith (fun a b => a || b) acc ((sepPoints g.1 g.2).map (near tol sf.1)))
              (List.replicate (xs.length * ys.length) false)
            s!"{showRatList sf.2} {showList showBool flags}"
          (st, "ok " ++ " ".intercalate ((ss.zip fs).map one))
      | .error .zeroDiv => (st, "err zerodiv")
      | .error .attribute => (st, "err attribute")
      | .error .index => (st, "err index")
      | .error .value => (st, "err value")
    | _, _, _, _, _, _, _, _ => (st, "bad-op")
  | _ => (st, "bad-op")

end HcipyVerif.Driver.C12
