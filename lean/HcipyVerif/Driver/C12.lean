import HcipyVerif.Model.Proto
import HcipyVerif.Model.Aperture

/-!
Line-protocol front end of the C12 model.

```
C12 eval  sep|pts <tol> <xs> <ys> <shape…>   →  ok <values> <near flags> <path==pointwise 0/1>
C12 super <nx> <ny> <tol> <xs> <ys> <shape…> →  ok <means> <near flags>   |  err index
```
`sep`: `xs`, `ys` are the axes of a separated grid (the fast code path is run);
`pts`: `xs`, `ys` are the coordinate arrays of an unstructured grid (the slow path is run).
Shapes are written in prefix notation:
`circle r cx cy | ellipse cM sM cm sm cx cy mn | rect hx hy cx cy | regpoly even r a [c0,s0,…] cx cy |
 irrpoly [x0,y0,…] hx hy bx by | spider sx sy c s hl hw | spiderinf px py c s hw | const v |
 compl S | mul S S | sub S S | rot c s S | shift dx dy S | seg [px,py,t,…] S`
-/
namespace HcipyVerif.Driver.C12
open HcipyVerif.Proto HcipyVerif.Aperture

structure St where
  dummy : Unit := ()

def pairs? : List Rat → Option (List (Rat × Rat))
  | [] => some []
  | a :: b :: t => (pairs? t).map ((a, b) :: ·)
  | _ => none

def triples? : List Rat → Option (List (Pt × Rat))
  | [] => some []
  | a :: b :: c :: t => (triples? t).map (((a, b), c) :: ·)
  | _ => none

def rats? (toks : List String) (n : Nat) : Option (List Rat × List String) :=
  if toks.length < n then none else
    ((toks.take n).mapM parseRat?).map fun l => (l, toks.drop n)

def parseShape? : Nat → List String → Option (Shape × List String)
  | 0, _ => none
  | fuel + 1, tok :: rest =>
    match tok with
    | "circle" => do
      let ([r, cx, cy], rest) ← rats? rest 3 | none
      pure (.circle r cx cy, rest)
    | "ellipse" => do
      let ([a, b, c, d, cx, cy, mn], rest) ← rats? rest 7 | none
      pure (.ellipse a b c d cx cy mn, rest)
    | "rect" => do
      let ([hx, hy, cx, cy], rest) ← rats? rest 4 | none
      pure (.rect hx hy cx cy, rest)
    | "regpoly" =>
      match rest with
      | ev :: r :: a :: dirs :: cx :: cy :: rest => do
        let ev ← (if ev == "1" then some true else if ev == "0" then some false else none)
        let r ← parseRat? r; let a ← parseRat? a
        let dirs ← (parseRatList? dirs).bind pairs?
        let cx ← parseRat? cx; let cy ← parseRat? cy
        pure (.regpoly ev r a dirs cx cy, rest)
      | _ => none
    | "irrpoly" =>
      match rest with
      | vs :: rest => do
        let vs ← (parseRatList? vs).bind pairs?
        let ([hx, hy, bx, by_], rest) ← rats? rest 4 | none
        pure (.irrpoly vs hx hy bx by_, rest)
      | _ => none
    | "spider" => do
      let ([sx, sy, c, s, hl, hw], rest) ← rats? rest 6 | none
      pure (.spider sx sy c s hl hw, rest)
    | "spiderinf" => do
      let ([px, py, c, s, hw], rest) ← rats? rest 5 | none
      pure (.spiderInf px py c s hw, rest)
    | "const" => do
      let ([v], rest) ← rats? rest 1 | none
      pure (.const v, rest)
    | "compl" => do
      let (a, rest) ← parseShape? fuel rest
      pure (.compl a, rest)
    | "mul" => do
      let (a, rest) ← parseShape? fuel rest
      let (b, rest) ← parseShape? fuel rest
      pure (.mul a b, rest)
    | "sub" => do
      let (a, rest) ← parseShape? fuel rest
      let (b, rest) ← parseShape? fuel rest
      pure (.sub a b, rest)
    | "rot" => do
      let ([c, s], rest) ← rats? rest 2 | none
      let (a, rest) ← parseShape? fuel rest
      pure (.rot c s a, rest)
    | "shift" => do
      let ([dx, dy], rest) ← rats? rest 2 | none
      let (a, rest) ← parseShape? fuel rest
      pure (.shift dx dy a, rest)
    | "seg" =>
      match rest with
      | l :: rest => do
        let segs ← (parseRatList? l).bind triples?
        let (a, rest) ← parseShape? fuel rest
        pure (.seg segs a, rest)
      | _ => none
    | _ => none
  | _, [] => none

def parseWhole? (toks : List String) : Option Shape :=
  match parseShape? 1000 toks with
  | some (s, []) => some s
  | _ => none

def evalResp (st : St) (mode : String) (tol : Rat) (xs ys : List Rat) (s : Shape) : St × String :=
  if mode == "sep" then
    let pts := sepPoints xs ys
    let vals := evalSep s xs ys
    (st, s!"ok {showRatList vals} {showList showBool (pts.map (near tol s))} {showBool (vals == pts.map (val s))}")
  else if mode == "pts" then
    if xs.length != ys.length then (st, "bad-op") else
    let pts := xs.zip ys
    let vals := evalPts s pts
    (st, s!"ok {showRatList vals} {showList showBool (pts.map (near tol s))} {showBool (vals == pts.map (val s))}")
  else (st, "bad-op")

def step (st : St) : List String → St × String
  | "eval" :: mode :: tol :: xs :: ys :: shape =>
    match parseRat? tol, parseRatList? xs, parseRatList? ys, parseWhole? shape with
    | some tol, some xs, some ys, some s => evalResp st mode tol xs ys s
    | _, _, _, _ => (st, "bad-op")
  -- the Keck pupil built inside the model from the integer ring arithmetic
  | ["keck", mode, tol, xs, ys, rings, pitch, ap, segR, segA, dirs, trs, obsR, spiders, hw] =>
    match parseRat? tol, parseRatList? xs, parseRatList? ys, parseNat? rings,
          [pitch, ap, segR, segA, obsR, hw].mapM parseRat?,
          (parseRatList? dirs).bind pairs?, parseRatList? trs, (parseRatList? spiders).bind pairs? with
    | some tol, some xs, some ys, some rings, some [pitch, ap, segR, segA, obsR, hw], some dirs, some trs, some sp =>
      if trs.length != (hexQR rings).length then (st, "bad-op") else
      evalResp st mode tol xs ys (keckShape rings pitch ap segR segA dirs trs obsR sp hw)
    | _, _, _, _, _, _, _, _ => (st, "bad-op")
  | ["hexqr", rings] =>
    match parseNat? rings with
    | some n => (st, "ok " ++ ";".intercalate ((hexQR n).map fun qr => s!"{qr.1},{qr.2}"))
    | none => (st, "bad-op")
  | "super" :: nx :: ny :: tol :: xs :: ys :: shape =>
    match parseNat? nx, parseNat? ny, parseRat? tol, parseRatList? xs, parseRatList? ys, parseWhole? shape with
    | some nx, some ny, some tol, some xs, some ys, some s =>
      match ditherGrids nx ny xs ys, supersampled s nx ny xs ys with
      | some gs, some vals =>
        -- a pixel is flagged when any of its sub-samples is near a decision boundary
        let flags := gs.foldl (fun acc g => List.zipWith (fun a b => a || b) acc ((sepPoints g.1 g.2).map (near tol s)))
          (List.replicate (xs.length * ys.length) false)
        (st, s!"ok {showRatList vals} {showList showBool flags}")
      | _, _ => (st, "err index")
    | _, _, _, _, _, _ => (st, "bad-op")
  | _ => (st, "bad-op")

end HcipyVerif.Driver.C12
