import HcipyVerif.Model.Grid
import HcipyVerif.Model.GridLayout
import HcipyVerif.Model.Proto

/-!
# C10 / C11 — grid constructors of `hcipy/field/util.py`, and the object store used by the drivers

The store models Python's object graph for grids: a list of slots, every non-mutating operation
(`copy`, `scaled`, `shifted`, `reversed`, `rotated`, constructors) appends a slot, every in-place
operation replaces exactly one slot.  The correspondence re-reads *all* live grids after every
operation, so any aliasing in the real code shows up as a difference with this value semantics.
-/
namespace HcipyVerif.Grid
open HcipyVerif.Proto

/-! ## Constructors -/

/-- `make_uniform_grid(dims, extent, center, has_center)` (all arguments already broadcast) -/
def uniformAxis (n : Nat) (extent center : Rat) (hasCenter : Bool) : RegAxis :=
  let delta := extent / (n : Rat)
  let zero := -extent / 2 + center + delta / 2
  { delta := delta, dim := n,
    zero := if hasCenter then zero - delta / 2 * (1 - ((n % 2 : Nat) : Rat)) else zero }

def makeUniformGrid (dims : List Nat) (extent center : List Rat) (hasCenter : Bool) : Grid :=
  { system := .cartesian, weights := .none,
    coords := .regular (List.zipWith (fun n ec => uniformAxis n ec.1 ec.2 hasCenter) dims (List.zip extent center)) }

/-- the axis `delta·(-dims/2 + (dims mod 2)/2) + shift` shared by `make_focal_grid` and `make_fft_grid` -/
def centredAxis (delta : Rat) (n : Nat) (shift : Rat) : RegAxis :=
  { delta := delta, dim := n, zero := delta * (-(n : Rat) / 2 + ((n % 2 : Nat) : Rat) * (1 / 2)) + shift }

/-- `.astype('int')` of a non-negative float -/
def truncNat (x : Rat) : Nat := x.floor.toNat

/-- `make_focal_grid(q, num_airy, spatial_resolution)`, per axis -/
def focalAxis (q na sr : Rat) : RegAxis := centredAxis (sr / q) (truncNat (2 * na * q)) 0

def makeFocalGrid (q na sr : List Rat) : Grid :=
  { system := .cartesian, weights := .none,
    coords := .regular (List.zipWith (fun q x => focalAxis q x.1 x.2) q (List.zip na sr)) }

/-- `np.round` (half to even) of a non-negative rational -/
def roundHalfEven (x : Rat) : Nat :=
  let f := x.floor
  let r := x - (f : Rat)
  (if r < 1 / 2 then f else if 1 / 2 < r then f + 1 else if f % 2 = 0 then f else f + 1).toNat

/-- one axis of `make_fft_grid(input, q, fov, shift)`; `tau` stands for `2π`.  The number of points
is supplied by the caller (`dimsOverride`) when the implementation's float truncation is to be
taken as given. -/
def fftAxis (tau : Rat) (a : RegAxis) (q fov shift : Rat) : RegAxis :=
  let q' := ((roundHalfEven (q * (a.dim : Rat)) : Nat) : Rat) / (a.dim : Rat)
  centredAxis ((tau / (a.delta * (a.dim : Rat))) / q') (truncNat ((a.dim : Rat) * fov * q')) shift

/-- `make_supersampled_grid` on a regular grid, integer factor `k` per axis -/
def RegAxis.supersample (k : Nat) (a : RegAxis) : RegAxis :=
  let dnew := a.delta / (k : Rat)
  { delta := dnew, dim := a.dim * k, zero := a.zero - a.delta / 2 + dnew / 2 }

/-- `make_subsampled_grid` on a regular grid -/
def RegAxis.subsample (k : Nat) (a : RegAxis) : RegAxis :=
  let dnew := a.delta * (k : Rat)
  { delta := dnew, dim := a.dim / k, zero := a.zero - a.delta / 2 + dnew / 2 }

/-- axial coordinates `(q, r)` of ring `n` of `make_hexagonal_grid`, in the order the code lists them:
top, right top, right bottom, bottom, left bottom, left top — `n` hexagons each -/
def hexRing (n : Nat) : List (Int × Int) :=
  let N : Int := n
  (List.range n).map (fun (k : Nat) => ((N - (k : Int), (k : Int)) : Int × Int)) ++
  (List.range n).map (fun (k : Nat) => ((-(k : Int), N) : Int × Int)) ++
  (List.range n).map (fun (k : Nat) => ((-N, N - (k : Int)) : Int × Int)) ++
  (List.range n).map (fun (k : Nat) => ((-N + (k : Int), -(k : Int)) : Int × Int)) ++
  (List.range n).map (fun (k : Nat) => (((k : Int), -N) : Int × Int)) ++
  (List.range n).map (fun (k : Nat) => ((N, -N + (k : Int)) : Int × Int))

/-- all hexagons: the centre, then ring 1, ring 2, … -/
def hexQR (rings : Nat) : List (Int × Int) := (0, 0) :: (List.range rings).flatMap fun n => hexRing (n + 1)

/-- `make_hexagonal_grid(circum_diameter, n_rings, pointy_top, center)`; `s3` stands for `√3` -/
def makeHexGrid (s3 d : Rat) (rings : Nat) (pointy : Bool) (cx cy : Rat) : Grid :=
  let apothem := d * s3 / 4
  let qr := hexQR rings
  -- (as the code has it: the centre is added BEFORE the axes are exchanged for flat-topped hexagons, so a flat-topped
  -- grid is centred on `(cy, cx)` — observed, outside the properties; proposed repair pending_fixes/D86-…)
  let x := qr.map fun p => ((-p.1 + p.2 : Int) : Rat) * d / 2 + cx
  let y := qr.map fun p => ((p.1 + p.2 : Int) : Rat) * apothem * 2 + cy
  { system := .cartesian, coords := .unstructured (if pointy then [x, y] else [y, x]),
    weights := .scalar (2 * (apothem * apothem) * s3) }

/-- `make_pupil_grid(dims, diameter)`: the uniform grid of that extent around the origin -/
def makePupilGrid (dims : List Nat) (diameter : List Rat) : Grid :=
  makeUniformGrid dims diameter (diameter.map fun _ => 0) false

inductive Err where
  | value | type | index | notimpl | attr
deriving DecidableEq, Repr

/-- the `spatial_resolution` `make_focal_grid` derives from its optional arguments `spatial_resolution`,
`f_number`, `pupil_diameter`, `focal_length`, `reference_wavelength` (scalars); `.value` = the ValueError
for an incomplete set -/
def focalResolution (sr fnum pd fl wl : Option Rat) : Except Err Rat :=
  match sr with
  | some s => .ok s
  | none =>
    let fnum' : Option Rat := match fnum with
      | some f => some f
      | none => match pd, fl with
        | some p, some f => some (f / p)
        | _, _ => none
    match fnum', wl with
    | none, none => .ok 1
    | none, some _ => .error .value
    | some _, none => .error .value
    | some f, some w => .ok (f * w)

/-- `make_focal_grid` with all its (scalar) optional arguments -/
def makeFocalGridFull (q na : List Rat) (sr fnum pd fl wl : Option Rat) : Except Err Grid :=
  (focalResolution sr fnum pd fl wl).map fun s => makeFocalGrid q na (q.map fun _ => s)

def Grid.supersample (k : List Nat) (g : Grid) : Except Err Grid :=
  match g.coords with
  | .regular a => .ok { system := g.system, weights := .none, coords := .regular (List.zipWith RegAxis.supersample k a) }
  | .separated _ => .error .notimpl
  | .unstructured _ => .error .value

def Grid.subsample (k : List Nat) (g : Grid) : Except Err Grid :=
  match g.coords with
  | .regular a => .ok { system := g.system, weights := .none, coords := .regular (List.zipWith RegAxis.subsample k a) }
  | .separated _ => .error .notimpl
  | .unstructured _ => .error .value

/-! ## The object store -/

abbrev Store := List Grid

/-- in-place update of slot `i` -/
def Store.update (st : Store) (i : Nat) (g : Grid) : Store := st.set i g

/-- a non-mutating operation: the result lands in a fresh slot -/
def Store.push (st : Store) (g : Grid) : Store := st ++ [g]

/-! ## `to_dict` / `from_dict` -/

/-- the dictionary written by `Grid.to_dict` (the coordinate part flattened into one record) -/
structure Dict where
  coordinateSystem : String
  type : String
  delta : List Rat := []
  dims : List Nat := []
  zero : List Rat := []
  arrays : List (List Rat) := []
  weights : Weights

def sysName : System → String
  | .cartesian => "cartesian"
  | .polar => "polar"

def zip3? (d : List Rat) (n : List Nat) (z : List Rat) : Option (List RegAxis) :=
  if d.length = n.length ∧ n.length = z.length then
    some (List.zipWith (fun d nz => { delta := d, dim := nz.1, zero := nz.2 }) d (List.zip n z))
  else none

def Grid.toDict (g : Grid) : Dict :=
  match g.coords with
  | .regular a => { coordinateSystem := sysName g.system, type := "regular", delta := a.map (·.delta),
                    dims := a.map (·.dim), zero := a.map (·.zero), weights := g.weights }
  | .separated a => { coordinateSystem := sysName g.system, type := "separated", arrays := a, weights := g.weights }
  | .unstructured c => { coordinateSystem := sysName g.system, type := "unstructured", arrays := c, weights := g.weights }

/-- `Grid.from_dict`: class looked up by the coordinate-system name, coordinates by their type name
(`none` = the KeyError / ValueError of an unknown name or malformed arrays) -/
def Grid.fromDict (d : Dict) : Option Grid :=
  let sys : Option System :=
    if d.coordinateSystem = "cartesian" then some .cartesian
    else if d.coordinateSystem = "polar" then some .polar else none
  let coords : Option Coords :=
    if d.type = "regular" then (zip3? d.delta d.dims d.zero).map .regular
    else if d.type = "separated" then some (.separated d.arrays)
    else if d.type = "unstructured" then some (.unstructured d.arrays) else none
  match sys, coords with
  | some s, some c => some { system := s, coords := c, weights := d.weights }
  | _, _ => none

/-! ## Canonical printing / parsing -/

def showSys : System → String
  | .cartesian => "c"
  | .polar => "p"

def parseSys? : String → Option System
  | "c" => some .cartesian
  | "p" => some .polar
  | _ => none

def showWeights : Weights → String
  | .none => "-"
  | .scalar w => "s:" ++ showRat w
  | .array ws => "a:" ++ showRatList ws

def parseWeights? (s : String) : Option Weights :=
  if s == "-" then some .none
  else if s.startsWith "s:" then (parseRat? (s.drop 2).toString).map .scalar
  else if s.startsWith "a:" then (parseRatList? (s.drop 2).toString).map .array
  else none

def showCoords : Coords → String
  | .regular a => "reg " ++ showRatList (a.map (·.delta)) ++ " " ++ showNatList (a.map (·.dim)) ++ " " ++
      showRatList (a.map (·.zero))
  | .separated a => "sep " ++ showRatLists a
  | .unstructured c => "uns " ++ showRatLists c

def showErr : Err → String
  | .value => "err value"
  | .type => "err type"
  | .index => "err index"
  | .notimpl => "err notimpl"
  | .attr => "err attr"

def showTok : Tok → String
  | .name s => "n" ++ showSys s
  | .f64 x => "f" ++ showRat x
  | .i64 n => "i" ++ toString n

def parseCoords? : List String → Option Coords
  | ["reg", d, n, z] => do
    let d ← parseRatList? d; let n ← parseNatList? n; let z ← parseRatList? z
    let a ← zip3? d n z
    pure (.regular a)
  | ["sep", a] => (parseRatLists? a).map .separated
  | ["uns", a] => (parseRatLists? a).map .unstructured
  | _ => none

def parseScaleArg? (s : String) : Option ScaleArg :=
  if s.startsWith "s:" then (parseRat? (s.drop 2).toString).map .scalar
  else if s.startsWith "v:" then (parseRatList? (s.drop 2).toString).map .vector
  else none

def showGrid (g : Grid) : String :=
  showSys g.system ++ " " ++ showCoords g.coords ++ " " ++ showWeights g.weights ++ " " ++
    (match g.getWeights with
     | some w => showWeights w
     | none => "index")

/-- the dictionary of `to_dict`, canonically: names, the regular triple, the arrays, the stored weights -/
def showDict (d : Dict) : String :=
  d.coordinateSystem ++ " " ++ d.type ++ " " ++ showRatList d.delta ++ " " ++ showNatList d.dims ++ " " ++
    showRatList d.zero ++ " " ++ showRatLists d.arrays ++ " " ++ showWeights d.weights

/-- the matrix of a rotation request: `r2 c s` or `r3 a b d c s` -/
def parseMatrix? : List String → Option (List (List Rat))
  | ["r2", c, s] => do let c ← parseRat? c; let s ← parseRat? s; pure (rot2 c s)
  | ["r3", a, b, d, c, s] => do
    let a ← parseRat? a; let b ← parseRat? b; let d ← parseRat? d; let c ← parseRat? c; let s ← parseRat? s
    pure (rot3 a b d c s)
  | _ => none

/-- what a request does to the store: nothing, a fresh slot, or one slot replaced -/
inductive Effect where
  | keep
  | push (g : Grid)
  | update (i : Nat) (g : Grid)

def Effect.apply (st : Store) : Effect → Store
  | .keep => st
  | .push g => st.push g
  | .update i g => st.update i g

/-- One request against the store.  `none` = unparsable (`bad-op`).  Mutating requests answer
`ok`, non-mutating ones `ok <new slot>`; failed operations leave the store unchanged. -/
def stepEffect (st : Store) : List String → Option (Effect × String)
  | "new" :: sys :: rest =>
    match parseSys? sys, rest.getLast?, parseCoords? rest.dropLast with
    | some sys, some w, some c =>
      (parseWeights? w).map fun w => (Effect.push { system := sys, coords := c, weights := w }, s!"ok {st.length}")
    | _, _, _ => none
  | "set" :: i :: sys :: rest =>
    -- slot `i` is replaced by a value supplied from outside (results of coordinate-system
    -- conversions, which the rational model does not compute: it takes them as given)
    match parseNat? i, parseSys? sys, rest.getLast?, parseCoords? rest.dropLast with
    | some i, some sys, some w, some c =>
      if i < st.length then
        (parseWeights? w).map fun w => (Effect.update i { system := sys, coords := c, weights := w }, "ok")
      else none
    | _, _, _, _ => none
  | ["copy", i] => do
    let i ← parseNat? i; let g ← st[i]?
    pure (Effect.push g, s!"ok {st.length}")
  | ["todict", i] => do
    -- `grid.to_dict()`: what is written
    let i ← parseNat? i; let g ← st[i]?
    pure (Effect.keep, "ok " ++ showDict g.toDict)
  | ["rtdict", i] => do
    -- `Grid.from_dict(grid.to_dict())`
    let i ← parseNat? i; let g ← st[i]?
    match Grid.fromDict g.toDict with
    | some g' => pure (Effect.push g', s!"ok {st.length}")
    | none => pure (Effect.keep, "err key")
  | ["rtdictas", i, sys, ty] => do
    -- `Grid.from_dict` of the dictionary with its names replaced (`=` keeps one); unknown names: KeyError
    let i ← parseNat? i; let g ← st[i]?
    let d := g.toDict
    match Grid.fromDict { d with coordinateSystem := if sys = "=" then d.coordinateSystem else sys,
                                 type := if ty = "=" then d.type else ty } with
    | some g' => pure (Effect.push g', s!"ok {st.length}")
    | none => pure (Effect.keep, "err key")
  | ["scale", i, a] => do
    let i ← parseNat? i; let g ← st[i]?; let a ← parseScaleArg? a
    match g.scale a with
    | some g' => pure (Effect.update i g', "ok")
    | none => pure (Effect.keep, if g.system = .polar then "err value" else "err index")
  | ["scaled", i, a] => do
    let i ← parseNat? i; let g ← st[i]?; let a ← parseScaleArg? a
    match g.scale a with
    | some g' => pure (Effect.push g', s!"ok {st.length}")
    | none => pure (Effect.keep, if g.system = .polar then "err value" else "err index")
  | ["shift", i, b] => do
    let i ← parseNat? i; let g ← st[i]?; let b ← parseRatList? b
    pure (Effect.update i (g.shift b), "ok")
  | ["shifted", i, b] => do
    let i ← parseNat? i; let g ← st[i]?; let b ← parseRatList? b
    pure (Effect.push (g.shift b), s!"ok {st.length}")
  | ["shiftf", i, b] => do
    -- float64 arithmetic: every stored sum is rounded to nearest-even (C10: shifts that are absorbed)
    let i ← parseNat? i; let g ← st[i]?; let b ← parseRatList? b
    pure (Effect.update i (g.shiftR roundF64 b), "ok")
  | ["shiftedf", i, b] => do
    let i ← parseNat? i; let g ← st[i]?; let b ← parseRatList? b
    pure (Effect.push (g.shiftR roundF64 b), s!"ok {st.length}")
  | ["absorbs", i, b] => do
    -- will the binary64 shift by `b` leave every stored value of grid `i` as it is?
    let i ← parseNat? i; let g ← st[i]?; let b ← parseRatList? b
    pure (Effect.keep, "ok " ++ showBool (g.coords.absorbs roundF64 b))
  | ["shiftvals", i] => do
    let i ← parseNat? i; let g ← st[i]?
    pure (Effect.keep, "ok " ++ showRatLists g.coords.shiftVals)
  | ["fl", x] => do
    let x ← parseRat? x
    pure (Effect.keep, "ok " ++ showRat (roundF64 x))
  | ["reverse", i] => do
    let i ← parseNat? i; let g ← st[i]?
    pure (Effect.update i g.reverse, "ok")
  | ["reversed", i] => do
    let i ← parseNat? i; let g ← st[i]?
    pure (Effect.push g.reverse, s!"ok {st.length}")
  | ["reverseold", i] => do
    let i ← parseNat? i; let g ← st[i]?
    pure (Effect.update i g.reverseOld, "ok")
  | "rotate" :: i :: m => do
    let i ← parseNat? i; let g ← st[i]?; let m ← parseMatrix? m
    if m.length ≠ g.coords.ndim then pure (Effect.keep, "err value") else
    pure (Effect.update i (g.linmap m), "ok")
  | "rotated" :: i :: m => do
    let i ← parseNat? i; let g ← st[i]?; let m ← parseMatrix? m
    if m.length ≠ g.coords.ndim then pure (Effect.keep, "err value") else
    pure (Effect.push (g.linmapped m), s!"ok {st.length}")
  | ["protate", i, a] => do
    let i ← parseNat? i; let g ← st[i]?; let a ← parseRat? a
    pure (Effect.update i (g.polarRotate a), "ok")
  | ["protated", i, a] => do
    let i ← parseNat? i; let g ← st[i]?; let a ← parseRat? a
    pure (Effect.push (g.polarRotate a), s!"ok {st.length}")
  | ["setw", i, w] => do
    -- `grid.weights = w` (a scalar or an array; `-` = `None`: back to the automatic weights)
    let i ← parseNat? i; let g ← st[i]?; let w ← parseWeights? w
    pure (Effect.update i (g.setWeights w), "ok")
  | ["mat", i] => do
    let i ← parseNat? i; let g ← st[i]?
    match g.materialize with
    | some g' => pure (Effect.update i g', "ok")
    | none => pure (Effect.keep, "err index")
  | ["uniform", dims, extent, center, hc] => do
    let dims ← parseNatList? dims; let extent ← parseRatList? extent; let center ← parseRatList? center
    let hc ← parseNat? hc
    if dims.length ≠ extent.length ∨ dims.length ≠ center.length then none else
    pure (Effect.push (makeUniformGrid dims extent center (hc != 0)), s!"ok {st.length}")
  | ["focal", q, na, sr] => do
    let q ← parseRatList? q; let na ← parseRatList? na; let sr ← parseRatList? sr
    if q.length ≠ na.length ∨ q.length ≠ sr.length then none else
    pure (Effect.push (makeFocalGrid q na sr), s!"ok {st.length}")
  | ["pupil", dims, diam] => do
    let dims ← parseNatList? dims; let diam ← parseRatList? diam
    if dims.length ≠ diam.length then none else
    pure (Effect.push (makePupilGrid dims diam), s!"ok {st.length}")
  | ["focalfull", q, na, sr, fnum, pd, fl, wl] => do
    let q ← parseRatList? q; let na ← parseRatList? na
    let opt : String → Option (Option Rat) := fun s => if s == "-" then some none else (parseRat? s).map some
    let sr ← opt sr; let fnum ← opt fnum; let pd ← opt pd; let fl ← opt fl; let wl ← opt wl
    if q.length ≠ na.length then none else
    match makeFocalGridFull q na sr fnum pd fl wl with
    | .ok g => pure (Effect.push g, s!"ok {st.length}")
    | .error e => pure (Effect.keep, showErr e)
  | ["hex", s3, d, rings, pointy, cx, cy] => do
    let s3 ← parseRat? s3; let d ← parseRat? d; let rings ← parseNat? rings; let pointy ← parseNat? pointy
    let cx ← parseRat? cx; let cy ← parseRat? cy
    pure (Effect.push (makeHexGrid s3 d rings (pointy != 0) cx cy), s!"ok {st.length}")
  | ["hexqr", rings] => do
    let rings ← parseNat? rings
    pure (Effect.keep, "ok " ++ ";".intercalate ((hexQR rings).map fun p => s!"{p.1},{p.2}"))
  | ["fft", i, tau, q, fov, shift] => do
    let i ← parseNat? i; let g ← st[i]?; let tau ← parseRat? tau
    let q ← parseRatList? q; let fov ← parseRatList? fov; let shift ← parseRatList? shift
    match g.coords with
    | .regular a =>
      if a.length ≠ q.length ∨ a.length ≠ fov.length ∨ a.length ≠ shift.length then none else
      if g.system ≠ .cartesian then pure (Effect.keep, "err value") else
      let axes := List.zipWith (fun a x => fftAxis tau a x.1 x.2.1 x.2.2) a (List.zip q (List.zip fov shift))
      pure (Effect.push { system := .cartesian, weights := .none, coords := .regular axes }, s!"ok {st.length}")
    | _ => pure (Effect.keep, "err value")
  | ["super", i, k] => do
    let i ← parseNat? i; let g ← st[i]?; let k ← parseNatList? k
    match g.supersample k with
    | .ok g' => pure (Effect.push g', s!"ok {st.length}")
    | .error e => pure (Effect.keep, showErr e)
  | ["sub", i, k] => do
    let i ← parseNat? i; let g ← st[i]?; let k ← parseNatList? k
    match g.subsample k with
    | .ok g' => pure (Effect.push g', s!"ok {st.length}")
    | .error e => pure (Effect.keep, showErr e)
  | ["same", i] => do
    -- `grid.as_(<its own coordinate system>)`: the identity, by convention the grid itself — no new object
    let i ← parseNat? i; let _ ← st[i]?
    pure (Effect.keep, "ok")
  -- queries
  | ["show", i] => do
    let i ← parseNat? i; let g ← st[i]?
    pure (Effect.keep, "ok " ++ showGrid g)
  | ["points", i] => do
    let i ← parseNat? i; let g ← st[i]?
    pure (Effect.keep, "ok " ++ showRatLists g.coords.points)
  | ["wlist", i] => do
    let i ← parseNat? i; let g ← st[i]?
    match g.weightList with
    | some l => pure (Effect.keep, "ok " ++ showRatList l)
    | none => pure (Effect.keep, "err index")
  | ["wlistold", i] => do
    let i ← parseNat? i; let g ← st[i]?
    match g.weightListOld with
    | some l => pure (Effect.keep, "ok " ++ showRatList l)
    | none => pure (Effect.keep, "err index")
  | ["aspolar", i] => do
    -- `grid.as_('polar')` of a Cartesian 2-D grid: per point `[r,c,s]` (direction instead of angle), `[]` = irrational radius
    let i ← parseNat? i; let g ← st[i]?
    if g.system ≠ .cartesian ∨ g.coords.ndim ≠ 2 then pure (Effect.keep, "err value") else
    pure (Effect.keep, "ok " ++ showRatLists (g.coords.asPolarPts.map fun o => o.getD []))
  | ["ascart", i, cs, sn] => do
    -- `grid.as_('cartesian')` of a polar grid; the directions `(cos θ_k, sin θ_k)` are supplied per point
    let i ← parseNat? i; let g ← st[i]?; let cs ← parseRatList? cs; let sn ← parseRatList? sn
    if cs.length ≠ g.coords.size ∨ sn.length ≠ g.coords.size then none else
    if g.system ≠ .polar ∨ g.coords.ndim ≠ 2 then pure (Effect.keep, "err value") else
    pure (Effect.keep, "ok " ++ showRatLists (g.coords.asCartPts (List.zip cs sn)))
  | ["pshifted", i, cs, sn, b] => do
    -- `PolarGrid.shifted(b)`: polar → Cartesian (directions supplied per point), then the shift: Cartesian points
    let i ← parseNat? i; let g ← st[i]?; let cs ← parseRatList? cs; let sn ← parseRatList? sn; let b ← parseRatList? b
    if cs.length ≠ g.coords.size ∨ sn.length ≠ g.coords.size ∨ b.length ≠ 2 then none else
    if g.system ≠ .polar ∨ g.coords.ndim ≠ 2 then pure (Effect.keep, "err value") else
    pure (Effect.keep, "ok " ++ showRatLists (g.coords.pshiftedPts (List.zip cs sn) b))
  | ["pshift", i, cs, sn, b] => do
    -- `PolarGrid.shift(b)`: the three steps composed; per point `[r,c,s]`, `[]` = irrational radius
    let i ← parseNat? i; let g ← st[i]?; let cs ← parseRatList? cs; let sn ← parseRatList? sn; let b ← parseRatList? b
    if cs.length ≠ g.coords.size ∨ sn.length ≠ g.coords.size ∨ b.length ≠ 2 then none else
    if g.system ≠ .polar ∨ g.coords.ndim ≠ 2 then pure (Effect.keep, "err value") else
    pure (Effect.keep, "ok " ++ showRatLists ((g.coords.pshiftPts (List.zip cs sn) b).map fun o => o.getD []))
  | ["kinds"] => pure (Effect.keep, "ok k" ++ String.join (st.map fun g => toString g.coords.kind))
  -- the right-hand sides of the `points_*` theorems: the images of the CURRENT points under the map the operation stands for
  | ["image", i, "scale", a] => do
    let i ← parseNat? i; let g ← st[i]?; let a ← parseScaleArg? a
    let f := if g.system = .polar then (match a with | .scalar k => [k, 1] | .vector v => v) else a.factors g.coords.ndim
    pure (Effect.keep, "ok " ++ showRatLists (g.coords.points.map (scalePt f)))
  | ["image", i, "shift", b] => do
    let i ← parseNat? i; let g ← st[i]?; let b ← parseRatList? b
    pure (Effect.keep, "ok " ++ showRatLists (g.coords.points.map (shiftPt b)))
  | ["image", i, "reverse"] => do
    let i ← parseNat? i; let g ← st[i]?
    pure (Effect.keep, "ok " ++ showRatLists g.coords.points.reverse)
  | "image" :: i :: "rotate" :: m => do
    let i ← parseNat? i; let g ← st[i]?; let m ← parseMatrix? m
    pure (Effect.keep, "ok " ++ showRatLists (g.coords.points.map (linPt m)))
  | ["size", i] => do
    let i ← parseNat? i; let g ← st[i]?
    pure (Effect.keep, s!"ok {g.coords.size} {g.coords.ndim}")
  | ["eq", i, j] => do
    let i ← parseNat? i; let j ← parseNat? j; let a ← st[i]?; let b ← st[j]?
    pure (Effect.keep, "ok " ++ showBool (a.eq b))
  | ["eqnan", i, j, na, nb] => do
    let i ← parseNat? i; let j ← parseNat? j; let a ← st[i]?; let b ← st[j]?
    let na ← parseNat? na; let nb ← parseNat? nb
    pure (Effect.keep, "ok " ++ showBool (a.eqNaN b (na != 0) (nb != 0)))
  | ["eqold", i, j] => do
    let i ← parseNat? i; let j ← parseNat? j; let a ← st[i]?; let b ← st[j]?
    pure (Effect.keep, "ok " ++ showBool (a.eqOld b))
  | ["eqrow", i] => do
    let i ← parseNat? i; let a ← st[i]?
    pure (Effect.keep, "ok " ++ String.join (st.map fun b => showBool (a.eq b)))
  | ["hashl", i, modes] => do
    -- the hash input of grid `i` when its coordinate arrays lie in memory in the layouts `modes` (one per array:
    -- 0 contiguous, 1 negative stride, 2 stride 2, 3 offset view); then the C_CONTIGUOUS flag of every array and
    -- whether the views denote the grid's values
    let i ← parseNat? i; let g ← st[i]?; let modes ← parseNatList? modes
    match g.coords.arrays? with
    | some (sep, arrays) =>
      if modes.length ≠ arrays.length then none else
      let arrs := List.zipWith LArr.make modes arrays
      pure (Effect.keep, "ok " ++ ",".intercalate ((hashInputL g.system sep arrs).map showTok) ++ " f" ++
        String.join (arrs.map fun a => showBool a.contiguous) ++ " " ++ showBool (decide (arrs.map LArr.values = arrays)))
    | none => pure (Effect.keep, "err value")
  | ["hash", i] => do
    let i ← parseNat? i; let g ← st[i]?
    pure (Effect.keep, "ok " ++ ",".intercalate (g.hashInput.map showTok))
  | _ => none

/-- the tokens of a request that name slots of the store (by position, per op) -/
def slotArgs : List String → List String
  | "eq" :: i :: j :: _ => [i, j]
  | "eqnan" :: i :: j :: _ => [i, j]
  | "eqold" :: i :: j :: _ => [i, j]
  | op :: i :: _ =>
    if op ∈ ["set", "copy", "todict", "rtdict", "rtdictas", "scale", "scaled", "shift", "shifted", "shiftf", "shiftedf",
             "absorbs", "shiftvals", "reverse", "reversed", "reverseold", "rotate", "rotated", "protate", "protated",
             "mat", "setw", "fft", "super", "sub", "show", "points", "wlist", "wlistold", "aspolar", "ascart", "image", "size",
             "hash", "eqrow", "pshift", "pshifted", "hashl", "same"] then [i] else []
  | _ => []

/-- does the request name a slot the store does not have?  (The implementation created an object
the model did not — the two have diverged; the request is answered `err noobj`, it is not malformed.) -/
def namesMissing (n : Nat) (toks : List String) : Bool :=
  (slotArgs toks).any fun s => match parseNat? s with
    | some i => decide (n ≤ i)
    | none => false

/-- `reset` empties the store; a request that names a slot which does not exist answers `err noobj`
and changes nothing; every other request has one `Effect`. -/
def stepStore (st : Store) (toks : List String) : Option (Store × String) :=
  if toks = ["reset"] then some ([], "ok")
  else if namesMissing st.length toks then some (st, "err noobj")
  else (stepEffect st toks).map fun r => (r.1.apply st, r.2)

/-! ## Caller-owned arrays -/

/-- The grids plus the arrays the *caller* owns and passes to constructors — possibly the same
array several times: for several axes, for `delta` and `zero`, for coordinates and weights, for
several grids.  Constructors copy their inputs, so a grid only ever holds *values*: no request
other than `arr` touches `arrays`, and an operation acts once per axis however the grid was built. -/
structure World where
  grids : Store := []
  arrays : List (List Rat) := []

/-- weights argument of `newfrom`: `-`, `s:<rat>` or `@k` (caller array `k`) -/
def weightsFrom (arrays : List (List Rat)) (s : String) : Option Weights :=
  if s == "-" then some .none
  else if s.startsWith "s:" then (parseRat? (s.drop 2).toString).map .scalar
  else if s.startsWith "@" then (parseNat? (s.drop 1).toString).bind fun k => (arrays[k]?).map .array
  else none

/-- coordinates built from caller arrays given by index -/
def coordsFrom (arrays : List (List Rat)) : List String → Option Coords
  | ["reg", d, n, z] => do
    let d ← parseNat? d; let z ← parseNat? z; let n ← parseNatList? n
    let dv ← arrays[d]?; let zv ← arrays[z]?
    let a ← zip3? dv n zv
    pure (.regular a)
  | ["sep", idx] => do
    let idx ← parseNatList? idx
    let axes ← idx.mapM fun k => arrays[k]?
    pure (.separated axes)
  | ["uns", idx] => do
    let idx ← parseNatList? idx
    let cols ← idx.mapM fun k => arrays[k]?
    pure (.unstructured cols)
  | _ => none

/-- One request against grids + caller arrays: `arr [..]` registers a caller array, `arrs` lists
them, `newfrom sys kind <indices…> <weights>` constructs a grid from caller arrays, everything
else is `stepStore` on the grids. -/
def stepWorld (w : World) : List String → Option (World × String)
  | ["reset"] => some ({}, "ok")
  | ["arr", l] => (parseRatList? l).map fun l => ({ w with arrays := w.arrays ++ [l] }, s!"ok {w.arrays.length}")
  | ["arrs"] => some (w, "ok " ++ showRatLists w.arrays)
  | "newfrom" :: sys :: rest =>
    match parseSys? sys, rest.getLast?, coordsFrom w.arrays rest.dropLast with
    | some sys, some wt, some c =>
      (weightsFrom w.arrays wt).map fun wt =>
        ({ w with grids := w.grids.push { system := sys, coords := c, weights := wt } }, s!"ok {w.grids.length}")
    | _, _, _ => none
  | toks => (stepStore w.grids toks).map fun r => ({ w with grids := r.1 }, r.2)

end HcipyVerif.Grid
