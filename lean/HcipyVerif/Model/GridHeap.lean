import HcipyVerif.Model.Proto

/-!
# C10 / C11 — a *reference* model of grids: arrays live in a heap, objects hold references

`Model/GridOps.lean` is a value-semantics store: a grid *is* its coordinate values, so "an in-place
operation on one grid leaves every other grid untouched" is true there by construction.  NumPy
arrays are mutable objects, though: `self.separated_coords[i] *= f` writes through a reference, and
whether another grid sees that write depends on whether the two grids hold the *same* array.  This
file models exactly that: a heap of arrays, objects (the coordinates of a grid; an array owned by
the caller) that hold references into it, in-place operations that write through references, and
construction / `copy()` that allocate fresh arrays (what `Grid.copy`, the constructors after the
repairs D3/D4/D83, `scaled`, `shifted` do).  `Lemmas/GridHeap.lean` proves that the value store is
a sound abstraction of this model as long as no array is shared (`Sep`), that every operation
keeps `Sep`, and that the variants which keep a reference instead of copying (`Bad.*`) break it.
-/
namespace HcipyVerif.Grid

abbrev Heap := List (List Rat)

def Heap.read (h : Heap) (r : Nat) : List Rat := h.getD r []

/-- write through a reference: `arr op= …` -/
def Heap.modify (h : Heap) (r : Nat) (f : List Rat → List Rat) : Heap := h.set r (f (h.read r))

/-- an object holding arrays by reference (the coordinates of a grid: `[delta, zero]` of regular
coordinates, the axes of separated ones, the columns of unstructured ones; or one caller array) -/
structure RObj where
  refs : List Nat
deriving DecidableEq, Repr

/-- the arrays as the object sees them now -/
def RObj.val (h : Heap) (o : RObj) : List (List Rat) := o.refs.map h.read

/-- an in-place array operation -/
inductive ArrOp where
  | keep
  | mulS (c : Rat)          -- `arr *= c`
  | addS (c : Rat)          -- `arr += c`
  | mulV (v : List Rat)     -- `arr *= v` elementwise (`delta *= f`, `zero *= f`)
  | addV (v : List Rat)     -- `arr += v` elementwise (`zero += b`)
deriving DecidableEq, Repr

def ArrOp.apply : ArrOp → List Rat → List Rat
  | .keep, a => a
  | .mulS c, a => a.map (· * c)
  | .addS c, a => a.map (· + c)
  | .mulV v, a => List.zipWith (· * ·) a v
  | .addV v, a => List.zipWith (· + ·) a v

/-- in-place operation on an object: array `k` gets `ops[k]`, written through the reference -/
def RObj.inplace (h : Heap) (o : RObj) (ops : List ArrOp) : Heap :=
  (List.zip o.refs ops).foldl (fun h ro => h.modify ro.1 ro.2.apply) h

/-- construction from arrays held elsewhere (`Grid.copy()`, a constructor that copies its
arguments): fresh arrays with the current contents -/
def RObj.deepCopy (h : Heap) (o : RObj) : Heap × RObj :=
  (h ++ o.val h, ⟨List.range' h.length o.refs.length⟩)

structure RWorld where
  heap : Heap := []
  objs : List RObj := []
deriving Repr

/-- the values of all objects: what the value-semantics store holds -/
def RWorld.abs (w : RWorld) : List (List (List Rat)) := w.objs.map (·.val w.heap)

/-- a new object from values (fresh arrays) -/
def RWorld.new (w : RWorld) (arrays : List (List Rat)) : RWorld :=
  { heap := w.heap ++ arrays, objs := w.objs ++ [⟨List.range' w.heap.length arrays.length⟩] }

/-- a new object from the arrays other objects hold (given by reference, repeats allowed: one caller
array passed for several axes), **copying** them -/
def RWorld.construct (w : RWorld) (refs : List Nat) : RWorld :=
  let r := RObj.deepCopy w.heap ⟨refs⟩
  { heap := r.1, objs := w.objs ++ [r.2] }

/-- `copy()` of object `i` -/
def RWorld.copy (w : RWorld) (i : Nat) : RWorld := w.construct (w.objs.getD i ⟨[]⟩).refs

/-- in-place operation on object `i` -/
def RWorld.inplace (w : RWorld) (i : Nat) (ops : List ArrOp) : RWorld :=
  { w with heap := (w.objs.getD i ⟨[]⟩).inplace w.heap ops }

/-- the non-mutating forms `scaled` / `shifted`: copy, then the in-place operation on the copy -/
def RWorld.copied (w : RWorld) (i : Nat) (ops : List ArrOp) : RWorld :=
  (w.copy i).inplace w.objs.length ops

/-- all reference slots of all objects -/
def RWorld.allRefs (w : RWorld) : List Nat := (w.objs.map (·.refs)).flatten

/-- number of pairs of reference slots that hold the same array -/
def countShared : List Nat → Nat
  | [] => 0
  | r :: rs => (rs.filter (· == r)).length + countShared rs

namespace Bad
/-- a constructor / copy that keeps the references it was given (no copy) -/
def construct (w : RWorld) (refs : List Nat) : RWorld := { w with objs := w.objs ++ [⟨refs⟩] }
def copy (w : RWorld) (i : Nat) : RWorld := construct w (w.objs.getD i ⟨[]⟩).refs
end Bad

/-! ## Line protocol (`ref …` requests of the C10 driver) -/
open HcipyVerif.Proto

def parseArrOp? (s : String) : Option ArrOp :=
  if s == "k" then some .keep
  else if s.startsWith "ms:" then (parseRat? (s.drop 3).toString).map .mulS
  else if s.startsWith "as:" then (parseRat? (s.drop 3).toString).map .addS
  else if s.startsWith "mv:" then (parseRatList? (s.drop 3).toString).map .mulV
  else if s.startsWith "av:" then (parseRatList? (s.drop 3).toString).map .addV
  else none

def stepRef (w : RWorld) : List String → Option (RWorld × String)
  | ["reset"] => some ({}, "ok")
  | ["new", a] => (parseRatLists? a).map fun a => (w.new a, s!"ok {w.objs.length}")
  | ["construct", refsOf] => do
    -- a grid built from the arrays of the (caller) objects listed, in that order, repeats allowed
    let idx ← parseNatList? refsOf
    let refs := (idx.map fun i => (w.objs.getD i ⟨[]⟩).refs).flatten
    if idx.any (· ≥ w.objs.length) then pure (w, "err noobj") else
    pure (w.construct refs, s!"ok {w.objs.length}")
  | ["copy", i] => do
    let i ← parseNat? i
    if i ≥ w.objs.length then pure (w, "err noobj") else pure (w.copy i, s!"ok {w.objs.length}")
  | "inplace" :: i :: ops => do
    let i ← parseNat? i; let ops ← ops.mapM parseArrOp?
    if i ≥ w.objs.length then pure (w, "err noobj") else pure (w.inplace i ops, "ok")
  | "copied" :: i :: ops => do
    let i ← parseNat? i; let ops ← ops.mapM parseArrOp?
    if i ≥ w.objs.length then pure (w, "err noobj") else pure (w.copied i ops, s!"ok {w.objs.length}")
  | ["val", i] => do
    let i ← parseNat? i
    match w.objs[i]? with
    | some o => pure (w, "ok " ++ showRatLists (o.val w.heap))
    | none => pure (w, "err noobj")
  | ["shared"] => some (w, s!"ok {countShared w.allRefs}")
  | _ => none

end HcipyVerif.Grid
