/-!
# Model of hcipy's coronagraphs (property C09) — core Lean only

Three independent parts, each mirroring one source file:

* `perfect_coronagraph.py` — the list of modes `aperture · x^j · y^(i-j)` (`i < order/2`,
  `j ≤ i`), the number of coefficients `int(order * (order / 2 + 1) / 4)`, and the operator
  `E ↦ E − T T⁺ E`.  The code obtains `T` by QR and `T⁺` by a truncated SVD; the model obtains
  the same operator by exact (modified) Gram–Schmidt.  *Modelled assumption*, tied by the
  correspondence on every run: LAPACK's QR returns orthonormal columns spanning the modes and
  the SVD pseudo-inverse of such a matrix is its (conjugate) transpose.
* `lyot.py` — `LyotCoronagraph.forward` (`E − B((F E) − m·(F E))`, then the Lyot stop) and
  `OccultedLyotCoronagraph.forward` (`B(m · F E)`), for arbitrary matrices `F`, `B`.
* `multi_scale.py` (shared verbatim by `vortex.py:VectorVortexCoronagraph.make_instance`) —
  the integer/rational bookkeeping of the levels: number of levels, `qs`, `num_airys`, the
  focal grid of every level (`make_focal_grid`), and the padding of the Tukey window to the
  grid shape (`np.pad(w, (shape - w.shape) // 2)` followed by a broadcasting multiplication).

Vectors are `Vector K n` (arrays of fixed length).  The scalar `K` is abstract (plain notation classes): the driver runs at
`Rat` and at the Gaussian rationals `CRat`; the theorems are proved over ordered fields / rings.
-/
namespace HcipyVerif.Coronagraph

/-! ## 1. Perfect coronagraph: bookkeeping -/

/-- The exponents `(j, i-j)` in the order of the code's double loop
`for i in range(order // 2): for j in range(i + 1)`. -/
def modeExps (order : Nat) : List (Nat × Nat) :=
  (List.range (order / 2)).flatMap fun i => (List.range (i + 1)).map fun j => (j, i - j)

/-- Number of modes the loop appends. -/
def modeCount (order : Nat) : Nat := (modeExps order).length

/-- `len(coeffs) = int(order * (order / 2 + 1) / 4)` evaluated exactly:
`order·(order/2+1)/4 = order·(order+2)/8`, truncated. -/
def coeffsLen (order : Nat) : Nat := order * (order + 2) / 8

/-- Number of coefficients `forward` uses after the repair D30: `coeffs` is cut to the number of
orthogonalised modes, and QR returns at most one per grid point. -/
def coeffsUsed (order npix : Nat) : Nat := min (coeffsLen order) (min npix (modeCount order))

/-! ## 2. Vectors -/

/-- Vectors are arrays of a fixed length (strict data: the compiled driver never re-evaluates a
sample). -/
abbrev Vec (K : Type) (n : Nat) := Vector K n

/-- The all-zero field. -/
def zeroVec (K : Type) [OfNat K 0] (n : Nat) : Vec K n := Vector.ofFn fun _ => 0

section Scalar
variable {K : Type} [Add K] [Sub K] [Mul K] [Div K] [OfNat K 0] [OfNat K 1] [Pow K Nat]

/-- Unweighted bilinear form `Σ u_i v_i` (the code's QR / matrix products use no grid weights). -/
def dot {n : Nat} (u v : Vec K n) : K := Fin.foldl n (fun acc i => acc + u[i] * v[i]) 0

/-- Remove from `x` its component along `u` (identity when `u = 0`, as `0/0 = 0`). -/
def step {n : Nat} (u x : Vec K n) : Vec K n :=
  let c := dot u x / dot u u
  Vector.ofFn fun i => x[i] - c * u[i]

/-- Remove the components along every vector of the list, in order. -/
def residual {n : Nat} : List (Vec K n) → Vec K n → Vec K n
  | [], x => x
  | u :: us, x => residual us (step u x)

/-- Modified Gram–Schmidt: every mode is replaced by its residual against the vectors found so
far (a zero residual — linearly dependent mode — is kept; it is inert in `step`). -/
def gsAux {n : Nat} : List (Vec K n) → List (Vec K n) → List (Vec K n)
  | acc, [] => acc
  | acc, f :: fs => gsAux (acc ++ [residual acc f]) fs

def gs {n : Nat} (modes : List (Vec K n)) : List (Vec K n) := gsAux [] modes

/-- `E ↦ E − T T⁺ E` for the span of `modes`. -/
def perfect {n : Nat} (modes : List (Vec K n)) (x : Vec K n) : Vec K n := residual (gs modes) x

/-- `aperture * x**j * y**k`. -/
def mode {n : Nat} (a x y : Vec K n) (e : Nat × Nat) : Vec K n :=
  Vector.ofFn fun i => a[i] * x[i] ^ e.1 * y[i] ^ e.2

def modes {n : Nat} (a x y : Vec K n) (order : Nat) : List (Vec K n) :=
  (modeExps order).map (mode a x y)

/-- `PerfectCoronagraph(aperture, order).forward` on one real component of the field
(`coeffs = None`). -/
def perfectCoronagraph {n : Nat} (a x y : Vec K n) (order : Nat) (E : Vec K n) : Vec K n :=
  perfect (modes a x y order) E

/-- Total power `Σ E_i²` of one real component (constant grid weight dropped). -/
def power {n : Nat} (E : Vec K n) : K := dot E E

/-! ## 3. Lyot coronagraphs -/

/-- Matrix–vector product; `M[k]` is row `k`. -/
def matVec {m n : Nat} (M : Vector (Vec K n) m) (v : Vec K n) : Vec K m :=
  Vector.ofFn fun k => dot M[k] v

/-- `LyotCoronagraph.forward`: `wf_foc = F E; wf_foc -= m * wf_foc; lyot = B wf_foc;
lyot = E - lyot; lyot *= stop` (no stop: `none`). -/
def lyotForward {m n : Nat} (F : Vector (Vec K n) m) (B : Vector (Vec K m) n) (mask : Vec K m)
    (stop : Option (Vec K n)) (E : Vec K n) : Vec K n :=
  let foc := matVec F E
  let foc' : Vec K m := Vector.ofFn fun k => foc[k] - foc[k] * mask[k]
  let ly := matVec B foc'
  let out : Vec K n := Vector.ofFn fun i => E[i] - ly[i]
  match stop with
  | none => out
  | some s => Vector.ofFn fun i => out[i] * s[i]

/-- `OccultedLyotCoronagraph.forward`: `B (m * (F E))`. -/
def occultedForward {m n : Nat} (F : Vector (Vec K n) m) (B : Vector (Vec K m) n) (mask : Vec K m)
    (E : Vec K n) : Vec K n :=
  let foc := matVec F E
  matVec B (Vector.ofFn fun k => foc[k] * mask[k])

end Scalar

/-- Gaussian rationals, the scalar at which the driver runs the Lyot model. -/
structure CRat where
  re : Rat
  im : Rat
deriving BEq, Repr

instance : Add CRat := ⟨fun a b => ⟨a.re + b.re, a.im + b.im⟩⟩
instance : Sub CRat := ⟨fun a b => ⟨a.re - b.re, a.im - b.im⟩⟩
instance : Mul CRat := ⟨fun a b => ⟨a.re * b.re - a.im * b.im, a.re * b.im + a.im * b.re⟩⟩
instance : Div CRat := ⟨fun a b =>
  let d := b.re * b.re + b.im * b.im
  ⟨(a.re * b.re + a.im * b.im) / d, (a.im * b.re - a.re * b.im) / d⟩⟩
instance : OfNat CRat 0 := ⟨⟨0, 0⟩⟩
instance : OfNat CRat 1 := ⟨⟨1, 0⟩⟩
instance : Pow CRat Nat := ⟨fun a k => (List.replicate k a).foldl (· * ·) 1⟩

/-! ## 4. Multi-scale phase-mask coronagraphs: level bookkeeping -/

/-- Parameters as the constructor sees them: `input_grid.shape = (ny, nx)`,
`input_grid.delta = (dx, dy)`, `q`, `scaling_factor`, `window_size`. -/
structure MSParams where
  ny : Nat
  nx : Nat
  dx : Rat
  dy : Rat
  q : Rat
  s : Rat
  w : Nat

/-- Least `k` (searching upwards from `k`, with `p = s^k`) such that `s^k ≥ half`. -/
def levelSearch (half s : Rat) : Nat → Nat → Rat → Nat
  | 0, k, _ => k
  | fuel + 1, k, p => if half ≤ p then k else levelSearch half s fuel (k + 1) (p * s)

/-- `levels = int(ceil(log(q/2) / log(s))) + 1` in exact arithmetic, for `q > 2/s`
(for `q ≤ 2` the quotient is in `(-1, 0]` and the ceiling is 0).  `fuel` bounds the search. -/
def levels (q s : Rat) (fuel : Nat := 64) : Nat := levelSearch (q / 2) s fuel 0 1 + 1

/-- `q/2` is an exact power of `s`: the float quotient of logarithms may round to either side of
the integer, so the real code may use one level more (never fewer than needed). -/
def levelsBoundary (q s : Rat) (fuel : Nat := 64) : Bool :=
  q / 2 == s ^ (levelSearch (q / 2) s fuel 0 1)

/-- `qs[i] = 2 * scaling_factor**i`. -/
def qLevel (s : Rat) (i : Nat) : Rat := 2 * s ^ i

/-- Pixels per level beyond the first: `floor(window_size * scaling_factor)`. -/
def levelPix (p : MSParams) : Nat := ((p.w : Rat) * p.s).floor.toNat

/-- `num_airys[i]` (component 0 pairs with `shape[0] = ny`), after the repair D32:
`(floor(window_size * scaling_factor) + 0.5) / (2 * qs[i])` for `i ≥ 1`. -/
def numAiry (p : MSParams) : Nat → Rat × Rat
  | 0 => ((p.ny : Rat) / 2, (p.nx : Rat) / 2)
  | i + 1 =>
    let v := ((levelPix p : Rat) + 1 / 2) / (2 * qLevel p.s (i + 1))
    (v, v)

/-- The recursion before D32, in exact arithmetic:
`num_airys[i-1] * window_size / (2 * qs[i-1] * num_airys[i-1])`.  Evaluated in floats its product
with `2 q_i` can fall just below the integer `window_size * scaling_factor` (s = 3, 5/2, 3/2 …),
which exact arithmetic cannot show: `dims_old_eq` proves the two agree exactly. -/
def numAiryOld (p : MSParams) : Nat → Rat × Rat
  | 0 => ((p.ny : Rat) / 2, (p.nx : Rat) / 2)
  | i + 1 =>
    let prev := numAiryOld p i
    (prev.1 * p.w / (2 * qLevel p.s i * prev.1), prev.2 * p.w / (2 * qLevel p.s i * prev.2))

def dimsLevelOld (p : MSParams) (i : Nat) : Nat × Nat :=
  let na := numAiryOld p i
  ((2 * na.1 * qLevel p.s i).floor.toNat, (2 * na.2 * qLevel p.s i).floor.toNat)

/-- `dims = (2 * num_airy * q).astype('int')` of `make_focal_grid`. -/
def dimsLevel (p : MSParams) (i : Nat) : Nat × Nat :=
  let na := numAiry p i
  ((2 * na.1 * qLevel p.s i).floor.toNat, (2 * na.2 * qLevel p.s i).floor.toNat)

/-- `delta = spatial_resolution / q` with `spatial_resolution = 1 / (shape * delta_pupil)`. -/
def deltaLevel (p : MSParams) (i : Nat) : Rat × Rat :=
  (1 / ((p.ny : Rat) * p.dx) / qLevel p.s i, 1 / ((p.nx : Rat) * p.dy) / qLevel p.s i)

/-- `zero = delta * (-dims / 2 + mod(dims, 2) * 0.5)`. -/
def zeroOf (delta : Rat) (dims : Nat) : Rat :=
  delta * (-(dims : Rat) / 2 + ((dims % 2 : Nat) : Rat) / 2)

def zeroLevel (p : MSParams) (i : Nat) : Rat × Rat :=
  let d := dimsLevel p i
  let dl := deltaLevel p i
  (zeroOf dl.1 d.1, zeroOf dl.2 d.2)

/-- Index of the sample at the origin of a `make_focal_grid` axis with `dims` points. -/
def originIndex (dims : Nat) : Nat := dims / 2

/-- Result of padding the `w × w` Tukey window to a focal grid with `dims = (d0, d1)`
(`shape = (d1, d0)`): `np.pad(win, (shape - w) // 2)` interprets the two numbers as
(before, after) *for every axis*; negative → ValueError; the padded window is then ravelled and
multiplied into the mask, which raises unless the sizes agree (or the window has one sample,
which broadcasts). -/
inductive Pad where
  | ok (before after : Nat)
  | raises
deriving BEq, Repr, DecidableEq

def padWindow (dims : Nat × Nat) (w : Nat) : Pad :=
  let b : Int := ((dims.2 : Int) - w) / 2
  let a : Int := ((dims.1 : Int) - w) / 2
  if b < 0 ∨ a < 0 then .raises
  else
    let tot := w + b.toNat + a.toNat
    if tot * tot = dims.1 * dims.2 ∨ tot * tot = 1 then .ok b.toNat a.toNat else .raises

/-- Padding at every level that applies a window (all but the last), in construction order. -/
def padLevels (p : MSParams) (lv : Nat) : List Pad :=
  (List.range (lv - 1)).map fun i => padWindow (dimsLevel p i) p.w

/-- The constructor runs to completion iff no level raises. -/
def accepted (p : MSParams) (lv : Nat) : Bool :=
  (padLevels p lv).all fun r => r != .raises

/-- Propagator used at a level: `0` = `FourierFilter(input_grid, mask, q = 2)`,
`1` = `FraunhoferPropagator(input_grid, focal_grid)`. -/
def propKind (i : Nat) : Nat := if i = 0 then 0 else 1

end HcipyVerif.Coronagraph
