/-!
# Model of hcipy's coronagraphs (property C09) — core Lean only

Three independent parts, each mirroring one source file:

* `perfect_coronagraph.py` — the list of modes `aperture · x^j · y^(i-j)` (`i < order/2`,
  `j ≤ i`), the number of coefficients `int(order * (order / 2 + 1) / 4)`, and the operator
  `E ↦ E − T T⁺ E`.  The code obtains `T` by QR and `T⁺` by a truncated SVD; the model obtains
  the same operator by exact (modified) Gram–Schmidt.  *Modelled assumption*, tied by the
  correspondence on every run: LAPACK's QR returns orthonormal columns spanning the modes and
  the SVD pseudo-inverse of such a matrix is its (conjugate) transpose.
* `lyot.py` — `LyotCoronagraph.forward` (`E − B((F E) − m·(F E))`, then the Lyot stop) and
  `OccultedLyotCoronagraph.forward` (`B(m · F E)`), for arbitrary matrices `F`, `B`.
* `multi_scale.py` (shared verbatim by `vortex.py:VectorVortexCoronagraph.make_instance`) —
  the integer/rational bookkeeping of the levels: number of levels, `qs`, `num_airys`, the
  focal grid of every level (`make_focal_grid`), and the padding of the Tukey window to the
  grid shape (`np.pad(w, (shape - w.shape) // 2)` followed by a broadcasting multiplication).

Vectors are `Vector K n` (arrays of fixed length).  The scalar `K` is abstract (plain notation classes): the driver runs at
`Rat` and at the Gaussian rationals `CRat`; the theorems are proved over ordered fields / rings.
-/
namespace HcipyVerif.Coronagraph

/-! ## 1. Perfect coronagraph: bookkeeping -/

/-- The exponents `(j, i-j)` in the order of the code's double loop
`for i in range(order // 2): for j in range(i + 1)`. -/
def modeExps (order : Nat) : List (Nat × Nat) :=
  (List.range (order / 2)).flatMap fun i => (List.range (i + 1)).map fun j => (j, i - j)

/-- Number of modes the loop appends. -/
def modeCount (order : Nat) : Nat := (modeExps order).length

/-- `len(coeffs) = int(order * (order / 2 + 1) / 4)` evaluated exactly:
`order·(order/2+1)/4 = order·(order+2)/8`, truncated. -/
def coeffsLen (order : Nat) : Nat := order * (order + 2) / 8

/-- Number of coefficients `forward` uses after the repair D30: `coeffs` is cut to the number of
orthogonalised modes, and QR returns at most one per grid point. -/
def coeffsUsed (order npix : Nat) : Nat := min (coeffsLen order) (min npix (modeCount order))

/-! ## 2. Vectors -/

/-- Vectors are arrays of a fixed length (strict data: the compiled driver never re-evaluates a
sample). -/
abbrev Vec (K : Type) (n : Nat) := Vector K n

/-- The all-zero field. -/
def zeroVec (K : Type) [OfNat K 0] (n : Nat) : Vec K n := Vector.ofFn fun _ => 0

section Scalar
variable {K : Type} [Add K] [Sub K] [Mul K] [Div K] [OfNat K 0] [OfNat K 1] [Pow K Nat]

/-- Unweighted bilinear form `Σ u_i v_i` (the code's QR / matrix products use no grid weights). -/
def dot {n : Nat} (u v : Vec K n) : K := Fin.foldl n (fun acc i => acc + u[i] * v[i]) 0

/-- Remove from `x` its component along `u` (identity when `u = 0`, as `0/0 = 0`). -/
def step {n : Nat} (u x : Vec K n) : Vec K n :=
  let c := dot u x / dot u u
  Vector.ofFn fun i => x[i] - c * u[i]

/-- Remove the components along every vector of the list, in order. -/
def residual {n : Nat} : List (Vec K n) → Vec K n → Vec K n
  | [], x => x
  | u :: us, x => residual us (step u x)

/-- Modified Gram–Schmidt: every mode is replaced by its residual against the vectors found so
far (a zero residual — linearly dependent mode — is kept; it is inert in `step`). -/
def gsAux {n : Nat} : List (Vec K n) → List (Vec K n) → List (Vec K n)
  | acc, [] => acc
  | acc, f :: fs => gsAux (acc ++ [residual acc f]) fs

def gs {n : Nat} (modes : List (Vec K n)) : List (Vec K n) := gsAux [] modes

/-- `E ↦ E − T T⁺ E` for the span of `modes`. -/
def perfect {n : Nat} (modes : List (Vec K n)) (x : Vec K n) : Vec K n := residual (gs modes) x

/-- `aperture * x**j * y**k`. -/
def mode {n : Nat} (a x y : Vec K n) (e : Nat × Nat) : Vec K n :=
  Vector.ofFn fun i => a[i] * x[i] ^ e.1 * y[i] ^ e.2

def modes {n : Nat} (a x y : Vec K n) (order : Nat) : List (Vec K n) :=
  (modeExps order).map (mode a x y)

/-- `PerfectCoronagraph(aperture, order).forward` on one real component of the field
(`coeffs = None`). -/
def perfectCoronagraph {n : Nat} (a x y : Vec K n) (order : Nat) (E : Vec K n) : Vec K n :=
  perfect (modes a x y order) E

/-- Total power `Σ E_i²` of one real component (constant grid weight dropped). -/
def power {n : Nat} (E : Vec K n) : K := dot E E

/-! ## 3. Lyot coronagraphs -/

/-- Matrix–vector product; `M[k]` is row `k`. -/
def matVec {m n : Nat} (M : Vector (Vec K n) m) (v : Vec K n) : Vec K m :=
  Vector.ofFn fun k => dot M[k] v

/-- `LyotCoronagraph.forward`: `wf_foc = F E; wf_foc -= m * wf_foc; lyot = B wf_foc;
lyot = E - lyot; lyot *= stop` (no stop: `none`). -/
def lyotForward {m n : Nat} (F : Vector (Vec K n) m) (B : Vector (Vec K m) n) (mask : Vec K m)
    (stop : Option (Vec K n)) (E : Vec K n) : Vec K n :=
  let foc := matVec F E
  let foc' : Vec K m := Vector.ofFn fun k => foc[k] - foc[k] * mask[k]
  let ly := matVec B foc'
  let out : Vec K n := Vector.ofFn fun i => E[i] - ly[i]
  match stop with
  | none => out
  | some s => Vector.ofFn fun i => out[i] * s[i]

/-- `OccultedLyotCoronagraph.forward`: `B (m * (F E))`. -/
def occultedForward {m n : Nat} (F : Vector (Vec K n) m) (B : Vector (Vec K m) n) (mask : Vec K m)
    (E : Vec K n) : Vec K n :=
  let foc := matVec F E
  matVec B (Vector.ofFn fun k => foc[k] * mask[k])

/-- `LyotCoronagraph.backward`: `wf = lyot_stop.backward(E)` (an `Apodizer` multiplies by the
*conjugate*, `cj`); `wf_foc = F wf; wf_foc -= conj(m) * wf_foc; pup = B wf_foc; pup = wf - pup`.
The stop acts first, the same pair `F`, `B` is used in the same order as in `forward`. -/
def lyotBackward {m n : Nat} (cj : K → K) (F : Vector (Vec K n) m) (B : Vector (Vec K m) n) (mask : Vec K m)
    (stop : Option (Vec K n)) (E : Vec K n) : Vec K n :=
  let wf : Vec K n := match stop with
    | none => E
    | some s => Vector.ofFn fun i => E[i] * cj s[i]
  let foc := matVec F wf
  let foc' : Vec K m := Vector.ofFn fun k => foc[k] - foc[k] * cj mask[k]
  let pup := matVec B foc'
  Vector.ofFn fun i => wf[i] - pup[i]

/-- `OccultedLyotCoronagraph.backward`: `B (conj(m) * (F E))`. -/
def occultedBackward {m n : Nat} (cj : K → K) (F : Vector (Vec K n) m) (B : Vector (Vec K m) n) (mask : Vec K m)
    (E : Vec K n) : Vec K n :=
  let foc := matVec F E
  matVec B (Vector.ofFn fun k => foc[k] * cj mask[k])

/-- `Σ_i conj(u_i) v_i` (unweighted; pupil and Lyot plane share one regular grid). -/
def cdot {n : Nat} (cj : K → K) (u v : Vec K n) : K := Fin.foldl n (fun acc i => acc + cj u[i] * v[i]) 0

/-- Entry `(i, k)` of `B − Fᴴ` (all zero iff `backward` of the propagator is the adjoint of its `forward`). -/
def propAdjointDefect {m n : Nat} (cj : K → K) (F : Vector (Vec K n) m) (B : Vector (Vec K m) n)
    (i : Fin n) (k : Fin m) : K := B[i][k] - cj F[k][i]

end Scalar

/-! ## 5. The perfect coronagraph as the code literally computes it (round 4)

`forward` evaluates `E − einsum('kj,j,ji,...i->...k', T, coeffs, T⁺, E)` with `T = transformation`
(`n × k`, one row per grid point) and `T⁺ = transformation_inverse` (`k × n`).  This section models
that expression for *arbitrary* matrices; the driver runs it on the matrices of the real object
(floats are exact rationals; a complex `n × k` matrix is sent as its real `2n × 2k` form), and the
hypotheses of the theorems (`LeftInv`, `WAdjoint`, `NullsModes`) are the decidable predicates whose
defects the driver reports for the real `transformation` on every run. -/
section Literal
variable {K : Type} [Add K] [Sub K] [Mul K] [Div K] [OfNat K 0] [OfNat K 1] [Pow K Nat]

/-- `E − T (c ∘ (T⁺ E))`. -/
def perfectMat {n k : Nat} (T : Vector (Vec K k) n) (Tinv : Vector (Vec K n) k) (c : Vec K k)
    (E : Vec K n) : Vec K n :=
  let a := matVec Tinv E
  let ca : Vec K k := Vector.ofFn fun j => c[j] * a[j]
  let corr := matVec T ca
  Vector.ofFn fun i => E[i] - corr[i]

/-- `coeffs = np.ones(…)`. -/
def onesVec (K : Type) [OfNat K 1] (k : Nat) : Vec K k := Vector.ofFn fun _ => 1

/-- Column `l` of a matrix given by rows. -/
def col {n k : Nat} (T : Vector (Vec K k) n) (l : Fin k) : Vec K n := Vector.ofFn fun i => T[i][l]

/-- Entry `(j, l)` of `T⁺ T − I` (zero for all `j, l` iff `T⁺` is a left inverse of `T`). -/
def leftInvDefect {n k : Nat} (T : Vector (Vec K k) n) (Tinv : Vector (Vec K n) k) (j l : Fin k) : K :=
  dot Tinv[j] (col T l) - (if j = l then 1 else 0)

/-- Entry `(j, i)` of `T⁺ − μ Tᵀ W` (zero iff `T⁺` is `μ` times the adjoint of `T` in the inner
product weighted by `w`; the code has `T⁺ = Tᴴ`, i.e. `w` constant and `μ = 1/w`). -/
def adjointDefect {n k : Nat} (T : Vector (Vec K k) n) (Tinv : Vector (Vec K n) k) (w : Vec K n) (mu : K)
    (j : Fin k) (i : Fin n) : K :=
  Tinv[j][i] - mu * (T[i][j] * w[i])

/-- `get_transformation_matrix_forward()` (= `…_backward()`): `np.eye(n) − T.dot(coeffs[:, None] * T⁺)`,
the matrix the object reports for itself (with the row-wise broadcast of D109). -/
def perfectMatrix {n k : Nat} (T : Vector (Vec K k) n) (Tinv : Vector (Vec K n) k) (c : Vec K k) :
    Vector (Vec K n) n :=
  Vector.ofFn fun i => Vector.ofFn fun i' =>
    (if i = i' then 1 else 0) - dot T[i] (Vector.ofFn fun j => c[j] * Tinv[j][i'])

/-- `total_power` of one real component: `Σ w_i E_i²`. -/
def powerW {n : Nat} (w E : Vec K n) : K := Fin.foldl n (fun acc i => acc + w[i] * (E[i] * E[i])) 0

end Literal

/-! ## 6. Multi-scale coronagraphs: the algebra of the construction and of `forward` (round 4)

All focal-plane levels are embedded in one index set `Fin d` (the harness embeds the level grids
as disjoint blocks; the telescoping theorem uses nested supports).  A level carries what the
constructor computes for it and the operators it uses:

* `raw = complex_mask(focal_grid)`, `win` = the padded window (ignored on the last level, as in
  `if i != levels - 1`),
* `R[j]` = the resampling `mft.backward(fft.forward(·))` of the mask of level `j < i` to this level,
* `F`, `B` = what `prop.forward` / `prop.backward` do (level 0: the two halves of `FourierFilter`). -/
section MultiScaleAlgebra
variable {K : Type} [Add K] [Sub K] [Mul K] [Div K] [OfNat K 0] [OfNat K 1] [Pow K Nat]

structure MSLevel (K : Type) (d n : Nat) where
  raw : Vec K d
  win : Vec K d
  R : List (Vector (Vec K d) d)
  F : Vector (Vec K n) d
  B : Vector (Vec K d) n

/-- `focal_mask -= mft.backward(fft.forward(focal_masks[j]))` for every earlier level `j`
(`zip`: a missing resampler or mask subtracts nothing). -/
def subCorrections {d : Nat} : Vec K d → List (Vector (Vec K d) d) → List (Vec K d) → Vec K d
  | acc, R :: Rs, M :: Ms =>
    let c := matVec R M
    subCorrections (Vector.ofFn fun p => acc[p] - c[p]) Rs Ms
  | acc, _, _ => acc

/-- The stored mask of one level, given the masks of the earlier levels. -/
def msMask {d n : Nat} (l : MSLevel K d n) (last : Bool) (prev : List (Vec K d)) : Vec K d :=
  let m0 : Vec K d := if last then l.raw else Vector.ofFn fun p => l.raw[p] * (1 - l.win[p])
  subCorrections m0 l.R prev

/-- The constructor's loop: `prev` are the masks built so far. -/
def msMasksAux {d n : Nat} : List (Vec K d) → List (MSLevel K d n) → List (Vec K d)
  | prev, [] => prev
  | prev, l :: ls => msMasksAux (prev ++ [msMask l ls.isEmpty prev]) ls

def msMasks {d n : Nat} (ls : List (MSLevel K d n)) : List (Vec K d) := msMasksAux [] ls

/-- One term of `forward`: `prop.backward(mask * prop.forward(E))`. -/
def msTerm {d n : Nat} (l : MSLevel K d n) (M : Vec K d) (E : Vec K n) : Vec K n :=
  let foc := matVec l.F E
  matVec l.B (Vector.ofFn fun p => foc[p] * M[p])

/-- `lyot = term_0; lyot += term_i …` -/
def msSum {d n : Nat} : List (MSLevel K d n) → List (Vec K d) → Vec K n → Vec K n
  | l :: ls, M :: Ms, E =>
    let t := msTerm l M E
    let r := msSum ls Ms E
    Vector.ofFn fun i => t[i] + r[i]
  | _, _, _ => zeroVec K n

/-- `MultiScaleCoronagraph.forward` on a wavefront whose wavelength has been set to 1 (the code
does `wavefront.wavelength = 1` first and restores it afterwards): the wavelength does not enter. -/
def msForward {d n : Nat} (ls : List (MSLevel K d n)) (stop : Option (Vec K n)) (E : Vec K n) : Vec K n :=
  let out := msSum ls (msMasks ls) E
  match stop with
  | none => out
  | some s => Vector.ofFn fun i => out[i] * s[i]

/-- `MultiScaleCoronagraph.backward` (wavelength already 1): the Lyot stop acts first
(`lyot_stop.backward`, an `Apodizer`: the conjugate), every level uses the same `prop.forward` /
`prop.backward` pair in the same order as `forward`, with the stored mask conjugated
(`FourierFilter.backward` on level 0, `focal.electric_field *= mask.conj()` on the others). -/
def msBackward {d n : Nat} (cj : K → K) (ls : List (MSLevel K d n)) (stop : Option (Vec K n)) (E : Vec K n) : Vec K n :=
  let wf : Vec K n := match stop with
    | none => E
    | some s => Vector.ofFn fun i => E[i] * cj s[i]
  msSum ls ((msMasks ls).map fun M => Vector.ofFn fun p => cj M[p]) wf

/-! ### the design the level bookkeeping must realise: exact windows on nested supports

All levels sample one focal plane `Fin d`; level `i` sees only the samples of its support `S_i`
(its propagators are the restrictions of one pair `F`, `B`), samples the same mask `m`, and
resampling a coarser mask to it is exact (the identity on the common plane). -/

/-- `F` restricted to the support: rows outside are zero. -/
def restrictRows {d n : Nat} (F : Vector (Vec K n) d) (S : Vector Bool d) : Vector (Vec K n) d :=
  Vector.ofFn fun p => if S[p] then F[p] else zeroVec K n

/-- `B` restricted to the support: columns outside are zero. -/
def restrictCols {d n : Nat} (B : Vector (Vec K d) n) (S : Vector Bool d) : Vector (Vec K d) n :=
  Vector.ofFn fun i => Vector.ofFn fun p => if S[p] then B[i][p] else 0

def idMat (K : Type) [OfNat K 0] [OfNat K 1] (d : Nat) : Vector (Vec K d) d :=
  Vector.ofFn fun p => Vector.ofFn fun q => if p = q then 1 else 0

/-- Level number `i` of the exact design: support `S`, window `w`. -/
def exactLevel {d n : Nat} (m : Vec K d) (F : Vector (Vec K n) d) (B : Vector (Vec K d) n)
    (i : Nat) (sp : Vector Bool d × Vec K d) : MSLevel K d n :=
  { raw := m, win := sp.2, R := List.replicate i (idMat K d), F := restrictRows F sp.1, B := restrictCols B sp.1 }

def exactLevelsFrom {d n : Nat} (m : Vec K d) (F : Vector (Vec K n) d) (B : Vector (Vec K d) n) :
    Nat → List (Vector Bool d × Vec K d) → List (MSLevel K d n)
  | _, [] => []
  | i, sp :: sps => exactLevel m F B i sp :: exactLevelsFrom m F B (i + 1) sps

def exactLevels {d n : Nat} (m : Vec K d) (F : Vector (Vec K n) d) (B : Vector (Vec K d) n)
    (sps : List (Vector Bool d × Vec K d)) : List (MSLevel K d n) := exactLevelsFrom m F B 0 sps

/-- The single-level reference: `B (m · F E)`. -/
def idealForward {d n : Nat} (m : Vec K d) (F : Vector (Vec K n) d) (B : Vector (Vec K d) n) (E : Vec K n) : Vec K n :=
  let foc := matVec F E
  matVec B (Vector.ofFn fun p => foc[p] * m[p])

/-- Decidable side conditions of the telescoping theorem: `u` (the window of the previous level,
all ones before level 0) and the level's own window vanish outside the level's support. -/
def nestedOK [BEq K] {d : Nat} : Vec K d → List (Vector Bool d × Vec K d) → Bool
  | _, [] => true
  | u, sp :: sps =>
    (List.finRange d).all (fun p => sp.1[p] || (u[p] == 0 && sp.2[p] == 0)) && nestedOK sp.2 sps

/-- A monochromatic wavefront: field and wavelength. -/
structure Wf (K : Type) (n : Nat) where
  E : Vec K n
  wavelength : K

/-- `forward` including the wavelength bookkeeping.  `lsAt wl` are the levels with the operators
their propagators have *when called at wavelength `wl`* (a Fraunhofer propagator scales its focal
grid with the wavelength).  The code sets `wavefront.wavelength = 1` before calling them and gives
the output the input's wavelength. -/
def msForwardWf {d n : Nat} (lsAt : K → List (MSLevel K d n)) (stop : Option (Vec K n)) (wf : Wf K n) : Wf K n :=
  let atOne : Wf K n := { wf with wavelength := 1 }
  { E := msForward (lsAt atOne.wavelength) stop atOne.E, wavelength := wf.wavelength }

/-- The variant without the rescaling (what `forward` would be without `wavefront.wavelength = 1`):
kept to show that achromaticity is a property of the bookkeeping, not of the model's types. -/
def msForwardWfBad {d n : Nat} (lsAt : K → List (MSLevel K d n)) (stop : Option (Vec K n)) (wf : Wf K n) : Wf K n :=
  { E := msForward (lsAt wf.wavelength) stop wf.E, wavelength := wf.wavelength }

end MultiScaleAlgebra

/-- Gaussian rationals, the scalar at which the driver runs the Lyot model. -/
structure CRat where
  re : Rat
  im : Rat
deriving BEq, Repr

instance : Add CRat := ⟨fun a b => ⟨a.re + b.re, a.im + b.im⟩⟩
instance : Sub CRat := ⟨fun a b => ⟨a.re - b.re, a.im - b.im⟩⟩
instance : Mul CRat := ⟨fun a b => ⟨a.re * b.re - a.im * b.im, a.re * b.im + a.im * b.re⟩⟩
instance : Div CRat := ⟨fun a b =>
  let d := b.re * b.re + b.im * b.im
  ⟨(a.re * b.re + a.im * b.im) / d, (a.im * b.re - a.re * b.im) / d⟩⟩
instance : OfNat CRat 0 := ⟨⟨0, 0⟩⟩
instance : OfNat CRat 1 := ⟨⟨1, 0⟩⟩
instance : Pow CRat Nat := ⟨fun a k => (List.replicate k a).foldl (· * ·) 1⟩

/-- complex conjugation -/
def CRat.conj (a : CRat) : CRat := ⟨a.re, -a.im⟩

/-! ## 5. Vector vortex: Jones algebra of the retarder, chromatic histories (round 5) -/

section VectorVortex
variable {K : Type} [Add K] [Sub K] [Mul K] [Div K] [OfNat K 0] [OfNat K 1]

/-- A 2×2 Jones matrix, row-major. -/
structure Jones (K : Type) where
  j11 : K
  j12 : K
  j21 : K
  j22 : K
deriving BEq, Repr

/-- `LinearRetarder(δ, φ).jones_matrix` (`hcipy/optics/polarization.py`: `j11 = e^{iδ/2}cos²φ +
e^{-iδ/2}sin²φ`, `j12 = j21 = (e^{iδ/2} − e^{-iδ/2}) cosφ sinφ`, `j22 = e^{iδ/2}sin²φ + e^{-iδ/2}cos²φ`)
written in `ch = cos(δ/2)`, `sh = sin(δ/2)`, `c2 = cos 2φ`, `s2 = sin 2φ`; `i` is the imaginary unit of
the scalar.  In the vector vortex `2φ = charge·θ`. -/
def retarderJones (i ch sh c2 s2 : K) : Jones K :=
  ⟨ch + i * sh * c2, i * sh * s2, i * sh * s2, ch - i * sh * c2⟩

/-- The pure vortex term: the half-wave plate with fast axis `φ` (divided by `i`). -/
def vortexTerm (c2 s2 : K) : Jones K := ⟨c2, s2, s2, 0 - c2⟩

/-- Jones matrix times Jones vector (`field_dot` at one pixel). -/
def Jones.apply (J : Jones K) (e : K × K) : K × K :=
  (J.j11 * e.1 + J.j12 * e.2, J.j21 * e.1 + J.j22 * e.2)

/-- Circular basis state `(1, ±i)` (not normalised: norm² = 2). -/
def circ (i : K) (plus : Bool) : K × K := (1, if plus then i else 0 - i)

/-- `⟨u, v⟩ = conj(u₁) v₁ + conj(u₂) v₂`. -/
def cdot2 (cj : K → K) (u v : K × K) : K := cj u.1 * v.1 + cj u.2 * v.2

/-- Amplitude (times 2) that the plate leaves in the circular state of the input: this part sees no
vortex phase — it is the leak. -/
def coPolar (cj : K → K) (i ch sh c2 s2 : K) (plus : Bool) : K :=
  cdot2 cj (circ i plus) ((retarderJones i ch sh c2 s2).apply (circ i plus))

/-- Amplitude (times 2) converted to the opposite circular state: the vortex term. -/
def crossPolar (cj : K → K) (i ch sh c2 s2 : K) (plus : Bool) : K :=
  cdot2 cj (circ i (!plus)) ((retarderJones i ch sh c2 s2).apply (circ i plus))

/-- Fraction of the power of a circularly polarised input that stays in the non-vortex term. -/
def vvLeak (cj : K → K) (i ch sh c2 s2 : K) (plus : Bool) : K :=
  let a := coPolar cj i ch sh c2 s2 plus
  let b := crossPolar cj i ch sh c2 s2 plus
  (cj a * a) / (cj a * a + cj b * b)

/-! ### One object used at several wavelengths

`AgnosticOpticalElement` keeps one instance per (grid, wavelength); `make_instance` evaluates every
wavelength-dependent parameter (`phase_retardation`, an apodisation, a focal-plane mask) *at the
wavelength of that instance*.  `P` is whatever the instance stores. -/

variable {P : Type}

def chromLookup [BEq K] (cache : List (K × P)) (wl : K) : Option P :=
  (cache.find? (fun e => e.1 == wl)).map (·.2)

/-- One use at wavelength `wl`: the instance data that `forward` runs with, and the cache afterwards. -/
def chromStep [BEq K] (param : K → P) (cache : List (K × P)) (wl : K) : P × List (K × P) :=
  match chromLookup cache wl with
  | some p => (p, cache)
  | none => (param wl, cache ++ [(wl, param wl)])

/-- The variant in which a new instance shares the data of an instance that already exists for the
same grid (the shortcut "the masks are defined in λ/D"): wrong as soon as `param` is not constant. -/
def chromStepShared [BEq K] (param : K → P) (cache : List (K × P)) (wl : K) : P × List (K × P) :=
  match chromLookup cache wl with
  | some p => (p, cache)
  | none =>
    match cache with
    | [] => (param wl, [(wl, param wl)])
    | (_, p0) :: _ => (p0, cache ++ [(wl, p0)])

/-- The instance data used at every step of a history of wavelengths. -/
def chromRunFrom [BEq K] (stepf : List (K × P) → K → P × List (K × P)) : List (K × P) → List K → List P
  | _, [] => []
  | cache, wl :: wls => (stepf cache wl).1 :: chromRunFrom stepf (stepf cache wl).2 wls

def chromRun [BEq K] (param : K → P) (wls : List K) : List P := chromRunFrom (chromStep param) [] wls

def chromRunShared [BEq K] (param : K → P) (wls : List K) : List P := chromRunFrom (chromStepShared param) [] wls

/-! ### Setter histories: a parameter is re-assigned on a used object (round 6)

`phase_retardation`, `charge`, `lyot_stop`, `q`, … of `VectorVortexCoronagraph` are plain public attributes;
`Apodizer.apodization` (the focal-plane mask and the Lyot stop of the Lyot coronagraphs) has a public setter.
The documented protocol is: assign, then `clear_cache()` (the `Apodizer` setter does it itself).  A parameter
is a constant **or** a function of wavelength, and an assignment may change which of the two it is.  The
code asks `callable(parameter)` *every time an instance is made* (`_get_parameter_signature`); nothing about
the parameter's kind is remembered from the constructor. -/

/-- A parameter as the user hands it over. -/
inductive Param (K P : Type) where
  | const : P → Param K P
  | fn : (K → P) → Param K P

/-- `AgnosticOpticalElement.evaluate_parameter` for the wavelength argument. -/
def Param.eval (p : Param K P) (wl : K) : P :=
  match p with
  | .const v => v
  | .fn f => f wl

def Param.isConst : Param K P → Bool
  | .const _ => true
  | .fn _ => false

/-- What happens to one object: it is used at a wavelength, or its parameter is assigned
(followed by `clear_cache()`). -/
inductive Ev (K P : Type) where
  | use : K → Ev K P
  | set : Param K P → Ev K P

/-- The object: the current parameter, the instance cache, and (only read by the defective variant)
the kind the parameter had when the object was constructed. -/
structure ObjSt (K P : Type) where
  param : Param K P
  cache : List (K × P)
  builtConst : Bool

def ObjSt.init (p : Param K P) : ObjSt K P := ⟨p, [], p.isConst⟩

/-- One event on the object as the code runs it; `some data` = the instance data `forward` used. -/
def setStep [BEq K] (st : ObjSt K P) : Ev K P → ObjSt K P × Option P
  | .use wl =>
    let r := chromStep st.param.eval st.cache wl
    ({ st with cache := r.2 }, some r.1)
  | .set p => ({ st with param := p, cache := [] }, none)

/-- Defective variant 1 (the seeded shortcut): "is the parameter achromatic?" is decided once, in the
constructor; an achromatic object routes every wavelength to the one instance of wavelength `w1`. -/
def setStepFrozen [BEq K] (w1 : K) (st : ObjSt K P) : Ev K P → ObjSt K P × Option P
  | .use wl =>
    let r := chromStep st.param.eval st.cache (if st.builtConst then w1 else wl)
    ({ st with cache := r.2 }, some r.1)
  | .set p => ({ st with param := p, cache := [] }, none)

/-- Defective variant 2: the assignment does not invalidate the instances that exist. -/
def setStepNoClear [BEq K] (st : ObjSt K P) : Ev K P → ObjSt K P × Option P
  | .use wl =>
    let r := chromStep st.param.eval st.cache wl
    ({ st with cache := r.2 }, some r.1)
  | .set p => ({ st with param := p }, none)

/-- The instance data used at every `use` of a history of events. -/
def setRunFrom (stepf : ObjSt K P → Ev K P → ObjSt K P × Option P) : ObjSt K P → List (Ev K P) → List P
  | _, [] => []
  | st, ev :: evs =>
    match (stepf st ev).2 with
    | some p => p :: setRunFrom stepf (stepf st ev).1 evs
    | none => setRunFrom stepf (stepf st ev).1 evs

def setRun [BEq K] (p0 : Param K P) (evs : List (Ev K P)) : List P := setRunFrom setStep (ObjSt.init p0) evs

def setRunFrozen [BEq K] (w1 : K) (p0 : Param K P) (evs : List (Ev K P)) : List P :=
  setRunFrom (setStepFrozen w1) (ObjSt.init p0) evs

def setRunNoClear [BEq K] (p0 : Param K P) (evs : List (Ev K P)) : List P :=
  setRunFrom setStepNoClear (ObjSt.init p0) evs

/-- What a *fresh* object, constructed with the parameter that is current at that moment and used only
at that wavelength, would run with — the property's reference. -/
def setSpec : Param K P → List (Ev K P) → List P
  | _, [] => []
  | p, .use wl :: evs => p.eval wl :: setSpec p evs
  | _, .set p :: evs => setSpec p evs

end VectorVortex

/-! ## 4. Multi-scale phase-mask coronagraphs: level bookkeeping -/

/-- Parameters as the constructor sees them: `input_grid.shape = (ny, nx)`,
`input_grid.delta = (dx, dy)`, `q`, `scaling_factor`, `window_size`. -/
structure MSParams where
  ny : Nat
  nx : Nat
  dx : Rat
  dy : Rat
  q : Rat
  s : Rat
  w : Nat

/-- Least `k` (searching upwards from `k`, with `p = s^k`) such that `s^k ≥ half`. -/
def levelSearch (half s : Rat) : Nat → Nat → Rat → Nat
  | 0, k, _ => k
  | fuel + 1, k, p => if half ≤ p then k else levelSearch half s fuel (k + 1) (p * s)

/-- `levels = int(ceil(log(q/2) / log(s))) + 1` in exact arithmetic, for `q > 2/s`
(for `q ≤ 2` the quotient is in `(-1, 0]` and the ceiling is 0).  `fuel` bounds the search. -/
def levels (q s : Rat) (fuel : Nat := 64) : Nat := levelSearch (q / 2) s fuel 0 1 + 1

/-- `q/2` is an exact power of `s`: the float quotient of logarithms may round to either side of
the integer, so the real code may use one level more (never fewer than needed). -/
def levelsBoundary (q s : Rat) (fuel : Nat := 64) : Bool :=
  q / 2 == s ^ (levelSearch (q / 2) s fuel 0 1)

/-- `qs[i] = 2 * scaling_factor**i`. -/
def qLevel (s : Rat) (i : Nat) : Rat := 2 * s ^ i

/-- Pixels per level beyond the first: `floor(window_size * scaling_factor)`. -/
def levelPix (p : MSParams) : Nat := ((p.w : Rat) * p.s).floor.toNat

/-- `num_airys[i]` (component 0 pairs with `shape[0] = ny`), after the repair D32:
`(floor(window_size * scaling_factor) + 0.5) / (2 * qs[i])` for `i ≥ 1`. -/
def numAiry (p : MSParams) : Nat → Rat × Rat
  | 0 => ((p.ny : Rat) / 2, (p.nx : Rat) / 2)
  | i + 1 =>
    let v := ((levelPix p : Rat) + 1 / 2) / (2 * qLevel p.s (i + 1))
    (v, v)

/-- The recursion before D32, in exact arithmetic:
`num_airys[i-1] * window_size / (2 * qs[i-1] * num_airys[i-1])`.  Evaluated in floats its product
with `2 q_i` can fall just below the integer `window_size * scaling_factor` (s = 3, 5/2, 3/2 …),
which exact arithmetic cannot show: `dims_old_eq` proves the two agree exactly. -/
def numAiryOld (p : MSParams) : Nat → Rat × Rat
  | 0 => ((p.ny : Rat) / 2, (p.nx : Rat) / 2)
  | i + 1 =>
    let prev := numAiryOld p i
    (prev.1 * p.w / (2 * qLevel p.s i * prev.1), prev.2 * p.w / (2 * qLevel p.s i * prev.2))

def dimsLevelOld (p : MSParams) (i : Nat) : Nat × Nat :=
  let na := numAiryOld p i
  ((2 * na.1 * qLevel p.s i).floor.toNat, (2 * na.2 * qLevel p.s i).floor.toNat)

/-- `dims = (2 * num_airy * q).astype('int')` of `make_focal_grid`. -/
def dimsLevel (p : MSParams) (i : Nat) : Nat × Nat :=
  let na := numAiry p i
  ((2 * na.1 * qLevel p.s i).floor.toNat, (2 * na.2 * qLevel p.s i).floor.toNat)

/-- `delta = spatial_resolution / q` with `spatial_resolution = 1 / (shape * delta_pupil)`. -/
def deltaLevel (p : MSParams) (i : Nat) : Rat × Rat :=
  (1 / ((p.ny : Rat) * p.dx) / qLevel p.s i, 1 / ((p.nx : Rat) * p.dy) / qLevel p.s i)

/-- `zero = delta * (-dims / 2 + mod(dims, 2) * 0.5)`. -/
def zeroOf (delta : Rat) (dims : Nat) : Rat :=
  delta * (-(dims : Rat) / 2 + ((dims % 2 : Nat) : Rat) / 2)

def zeroLevel (p : MSParams) (i : Nat) : Rat × Rat :=
  let d := dimsLevel p i
  let dl := deltaLevel p i
  (zeroOf dl.1 d.1, zeroOf dl.2 d.2)

/-- Index of the sample at the origin of a `make_focal_grid` axis with `dims` points. -/
def originIndex (dims : Nat) : Nat := dims / 2

/-- Result of padding the `w × w` Tukey window to a focal grid with `dims = (d0, d1)`
(`shape = (d1, d0)`): `np.pad(win, (shape - w) // 2)` interprets the two numbers as
(before, after) *for every axis*; negative → ValueError; the padded window is then ravelled and
multiplied into the mask, which raises unless the sizes agree (or the window has one sample,
which broadcasts). -/
inductive Pad where
  | ok (before after : Nat)
  | raises
deriving BEq, Repr, DecidableEq

def padWindow (dims : Nat × Nat) (w : Nat) : Pad :=
  let b : Int := ((dims.2 : Int) - w) / 2
  let a : Int := ((dims.1 : Int) - w) / 2
  if b < 0 ∨ a < 0 then .raises
  else
    let tot := w + b.toNat + a.toNat
    if tot * tot = dims.1 * dims.2 ∨ tot * tot = 1 then .ok b.toNat a.toNat else .raises

/-- Padding at every level that applies a window (all but the last), in construction order. -/
def padLevels (p : MSParams) (lv : Nat) : List Pad :=
  (List.range (lv - 1)).map fun i => padWindow (dimsLevel p i) p.w

/-- The constructor runs to completion iff no level raises. -/
def accepted (p : MSParams) (lv : Nat) : Bool :=
  (padLevels p lv).all fun r => r != .raises

/-- Propagator used at a level: `0` = `FourierFilter(input_grid, mask, q = 2)`,
`1` = `FraunhoferPropagator(input_grid, focal_grid)`. -/
def propKind (i : Nat) : Nat := if i = 0 then 0 else 1

end HcipyVerif.Coronagraph
