import HcipyVerif.Model.Detector

/-!
# Detectors (C17): the *unrepaired* tree and a detector that aliases — documentation, not evidence

/repo is repaired (D15, D29, D170); no driver op runs these definitions, the harness sends nothing to them, and no
property theorem of `Properties/C17.lean` mentions them.  They are kept so that the defects stay expressible in the
model (`Lemmas/DetectorOld.lean` proves the counterexamples).
-/
namespace HcipyVerif.Detector.Old
open HcipyVerif.Binning HcipyVerif.Detector

section
variable {K : Type} [Add K] [Zero K] [Mul K]

/-- D29: `NoiselessDetector.integrate` accumulated the supersampled power as is -/
def integrateOld (g : Geom) (st : St K) (p : List K) (dt w : K) : St K × Obs K :=
  if p.length = g.ninput then ({ acc := some (accAdd st.acc (charge p dt w)) }, .done)
  else (st, .refused)

/-- D15: `0.copy()` raises -/
def readOutOld (st : St K) : St K × Obs K :=
  match st.acc with
  | none => (st, .failed)
  | some a => ({ acc := none }, .image a)

def stepOld (g : Geom) (st : St K) : Op K → St K × Obs K
  | .integrate p dt w => integrateOld g st p dt w
  | .readOut => readOutOld st

def runOld (g : Geom) : St K → List (Op K) → St K × List (Obs K)
  | st, [] => (st, [])
  | st, op :: ops =>
    let r := stepOld g st op
    let rs := runOld g r.1 ops
    (rs.1, r.2 :: rs.2)

/-- Bad: the first integration scales the caller's buffer in place and keeps it as accumulator, later ones
add in place, the read-out returns the accumulator itself -/
def rStepBad (g : Geom) (st : RSt K) : ROp K → RSt K × RObs
  | .integrate buf dt w =>
    let p := st.at buf
    if p.length = g.ninput then
      let c := charge (binNDs g.ss g.dims p) dt w
      match st.acc with
      | none => ({ st with heap := st.heap.set buf c, acc := some buf }, .done)
      | some a => ({ st with heap := st.heap.set a (vadd (st.at a) c) }, .done)
    else (st, .refused)
  | .readOut =>
    match st.acc with
    | none => rStep g st .readOut
    | some a => ({ st with acc := none, known := st.known ++ [a] }, .ref a)
  | op => rStep g st op

def rRunBad (g : Geom) : RSt K → List (ROp K) → RSt K × List RObs
  | st, [] => (st, [])
  | st, op :: ops =>
    let r := rStepBad g st op
    let rs := rRunBad g r.1 ops
    (rs.1, r.2 :: rs.2)

/-- D170: the grid the power carries on the unrepaired subsampling-1 path of `NoiselessDetector`, which accumulated
the power with whatever grid it came with (plain arrays are wrapped on the input grid first) -/
def relabelOld : PTag → GTag
  | .onInput => .input
  | .onForeign => .foreign
  | .plain => .input

end

end HcipyVerif.Detector.Old
