/-!
# C19 — the Fourier half: backend selection with fall-through, and the MFT / NFT switches

Three small executable models of the *switching code* (not of the transforms themselves, whose
index arithmetic is C01/C02's business):

* `select` — `hcipy/_math/fft.py:_make_func`: the configured method list is tried in order, for every
  number of threads in the list of thread attempts; unavailable modules and unknown names are skipped
  silently, a backend that raises is skipped with a warning; nothing left ⇒ `ValueError`.
  `selectOld` is the code as it stands in /repo before the proposed `fix:` (D190): `threads_attempts`
  is bound only when `threads is None`, so every call with an explicit `threads=` dies with
  `UnboundLocalError` before any backend is tried.
* `mftCall` / `mftRun` — `MatrixFourierTransform._compute_matrices / forward / backward /
  _remove_matrices`: a cache of the matrices (keyed on the complex dtype) and of the gemm intermediate
  (keyed on the complex dtype; its shape is fixed per object), driven by the two switches
  `precompute_matrices` and `allocate_intermediate`.  `gemmInto` models what BLAS-through-f2py does
  with `c=buffer, overwrite_c=True`: the product lands in the buffer iff the buffer has the dtype of the
  call, otherwise f2py works on a converted *copy* and the buffer keeps its stale contents — so a cache
  that is keyed wrongly *does* give wrong results in this model (`computeBad`, the seeded defect C19-2).
* `nftCall` / `nftRun` — `NaiveFourierTransform.matrix_forward/backward` caching under
  `precompute_matrices`.

The kernels are parameters (`MftKern`, `NftKern`), so the models run in the driver with *provenance*
kernels (which precision the matrices were made at, which call wrote the buffer that was read) and are
proved for arbitrary kernels.  No Mathlib import: linked into the driver.
-/
namespace HcipyVerif.FourierSwitch

/-! ## `_make_func`: backend selection -/

/-- an entry of `Configuration().fourier.fft.method` (or the `method=` argument) -/
inductive Method where
  | mkl | fftw | scipy | numpy
  | other        -- any other string: no branch of the `if … elif` chain matches, nothing happens
deriving DecidableEq, Repr

inductive SelErr where
  | value        -- ValueError('No suitable/working FFT method could be found.')
  | unbound      -- UnboundLocalError: threads_attempts (old code, `threads=` given)
deriving DecidableEq, Repr

/-- is there anything to call for this name?  `avail` says whether the optional module was imported
*and* has the function (`mkl_fft is not None and mkl_func is not None`, `pyfftw is not None`);
scipy and numpy are hard dependencies. -/
def usable (avail : Method → Bool) : Method → Bool
  | .mkl => avail .mkl
  | .fftw => avail .fftw
  | .scipy => true
  | .numpy => true
  | .other => false

/-- the `workers=` argument the backend is called with (`mkl` and `numpy` are not given any) -/
def workersArg (m : Method) (t : Nat) : Option Nat :=
  match m with
  | .fftw | .scipy => some t
  | _ => none

/-- `threads_attempts` (after D190): an explicit `threads=` is the only attempt; otherwise one thread
for small inputs (`x.size < 256**2`) and `[_CPU_COUNT, 1]` for big ones -/
def threadAttempts (cpu : Nat) (threads : Option Nat) (big : Bool) : List Nat :=
  match threads with
  | some t => [t]
  | none => if big then [cpu, 1] else [1]

/-- the call is made and returns (does not raise) -/
def callable (avail : Method → Bool) (works : Method → Nat → Bool) (m : Method) (t : Nat) : Bool :=
  usable avail m && works m t

/-- inner loop `for method in methods` for one number of threads -/
def firstWorking (avail : Method → Bool) (works : Method → Nat → Bool) (t : Nat) : List Method → Option Method
  | [] => none
  | m :: ms => if callable avail works m t then some m else firstWorking avail works t ms

/-- outer loop `for threads in threads_attempts` -/
def selectIn (avail : Method → Bool) (works : Method → Nat → Bool) (methods : List Method) :
    List Nat → Except SelErr (Method × Nat)
  | [] => .error .value
  | t :: ts =>
    match firstWorking avail works t methods with
    | some m => .ok (m, t)
    | none => selectIn avail works methods ts

/-- which backend returns the result, and in which thread attempt -/
def select (cpu : Nat) (avail : Method → Bool) (works : Method → Nat → Bool) (methods : List Method)
    (threads : Option Nat) (big : Bool) : Except SelErr (Method × Nat) :=
  selectIn avail works methods (threadAttempts cpu threads big)

/-- /repo before D190 -/
def selectOld (cpu : Nat) (avail : Method → Bool) (works : Method → Nat → Bool) (methods : List Method)
    (threads : Option Nat) (big : Bool) : Except SelErr (Method × Nat) :=
  match threads with
  | some _ => .error .unbound
  | none => select cpu avail works methods none big

/-- every backend call made, in order (the failing ones, then the one that returned) -/
def callsFor (avail : Method → Bool) (works : Method → Nat → Bool) (t : Nat) : List Method → List (Method × Nat) × Bool
  | [] => ([], false)
  | m :: ms =>
    if usable avail m then
      if works m t then ([(m, t)], true)
      else let r := callsFor avail works t ms; ((m, t) :: r.1, r.2)
    else callsFor avail works t ms

def callsIn (avail : Method → Bool) (works : Method → Nat → Bool) (methods : List Method) : List Nat → List (Method × Nat)
  | [] => []
  | t :: ts =>
    let r := callsFor avail works t methods
    if r.2 then r.1 else r.1 ++ callsIn avail works methods ts

def selectCalls (cpu : Nat) (avail : Method → Bool) (works : Method → Nat → Bool) (methods : List Method)
    (threads : Option Nat) (big : Bool) : List (Method × Nat) :=
  callsIn avail works methods (threadAttempts cpu threads big)

/-- number of `warnings.warn` calls: one per backend that raised, one per exhausted thread attempt -/
def warnCount (cpu : Nat) (avail : Method → Bool) (works : Method → Nat → Bool) (methods : List Method)
    (threads : Option Nat) (big : Bool) : Nat :=
  let calls := selectCalls cpu avail works methods threads big
  match select cpu avail works methods threads big with
  | .ok (_, t) => (calls.length - 1) + ((threadAttempts cpu threads big).takeWhile (· != t)).length
  | .error _ => calls.length + (threadAttempts cpu threads big).length

/-! ### what comes back: value and bit depth -/

/-- dtype of the input, as far as `_make_func` distinguishes -/
inductive DtIn where
  | half | single | double | longdouble | integer     -- real or complex of that depth; integer incl. bool
deriving DecidableEq, Repr

inductive Prec where
  | single | double | longdouble
deriving DecidableEq, Repr

/-- the depth scipy/pocketfft (also mkl_fft, pyfftw's scipy interface) computes and returns in -/
def nativePrec : DtIn → Prec
  | .half => .single
  | .single => .single
  | .double => .double
  | .longdouble => .longdouble
  | .integer => .double

/-- the `numpy` branch: `.astype(dtype_out)` with `dtype_out` single iff the input is float32/complex64 -/
def numpyPrec : DtIn → Prec
  | .single => .single
  | _ => .double

def outPrec (m : Method) (d : DtIn) : Prec :=
  match m with
  | .numpy => numpyPrec d
  | _ => nativePrec d

/-- the supported inputs: single and double precision (and integers, promoted to double) -/
def DtIn.standard : DtIn → Bool
  | .single | .double | .integer => true
  | _ => false

/-- result of `func(x, method=…, threads=…)`: bit depth and value, for kernels `k m t x` -/
def fftResult {X Y : Type} (k : Method → Option Nat → X → Y) (cpu : Nat) (avail : Method → Bool)
    (works : Method → Nat → Bool) (methods : List Method) (threads : Option Nat) (big : Bool)
    (d : DtIn) (x : X) : Except SelErr (Prec × Y) :=
  (select cpu avail works methods threads big).map fun (m, t) => (outPrec m d, k m (workersArg m t) x)

/-! ## MatrixFourierTransform: matrices and gemm intermediate -/

inductive Dir where
  | fwd | bwd
deriving DecidableEq, Repr

/-- complex dtype of a call: `_get_float_and_complex_dtype(field.dtype)` -/
inductive CPrec where
  | c64 | c128
deriving DecidableEq, Repr

/-- the arithmetic, as parameters: matrices at a precision, the two gemm stages, `np.empty` -/
structure MftKern (X M B R : Type) where
  mats : CPrec → M
  cast : CPrec → X → X
  stage1 : M → Dir → X → B
  stage2 : M → Dir → B → R
  garbage : CPrec → B

/-- `self.matrices_dtype`/`self.M1, self.M2` and `self.intermediate_dtype`/`self.intermediate_array` -/
structure MftCache (M B : Type) where
  mats : Option (CPrec × M) := none
  interm : Option (CPrec × B) := none

/-- `_compute_matrices(dtype)`: recompute / reallocate iff the recorded dtype differs -/
def compute {X M B R : Type} (K : MftKern X M B R) (p : CPrec) (c : MftCache M B) : (CPrec × M) × (CPrec × B) :=
  let m := match c.mats with
    | some (q, m) => if q = p then (q, m) else (p, K.mats p)
    | none => (p, K.mats p)
  let b := match c.interm with
    | some (q, b) => if q = p then (q, b) else (p, K.garbage p)
    | none => (p, K.garbage p)
  (m, b)

/-- the seeded defect C19-2 (and the shape of the code before the dtype key was added): the
intermediate is allocated only when there is none -/
def computeBad {X M B R : Type} (K : MftKern X M B R) (p : CPrec) (c : MftCache M B) : (CPrec × M) × (CPrec × B) :=
  let m := match c.mats with
    | some (q, m) => if q = p then (q, m) else (p, K.mats p)
    | none => (p, K.mats p)
  let b := match c.interm with
    | some qb => qb
    | none => (p, K.garbage p)
  (m, b)

/-- `gemm(…, c=buffer.T, overwrite_c=True)`: in place iff the buffer has the dtype of the routine;
otherwise f2py converts a copy and the buffer keeps what it held -/
def gemmInto {B : Type} (buf : CPrec × B) (p : CPrec) (v : B) : CPrec × B :=
  if buf.1 = p then (p, v) else buf

/-- `_remove_matrices()` -/
def remove {M B : Type} (pre alloc : Bool) (m : CPrec × M) (b : CPrec × B) : MftCache M B :=
  { mats := if pre then some m else none, interm := if alloc then some b else none }

def mftCallWith {X M B R : Type} (K : MftKern X M B R)
    (comp : CPrec → MftCache M B → (CPrec × M) × (CPrec × B))
    (pre alloc : Bool) (c : MftCache M B) (d : Dir) (p : CPrec) (x : X) : R × MftCache M B :=
  let (m, b) := comp p c
  let b' := gemmInto b m.1 (K.stage1 m.2 d (K.cast m.1 x))
  (K.stage2 m.2 d b'.2, remove pre alloc m b')

/-- one `forward`/`backward` call on an object whose state is `c` -/
def mftCall {X M B R : Type} (K : MftKern X M B R) (pre alloc : Bool) (c : MftCache M B) (d : Dir) (p : CPrec) (x : X) :
    R × MftCache M B := mftCallWith K (compute K) pre alloc c d p x

def mftCallBad {X M B R : Type} (K : MftKern X M B R) (pre alloc : Bool) (c : MftCache M B) (d : Dir) (p : CPrec) (x : X) :
    R × MftCache M B := mftCallWith K (computeBad K) pre alloc c d p x

/-- a script of calls on one object -/
def mftRunFrom {X M B R : Type} (call : MftCache M B → Dir → CPrec → X → R × MftCache M B) :
    MftCache M B → List (Dir × CPrec × X) → List R × MftCache M B
  | c, [] => ([], c)
  | c, (d, p, x) :: rest =>
    let (r, c') := call c d p x
    let (rs, cf) := mftRunFrom call c' rest
    (r :: rs, cf)

def mftRun {X M B R : Type} (K : MftKern X M B R) (pre alloc : Bool) (script : List (Dir × CPrec × X)) : List R :=
  (mftRunFrom (mftCall K pre alloc) {} script).1

/-- the reference: a fresh object with both switches off for every call -/
def mftFresh {X M B R : Type} (K : MftKern X M B R) (d : Dir) (p : CPrec) (x : X) : R :=
  (mftCall K false false {} d p x).1

/-- the cache describes what it says: matrices recorded at `q` *are* the matrices for `q` — as a check
the driver runs after every call (`k1`/`k0`; the harness compares it with `M1.dtype == matrices_dtype` on
the real object).  Its `Prop` form used as the invariant of the proofs is `Spec.Keyed` in `Lemmas/FourierSwitch.lean`
(`keyedB_iff`). -/
def keyedB {X M B R : Type} [BEq M] (K : MftKern X M B R) (c : MftCache M B) : Bool :=
  match c.mats with
  | some (q, m) => m == K.mats q
  | none => true

/-! ### provenance kernels (what the driver runs) -/

/-- which matrices were used, which input, written by which stage-1 -/
structure Prov where
  matsPrec : CPrec
  dir : Dir
  input : Nat
  inputPrec : CPrec
deriving DecidableEq, Repr

/-- buffer contents: uninitialised, or the stage-1 product of some call -/
inductive BufProv where
  | garbage (p : CPrec)
  | product (v : Prov)
deriving DecidableEq, Repr

/-- result: the matrices of stage 2 and the buffer it read -/
abbrev ResProv := CPrec × Dir × BufProv

def provKern : MftKern (Nat × CPrec) CPrec BufProv ResProv where
  mats p := p
  cast p x := (x.1, p)
  stage1 m d x := .product ⟨m, d, x.1, x.2⟩
  stage2 m d b := (m, d, b)
  garbage p := .garbage p

/-! ## NaiveFourierTransform: the two cached matrices -/

structure NftKern (X A R : Type) where
  matrix : Dir → A                 -- get_transformation_matrix_forward/backward()
  apply : A → X → R                -- matrix.dot(field.ravel())
  direct : Dir → X → R             -- the on-the-fly sum
  castTo : CPrec → R → R           -- .astype(complex_dtype)

structure NftCache (A : Type) where
  fwd : Option A := none
  bwd : Option A := none

def NftCache.get {A : Type} (c : NftCache A) : Dir → Option A
  | .fwd => c.fwd
  | .bwd => c.bwd

def NftCache.put {A : Type} (c : NftCache A) (d : Dir) (a : A) : NftCache A :=
  match d with
  | .fwd => { c with fwd := some a }
  | .bwd => { c with bwd := some a }

def nftCall {X A R : Type} (K : NftKern X A R) (pre : Bool) (c : NftCache A) (d : Dir) (p : CPrec) (x : X) : R × NftCache A :=
  if pre then
    let a := (c.get d).getD (K.matrix d)
    (K.castTo p (K.apply a x), c.put d a)
  else (K.castTo p (K.direct d x), c)

def nftRunFrom {X A R : Type} (K : NftKern X A R) (pre : Bool) : NftCache A → List (Dir × CPrec × X) → List R × NftCache A
  | c, [] => ([], c)
  | c, (d, p, x) :: rest =>
    let (r, c') := nftCall K pre c d p x
    let (rs, cf) := nftRunFrom K pre c' rest
    (r :: rs, cf)

end HcipyVerif.FourierSwitch
