import HcipyVerif.Model.Czt
import HcipyVerif.Model.FftIndexN

/-!
# `ZoomFastFourierTransform.forward/backward` on `n` axes, with the grid weights — executable,
core Lean only

```
f = (field * self.input_weights).shaped
for i, (czt, shift) in enumerate(zip(self.czts, self.shifts)):
    f = np.moveaxis(f, -i - 1, -1);  f = czt(f) * shift;  f = np.moveaxis(f, -1, -i - 1)
```

Arrays are functions of an index *list* in shape order (`…, y, x`; the last entry is the fastest
axis); entry `i` of the list belongs to `axs[i]`.  The loop of the code transforms the last axis of
the list first and the head last (that the `moveaxis` calls hit exactly these axes and restore the
layout is `zoom_axes_ok'`); `zoomForwardN` nests accordingly (head outermost = applied last).
The weights are per-point (`input_grid.weights` may be an array); `backward` is the same loop with
`inv_czts`/`inv_shifts`, i.e. `zoomAxis` with the roles of the two grids exchanged and the
conjugate character.
-/
namespace HcipyVerif.Fft

/-- one axis of a ZoomFFT: `n` input samples `x0 + i·δ`, `m` output samples `u0 + k·Δ`, and the
FFT length `nfft = next_fast_len(n + m - 1)` of the forward CZT, `nfftInv` of the inverse CZT -/
structure ZAx (K : Type) where
  n : Nat
  m : Nat
  nfft : Nat
  nfftInv : Nat
  x0 : K
  δ : K
  u0 : K
  Δ : K

section
variable {K C : Type} [Zero K] [Add K] [Mul K] [Neg K] [Div K] [NatCast K]
  [Zero C] [Add C] [Mul C] [Inv C]
variable (E : K → C)

/-- one axis of `backward`: `inv_czt(f) * inv_shift` with `inv_w = exp(+i·δ·Δ)`,
`inv_a = exp(-i·x0·Δ)`, `inv_shift_j = exp(+i·x_j·u0)` — `zoomAxis` with the two grids exchanged and
the character `r ↦ E(-r)` -/
def zoomAxisInv (n m nfftInv : Nat) (x0 δ u0 Δ : K) (F : Nat → C) (j : Nat) : C :=
  zoomAxis m n nfftInv (fun r => E (-r)) u0 Δ x0 δ F j

/-- the chirp parameters `(ω, α)` one axis of `forward` hands to the Bluestein pipeline:
`w = E ω = exp(-i·Δ·δ)`, `a = E α = exp(i·u0·δ)` — they depend on the axis' own spacings **and on the
zero `u0` of that axis of the output grid** (`zoomAxis_chirp` in `Lemmas/ZoomN.lean`: this is what
`zoomAxis` uses, by `rfl`) -/
def zoomChirp (δ u0 Δ : K) : K × K := (-(Δ * δ), u0 * δ)

/-- the same for `backward` (`inv_czts`), to be read with the character `r ↦ E(-r)`:
`inv_w = exp(+i·δ·Δ)`, `inv_a = exp(-i·x0·Δ)` — depends on the zero `x0` of the input grid's axis -/
def zoomChirpInv (x0 δ Δ : K) : K × K := zoomChirp Δ x0 δ

/-- the axis loop of `forward` (after the multiplication with the weights) -/
def zoomLoopN : List (ZAx K) → (List Nat → C) → List Nat → C
  | [], f, _ => f []
  | a :: as, f, k :: ks =>
      zoomAxis a.n a.m a.nfft E a.x0 a.δ a.u0 a.Δ (fun i => zoomLoopN as (fun idx => f (i :: idx)) ks) k
  | _ :: _, _, [] => 0

/-- the axis loop of `backward` -/
def zoomLoopInvN : List (ZAx K) → (List Nat → C) → List Nat → C
  | [], F, _ => F []
  | a :: as, F, j :: js =>
      zoomAxisInv E a.n a.m a.nfftInv a.x0 a.δ a.u0 a.Δ
        (fun k => zoomLoopInvN as (fun idx => F (k :: idx)) js) j
  | _ :: _, _, [] => 0

/-- `ZoomFastFourierTransform.forward`: `(field * input_weights)` through the axis loop -/
def zoomForwardN (axs : List (ZAx K)) (w : List Nat → C) (f : List Nat → C) (ks : List Nat) : C :=
  zoomLoopN E axs (fun js => f js * w js) ks

/-- `ZoomFastFourierTransform.backward`: `(field * output_weights)` through the inverse loop;
`wOut` is `output_grid.weights / (2π)^n` (passed in as given numbers) -/
def zoomBackwardN (axs : List (ZAx K)) (wOut : List Nat → C) (F : List Nat → C) (js : List Nat) : C :=
  zoomLoopInvN E axs (fun ks => F ks * wOut ks) js

/-- `u·x = Σ_i (u0_i + k_i·Δ_i)·(x0_i + j_i·δ_i)` -/
def dotUX : List (ZAx K) → List Nat → List Nat → K
  | a :: as, k :: ks, j :: js => (a.u0 + (k : K) * a.Δ) * (a.x0 + (j : K) * a.δ) + dotUX as ks js
  | _, _, _ => 0

/-- the `n`-D defining sum on the zoom grids, forward: `Σ_js f(js)·w(js)·exp(-i·u_ks·x_js)` -/
def zoomSumForwardN (axs : List (ZAx K)) (w : List Nat → C) (f : List Nat → C) (ks : List Nat) : C :=
  sumOverN (axs.map fun a => a.n) fun js => f js * w js * E (-(dotUX axs ks js))

/-- the `n`-D defining sum, backward: `Σ_ks F(ks)·wOut(ks)·exp(+i·u_ks·x_js)` -/
def zoomSumBackwardN (axs : List (ZAx K)) (wOut : List Nat → C) (F : List Nat → C) (js : List Nat) : C :=
  sumOverN (axs.map fun a => a.m) fun ks => F ks * wOut ks * E (dotUX axs ks js)

end
end HcipyVerif.Fft
