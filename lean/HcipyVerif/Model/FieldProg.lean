/-!
# C19 — a small language of array programs and two interpreters for it

hcipy has two `Field` implementations (hcipy/field/field.py):

* `OldStyleField` — an `ndarray` *subclass*.  NumPy itself produces the results; the subclass is
  re-attached by a view cast and `__array_finalize__` copies `grid` from the template operand.
  Results of full reductions stay 0-d arrays *of the subclass* (with the grid).
* `NewStyleField` — a *wrapper* around `data`.  `__array_ufunc__`/`__array_function__` unwrap every
  Field argument, run the same NumPy kernel on the raw arrays and wrap the result again
  **iff it is an `ndarray`** (0-d results come back from NumPy as scalars and stay bare).
  In-place operators go through `out=(self,)`, write into `self.data` and return a *new* wrapper
  around the same buffer.

This file models

* the NumPy kernels both routes end up calling (`Prim`, exact over `Rat`, complex numbers as pairs):
  broadcasting arithmetic, a few exact ufuncs, reductions over all / the last / the first axis,
  indexing by integer / slice / boolean mask, `reshape`/`shaped`/`ravel`, the `ndarray` pickle
  state; and
* the two *routes*: an expression evaluator parametrised by the wrapping policy (the kernels are
  literally shared by the two implementations, the policy is what differs), and two separate
  statement interpreters with different stores — cells holding `(array, tag)` for the subclass
  route, wrappers `(buffer id, tag)` plus a buffer heap for the wrapper route.

Views are *not* modelled (every derived array owns its data); the property excludes updates
through views or aliases *derived from* a field, and the harness never observes one.  Plain
aliases (`h = x`) are modelled, because "writes through" is a statement about them.
No Mathlib import: this file is linked into the driver.
-/
namespace HcipyVerif.FieldProg

/-- an exact complex number (floats are dyadic rationals) -/
structure Cx where
  re : Rat
  im : Rat
deriving DecidableEq, Repr

namespace Cx
def zero : Cx := ⟨0, 0⟩
def add (a b : Cx) : Cx := ⟨a.re + b.re, a.im + b.im⟩
def sub (a b : Cx) : Cx := ⟨a.re - b.re, a.im - b.im⟩
def mul (a b : Cx) : Cx := ⟨a.re * b.re - a.im * b.im, a.re * b.im + a.im * b.re⟩
def conj (a : Cx) : Cx := ⟨a.re, -a.im⟩
def neg (a : Cx) : Cx := ⟨-a.re, -a.im⟩
def normSq (a : Cx) : Rat := a.re * a.re + a.im * a.im
def div (a b : Cx) : Cx :=
  let d := b.normSq
  let n := a.mul b.conj
  ⟨n.re / d, n.im / d⟩
def ofRat (q : Rat) : Cx := ⟨q, 0⟩
end Cx

/-- dtype class -/
inductive Kind where
  | bool | int | real | cplx
deriving DecidableEq, Repr

/-- a dense row-major array; a Python/NumPy scalar is a 0-d array (shape `[]`, one element) -/
structure Arr where
  shape : List Nat
  kind : Kind
  data : List Cx
deriving DecidableEq, Repr

/-- exception classes: ValueError, TypeError, IndexError, AttributeError; `unsupported` marks
inputs outside the modelled fragment (the harness never sends them) -/
inductive Err where
  | value | type | index | attr | unsupported
deriving DecidableEq, Repr

inductive BinOp where
  | add | sub | mul | div | max | min | gt | lt | ge | le | eq | ne | and | or
deriving DecidableEq, Repr

inductive UnOp where
  | neg | pos | abs | sq | conj | re | im | not
deriving DecidableEq, Repr

inductive RedOp where
  | sum | mean | max | min | prod | any | all
deriving DecidableEq, Repr

inductive Axis where
  | all | last | first
deriving DecidableEq, Repr

/-- non-mask index forms: `x[i]`, `x[..., i]`, `x[..., a:b:c]` -/
inductive Ix where
  | at0 (i : Int)
  | atLast (i : Int)
  | slice (a b c : Nat)
  /-- `x[..., a:b:c]` with Python's full slice semantics (`none` = omitted, negative values, negative step) -/
  | pyslice (a b : Option Int) (c : Int)
  /-- `x[..., [i, j, …]]`: fancy indexing with a list of integers on the last axis -/
  | takeLast (l : List Int)
deriving DecidableEq, Repr

/-! ## The kernels -/
namespace Prim

def prod (s : List Nat) : Nat := s.foldl (· * ·) 1

/-- all multi-indices of a shape in row-major order -/
def indices : List Nat → List (List Nat)
  | [] => [[]]
  | n :: s => (List.range n).flatMap fun i => (indices s).map (i :: ·)

/-- flat offset of the (right-aligned) multi-index `ix` in an array of shape `s`; axes of length
one are broadcast -/
def offset (s : List Nat) (ix : List Nat) : Nat :=
  ((s.zip (ix.drop (ix.length - s.length))).foldl
    (fun acc (p : Nat × Nat) => acc * p.1 + (if p.1 = 1 then 0 else p.2)) 0)

def bshapeRev : List Nat → List Nat → Option (List Nat)
  | [], t => some t
  | s, [] => some s
  | a :: s, b :: t =>
    if a = b then (bshapeRev s t).map (a :: ·)
    else if a = 1 then (bshapeRev s t).map (b :: ·)
    else if b = 1 then (bshapeRev s t).map (a :: ·)
    else none

/-- NumPy broadcasting of two shapes -/
def bshape (s t : List Nat) : Option (List Nat) :=
  (bshapeRev s.reverse t.reverse).map List.reverse

def get (a : Arr) (i : Nat) : Cx := a.data.getD i Cx.zero

/-- the values of `a` broadcast to shape `s` (caller guarantees compatibility) -/
def broadcastTo (a : Arr) (s : List Nat) : List Cx :=
  (indices s).map fun ix => get a (offset a.shape ix)

def joinKind : Kind → Kind → Option Kind
  | .bool, _ => none
  | _, .bool => none
  | .cplx, _ => some .cplx
  | _, .cplx => some .cplx
  | .real, _ => some .real
  | _, .real => some .real
  | .int, .int => some .int

def isOrdered (k : Kind) : Bool := k == .real || k == .int

def boolCx (b : Bool) : Cx := if b then ⟨1, 0⟩ else ⟨0, 0⟩

/-- elementwise binary ufunc with broadcasting -/
def binop (op : BinOp) (a b : Arr) : Except Err Arr :=
  match bshape a.shape b.shape with
  | none => .error .value
  | some s =>
    let xs := broadcastTo a s
    let ys := broadcastTo b s
    let zip (f : Cx → Cx → Cx) (k' : Kind) : Except Err Arr := .ok ⟨s, k', List.zipWith f xs ys⟩
    match op with
    | .and => if a.kind == .bool && b.kind == .bool then zip (fun x y => boolCx (x.re != 0 && y.re != 0)) .bool
              else .error .unsupported
    | .or => if a.kind == .bool && b.kind == .bool then zip (fun x y => boolCx (x.re != 0 || y.re != 0)) .bool
             else .error .unsupported
    | _ =>
    match joinKind a.kind b.kind with
    | none => .error .unsupported
    | some k =>
      match op with
      | .add => zip Cx.add k
      | .sub => zip Cx.sub k
      | .mul => zip Cx.mul k
      | .div => if ys.any (fun y => y.normSq == 0) then .error .unsupported
                else zip Cx.div (if k == .int then .real else k)
      | .max => if isOrdered k then zip (fun x y => if x.re < y.re then y else x) k else .error .unsupported
      | .min => if isOrdered k then zip (fun x y => if y.re < x.re then y else x) k else .error .unsupported
      | .gt => if isOrdered k then zip (fun x y => boolCx (decide (y.re < x.re))) .bool else .error .unsupported
      | .lt => if isOrdered k then zip (fun x y => boolCx (decide (x.re < y.re))) .bool else .error .unsupported
      | .ge => if isOrdered k then zip (fun x y => boolCx (decide (y.re ≤ x.re))) .bool else .error .unsupported
      | .le => if isOrdered k then zip (fun x y => boolCx (decide (x.re ≤ y.re))) .bool else .error .unsupported
      | .eq => zip (fun x y => boolCx (x.re == y.re && x.im == y.im)) .bool
      | .ne => zip (fun x y => boolCx (!(x.re == y.re && x.im == y.im))) .bool
      | .and | .or => .error .unsupported

/-- elementwise unary ufunc -/
def unop (u : UnOp) (a : Arr) : Except Err Arr :=
  match u with
  | .not => if a.kind == .bool then .ok { a with data := a.data.map fun x => boolCx (x.re == 0) } else .error .unsupported
  | _ =>
  if a.kind == .bool then .error .unsupported else
  match u with
  | .neg => .ok { a with data := a.data.map Cx.neg }
  | .pos => .ok a
  | .abs => if isOrdered a.kind then .ok { a with data := a.data.map fun x => ⟨if x.re < 0 then -x.re else x.re, 0⟩ }
            else .error .unsupported
  | .sq => .ok { a with data := a.data.map fun x => x.mul x }
  | .conj => .ok { a with data := a.data.map Cx.conj }
  | .re => .ok { a with kind := if a.kind == .cplx then .real else a.kind, data := a.data.map fun x => ⟨x.re, 0⟩ }
  | .im => .ok { a with kind := if a.kind == .cplx then .real else a.kind, data := a.data.map fun x => ⟨x.im, 0⟩ }
  | .not => .error .unsupported

/-- consecutive chunks of length `n` -/
def chunks (n : Nat) (l : List Cx) (fuel : Nat) : List (List Cx) :=
  match fuel with
  | 0 => []
  | fuel + 1 => if l.isEmpty then [] else l.take n :: chunks n (l.drop n) fuel

def red1 (r : RedOp) (k : Kind) (l : List Cx) : Except Err Cx :=
  match r with
  | .any => if k == .bool then .ok (boolCx (l.any fun x => x.re != 0)) else .error .unsupported
  | .all => if k == .bool then .ok (boolCx (l.all fun x => x.re != 0)) else .error .unsupported
  | .sum => .ok (l.foldl Cx.add Cx.zero)
  | .prod => if k == .bool then .error .unsupported else .ok (l.foldl Cx.mul ⟨1, 0⟩)
  | _ =>
  if k == .bool then .error .unsupported else
  match l with
  | [] => .error .value
  | x :: xs =>
    match r with
    | .mean =>
      let s := xs.foldl Cx.add x
      let n : Rat := ((xs.length + 1 : Nat) : Rat)
      .ok ⟨s.re / n, s.im / n⟩
    | .max => if isOrdered k then .ok (xs.foldl (fun m y => if m.re < y.re then y else m) x) else .error .unsupported
    | .min => if isOrdered k then .ok (xs.foldl (fun m y => if y.re < m.re then y else m) x) else .error .unsupported
    | _ => .error .unsupported

/-- dtype class of a reduction result -/
def redKind (r : RedOp) (k : Kind) : Kind :=
  match r with
  | .any | .all => .bool
  | .sum => if k == .bool then .int else k       -- counting `True`s
  | .mean => if k == .int then .real else k
  | _ => k

/-- `np.sum/mean/max/min/prod/any/all(a)`, `(a, axis=-1)`, `(a, axis=0)` -/
def reduce (r : RedOp) (ax : Axis) (a : Arr) : Except Err Arr :=
  let k' := redKind r a.kind
  match ax with
  | .all => (red1 r a.kind a.data).map fun c => ⟨[], k', [c]⟩
  | .last =>
    match a.shape.getLast? with
    | none => .error .value          -- AxisError (a ValueError) on a 0-d array
    | some n =>
      if n = 0 then .error .value else
      ((chunks n a.data a.data.length).mapM (red1 r a.kind)).map fun cs => ⟨a.shape.dropLast, k', cs⟩
  | .first =>
    match a.shape with
    | [] => .error .value
    | n :: rest =>
      let m := prod rest
      ((List.range m).mapM fun j => red1 r a.kind ((List.range n).map fun i => get a (i * m + j))).map
        fun cs => ⟨rest, k', cs⟩

/-- the shape a reduction has with `keepdims=True` -/
def keepShape (ax : Axis) (shape : List Nat) : List Nat :=
  match ax with
  | .all => shape.map fun _ => 1
  | .last => shape.dropLast ++ [1]
  | .first => 1 :: shape.drop 1

/-- reduction with `keepdims=True` -/
def reduceKeep (r : RedOp) (ax : Axis) (a : Arr) : Except Err Arr :=
  (reduce r ax a).map fun b => { b with shape := keepShape ax a.shape }

/-- Python index normalisation -/
def normIndex (i : Int) (n : Nat) : Option Nat :=
  if 0 ≤ i then (if i.toNat < n then some i.toNat else none)
  else (if (-i).toNat ≤ n then some (n - (-i).toNat) else none)

/-- `a, a+c, … < min b n` -/
def slicePicks (a b c n : Nat) : List Nat :=
  let stop := min b n
  (List.range stop).filter fun i => a ≤ i ∧ (i - a) % c = 0

/-- CPython's `PySlice_AdjustIndices` + iteration: the indices selected by `a:b:c` on an axis of
length `n` (`c ≠ 0`) -/
def pySlicePicks (a b : Option Int) (c : Int) (n : Nat) : List Nat :=
  let len : Int := n
  let clamp (v : Int) : Int :=
    if v < 0 then (if v + len < 0 then (if c < 0 then -1 else 0) else v + len)
    else if v ≥ len then (if c < 0 then len - 1 else len) else v
  let start : Int := match a with | none => (if c < 0 then len - 1 else 0) | some v => clamp v
  let stop : Int := match b with | none => (if c < 0 then -1 else len) | some v => clamp v
  let count : Int :=
    if c > 0 then (if start < stop then (stop - start - 1) / c + 1 else 0)
    else (if stop < start then (start - stop - 1) / (-c) + 1 else 0)
  (List.range count.toNat).map fun (i : Nat) => (start + Int.ofNat i * c).toNat

/-- flat positions selected by choosing `picks` on the last axis (length `n`), `outer` rows -/
def lastAxisPositions (outer n : Nat) (picks : List Nat) : List Nat :=
  (List.range outer).flatMap fun o => picks.map fun p => o * n + p

/-- Selection made by an index: flat positions, shape of the result, and whether NumPy returns a
scalar instead of an array. -/
structure Sel where
  pos : List Nat
  shape : List Nat
  scalar : Bool

def select (i : Ix) (shape : List Nat) : Except Err Sel :=
  match i with
  | .at0 i =>
    match shape with
    | [] => .error .index
    | n :: rest =>
      match normIndex i n with
      | none => .error .index
      | some j => let m := prod rest
                  .ok ⟨(List.range m).map (j * m + ·), rest, rest.isEmpty⟩
  | .atLast i =>
    match shape.getLast? with
    | none => .error .index
    | some n =>
      match normIndex i n with
      | none => .error .index
      | some j => .ok ⟨lastAxisPositions (prod shape.dropLast) n [j], shape.dropLast, false⟩
  | .slice a b c =>
    match shape.getLast? with
    | none => .error .index
    | some n =>
      if c = 0 then .error .value else
      let picks := slicePicks a b c n
      .ok ⟨lastAxisPositions (prod shape.dropLast) n picks, shape.dropLast ++ [picks.length], false⟩
  | .pyslice a b c =>
    match shape.getLast? with
    | none => .error .index
    | some n =>
      if c = 0 then .error .value else
      let picks := pySlicePicks a b c n
      .ok ⟨lastAxisPositions (prod shape.dropLast) n picks, shape.dropLast ++ [picks.length], false⟩
  | .takeLast l =>
    match shape.getLast? with
    | none => .error .index
    | some n =>
      match l.mapM (normIndex · n) with
      | none => .error .index
      | some picks => .ok ⟨lastAxisPositions (prod shape.dropLast) n picks, shape.dropLast ++ [picks.length], false⟩

/-- `x[..., m]` with a boolean array `m` over the last axis -/
def selectMask (m : Arr) (shape : List Nat) : Except Err Sel :=
  if m.kind != .bool then .error .unsupported else
  match shape.getLast? with
  | none => .error .index
  | some n =>
    if m.shape != [n] then .error .index else
    let picks := (List.range n).filter fun i => (get m i).re != 0
    .ok ⟨lastAxisPositions (prod shape.dropLast) n picks, shape.dropLast ++ [picks.length], false⟩

def gather (a : Arr) (s : Sel) : Arr := ⟨s.shape, a.kind, s.pos.map (get a)⟩

/-- C cast float → integer: truncation toward zero -/
def truncRat (q : Rat) : Rat := ((q.num.tdiv q.den : Int) : Rat)

/-- cast values to the dtype class of the array they are stored into (`same_kind`/`unsafe` casting
of item assignment; complex into non-complex is outside the fragment) -/
def castInto (k : Kind) (v : Arr) : Except Err (List Cx → List Cx) :=
  if v.kind == .bool || k == .bool then .error .unsupported
  else if v.kind == .cplx && k != .cplx then .error .unsupported
  else if k == .int && v.kind == .real then .ok fun l => l.map fun x => ⟨truncRat x.re, 0⟩
  else .ok id

/-- `a[sel] = v` (value broadcast to the selected shape) -/
def scatter (a : Arr) (s : Sel) (v : Arr) : Except Err Arr :=
  match castInto a.kind v with
  | .error e => .error e
  | .ok cast =>
  if bshape v.shape s.shape != some s.shape then .error .value else
  let vals := cast (broadcastTo v s.shape)
  .ok { a with data := (s.pos.zip vals).foldl (fun d (p : Nat × Cx) => d.set p.1 p.2) a.data }

/-- `Field.shaped` with the grid's shape `gs` (`none`: the grid is not separated) -/
def shaped (gs : Option (List Nat)) (a : Arr) : Except Err Arr :=
  match gs with
  | none => .error .value
  | some gs =>
    let n := (a.shape.getLast?).getD 1
    if n = prod gs then .ok { a with shape := a.shape.dropLast ++ gs } else .error .value

def reshape (s : List Nat) (a : Arr) : Except Err Arr :=
  if prod s = prod a.shape then .ok { a with shape := s } else .error .value

def ravel (a : Arr) : Arr := { a with shape := [prod a.shape] }

/-- the `ndarray.__reduce__()[2]` state, as far as it matters: shape, dtype class, raw data -/
structure NdState where
  shape : List Nat
  kind : Kind
  raw : List Cx

def getstate (a : Arr) : NdState := ⟨a.shape, a.kind, a.data⟩

/-- `ndarray.__setstate__` on a freshly made array (`np.ndarray.__new__(ndarray, (0,), 'b')` for
the subclass route, `np.array([])` for the wrapper route): everything is overwritten, so the fresh array
does not appear.  Memory order (the `is_fortran` flag) is not modelled: the model's arrays have no layout;
the harness's round-trip oracle covers it on the real code. -/
def setstate (st : NdState) : Arr := ⟨st.shape, st.kind, st.raw⟩

/-- NumPy's `same_kind` rule for writing a ufunc result of class `r` into an array of class `x` -/
def canCastInto (r x : Kind) : Bool :=
  match r, x with
  | .bool, _ => true
  | .int, .bool => false
  | .int, _ => true
  | .real, .real | .real, .cplx => true
  | .cplx, .cplx => true
  | _, _ => false

/-- write a ufunc result into `out=x`: the result must have x's shape and be castable (`same_kind`)
to x's dtype class, else ValueError / UFuncTypeError -/
def writeOut (x r : Arr) : Except Err Arr :=
  if r.shape != x.shape then .error .value
  else if !canCastInto r.kind x.kind then .error .type
  else .ok { r with kind := x.kind }

/-- `x op= e` -/
def inplace (op : BinOp) (x e : Arr) : Except Err Arr :=
  match op with
  | .add | .sub | .mul | .div =>
    match binop op x e with
    | .error err => .error err
    | .ok r => writeOut x r
  | _ => .error .unsupported

/-! ### further kernels (one, two or three array arguments) -/

/-- lexicographic `≤` on (re, im): NumPy's order for sorting, also of complex numbers -/
def cxLe (x y : Cx) : Bool := x.re < y.re || (x.re == y.re && x.im ≤ y.im)
def cxLt (x y : Cx) : Bool := x.re < y.re || (x.re == y.re && x.im < y.im)

/-- apply `f` to every row along the last axis -/
def mapRows (a : Arr) (f : List Cx → List Cx) : Except Err (List Cx) :=
  match a.shape.getLast? with
  | none => .error .value
  | some n => if n = 0 then .ok [] else .ok ((chunks n a.data a.data.length).flatMap f)

def scanl1 (f : Cx → Cx → Cx) : List Cx → List Cx
  | [] => []
  | x :: xs => (xs.foldl (fun (acc : List Cx × Cx) y => let z := f acc.2 y; (z :: acc.1, z)) ([x], x)).1.reverse

/-- first index of the extremum (`np.argmax`/`np.argmin`: the first occurrence wins) -/
def argBest (better : Cx → Cx → Bool) : List Cx → Nat
  | [] => 0
  | x :: xs => (xs.foldl (fun (acc : Nat × Cx × Nat) y =>
      if better y acc.2.1 then (acc.2.2, y, acc.2.2 + 1) else (acc.1, acc.2.1, acc.2.2 + 1)) (0, x, 1)).1

/-- stable argsort of one row -/
def argsortRow (l : List Cx) : List Nat :=
  ((l.zip (List.range l.length)).mergeSort fun p q => cxLe p.1 q.1).map (·.2)

def castTo (k : Kind) (a : Arr) : Arr :=
  let f : Cx → Cx :=
    match k with
    | .bool => fun x => boolCx (x.re != 0 || x.im != 0)
    | .int => fun x => ⟨truncRat x.re, 0⟩
    | .real => fun x => ⟨x.re, 0⟩
    | .cplx => id
  ⟨a.shape, k, a.data.map f⟩

/-- kernels with one array argument -/
inductive Fn1 where
  | redKeep (r : RedOp) (ax : Axis)      -- reduction with keepdims=True
  | cumsum (ax : Axis) | cumprod (ax : Axis)   -- axis=None (flattened), -1, 0
  | sortLast                              -- np.sort(a, axis=-1)
  | argsortLast                           -- np.argsort(a, axis=-1, kind='stable')
  | argmax (ax : Axis) | argmin (ax : Axis)    -- axis=None or -1 (first occurrence)
  | astype (k : Kind)
  | fieldTrace                            -- hcipy.field_trace
deriving DecidableEq, Repr

def scan (f : Cx → Cx → Cx) (ax : Axis) (a : Arr) : Except Err Arr :=
  if a.kind == .bool then .error .unsupported else
  match ax with
  | .all => .ok ⟨[a.data.length], a.kind, scanl1 f a.data⟩
  | .last => (mapRows a (scanl1 f)).map fun d => { a with data := d }
  | .first =>
    match a.shape with
    | [] => .error .value
    | n :: rest =>
      let m := prod rest
      -- column j: positions j, m+j, 2m+j, …
      let cols := (List.range m).map fun j => scanl1 f ((List.range n).map fun i => get a (i * m + j))
      .ok { a with data := (List.range n).flatMap fun i => cols.map fun c => c.getD i Cx.zero }

def argExt (better : Cx → Cx → Bool) (ax : Axis) (a : Arr) : Except Err Arr :=
  if !isOrdered a.kind then .error .unsupported else
  if a.data.isEmpty then .error .value else
  match ax with
  | .all => .ok ⟨[], .int, [⟨(argBest better a.data : Nat), 0⟩]⟩
  | .last =>
    match a.shape.getLast? with
    | none => .error .value
    | some n => .ok ⟨a.shape.dropLast, .int, (chunks n a.data a.data.length).map fun row => ⟨(argBest better row : Nat), 0⟩⟩
  | .first => .error .unsupported

def apply1 (f : Fn1) (a : Arr) : Except Err Arr :=
  match f with
  | .redKeep r ax => reduceKeep r ax a
  | .cumsum ax => scan Cx.add ax a
  | .cumprod ax => scan Cx.mul ax a
  | .sortLast => if a.kind == .bool then .error .unsupported else
      (mapRows a fun row => row.mergeSort cxLe).map fun d => { a with data := d }
  | .argsortLast => if a.kind == .bool then .error .unsupported else
      (mapRows a fun row => (argsortRow row).map fun i => ⟨(i : Nat), 0⟩).map fun d => ⟨a.shape, .int, d⟩
  | .argmax ax => argExt (fun y m => m.re < y.re) ax a
  | .argmin ax => argExt (fun y m => y.re < m.re) ax a
  | .astype k => .ok (castTo k a)
  | .fieldTrace =>
    -- einsum('iia'): tensor order exactly two, square
    match a.shape with
    | [p, q, n] =>
      if p != q then .error .value else
      if a.kind == .bool then .error .unsupported else
      .ok ⟨[n], a.kind, (List.range n).map fun z => (List.range p).foldl (fun acc i => acc.add (get a ((i * q + i) * n + z))) Cx.zero⟩
    | _ => .error .value

/-- kernels with two array arguments -/
inductive Fn2 where
  | fieldDot       -- hcipy.field_dot of two Fields of tensor order 1 or 2
  | matmul1d       -- a @ b for two 1-d arrays
deriving DecidableEq, Repr

def sumOver (n : Nat) (f : Nat → Cx) : Cx := (List.range n).foldl (fun acc i => acc.add (f i)) Cx.zero

def apply2 (f : Fn2) (a b : Arr) : Except Err Arr :=
  match joinKind a.kind b.kind with
  | none => .error .unsupported
  | some k =>
  match f with
  | .matmul1d =>
    match a.shape, b.shape with
    | [n], [m] => if n != m then .error .value else .ok ⟨[], k, [sumOver n fun i => (get a i).mul (get b i)]⟩
    | _, _ => .error .unsupported
  | .fieldDot =>
    match a.shape, b.shape with
    | [p, n], [q, m] =>            -- vector · vector: '...i,...i->...'
      if p != q || n != m then .error .value else
      .ok ⟨[n], k, (List.range n).map fun z => sumOver p fun i => (get a (i * n + z)).mul (get b (i * n + z))⟩
    | [p, q, n], [r, m] =>         -- matrix · vector
      if q != r || n != m then .error .value else
      .ok ⟨[p, n], k, (List.range p).flatMap fun i => (List.range n).map fun z =>
        sumOver q fun j => (get a ((i * q + j) * n + z)).mul (get b (j * n + z))⟩
    | [p, n], [q, r, m] =>         -- vector · matrix
      if p != q || n != m then .error .value else
      .ok ⟨[r, n], k, (List.range r).flatMap fun j => (List.range n).map fun z =>
        sumOver p fun i => (get a (i * n + z)).mul (get b ((i * r + j) * n + z))⟩
    | [p, q, n], [r, t, m] =>      -- matrix · matrix
      if q != r || n != m then .error .value else
      .ok ⟨[p, t, n], k, (List.range p).flatMap fun i => (List.range t).flatMap fun l => (List.range n).map fun z =>
        sumOver q fun j => (get a ((i * q + j) * n + z)).mul (get b ((j * t + l) * n + z))⟩
    | _, _ => .error .value        -- scalar fields / higher orders: einsum rejects the subscripts

/-- kernels with three array arguments -/
inductive Fn3 where
  | where_        -- np.where(c, a, b)
  | clip          -- np.clip(a, lo, hi)
deriving DecidableEq, Repr

def bshape3 (s t u : List Nat) : Option (List Nat) := (bshape s t).bind fun st => bshape st u

def apply3 (f : Fn3) (a b c : Arr) : Except Err Arr :=
  match bshape3 a.shape b.shape c.shape with
  | none => .error .value
  | some s =>
    let xs := broadcastTo a s
    let ys := broadcastTo b s
    let zs := broadcastTo c s
    match f with
    | .where_ =>
      if a.kind != .bool then .error .unsupported else
      match joinKind b.kind c.kind with
      | none => .error .unsupported
      | some k => .ok ⟨s, k, List.zipWith (fun (x : Cx) (yz : Cx × Cx) => if x.re != 0 then yz.1 else yz.2) xs (ys.zip zs)⟩
    | .clip =>
      match (joinKind a.kind b.kind).bind fun k => joinKind k c.kind with
      | none => .error .unsupported
      | some k =>
        if !isOrdered k then .error .unsupported else
        .ok ⟨s, k, List.zipWith (fun (x : Cx) (lh : Cx × Cx) =>
          let m := if x.re < lh.1.re then lh.1 else x       -- maximum(x, lo)
          if lh.2.re < m.re then lh.2 else m) xs (ys.zip zs)⟩     -- minimum(…, hi)

/-- in-place statements: what happens to the contents of the target given the argument values -/
inductive Upd where
  | iop (op : BinOp)             -- x op= e
  | setIx (i : Ix)               -- x[i] = e
  | setMask                      -- x[..., m] = e        (arguments: m, e)
  | iopIx (i : Ix) (op : BinOp)  -- x[i] op= e
  | iopMask (op : BinOp)         -- x[..., m] op= e      (arguments: m, e)
  | out (op : BinOp)             -- np.<op>(a, b, out=x) (arguments: a, b)
  | setReal | setImag            -- x.real = e, x.imag = e
  | sortLast                     -- x.sort()
  | fill                         -- x.fill(e)
deriving DecidableEq, Repr

def update (u : Upd) (x : Arr) (args : List Arr) : Except Err Arr :=
  match u, args with
  | .iop op, [e] => if x.shape.isEmpty then .error .unsupported else inplace op x e
  | .setIx i, [e] => (select i x.shape).bind fun sel => scatter x sel e
  | .setMask, [m, e] => (selectMask m x.shape).bind fun sel => scatter x sel e
  | .iopIx i op, [e] =>
    -- t = x[i]; t op= e; x[i] = t
    (select i x.shape).bind fun sel =>
      if sel.scalar then .error .unsupported else
      (inplace op (gather x sel) e).bind fun t => scatter x sel t
  | .iopMask op, [m, e] =>
    (selectMask m x.shape).bind fun sel => (inplace op (gather x sel) e).bind fun t => scatter x sel t
  | .out op, [a, b] =>
    match op with
    | .add | .sub | .mul | .div | .max | .min =>
      if x.shape.isEmpty then .error .unsupported else (binop op a b).bind fun r => writeOut x r
    | _ => .error .unsupported
  | .setReal, [e] =>
    if e.kind == .cplx || e.kind == .bool || x.kind == .bool then .error .unsupported else
    if bshape e.shape x.shape != some x.shape then .error .value else
    let vals := broadcastTo e x.shape
    let cast : Rat → Rat := if x.kind == .int then truncRat else id
    .ok { x with data := List.zipWith (fun (o v : Cx) => ⟨cast v.re, o.im⟩) x.data vals }
  | .setImag, [e] =>
    if x.kind != .cplx then .error .type else       -- "array does not have imaginary part to set"
    if e.kind == .cplx || e.kind == .bool then .error .unsupported else
    if bshape e.shape x.shape != some x.shape then .error .value else
    let vals := broadcastTo e x.shape
    .ok { x with data := List.zipWith (fun (o v : Cx) => ⟨o.re, v.re⟩) x.data vals }
  | .sortLast, [] =>
    if x.kind == .bool || x.shape.isEmpty then .error .unsupported else
    (mapRows x fun row => row.mergeSort cxLe).map fun d => { x with data := d }
  | .fill, [e] =>
    if e.shape != [] then .error .unsupported else
    match castInto x.kind e with
    | .error err => .error err
    | .ok cast => .ok { x with data := cast (x.data.map fun _ => get e 0) }
  | _, _ => .error .unsupported

end Prim

/-! ## Values, tags, programs -/

/-- what kind of Python object a value is -/
inductive Tag where
  | field (g : Nat)     -- a Field attached to grid `g`
  | plain               -- a bare ndarray
  | scalar              -- a NumPy/Python scalar
deriving DecidableEq, Repr

abbrev Val := Arr × Tag

inductive Expr where
  | var (x : Nat)
  | lit (a : Arr)                       -- np.array(...)
  | scal (c : Cx) (k : Kind)            -- Python scalar
  | field (a : Arr) (g : Nat)           -- Field(np.array(...), grid_g)
  | bin (op : BinOp) (l r : Expr)
  | un (u : UnOp) (e : Expr)
  | red (r : RedOp) (ax : Axis) (e : Expr)
  | idx (i : Ix) (e : Expr)
  | mask (e m : Expr)                   -- e[..., m]
  | shaped (e : Expr)
  | reshape (s : List Nat) (e : Expr)
  | ravel (e : Expr)
  | copy (e : Expr)
  | pickle (e : Expr)
  | app1 (f : Prim.Fn1) (e : Expr)
  | app2 (f : Prim.Fn2) (a b : Expr)
  | app3 (f : Prim.Fn3) (a b c : Expr)
deriving Repr

inductive Stmt where
  | assign (x : Nat) (e : Expr)         -- x = e   (e is never a bare variable; see `alias`)
  | alias (h x : Nat)                   -- h = x
  /-- an in-place statement on the object `x` names: `x op= e`, `x[i] = e`, `x[..., m] = e`,
  `x[i] op= e`, `x[..., m] op= e`, `np.op(a, b, out=x)`, `x.real = e`, `x.imag = e`, `x.sort()`,
  `x.fill(e)` -/
  | update (x : Nat) (u : Prim.Upd) (args : List Expr)
deriving Repr

/-- grid id ↦ `grid.shape` (`none` = not separated) -/
abbrev Grids := List (Nat × Option (List Nat))

def gridShape (gs : Grids) (g : Nat) : Option (List Nat) := (gs.lookup g).getD none

/-- the leftmost Field among the operands gives the grid (`__array_wrap__` of the first subclass
operand / `self` of the first operand that overrides `__array_ufunc__`) -/
def leftGrid : List Tag → Option Nat
  | [] => none
  | .field g :: _ => some g
  | _ :: ts => leftGrid ts

/-- the part of the two implementations that differs for *expressions*: how the raw result of a
kernel is tagged -/
structure Policy where
  /-- result of a ufunc from the operand tags (left to right) and the raw result -/
  ufunc : List Tag → Arr → Tag
  /-- result of a reduction -/
  reduce : Tag → Arr → Tag
  /-- result of a NumPy *function* that does not preserve subclasses (`np.where`) -/
  func : List Tag → Arr → Tag

/-- bare NumPy: 0-d results become scalars -/
def bareTag (a : Arr) : Tag := if a.shape.isEmpty then .scalar else .plain

/-- Subclass route: NumPy view-casts the output to the subclass of the leftmost Field operand,
`__array_finalize__` copies its grid; a 0-d result stays a 0-d array of the subclass. -/
def oldPolicy : Policy where
  ufunc ts a := match leftGrid ts with | some g => .field g | none => bareTag a
  reduce t a := match t with | .field g => .field g | _ => bareTag a
  func _ _ := .plain          -- subok is not honoured: a base-class ndarray comes back

/-- Wrapper route: unwrap, call the kernel, `if isinstance(result, np.ndarray): Field(result,
self.grid) else result` — a 0-d result is a NumPy scalar and stays bare. -/
def newPolicy : Policy where
  ufunc ts a := match leftGrid ts with
    | some g => if a.shape.isEmpty then .scalar else .field g
    | none => bareTag a
  reduce t a := match t with
    | .field g => if a.shape.isEmpty then .scalar else .field g
    | _ => bareTag a
  func ts _ := match leftGrid ts with | some g => .field g | none => .plain   -- `__array_function__`

/-- `x[i]`: both `ndarray.__getitem__` (then `__array_finalize__`) and
`NewStyleField.__getitem__` (`np.isscalar(res)`) keep the tag unless NumPy returned a scalar -/
def getitemTag (t : Tag) (scalar : Bool) : Tag := if scalar then .scalar else t

/-- `reshape`/`ravel` of a NumPy scalar give a bare ndarray; arrays keep what they are -/
def arrayTag (t : Tag) : Tag := if t = .scalar then .plain else t

/-- `np.real`/`np.imag` (and the `.real`/`.imag` attributes) are not ufuncs: they return
`val.real`, an array whenever `val` is one (also 0-d), so the kind of object is unchanged under
either route; the other unary operations are ufuncs. -/
def unTag (P : Policy) (u : UnOp) (t : Tag) (a : Arr) : Tag :=
  match u with
  | .re | .im => t
  | _ => P.ufunc [t] a

/-- how the result of a kernel is tagged -/
inductive TagClass where
  | ufunc        -- a ufunc: the policy's ufunc rule
  | reduce       -- a ufunc reduction: the policy's reduction rule
  | keep         -- methods / functions both routes keep attached to the first operand's grid
  | scalarIf0d   -- like `keep`, but a 0-d result is a scalar under both routes (`argmax`)
  | func         -- a NumPy function that drops subclasses (`np.where`)
  | lib          -- an hcipy function that builds `Field(result, grid of the first Field operand)`
deriving DecidableEq, Repr

def Fn1.cls : Prim.Fn1 → TagClass
  | .redKeep _ _ => .reduce
  | .cumsum _ | .cumprod _ | .sortLast | .argsortLast | .astype _ => .keep
  | .argmax _ | .argmin _ => .scalarIf0d
  | .fieldTrace => .lib

def Fn2.cls : Prim.Fn2 → TagClass
  | .fieldDot => .lib
  | .matmul1d => .ufunc

def Fn3.cls : Prim.Fn3 → TagClass
  | .where_ => .func
  | .clip => .ufunc

def fnTag (P : Policy) (c : TagClass) (ts : List Tag) (a : Arr) : Tag :=
  match c with
  | .ufunc => P.ufunc ts a
  | .reduce => P.reduce (ts.headD .plain) a
  | .keep => match ts.headD .plain with
    | .field g => .field g
    | .plain => .plain          -- a method of an ndarray returns an ndarray, 0-d included (`np.where(s, s, s).astype(bool)`)
    | .scalar => bareTag a
  | .scalarIf0d => match ts.headD .plain with
    | .field g => if a.shape.isEmpty then .scalar else .field g
    | _ => bareTag a
  | .func => P.func ts a
  | .lib => match leftGrid ts with | some g => .field g | none => bareTag a

def liftA (t : Tag) (r : Except Err Arr) : Except Err Val := r.map fun a => (a, t)

/-- Expression evaluation, given how variables are read and the wrapping policy. -/
def eval (P : Policy) (gs : Grids) (look : Nat → Except Err Val) : Expr → Except Err Val
  | .var x => look x
  | .lit a => .ok (a, .plain)
  | .scal c k => .ok (⟨[], k, [c]⟩, .scalar)
  | .field a g => .ok (a, .field g)
  | .bin op l r =>
    match eval P gs look l with
    | .error e => .error e
    | .ok vl =>
      match eval P gs look r with
      | .error e => .error e
      | .ok vr => (Prim.binop op vl.1 vr.1).map fun a => (a, P.ufunc [vl.2, vr.2] a)
  | .un u e =>
    match eval P gs look e with
    | .error err => .error err
    | .ok v => (Prim.unop u v.1).map fun a => (a, unTag P u v.2 a)
  | .red r ax e =>
    match eval P gs look e with
    | .error err => .error err
    | .ok v => (Prim.reduce r ax v.1).map fun a => (a, P.reduce v.2 a)
  | .idx i e =>
    match eval P gs look e with
    | .error err => .error err
    | .ok v => (Prim.select i v.1.shape).map fun s => (Prim.gather v.1 s, getitemTag v.2 s.scalar)
  | .mask e m =>
    match eval P gs look e with
    | .error err => .error err
    | .ok v =>
      match eval P gs look m with
      | .error err => .error err
      | .ok vm => (Prim.selectMask vm.1 v.1.shape).map fun s => (Prim.gather v.1 s, v.2)
  | .shaped e =>
    match eval P gs look e with
    | .error err => .error err
    | .ok v =>
      match v.2 with
      | .field g => (Prim.shaped (gridShape gs g) v.1).map fun a => (a, .field g)
      | _ => .error .attr
  | .reshape s e =>
    match eval P gs look e with
    | .error err => .error err
    | .ok v => (Prim.reshape s v.1).map fun a => (a, arrayTag v.2)
  | .ravel e =>
    match eval P gs look e with
    | .error err => .error err
    | .ok v => .ok (Prim.ravel v.1, arrayTag v.2)
  | .copy e =>
    -- `ndarray.copy` + finalize  /  `np.copy` through `__array_function__` (always an ndarray)
    match eval P gs look e with
    | .error err => .error err
    | .ok v => .ok (v.1, v.2)
  | .pickle e =>
    -- `__reduce__`: (reconstruct, …, ndarray state + (grid,)); `__setstate__` restores both
    match eval P gs look e with
    | .error err => .error err
    | .ok v =>
      .ok (Prim.setstate (Prim.getstate v.1), v.2)
  | .app1 f e =>
    match eval P gs look e with
    | .error err => .error err
    | .ok v => (Prim.apply1 f v.1).map fun a => (a, fnTag P (Fn1.cls f) [v.2] a)
  | .app2 f x y =>
    match eval P gs look x with
    | .error err => .error err
    | .ok vx =>
      match eval P gs look y with
      | .error err => .error err
      | .ok vy => (Prim.apply2 f vx.1 vy.1).map fun a => (a, fnTag P (Fn2.cls f) [vx.2, vy.2] a)
  | .app3 f x y z =>
    match eval P gs look x with
    | .error err => .error err
    | .ok vx =>
      match eval P gs look y with
      | .error err => .error err
      | .ok vy =>
        match eval P gs look z with
        | .error err => .error err
        | .ok vz => (Prim.apply3 f vx.1 vy.1 vz.1).map fun a => (a, fnTag P (Fn3.cls f) [vx.2, vy.2, vz.2] a)

/-- the arguments of an in-place statement, left to right; the first exception wins -/
def evalArgs (P : Policy) (gs : Grids) (look : Nat → Except Err Val) : List Expr → Except Err (List Val)
  | [] => .ok []
  | e :: es =>
    match eval P gs look e with
    | .error err => .error err
    | .ok v =>
      match evalArgs P gs look es with
      | .error err => .error err
      | .ok vs => .ok (v :: vs)

/-- only `x op= e` is an assignment statement in Python (`x = x.__iop__(e)`) -/
def Upd.rebinds : Prim.Upd → Bool
  | .iop _ => true
  | _ => false

/-! ## Route 1: ndarray subclass.  A variable names a cell; a cell is the object. -/

structure OState where
  vars : List (Nat × Nat) := []
  cells : List Val := []
deriving Repr

def OState.look (s : OState) (x : Nat) : Except Err Val :=
  match s.vars.lookup x with
  | none => .error .unsupported
  | some c => match s.cells[c]? with
    | none => .error .unsupported
    | some v => .ok v

def bind (vars : List (Nat × α)) (x : Nat) (r : α) : List (Nat × α) :=
  (x, r) :: vars.filter (·.1 != x)

def evalO (gs : Grids) (s : OState) (e : Expr) : Except Err Val := eval oldPolicy gs s.look e

/-- a bare variable on the right-hand side: Python's `x = y` binds a second name to the same object — that
is the statement `.alias x y`, not an assignment of a new object.  `.assign x (.var y)` is therefore outside
the model (`.unsupported`, which matches no behaviour of the running code). -/
def Expr.isVar : Expr → Bool
  | .var _ => true
  | _ => false

/-- one statement; the result names the variable to observe -/
def stepO (gs : Grids) (s : OState) : Stmt → Except Err OState
  | .assign x e =>
    if e.isVar then .error .unsupported else
    (evalO gs s e).map fun v => { vars := bind s.vars x s.cells.length, cells := s.cells ++ [v] }
  | .alias h x =>
    match s.vars.lookup x with
    | none => .error .unsupported
    | some c => .ok { s with vars := bind s.vars h c }
  | .update x u args =>
    -- NumPy writes into the object's own memory; `x op= e` then re-binds `x` to the very same object
    match s.vars.lookup x with
    | none => .error .unsupported
    | some c =>
      match s.cells[c]? with
      | none => .error .unsupported
      | some xv =>
        match evalArgs oldPolicy gs s.look args with
        | .error err => .error err
        | .ok vs => (Prim.update u xv.1 (vs.map Prod.fst)).map fun a =>
            { vars := if Upd.rebinds u then bind s.vars x c else s.vars, cells := s.cells.set c (a, xv.2) }

/-! ## Route 2: wrapper.  A variable holds a reference `(buffer, tag)`; buffers live in a heap. -/

structure NState where
  vars : List (Nat × (Nat × Tag)) := []
  bufs : List Arr := []
deriving Repr

def NState.look (s : NState) (x : Nat) : Except Err Val :=
  match s.vars.lookup x with
  | none => .error .unsupported
  | some r => match s.bufs[r.1]? with
    | none => .error .unsupported
    | some a => .ok (a, r.2)

def evalN (gs : Grids) (s : NState) (e : Expr) : Except Err Val := eval newPolicy gs s.look e

/-- the wrapper `x op= e` returns: `Field(result, self.grid)` where `self` is the leftmost Field
among `(x, e)`; without a Field operand NumPy returns `out` itself -/
def iopTagN (tx te : Tag) : Tag :=
  match leftGrid [tx, te] with
  | some g => .field g
  | none => tx

def stepN (gs : Grids) (s : NState) : Stmt → Except Err NState
  | .assign x e =>
    if e.isVar then .error .unsupported else
    (evalN gs s e).map fun v => { vars := bind s.vars x (s.bufs.length, v.2), bufs := s.bufs ++ [v.1] }
  | .alias h x =>
    match s.vars.lookup x with
    | none => .error .unsupported
    | some r => .ok { s with vars := bind s.vars h r }
  | .update x u args =>
    -- every in-place path of the wrapper ends in a write into `self.data`:
    -- `__iadd__` = `ufunc(self, other, out=(self,))` with `out` replaced by `self.data` (and a new
    -- wrapper around the same buffer is bound to `x`); `__setitem__`: `self.data[indices] = values`;
    -- `out=x`: `__array_ufunc__` unwraps `out`; `.real/.imag` setters, `sort`, `fill`: `self.data.…`
    match s.vars.lookup x with
    | none => .error .unsupported
    | some r =>
      match s.bufs[r.1]? with
      | none => .error .unsupported
      | some xa =>
        match evalArgs newPolicy gs s.look args with
        | .error err => .error err
        | .ok vs => (Prim.update u xa (vs.map Prod.fst)).map fun a =>
            { vars := if Upd.rebinds u then bind s.vars x (r.1, iopTagN r.2 ((vs.map Prod.snd).headD .plain)) else s.vars,
              bufs := s.bufs.set r.1 a }

/-! ## Whole programs and what is observed -/

/-- the variable a statement (re)defines or updates -/
def Stmt.target : Stmt → Nat
  | .assign x _ => x
  | .alias h _ => h
  | .update x _ _ => x

/-- One observation: after a statement, the value of its target; `Sum.inl` = the statement raised
(the program stops there). -/
abbrev Obs := Except Err (Nat × Val)

/-- run a program, observing the target of every statement; returns the trace and the final state
(`none` after an exception) -/
def runO (gs : Grids) : OState → List Stmt → List Obs × Option OState
  | s, [] => ([], some s)
  | s, st :: rest =>
    match stepO gs s st with
    | .error err => ([.error err], none)
    | .ok s' =>
      match s'.look st.target with
      | .error err => ([.error err], none)
      | .ok v => let (tr, fin) := runO gs s' rest; (.ok (st.target, v) :: tr, fin)

def runN (gs : Grids) : NState → List Stmt → List Obs × Option NState
  | s, [] => ([], some s)
  | s, st :: rest =>
    match stepN gs s st with
    | .error err => ([.error err], none)
    | .ok s' =>
      match s'.look st.target with
      | .error err => ([.error err], none)
      | .ok v => let (tr, fin) := runN gs s' rest; (.ok (st.target, v) :: tr, fin)

/-- final read-out of every live variable (this is where stale aliases would show) -/
def OState.dump (s : OState) : List (Nat × Except Err Val) := s.vars.map fun (x, _) => (x, s.look x)
def NState.dump (s : NState) : List (Nat × Except Err Val) := s.vars.map fun (x, _) => (x, s.look x)

/-- values only (what `backends_same_values` is about) -/
def obsData (o : Obs) : Except Err (Nat × Arr) := o.map fun (x, v) => (x, v.1)

def dumpData (d : List (Nat × Except Err Val)) : List (Nat × Except Err Arr) :=
  d.map fun (x, r) => (x, r.map (·.1))

/-! ## A decidable side condition for `shaped` (run by the driver: `agree=`) -/

/-- both results are the same kind of object (same tag), or the same exception -/
def sameTagB : Except Err Val → Except Err Val → Bool
  | .ok v, .ok w => v.2 == w.2
  | .error e, .error f => e == f
  | _, _ => false

/-- at every `shaped` node the operand is the same kind of object under both policies -/
def shapedAgreeB (P Q : Policy) (gs : Grids) (lo ln : Nat → Except Err Val) : Expr → Bool
  | .var _ | .lit _ | .scal _ _ | .field _ _ => true
  | .bin _ l r => shapedAgreeB P Q gs lo ln l && shapedAgreeB P Q gs lo ln r
  | .un _ e | .red _ _ e | .idx _ e | .reshape _ e | .ravel e | .copy e | .pickle e => shapedAgreeB P Q gs lo ln e
  | .mask e m => shapedAgreeB P Q gs lo ln e && shapedAgreeB P Q gs lo ln m
  | .shaped e => shapedAgreeB P Q gs lo ln e && sameTagB (eval P gs lo e) (eval Q gs ln e)
  | .app1 _ e => shapedAgreeB P Q gs lo ln e
  | .app2 _ a b => shapedAgreeB P Q gs lo ln a && shapedAgreeB P Q gs lo ln b
  | .app3 _ a b c => shapedAgreeB P Q gs lo ln a && shapedAgreeB P Q gs lo ln b && shapedAgreeB P Q gs lo ln c

def stmtAgreeB (gs : Grids) (so : OState) (sn : NState) : Stmt → Bool
  | .assign _ e => shapedAgreeB oldPolicy newPolicy gs so.look sn.look e
  | .alias _ _ => true
  | .update _ _ args => args.all fun e => shapedAgreeB oldPolicy newPolicy gs so.look sn.look e

/-- the check along the run of both routes (it stops where either route raises) -/
def progAgreeB (gs : Grids) : OState → NState → List Stmt → Bool
  | _, _, [] => true
  | so, sn, st :: rest =>
    stmtAgreeB gs so sn st &&
      match stepO gs so st, stepN gs sn st with
      | .ok so', .ok sn' => progAgreeB gs so' sn' rest
      | _, _ => true

/-- `agree? gs p`: no `shaped` of the program is applied to an object the two routes tag differently -/
def agree? (gs : Grids) (p : List Stmt) : Bool := progAgreeB gs {} {} p

/-- index of the first statement at which the check fails (`none`: it passes); reported by the driver next
to `agree?` so that the harness can compare it with where the running styles first hand different kinds
of object to `.shaped` -/
def progDisagreeAt (gs : Grids) : OState → NState → List Stmt → Nat → Option Nat
  | _, _, [], _ => none
  | so, sn, st :: rest, i =>
    if stmtAgreeB gs so sn st then
      match stepO gs so st, stepN gs sn st with
      | .ok so', .ok sn' => progDisagreeAt gs so' sn' rest (i + 1)
      | _, _ => none
    else some i

def disagreeAt (gs : Grids) (p : List Stmt) : Option Nat := progDisagreeAt gs {} {} p 0

end HcipyVerif.FieldProg
