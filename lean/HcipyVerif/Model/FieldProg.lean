/-!
# C19 — a small language of array programs and two interpreters for it

hcipy has two `Field` implementations (hcipy/field/field.py):

* `OldStyleField` — an `ndarray` *subclass*.  NumPy itself produces the results; the subclass is
  re-attached by a view cast and `__array_finalize__` copies `grid` from the template operand.
  Results of full reductions stay 0-d arrays *of the subclass* (with the grid).
* `NewStyleField` — a *wrapper* around `data`.  `__array_ufunc__`/`__array_function__` unwrap every
  Field argument, run the same NumPy kernel on the raw arrays and wrap the result again
  **iff it is an `ndarray`** (0-d results come back from NumPy as scalars and stay bare).
  In-place operators go through `out=(self,)`, write into `self.data` and return a *new* wrapper
  around the same buffer.

This file models

* the NumPy kernels both routes end up calling (`Prim`, exact over `Rat`, complex numbers as pairs):
  broadcasting arithmetic, a few exact ufuncs, reductions over all / the last / the first axis,
  indexing by integer / slice / boolean mask, `reshape`/`shaped`/`ravel`, the `ndarray` pickle
  state; and
* the two *routes*: an expression evaluator parametrised by the wrapping policy (the kernels are
  literally shared by the two implementations, the policy is what differs), and two separate
  statement interpreters with different stores — cells holding `(array, tag)` for the subclass
  route, wrappers `(buffer id, tag)` plus a buffer heap for the wrapper route.

Views are *not* modelled (every derived array owns its data); the property excludes updates
through views or aliases *derived from* a field, and the harness never observes one.  Plain
aliases (`h = x`) are modelled, because "writes through" is a statement about them.
No Mathlib import: this file is linked into the driver.
-/
namespace HcipyVerif.FieldProg

/-- an exact complex number (floats are dyadic rationals) -/
structure Cx where
  re : Rat
  im : Rat
deriving DecidableEq, Repr

namespace Cx
def zero : Cx := ⟨0, 0⟩
def add (a b : Cx) : Cx := ⟨a.re + b.re, a.im + b.im⟩
def sub (a b : Cx) : Cx := ⟨a.re - b.re, a.im - b.im⟩
def mul (a b : Cx) : Cx := ⟨a.re * b.re - a.im * b.im, a.re * b.im + a.im * b.re⟩
def conj (a : Cx) : Cx := ⟨a.re, -a.im⟩
def neg (a : Cx) : Cx := ⟨-a.re, -a.im⟩
def normSq (a : Cx) : Rat := a.re * a.re + a.im * a.im
def div (a b : Cx) : Cx :=
  let d := b.normSq
  let n := a.mul b.conj
  ⟨n.re / d, n.im / d⟩
def ofRat (q : Rat) : Cx := ⟨q, 0⟩
end Cx

/-- dtype class -/
inductive Kind where
  | bool | real | cplx
deriving DecidableEq, Repr

/-- a dense row-major array; a Python/NumPy scalar is a 0-d array (shape `[]`, one element) -/
structure Arr where
  shape : List Nat
  kind : Kind
  data : List Cx
deriving DecidableEq, Repr

/-- exception classes: ValueError, TypeError, IndexError, AttributeError; `unsupported` marks
inputs outside the modelled fragment (the harness never sends them) -/
inductive Err where
  | value | type | index | attr | unsupported
deriving DecidableEq, Repr

inductive BinOp where
  | add | sub | mul | div | max | min | gt | lt
deriving DecidableEq, Repr

inductive UnOp where
  | neg | pos | abs | sq | conj | re | im
deriving DecidableEq, Repr

inductive RedOp where
  | sum | mean | max | min
deriving DecidableEq, Repr

inductive Axis where
  | all | last | first
deriving DecidableEq, Repr

/-- non-mask index forms: `x[i]`, `x[..., i]`, `x[..., a:b:c]` -/
inductive Ix where
  | at0 (i : Int)
  | atLast (i : Int)
  | slice (a b c : Nat)
deriving DecidableEq, Repr

/-! ## The kernels -/
namespace Prim

def prod (s : List Nat) : Nat := s.foldl (· * ·) 1

/-- all multi-indices of a shape in row-major order -/
def indices : List Nat → List (List Nat)
  | [] => [[]]
  | n :: s => (List.range n).flatMap fun i => (indices s).map (i :: ·)

/-- flat offset of the (right-aligned) multi-index `ix` in an array of shape `s`; axes of length
one are broadcast -/
def offset (s : List Nat) (ix : List Nat) : Nat :=
  ((s.zip (ix.drop (ix.length - s.length))).foldl
    (fun acc (p : Nat × Nat) => acc * p.1 + (if p.1 = 1 then 0 else p.2)) 0)

def bshapeRev : List Nat → List Nat → Option (List Nat)
  | [], t => some t
  | s, [] => some s
  | a :: s, b :: t =>
    if a = b then (bshapeRev s t).map (a :: ·)
    else if a = 1 then (bshapeRev s t).map (b :: ·)
    else if b = 1 then (bshapeRev s t).map (a :: ·)
    else none

/-- NumPy broadcasting of two shapes -/
def bshape (s t : List Nat) : Option (List Nat) :=
  (bshapeRev s.reverse t.reverse).map List.reverse

def get (a : Arr) (i : Nat) : Cx := a.data.getD i Cx.zero

/-- the values of `a` broadcast to shape `s` (caller guarantees compatibility) -/
def broadcastTo (a : Arr) (s : List Nat) : List Cx :=
  (indices s).map fun ix => get a (offset a.shape ix)

def joinKind : Kind → Kind → Option Kind
  | .bool, _ => none
  | _, .bool => none
  | .real, .real => some .real
  | _, _ => some .cplx

def boolCx (b : Bool) : Cx := if b then ⟨1, 0⟩ else ⟨0, 0⟩

/-- elementwise binary ufunc with broadcasting -/
def binop (op : BinOp) (a b : Arr) : Except Err Arr :=
  match joinKind a.kind b.kind with
  | none => .error .unsupported
  | some k =>
    match bshape a.shape b.shape with
    | none => .error .value
    | some s =>
      let xs := broadcastTo a s
      let ys := broadcastTo b s
      let zip (f : Cx → Cx → Cx) (k' : Kind) : Except Err Arr := .ok ⟨s, k', List.zipWith f xs ys⟩
      match op with
      | .add => zip Cx.add k
      | .sub => zip Cx.sub k
      | .mul => zip Cx.mul k
      | .div => if ys.any (fun y => y.normSq == 0) then .error .unsupported else zip Cx.div k
      | .max => if k == .real then zip (fun x y => if x.re < y.re then y else x) k else .error .unsupported
      | .min => if k == .real then zip (fun x y => if y.re < x.re then y else x) k else .error .unsupported
      | .gt => if k == .real then zip (fun x y => boolCx (decide (y.re < x.re))) .bool else .error .unsupported
      | .lt => if k == .real then zip (fun x y => boolCx (decide (x.re < y.re))) .bool else .error .unsupported

/-- elementwise unary ufunc -/
def unop (u : UnOp) (a : Arr) : Except Err Arr :=
  if a.kind == .bool then .error .unsupported else
  match u with
  | .neg => .ok { a with data := a.data.map Cx.neg }
  | .pos => .ok a
  | .abs => if a.kind == .real then .ok { a with data := a.data.map fun x => ⟨if x.re < 0 then -x.re else x.re, 0⟩ }
            else .error .unsupported
  | .sq => .ok { a with data := a.data.map fun x => x.mul x }
  | .conj => .ok { a with data := a.data.map Cx.conj }
  | .re => .ok { a with kind := .real, data := a.data.map fun x => ⟨x.re, 0⟩ }
  | .im => .ok { a with kind := .real, data := a.data.map fun x => ⟨x.im, 0⟩ }

/-- consecutive chunks of length `n` -/
def chunks (n : Nat) (l : List Cx) (fuel : Nat) : List (List Cx) :=
  match fuel with
  | 0 => []
  | fuel + 1 => if l.isEmpty then [] else l.take n :: chunks n (l.drop n) fuel

def red1 (r : RedOp) (k : Kind) (l : List Cx) : Except Err Cx :=
  match l with
  | [] => .error .value
  | x :: xs =>
    match r with
    | .sum => .ok (xs.foldl Cx.add x)
    | .mean =>
      let s := xs.foldl Cx.add x
      let n : Rat := ((xs.length + 1 : Nat) : Rat)
      .ok ⟨s.re / n, s.im / n⟩
    | .max => if k == .real then .ok (xs.foldl (fun m y => if m.re < y.re then y else m) x) else .error .unsupported
    | .min => if k == .real then .ok (xs.foldl (fun m y => if y.re < m.re then y else m) x) else .error .unsupported

/-- `np.sum/mean/max/min(a)`, `(a, axis=-1)`, `(a, axis=0)` -/
def reduce (r : RedOp) (ax : Axis) (a : Arr) : Except Err Arr :=
  if a.kind == .bool then .error .unsupported else
  match ax with
  | .all => (red1 r a.kind a.data).map fun c => ⟨[], a.kind, [c]⟩
  | .last =>
    match a.shape.getLast? with
    | none => .error .value          -- AxisError (a ValueError) on a 0-d array
    | some n =>
      if n = 0 then .error .value else
      ((chunks n a.data a.data.length).mapM (red1 r a.kind)).map fun cs => ⟨a.shape.dropLast, a.kind, cs⟩
  | .first =>
    match a.shape with
    | [] => .error .value
    | n :: rest =>
      let m := prod rest
      ((List.range m).mapM fun j => red1 r a.kind ((List.range n).map fun i => get a (i * m + j))).map
        fun cs => ⟨rest, a.kind, cs⟩

/-- Python index normalisation -/
def normIndex (i : Int) (n : Nat) : Option Nat :=
  if 0 ≤ i then (if i.toNat < n then some i.toNat else none)
  else (if (-i).toNat ≤ n then some (n - (-i).toNat) else none)

/-- `a, a+c, … < min b n` -/
def slicePicks (a b c n : Nat) : List Nat :=
  let stop := min b n
  (List.range stop).filter fun i => a ≤ i ∧ (i - a) % c = 0

/-- flat positions selected by choosing `picks` on the last axis (length `n`), `outer` rows -/
def lastAxisPositions (outer n : Nat) (picks : List Nat) : List Nat :=
  (List.range outer).flatMap fun o => picks.map fun p => o * n + p

/-- Selection made by an index: flat positions, shape of the result, and whether NumPy returns a
scalar instead of an array. -/
structure Sel where
  pos : List Nat
  shape : List Nat
  scalar : Bool

def select (i : Ix) (shape : List Nat) : Except Err Sel :=
  match i with
  | .at0 i =>
    match shape with
    | [] => .error .index
    | n :: rest =>
      match normIndex i n with
      | none => .error .index
      | some j => let m := prod rest
                  .ok ⟨(List.range m).map (j * m + ·), rest, rest.isEmpty⟩
  | .atLast i =>
    match shape.getLast? with
    | none => .error .index
    | some n =>
      match normIndex i n with
      | none => .error .index
      | some j => .ok ⟨lastAxisPositions (prod shape.dropLast) n [j], shape.dropLast, false⟩
  | .slice a b c =>
    match shape.getLast? with
    | none => .error .index
    | some n =>
      if c = 0 then .error .value else
      let picks := slicePicks a b c n
      .ok ⟨lastAxisPositions (prod shape.dropLast) n picks, shape.dropLast ++ [picks.length], false⟩

/-- `x[..., m]` with a boolean array `m` over the last axis -/
def selectMask (m : Arr) (shape : List Nat) : Except Err Sel :=
  if m.kind != .bool then .error .unsupported else
  match shape.getLast? with
  | none => .error .index
  | some n =>
    if m.shape != [n] then .error .index else
    let picks := (List.range n).filter fun i => (get m i).re != 0
    .ok ⟨lastAxisPositions (prod shape.dropLast) n picks, shape.dropLast ++ [picks.length], false⟩

def gather (a : Arr) (s : Sel) : Arr := ⟨s.shape, a.kind, s.pos.map (get a)⟩

/-- `a[sel] = v` (value broadcast to the selected shape) -/
def scatter (a : Arr) (s : Sel) (v : Arr) : Except Err Arr :=
  if v.kind == .bool || a.kind == .bool then .error .unsupported else
  if a.kind == .real && v.kind == .cplx then .error .unsupported else
  if bshape v.shape s.shape != some s.shape then .error .value else
  let vals := broadcastTo v s.shape
  .ok { a with data := (s.pos.zip vals).foldl (fun d (p : Nat × Cx) => d.set p.1 p.2) a.data }

/-- `Field.shaped` with the grid's shape `gs` (`none`: the grid is not separated) -/
def shaped (gs : Option (List Nat)) (a : Arr) : Except Err Arr :=
  match gs with
  | none => .error .value
  | some gs =>
    let n := (a.shape.getLast?).getD 1
    if n = prod gs then .ok { a with shape := a.shape.dropLast ++ gs } else .error .value

def reshape (s : List Nat) (a : Arr) : Except Err Arr :=
  if prod s = prod a.shape then .ok { a with shape := s } else .error .value

def ravel (a : Arr) : Arr := { a with shape := [prod a.shape] }

/-- the `ndarray.__reduce__()[2]` state, as far as it matters: shape, dtype class, raw data -/
structure NdState where
  shape : List Nat
  kind : Kind
  raw : List Cx

def getstate (a : Arr) : NdState := ⟨a.shape, a.kind, a.data⟩

/-- `ndarray.__setstate__` on a freshly made array (`np.ndarray.__new__(ndarray, (0,), 'b')` for
the subclass route, `np.array([])` for the wrapper route): everything is overwritten -/
def setstate (_fresh : Arr) (st : NdState) : Arr := ⟨st.shape, st.kind, st.raw⟩

def emptyB : Arr := ⟨[0], .bool, []⟩      -- np.ndarray.__new__(np.ndarray, (0,), 'b')
def emptyF : Arr := ⟨[0], .real, []⟩      -- np.array([])

/-- in-place `out=` compatibility of `x op= e`: result must have x's shape, and must be castable
to x's dtype class -/
def inplace (op : BinOp) (x e : Arr) : Except Err Arr :=
  if x.shape.isEmpty then .error .unsupported else
  match op with
  | .gt | .lt | .max | .min => .error .unsupported
  | _ =>
    match binop op x e with
    | .error err => .error err
    | .ok r =>
      if r.shape != x.shape then .error .value
      else if x.kind == .real && r.kind == .cplx then .error .type
      else .ok { r with kind := x.kind }

end Prim

/-! ## Values, tags, programs -/

/-- what kind of Python object a value is -/
inductive Tag where
  | field (g : Nat)     -- a Field attached to grid `g`
  | plain               -- a bare ndarray
  | scalar              -- a NumPy/Python scalar
deriving DecidableEq, Repr

abbrev Val := Arr × Tag

inductive Expr where
  | var (x : Nat)
  | lit (a : Arr)                       -- np.array(...)
  | scal (c : Cx) (k : Kind)            -- Python scalar
  | field (a : Arr) (g : Nat)           -- Field(np.array(...), grid_g)
  | bin (op : BinOp) (l r : Expr)
  | un (u : UnOp) (e : Expr)
  | red (r : RedOp) (ax : Axis) (e : Expr)
  | idx (i : Ix) (e : Expr)
  | mask (e m : Expr)                   -- e[..., m]
  | shaped (e : Expr)
  | reshape (s : List Nat) (e : Expr)
  | ravel (e : Expr)
  | copy (e : Expr)
  | pickle (e : Expr)
deriving Repr

inductive Stmt where
  | assign (x : Nat) (e : Expr)         -- x = e   (e is never a bare variable; see `alias`)
  | alias (h x : Nat)                   -- h = x
  | iop (x : Nat) (op : BinOp) (e : Expr)   -- x op= e
  | setIx (x : Nat) (i : Ix) (e : Expr)     -- x[i] = e
  | setMask (x : Nat) (m e : Expr)          -- x[..., m] = e
deriving Repr

/-- grid id ↦ `grid.shape` (`none` = not separated) -/
abbrev Grids := List (Nat × Option (List Nat))

def gridShape (gs : Grids) (g : Nat) : Option (List Nat) := (gs.lookup g).getD none

/-- the leftmost Field among the operands gives the grid (`__array_wrap__` of the first subclass
operand / `self` of the first operand that overrides `__array_ufunc__`) -/
def leftGrid : List Tag → Option Nat
  | [] => none
  | .field g :: _ => some g
  | _ :: ts => leftGrid ts

/-- the part of the two implementations that differs for *expressions*: how the raw result of a
kernel is tagged -/
structure Policy where
  /-- result of a ufunc from the operand tags (left to right) and the raw result -/
  ufunc : List Tag → Arr → Tag
  /-- result of a reduction -/
  reduce : Tag → Arr → Tag
  /-- the freshly made array `__setstate__` overwrites when unpickling -/
  fresh : Arr

/-- bare NumPy: 0-d results become scalars -/
def bareTag (a : Arr) : Tag := if a.shape.isEmpty then .scalar else .plain

/-- Subclass route: NumPy view-casts the output to the subclass of the leftmost Field operand,
`__array_finalize__` copies its grid; a 0-d result stays a 0-d array of the subclass. -/
def oldPolicy : Policy where
  ufunc ts a := match leftGrid ts with | some g => .field g | none => bareTag a
  reduce t a := match t with | .field g => .field g | _ => bareTag a
  fresh := Prim.emptyB        -- `_field_reconstruct`: np.ndarray.__new__(np.ndarray, (0,), 'b')

/-- Wrapper route: unwrap, call the kernel, `if isinstance(result, np.ndarray): Field(result,
self.grid) else result` — a 0-d result is a NumPy scalar and stays bare. -/
def newPolicy : Policy where
  ufunc ts a := match leftGrid ts with
    | some g => if a.shape.isEmpty then .scalar else .field g
    | none => bareTag a
  reduce t a := match t with
    | .field g => if a.shape.isEmpty then .scalar else .field g
    | _ => bareTag a
  fresh := Prim.emptyF        -- `NewStyleField.__setstate__`: self.data = np.array([])

/-- `x[i]`: both `ndarray.__getitem__` (then `__array_finalize__`) and
`NewStyleField.__getitem__` (`np.isscalar(res)`) keep the tag unless NumPy returned a scalar -/
def getitemTag (t : Tag) (scalar : Bool) : Tag := if scalar then .scalar else t

/-- `reshape`/`ravel` of a NumPy scalar give a bare ndarray; arrays keep what they are -/
def arrayTag (t : Tag) : Tag := if t = .scalar then .plain else t

/-- `np.real`/`np.imag` (and the `.real`/`.imag` attributes) are not ufuncs: they return
`val.real`, an array whenever `val` is one (also 0-d), so the kind of object is unchanged under
either route; the other unary operations are ufuncs. -/
def unTag (P : Policy) (u : UnOp) (t : Tag) (a : Arr) : Tag :=
  match u with
  | .re | .im => t
  | _ => P.ufunc [t] a

def liftA (t : Tag) (r : Except Err Arr) : Except Err Val := r.map fun a => (a, t)

/-- Expression evaluation, given how variables are read and the wrapping policy. -/
def eval (P : Policy) (gs : Grids) (look : Nat → Except Err Val) : Expr → Except Err Val
  | .var x => look x
  | .lit a => .ok (a, .plain)
  | .scal c k => .ok (⟨[], k, [c]⟩, .scalar)
  | .field a g => .ok (a, .field g)
  | .bin op l r =>
    match eval P gs look l with
    | .error e => .error e
    | .ok vl =>
      match eval P gs look r with
      | .error e => .error e
      | .ok vr => (Prim.binop op vl.1 vr.1).map fun a => (a, P.ufunc [vl.2, vr.2] a)
  | .un u e =>
    match eval P gs look e with
    | .error err => .error err
    | .ok v => (Prim.unop u v.1).map fun a => (a, unTag P u v.2 a)
  | .red r ax e =>
    match eval P gs look e with
    | .error err => .error err
    | .ok v => (Prim.reduce r ax v.1).map fun a => (a, P.reduce v.2 a)
  | .idx i e =>
    match eval P gs look e with
    | .error err => .error err
    | .ok v => (Prim.select i v.1.shape).map fun s => (Prim.gather v.1 s, getitemTag v.2 s.scalar)
  | .mask e m =>
    match eval P gs look e with
    | .error err => .error err
    | .ok v =>
      match eval P gs look m with
      | .error err => .error err
      | .ok vm => (Prim.selectMask vm.1 v.1.shape).map fun s => (Prim.gather v.1 s, v.2)
  | .shaped e =>
    match eval P gs look e with
    | .error err => .error err
    | .ok v =>
      match v.2 with
      | .field g => (Prim.shaped (gridShape gs g) v.1).map fun a => (a, .field g)
      | _ => .error .attr
  | .reshape s e =>
    match eval P gs look e with
    | .error err => .error err
    | .ok v => (Prim.reshape s v.1).map fun a => (a, arrayTag v.2)
  | .ravel e =>
    match eval P gs look e with
    | .error err => .error err
    | .ok v => .ok (Prim.ravel v.1, arrayTag v.2)
  | .copy e =>
    -- `ndarray.copy` + finalize  /  `np.copy` through `__array_function__` (always an ndarray)
    match eval P gs look e with
    | .error err => .error err
    | .ok v => .ok (v.1, v.2)
  | .pickle e =>
    -- `__reduce__`: (reconstruct, …, ndarray state + (grid,)); `__setstate__` restores both
    match eval P gs look e with
    | .error err => .error err
    | .ok v =>
      .ok (Prim.setstate P.fresh (Prim.getstate v.1), v.2)

/-! ## Route 1: ndarray subclass.  A variable names a cell; a cell is the object. -/

structure OState where
  vars : List (Nat × Nat) := []
  cells : List Val := []
deriving Repr

def OState.look (s : OState) (x : Nat) : Except Err Val :=
  match s.vars.lookup x with
  | none => .error .unsupported
  | some c => match s.cells[c]? with
    | none => .error .unsupported
    | some v => .ok v

def bind (vars : List (Nat × α)) (x : Nat) (r : α) : List (Nat × α) :=
  (x, r) :: vars.filter (·.1 != x)

def evalO (gs : Grids) (s : OState) (e : Expr) : Except Err Val := eval oldPolicy gs s.look e

/-- one statement; the result names the variable to observe -/
def stepO (gs : Grids) (s : OState) : Stmt → Except Err OState
  | .assign x e =>
    (evalO gs s e).map fun v => { vars := bind s.vars x s.cells.length, cells := s.cells ++ [v] }
  | .alias h x =>
    match s.vars.lookup x with
    | none => .error .unsupported
    | some c => .ok { s with vars := bind s.vars h c }
  | .iop x op e =>
    -- `ndarray.__iadd__`: the ufunc writes into the object's own memory and returns the object
    match s.vars.lookup x with
    | none => .error .unsupported
    | some c =>
      match s.cells[c]? with
      | none => .error .unsupported
      | some xv =>
        match evalO gs s e with
        | .error err => .error err
        | .ok ev => (Prim.inplace op xv.1 ev.1).map fun a =>
            -- Python: `x = x.__iadd__(e)`; the method returns the very same object
            { vars := bind s.vars x c, cells := s.cells.set c (a, xv.2) }
  | .setIx x i e =>
    match s.vars.lookup x with
    | none => .error .unsupported
    | some c =>
      match s.cells[c]? with
      | none => .error .unsupported
      | some xv =>
        match evalO gs s e with
        | .error err => .error err
        | .ok ev =>
          match Prim.select i xv.1.shape with
          | .error err => .error err
          | .ok sel => (Prim.scatter xv.1 sel ev.1).map fun a => { s with cells := s.cells.set c (a, xv.2) }
  | .setMask x m e =>
    match s.vars.lookup x with
    | none => .error .unsupported
    | some c =>
      match s.cells[c]? with
      | none => .error .unsupported
      | some xv =>
        match evalO gs s m with
        | .error err => .error err
        | .ok mv =>
          match evalO gs s e with
          | .error err => .error err
          | .ok ev =>
            match Prim.selectMask mv.1 xv.1.shape with
            | .error err => .error err
            | .ok sel => (Prim.scatter xv.1 sel ev.1).map fun a => { s with cells := s.cells.set c (a, xv.2) }

/-! ## Route 2: wrapper.  A variable holds a reference `(buffer, tag)`; buffers live in a heap. -/

structure NState where
  vars : List (Nat × (Nat × Tag)) := []
  bufs : List Arr := []
deriving Repr

def NState.look (s : NState) (x : Nat) : Except Err Val :=
  match s.vars.lookup x with
  | none => .error .unsupported
  | some r => match s.bufs[r.1]? with
    | none => .error .unsupported
    | some a => .ok (a, r.2)

def evalN (gs : Grids) (s : NState) (e : Expr) : Except Err Val := eval newPolicy gs s.look e

/-- the wrapper `x op= e` returns: `Field(result, self.grid)` where `self` is the leftmost Field
among `(x, e)`; without a Field operand NumPy returns `out` itself -/
def iopTagN (tx te : Tag) : Tag :=
  match leftGrid [tx, te] with
  | some g => .field g
  | none => tx

def stepN (gs : Grids) (s : NState) : Stmt → Except Err NState
  | .assign x e =>
    (evalN gs s e).map fun v => { vars := bind s.vars x (s.bufs.length, v.2), bufs := s.bufs ++ [v.1] }
  | .alias h x =>
    match s.vars.lookup x with
    | none => .error .unsupported
    | some r => .ok { s with vars := bind s.vars h r }
  | .iop x op e =>
    -- `NDArrayOperatorsMixin.__iadd__` = `ufunc(self, other, out=(self,))`; `__array_ufunc__`
    -- replaces `out` by `self.data`, NumPy writes into that buffer, and a new wrapper around the
    -- same buffer is bound to `x`
    match s.vars.lookup x with
    | none => .error .unsupported
    | some r =>
      match s.bufs[r.1]? with
      | none => .error .unsupported
      | some xa =>
        match evalN gs s e with
        | .error err => .error err
        | .ok ev => (Prim.inplace op xa ev.1).map fun a =>
            { vars := bind s.vars x (r.1, iopTagN r.2 ev.2), bufs := s.bufs.set r.1 a }
  | .setIx x i e =>
    -- `self.data[indices] = values`
    match s.vars.lookup x with
    | none => .error .unsupported
    | some r =>
      match s.bufs[r.1]? with
      | none => .error .unsupported
      | some xa =>
        match evalN gs s e with
        | .error err => .error err
        | .ok ev =>
          match Prim.select i xa.shape with
          | .error err => .error err
          | .ok sel => (Prim.scatter xa sel ev.1).map fun a => { s with bufs := s.bufs.set r.1 a }
  | .setMask x m e =>
    match s.vars.lookup x with
    | none => .error .unsupported
    | some r =>
      match s.bufs[r.1]? with
      | none => .error .unsupported
      | some xa =>
        match evalN gs s m with
        | .error err => .error err
        | .ok mv =>
          match evalN gs s e with
          | .error err => .error err
          | .ok ev =>
            match Prim.selectMask mv.1 xa.shape with
            | .error err => .error err
            | .ok sel => (Prim.scatter xa sel ev.1).map fun a => { s with bufs := s.bufs.set r.1 a }

/-! ## Whole programs and what is observed -/

/-- the variable a statement (re)defines or updates -/
def Stmt.target : Stmt → Nat
  | .assign x _ => x
  | .alias h _ => h
  | .iop x _ _ => x
  | .setIx x _ _ => x
  | .setMask x _ _ => x

/-- One observation: after a statement, the value of its target; `Sum.inl` = the statement raised
(the program stops there). -/
abbrev Obs := Except Err (Nat × Val)

/-- run a program, observing the target of every statement; returns the trace and the final state
(`none` after an exception) -/
def runO (gs : Grids) : OState → List Stmt → List Obs × Option OState
  | s, [] => ([], some s)
  | s, st :: rest =>
    match stepO gs s st with
    | .error err => ([.error err], none)
    | .ok s' =>
      match s'.look st.target with
      | .error err => ([.error err], none)
      | .ok v => let (tr, fin) := runO gs s' rest; (.ok (st.target, v) :: tr, fin)

def runN (gs : Grids) : NState → List Stmt → List Obs × Option NState
  | s, [] => ([], some s)
  | s, st :: rest =>
    match stepN gs s st with
    | .error err => ([.error err], none)
    | .ok s' =>
      match s'.look st.target with
      | .error err => ([.error err], none)
      | .ok v => let (tr, fin) := runN gs s' rest; (.ok (st.target, v) :: tr, fin)

/-- final read-out of every live variable (this is where stale aliases would show) -/
def OState.dump (s : OState) : List (Nat × Except Err Val) := s.vars.map fun (x, _) => (x, s.look x)
def NState.dump (s : NState) : List (Nat × Except Err Val) := s.vars.map fun (x, _) => (x, s.look x)

/-- values only (what `backends_same_values` is about) -/
def obsData (o : Obs) : Except Err (Nat × Arr) := o.map fun (x, v) => (x, v.1)

def dumpData (d : List (Nat × Except Err Val)) : List (Nat × Except Err Arr) :=
  d.map fun (x, r) => (x, r.map (·.1))

end HcipyVerif.FieldProg
