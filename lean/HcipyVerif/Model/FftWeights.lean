import HcipyVerif.Model.FftIndexN

/-!
# FastFourierTransform on a grid with per-point weights (`relative_weights`)

`__init__`: for a non-scalar `input_grid.weights` the cell area `|Π δ_i|` goes into `shift_input`
(the model's `g.w` / `weightN gs`) and `relative_weights = weights / cell_area` is kept as an array.
`forward`: `internal_array[cutout_input] = field; internal_array[cutout_input] *= relative_weights`
before the centre phase, the FFT and the output multiplier.  `backward` does not use them.
-/
namespace HcipyVerif.Fft

section
variable {K C : Type} [Zero K] [Add K] [Sub K] [Mul K] [Neg K] [Div K] [NatCast K] [IntCast K]
  [Zero C] [One C] [Add C] [Mul C] [Inv C] [NatCast C]

/-- one axis: the pipeline applied to `field * relative_weights` -/
def fastForwardW (T E : K → C) (g : Cfg K C) (rel f : Nat → C) (k : Nat) : C :=
  fastForward T E g (fun j => f j * rel j) k

/-- `n` axes (iterated pipeline): `relative_weights` is an `n`-D array indexed by index lists -/
def fastForwardNW (T E : K → C) (gs : List (Cfg K C)) (rel f : List Nat → C) (ks : List Nat) : C :=
  fastForwardN T E gs (fun js => f js * rel js) ks

end
end HcipyVerif.Fft
