import HcipyVerif.Model.Zernike

/-!
# Array-level model of the optional cache of `hcipy/mode_basis/zernike.py` (property C13) — core Lean only

`Model/Zernike.lean` observes the cache at one grid point, where every value is a number: an in-place
operation on an array that *is* a cache entry (defect class D10) cannot even be written down there.
Here the objects of the code are modelled as Python has them:

* a **heap** of ndarrays (`Heap = List Arr`), an array is addressed by a reference (its index);
* a **value** (`Val`) held by a local variable or a cache slot is either an immutable Python float
  (`scalar`) or a *reference* to an ndarray (`ref i`): `cache[key] = res` stores the reference, `return
  cache[key]` hands the same reference out, so a later `z_r *= mask` (`AState.write`) changes what every
  holder of that reference sees;
* arithmetic (`a * b`, `r**m * s`, …) allocates a fresh array (`AState.alloc`).

`modeSepA` is the separated-polar branch of `zernike()` (radial arrays over the `R` axis, azimuthal arrays
over the `Θ` axis, result `np.outer(z_theta, z_r).flatten()`, `R` fastest), `modePtsA` the generic branch
(`grid.as_('polar').coords`, every array over all points, `z *= mask` in place on the freshly computed
product).  `old = true` selects the unrepaired separated branch (`z_r *= mask`, D10).
-/
namespace HcipyVerif.Zernike

abbrev Arr := List Rat

/-- a Python value: an immutable float or a reference to an ndarray in the heap -/
inductive Val where
  | scalar (v : Rat)
  | ref (i : Nat)
deriving DecidableEq, Repr

abbrev Heap := List Arr

/-- the ndarray / broadcast scalar a value denotes, as an array of length `len` -/
def Heap.read (h : Heap) (len : Nat) : Val → Arr
  | .scalar v => List.replicate len v
  | .ref i => h.getD i []

abbrev ACache := List (Key × Val)

structure AState where
  heap : Heap := []
  cache : ACache := []
deriving Repr

/-- a fresh ndarray: `res = <expression>` -/
def AState.alloc (st : AState) (a : Arr) : Val × AState :=
  (.ref st.heap.length, { st with heap := st.heap ++ [a] })

/-- `key in cache` / `cache[key]` -/
def AState.getC (st : AState) (k : Key) : Option Val := (st.cache.find? fun p => p.1 == k).map (·.2)

/-- `cache[key] = v` (stores the reference, not a copy) -/
def AState.putC (st : AState) (k : Key) (v : Val) : AState :=
  { st with cache := (k, v) :: st.cache.filter (fun p => !(p.1 == k)) }

/-- in-place assignment `v[...] = a` / `v *= …` (a float is immutable: rebinding a local, no effect on the heap) -/
def AState.write (st : AState) (v : Val) (a : Arr) : AState :=
  match v with
  | .ref i => { st with heap := st.heap.set i a }
  | .scalar _ => st

def zip3With (f : Rat → Rat → Rat → Rat) : Arr → Arr → Arr → Arr
  | a :: as, b :: bs, c :: cs => f a b c :: zip3With f as bs cs
  | _, _, _ => []

/-- `_zernike_radial_reduced(n, n-2k, r_sq, cache)` on the array `t = r_sq` -/
def memoReducedA (n : Nat) (t : Arr) : Nat → AState → Val × AState
  | 0, st =>
    match st.getC (.red n 0) with
    | some v => (v, st)
    | none => (.scalar 1, st.putC (.red n 0) (.scalar 1))            -- `res = 1.0`: a float
  | 1, st =>
    match st.getC (.red n 1) with
    | some v => (v, st)
    | none =>
      let (v, st1) := st.alloc (t.map fun x => (n : Rat) * x - ((n : Rat) - 1))
      (v, st1.putC (.red n 1) v)
  | k + 2, st =>
    match st.getC (.red n (k + 2)) with
    | some v => (v, st)
    | none =>
      let q : Rat := ((n - 2 * k : Nat) : Rat)
      let p : Rat := n
      let (s1, st1) := memoReducedA n t k st
      let (s2, st2) := memoReducedA n t (k + 1) st1
      -- `res = h1 * r_sq**2 * s1 + (h2 * r_sq + h3) * s2`: both operands are read *now*
      let a := zip3With (fun x y z => h1 p q * x ^ 2 * y + (h2 p q * x + h3 p q) * z) t
        (st2.heap.read t.length s1) (st2.heap.read t.length s2)
      let (v, st3) := st2.alloc a
      (v, st3.putC (.red n (k + 2)) v)

/-- `zernike_radial(n, m, r, cache)` on the array `ρ = r` -/
def memoRadialA (n m : Nat) (ρ : Arr) (st : AState) : Val × AState :=
  match st.getC (.rad n m) with
  | some v => (v, st)
  | none =>
    let (s, st1) := memoReducedA n (ρ.map fun x => x * x) ((n - m) / 2) st
    let a := List.zipWith (fun x y => x ^ m * y) ρ (st1.heap.read ρ.length s)
    let (v, st2) := st1.alloc a
    (v, st2.putC (.rad n m) v)

/-- `zernike_azimuthal(m, theta, cache) / √2` on the array of directions (`m = 0`: the int `1`, not cached) -/
def memoAzimA (m : Int) (dirs : List (Rat × Rat)) (st : AState) : Val × AState :=
  if m = 0 then (.scalar 1, st) else
  match st.getC (.azim m) with
  | some v => (v, st)
  | none =>
    let (v, st1) := st.alloc (dirs.map fun d => azimQ m d.1 d.2)
    (v, st1.putC (.azim m) v)

/-- `(2 * R) < D` as a 0/1 array -/
def maskA (D : Rat) (rs : Arr) : Arr := rs.map fun r => if inside D r then 1 else 0

def mulA (a b : Arr) : Arr := List.zipWith (· * ·) a b

/-- `np.outer(a, b).flatten()`: index `i·|b| + j` holds `a[i]·b[j]` (`b` fastest) -/
def outerA (a b : Arr) : Arr := a.flatMap fun x => b.map fun y => x * y

/-- The separated-polar branch of `zernike(n, m, D, grid, cutoff, cache)`; returns the rational factor of the
Field (`√(n+1)·√2^{[m≠0]}` is kept symbolic).  `old = true`: the unrepaired `z_r *= mask`. -/
def modeSepA (old : Bool) (D : Rat) (R : Arr) (dirs : List (Rat × Rat)) (q : Req) (st : AState) : Arr × AState :=
  let (zr, st1) := memoRadialA q.n q.m.natAbs (R.map fun r => 2 * r / D) st
  let (zr', st2) :=
    if q.cutoff then
      let masked := mulA (st1.heap.read R.length zr) (maskA D R)
      if old then (zr, st1.write zr masked)            -- `z_r *= (2 * R) < D`   (D10: `z_r` may be the cache entry)
      else st1.alloc masked                            -- `z_r = z_r * ((2 * R) < D)`
    else (zr, st1)
  let (za, st3) := memoAzimA q.m dirs st2
  (outerA (st3.heap.read dirs.length za) (st3.heap.read R.length zr'), st3)

/-- The generic branch (`r, theta = grid.as_('polar').coords`): the product is a fresh array, masked in place. -/
def modePtsA (D : Rat) (rs : Arr) (dirs : List (Rat × Rat)) (q : Req) (st : AState) : Arr × AState :=
  let (za, st1) := memoAzimA q.m dirs st
  let (zr, st2) := memoRadialA q.n q.m.natAbs (rs.map fun r => 2 * r / D) st1
  let (z, st3) := st2.alloc (mulA (st2.heap.read rs.length za) (st2.heap.read rs.length zr))
  let st4 := if q.cutoff then st3.write z (mulA (st3.heap.read rs.length z) (maskA D rs)) else st3   -- `z *= mask`
  (st4.heap.read rs.length z, st4)

/-- a grid as the code sees it: separated polar axes, or one `(r, θ)` per point -/
inductive AGrid where
  | sep (R : Arr) (dirs : List (Rat × Rat))
  | pts (rs : Arr) (dirs : List (Rat × Rat))
deriving Repr

def modeA (old : Bool) (D : Rat) : AGrid → Req → AState → Arr × AState
  | .sep R dirs, q, st => modeSepA old D R dirs q st
  | .pts rs dirs, q, st => modePtsA D rs dirs q st

/-- a request history against one cache: every result together with the state after it -/
def runA (old : Bool) (D : Rat) (g : AGrid) : List Req → AState → List (Arr × AState)
  | [], _ => []
  | q :: qs, st => let r := modeA old D g q st; r :: runA old D g qs r.2

def resultsA (old : Bool) (D : Rat) (g : AGrid) (reqs : List Req) : List Arr :=
  (runA old D g reqs {}).map (·.1)

/-- what the definition gives on the grid, in the code's layout -/
def plainA (D : Rat) : AGrid → Req → Arr
  | .sep R dirs, q => dirs.flatMap fun d => R.map fun r => modeQCut q.n q.m D r d.1 d.2 q.cutoff
  | .pts rs dirs, q => List.zipWith (fun r d => modeQCut q.n q.m D r d.1 d.2 q.cutoff) rs dirs

/-! ## `make_zernike_basis` with a grid -/

/-- the requests `make_zernike_basis(num, D, grid, starting_mode, ansi, radial_cutoff, ·)` makes, in order -/
def basisReqs (ansi : Bool) (start num : Nat) (cutoff : Bool) : List Req :=
  (basisModes ansi start num).map fun nm => ⟨nm.1, nm.2, cutoff⟩

/-- `make_zernike_basis` with a grid: `cache = {} if use_cache else None`, then
`modes = [f(i, D, polar_grid, radial_cutoff, cache) for i in range(start, start + num)]` — with a cache all modes are
evaluated in index order against that one cache, without one every mode against no cache (an empty state). -/
def basisA (ansi : Bool) (start num : Nat) (D : Rat) (g : AGrid) (cutoff useCache : Bool) : List Arr :=
  if useCache then resultsA false D g (basisReqs ansi start num cutoff)
  else (basisReqs ansi start num cutoff).map fun q => (modeA false D g q {}).1

/-! ## Field generators (`grid=None`) -/

/-- A sequence of generator calls `gens[j](grid)`: each evaluates `zernike(n, m, D, grid, cutoff, cache)` on the grid it
is handed.  `shared = true`: all generators were built around one cache dictionary (the unrepaired
`make_zernike_basis(…, grid=None)`, defect D130 — the cache is then used on whatever grid comes next);
`shared = false`: no cache (the code as it is: `cache = None` when no grid is given). -/
def runGensA (shared : Bool) (D : Rat) : List (AGrid × Req) → AState → List Arr
  | [], _ => []
  | (g, q) :: rest, st =>
    let r := modeA false D g q (if shared then st else {})
    r.1 :: runGensA shared D rest r.2

end HcipyVerif.Zernike
