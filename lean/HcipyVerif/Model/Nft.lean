import HcipyVerif.Model.FftIndex
import HcipyVerif.Model.Mft

/-!
# NaiveFourierTransform (`naive_fourier_transform.py`, `fourier_transform.py`)

Two code paths per direction:

* on the fly (`precompute_matrices = False`):
  `[(field * input_grid.weights).dot(exp(-1j * dot(p, coords_in))) for p in coords_out.T]`
* precomputed (`get_transformation_matrix_forward`): `A = exp(-1j * coords_out.T @ coords_in);
  A *= input_grid.weights; res = A.dot(field)`; backward:
  `A = exp(1j * coords_in.T @ coords_out); A *= output_grid.weights; A /= (2π)^ndim`.

Coordinates are arbitrary (unstructured) points in `d` dimensions, given as one array per
dimension; `wOut` below is `output_grid.weights / (2π)^ndim` as given numbers.
-/
namespace HcipyVerif.Fft

section
variable {K C : Type} [Zero K] [Add K] [Mul K] [Neg K] [Zero C] [Add C] [Mul C]

/-- `np.dot(p, coords)`: `Σ_d u_d(k)·x_d(j)` -/
def dotCoords : List (Nat → K) → List (Nat → K) → Nat → Nat → K
  | u :: us, x :: xs, k, j => u k * x j + dotCoords us xs k j
  | _, _, _, _ => 0

/-- forward, on the fly -/
def nftForwardFly (E : K → C) (n : Nat) (us xs : List (Nat → K)) (w f : Nat → C) (k : Nat) : C :=
  sumRange n fun j => (f j * w j) * E (-(dotCoords us xs k j))

/-- `get_transformation_matrix_forward` -/
def nftMatrixForward (E : K → C) (us xs : List (Nat → K)) (w : Nat → C) (k j : Nat) : C :=
  E (-(dotCoords us xs k j)) * w j

/-- forward, precomputed matrix -/
def nftForwardMat (E : K → C) (n : Nat) (us xs : List (Nat → K)) (w f : Nat → C) (k : Nat) : C :=
  sumRange n fun j => nftMatrixForward E us xs w k j * f j

/-- backward, on the fly: `(field * output_grid.weights).dot(exp(1j * dot(p, coords_out)))`, then
the division by `(2π)^ndim` (folded into `wOut`) -/
def nftBackwardFly (E : K → C) (m : Nat) (us xs : List (Nat → K)) (wOut F : Nat → C) (j : Nat) : C :=
  sumRange m fun k => (F k * wOut k) * E (dotCoords us xs k j)

/-- `get_transformation_matrix_backward` -/
def nftMatrixBackward (E : K → C) (us xs : List (Nat → K)) (wOut : Nat → C) (j k : Nat) : C :=
  E (dotCoords us xs k j) * wOut k

/-- backward, precomputed matrix -/
def nftBackwardMat (E : K → C) (m : Nat) (us xs : List (Nat → K)) (wOut F : Nat → C) (j : Nat) : C :=
  sumRange m fun k => nftMatrixBackward E us xs wOut j k * F k

end

/-! ## executable instance -/

/-- impulse response, all output samples; `xs`, `us`: one coordinate list per dimension -/
def nftImpulse (fwd mat : Bool) (xs us : List (List Rat)) (w : List Rat) (j : Nat) : List PSum :=
  let X := xs.map coordOf
  let U := us.map coordOf
  let n := (xs.headD []).length
  let m := (us.headD []).length
  let wf : Nat → PSum := fun i => PSum.ofRat (w.getD i 0)
  if fwd then
    (List.range m).map fun k =>
      if mat then nftForwardMat PSum.rad n U X wf (PSum.impulse j) k
      else nftForwardFly PSum.rad n U X wf (PSum.impulse j) k
  else
    (List.range n).map fun i =>
      if mat then nftBackwardMat PSum.rad m U X wf (PSum.impulse j) i
      else nftBackwardFly PSum.rad m U X wf (PSum.impulse j) i

end HcipyVerif.Fft
