import HcipyVerif.Model.FftIndex

/-!
# The FFT object's persistent internal array — executable, core Lean only

`FastFourierTransform` keeps one `internal_array` of `M` samples between calls.  `forward` either
overwrites all of it (`internal_array[:] = field`, when nothing is padded) or clears it and writes the
cut-out (`internal_array[:] = 0; internal_array[cutout_input] = field`); `backward` does the same with
the output window.  The functions below carry the previous contents `buf` explicitly.
-/
namespace HcipyVerif.Fft

section
variable {C : Type} [Zero C]

/-- `internal_array[:] = f` on an array of `M` samples -/
def overwriteAll (M : Nat) (buf f : Nat → C) (p : Nat) : C := if p < M then f p else buf p

/-- `internal_array[:] = 0` -/
def zeroFill (M : Nat) (buf : Nat → C) (p : Nat) : C := if p < M then 0 else buf p

/-- `internal_array[cutout] = f` for the centred window of `N` samples -/
def writeWindow (N M : Nat) (buf f : Nat → C) (p : Nat) : C :=
  if padStart N M ≤ p ∧ p < padStart N M + N then f (p - padStart N M) else buf p

/-- the internal array after the first statements of `forward` / `backward` (window of `N` samples
in an array of `M`), starting from the previous contents `buf` -/
def loadArray (N M : Nat) (buf f : Nat → C) : Nat → C :=
  if N = M then overwriteAll M buf f else writeWindow N M (zeroFill M buf) f

/-- defect class (seeded): the clearing `internal_array[:] = 0` is skipped because a flag claims
the padding is still clean -/
def loadArrayNoClear (N M : Nat) (buf f : Nat → C) : Nat → C :=
  if N = M then overwriteAll M buf f else writeWindow N M buf f

end

section
variable {C : Type} [Zero C] [Add C] [Mul C]

/-- the FFT core reading the persistent array -/
def coreState (shifts : Bool) (N M Mo : Nat) (ker : Int → C) (buf f : Nat → C) : Nat → C :=
  if shifts then crop M Mo (fftshift M (dft M ker (ifftshift M (loadArray N M buf f))))
  else crop M Mo (dft M ker (loadArray N M buf f))

def coreStateNoClear (shifts : Bool) (N M Mo : Nat) (ker : Int → C) (buf f : Nat → C) : Nat → C :=
  if shifts then crop M Mo (fftshift M (dft M ker (ifftshift M (loadArrayNoClear N M buf f))))
  else crop M Mo (dft M ker (loadArrayNoClear N M buf f))

end
end HcipyVerif.Fft
