import HcipyVerif.Model.Grid

/-!
# C10 — memory layout of coordinate arrays

A NumPy array is a *view*: a buffer, an offset, a stride (negative after `a[::-1]`, which is what
`SeparatedCoords.reverse` / `UnstructuredCoords.reverse` leave behind) and a length.  `Grid.__eq__`
compares values (`np.array_equal`), and the repaired `Grid.__hash__` hashes
`np.ascontiguousarray(arr, dtype='float') + 0.0`, i.e. the *values* in index order — not the bytes of
the buffer.  This file models the view, the values it denotes and the hash input computed through
it; `Properties/C10.lean` proves that the hash input does not depend on the layout.
-/
namespace HcipyVerif.Grid

/-- a one-dimensional NumPy array as it lies in memory: a buffer, the offset of element 0, a stride
(in elements; negative for `a[::-1]`) and a length -/
structure LArr where
  buf : List Rat
  start : Nat
  stride : Int
  len : Nat
deriving Repr, DecidableEq

/-- element `k` -/
def LArr.get (a : LArr) (k : Nat) : Rat := a.buf.getD ((a.start : Int) + (k : Int) * a.stride).toNat 0

/-- the values in index order: what `np.ascontiguousarray(a)` holds, what `==` compares -/
def LArr.values (a : LArr) : List Rat := (List.range a.len).map a.get

/-- `arr.flags['C_CONTIGUOUS']` of a one-dimensional array -/
def LArr.contiguous (a : LArr) : Bool := a.stride == 1 || decide (a.len ≤ 1)

/-- a fresh array made from values (`np.array(v)`) -/
def LArr.ofList (v : List Rat) : LArr := ⟨v, 0, 1, v.length⟩

/-- the view `a[::-1]`: same buffer, negated stride -/
def LArr.rev (a : LArr) : LArr :=
  ⟨a.buf, ((a.start : Int) + ((a.len - 1 : Nat) : Int) * a.stride).toNat, -a.stride, a.len⟩

/-- the view `a[::k]` -/
def LArr.step (k : Nat) (a : LArr) : LArr := ⟨a.buf, a.start, a.stride * (k : Int), (a.len + k - 1) / k⟩

/-- the view `a[j:]` -/
def LArr.drop (j : Nat) (a : LArr) : LArr :=
  ⟨a.buf, ((a.start : Int) + (j : Int) * a.stride).toNat, a.stride, a.len - j⟩

/-- a buffer holding `v` at the even positions -/
def interleave (v : List Rat) : List Rat := v.flatMap fun x => [x, 7]

/-- the values `v` stored in one of four layouts: `0` a fresh contiguous array, `1` the reversed view of
the reversed array (negative stride), `2` every other element of a buffer twice as long (stride 2),
`3` a view that starts one element into a longer buffer (offset) -/
def LArr.make : Nat → List Rat → LArr
  | 1, v => (LArr.ofList v.reverse).rev
  | 2, v => (LArr.ofList (interleave v)).step 2
  | 3, v => (LArr.ofList (7 :: v)).drop 1
  | _, v => LArr.ofList v

/-- the coordinates a list of views denotes -/
def coordsOfLayout (sep : Bool) (arrs : List LArr) : Coords :=
  if sep then .separated (arrs.map LArr.values) else .unstructured (arrs.map LArr.values)

/-- what the repaired `Grid.__hash__` feeds to the hash when the coordinate arrays are the views `arrs`:
`np.ascontiguousarray` reads the values in index order -/
def hashInputL (sys : System) (sep : Bool) (arrs : List LArr) : List Tok :=
  (Grid.mk sys (coordsOfLayout sep arrs) .none).hashInput

/-- the arrays of separated / unstructured coordinates -/
def Coords.arrays? : Coords → Option (Bool × List (List Rat))
  | .separated a => some (true, a)
  | .unstructured c => some (false, c)
  | .regular _ => none

end HcipyVerif.Grid
