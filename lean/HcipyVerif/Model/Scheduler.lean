/-!
# C20 — model of `DynamicOpticalSystem` (hcipy/optics/dynamic_optical_system.py)

The heap of `(time, counter, callback)` tuples is modelled as a list kept sorted by the
lexicographic key `(time, counter)`; since counters are unique the minimum is unique and
`heapq.heappop` is observationally `List.head`.  A callback is identified by a natural number;
what it does to the system (the callbacks it schedules while it runs) is given by a function
`kids : Entry → List (Rat × Nat)` (absolute time, callback id).  `evolveUntil` carries fuel
because user callbacks may re-insert themselves forever at the same instant.
-/
namespace HcipyVerif.Scheduler

structure Entry where
  time : Rat
  ctr : Nat
  id : Nat
deriving Repr, DecidableEq

/-- Strict lexicographic order on `(time, counter)`, the order `heapq` uses on the tuples. -/
def Entry.lt (a b : Entry) : Prop := a.time < b.time ∨ (a.time = b.time ∧ a.ctr < b.ctr)

instance : DecidableRel Entry.lt := fun a b => by unfold Entry.lt; exact inferInstance

inductive Event where
  | integrate (dt : Rat)
  /-- the callback of queue entry `e` ran while the clock showed `clock` -/
  | fire (e : Entry) (clock : Rat)
deriving Repr, DecidableEq

structure Sys where
  queue : List Entry
  t : Rat
  ctr : Nat
deriving Repr, DecidableEq

def init : Sys := { queue := [], t := 0, ctr := 0 }

/-- sorted insertion (stable w.r.t. the unique key) -/
def insert (e : Entry) : List Entry → List Entry
  | [] => [e]
  | x :: xs => if e.lt x then e :: x :: xs else x :: insert e xs

/-- `add_callback(t, cb)` -/
def addCallback (s : Sys) (time : Rat) (id : Nat) : Sys :=
  { s with queue := insert ⟨time, s.ctr, id⟩ s.queue, ctr := s.ctr + 1 }

def addAll (s : Sys) : List (Rat × Nat) → Sys
  | [] => s
  | (time, id) :: rest => addAll (addCallback s time id) rest

/-- the coalescing threshold: the *exact* value of the IEEE-754 double the literal `1e-6` of
`evolve_until` denotes, `4722366482869645 · 2⁻⁷²` (slightly below `10⁻⁶`).  The harness reads the
constant out of the running code object and compares it with this number (driver op `eps`);
`Properties/C20.lean` proves that no double lies strictly between it and `10⁻⁶`
(`eps_decimal_bridge`), so for double `dt` the test `dt > eps` is the test `dt > 10⁻⁶`. -/
def eps : Rat := 4722366482869645 / 4722366482869645213696

/-- `if integration_time > 1e-6: integrate(dt); t += dt` -/
def advance (s : Sys) (dt : Rat) : Sys × List Event :=
  if dt > eps then ({ s with t := s.t + dt }, [Event.integrate dt]) else (s, [])

inductive Status where
  | ok
  | backwards           -- ValueError('Backwards evolution is not allowed.')
  | outOfFuel
deriving Repr, DecidableEq

/-- Result of a run: how it ended, the final state, and the observable events in order. -/
structure Run where
  status : Status
  s : Sys
  trace : List Event
deriving Repr, DecidableEq

/-- The `while not end` loop of the repaired `evolve_until`: an empty queue, or a head at or
beyond the horizon, ends the evolution. -/
def loop (kids : Entry → List (Rat × Nat)) (T : Rat) : Nat → Sys → Run
  | 0, s => ⟨.outOfFuel, s, []⟩
  | fuel + 1, s =>
    match s.queue with
    | e :: rest =>
      if e.time < T then
        let a := advance { s with queue := rest } (e.time - s.t)
        let r := loop kids T fuel (addAll a.1 (kids e))
        { r with trace := a.2 ++ Event.fire e a.1.t :: r.trace }
      else
        let a := advance s (T - s.t)
        ⟨.ok, a.1, a.2⟩
    | [] =>
      let a := advance s (T - s.t)
      ⟨.ok, a.1, a.2⟩

def evolveUntil (kids : Entry → List (Rat × Nat)) (fuel : Nat) (s : Sys) (T : Rat) : Run :=
  if T < s.t then ⟨.backwards, s, []⟩ else loop kids T fuel s

/-! ### Callbacks that read the clock (`add_callback(self.t + period, ...)`, the docstring idiom)

The clock a callback sees may rest up to `eps` below the callback's own time (coalescing), so what
a clock-reading callback schedules is not a function of its queue entry alone.  `loopC` is `loop`
with the clock handed to the callbacks.  It is tied back to `loop` (the object of the theorems of
Properties/C20.lean) by `fireTable`/`tableKids`: the table of what each executed callback
scheduled, read as an entry-only `kids` function, replays the very same run
(`loopC_eq_loop_table`), so every theorem about `loop` holds of `loopC` runs. -/

/-- `loop` with callbacks that see the clock: `kidsC clock e`. -/
def loopC (kidsC : Rat → Entry → List (Rat × Nat)) (T : Rat) : Nat → Sys → Run
  | 0, s => ⟨.outOfFuel, s, []⟩
  | fuel + 1, s =>
    match s.queue with
    | e :: rest =>
      if e.time < T then
        let a := advance { s with queue := rest } (e.time - s.t)
        let r := loopC kidsC T fuel (addAll a.1 (kidsC a.1.t e))
        { r with trace := a.2 ++ Event.fire e a.1.t :: r.trace }
      else
        let a := advance s (T - s.t)
        ⟨.ok, a.1, a.2⟩
    | [] =>
      let a := advance s (T - s.t)
      ⟨.ok, a.1, a.2⟩

def evolveUntilC (kidsC : Rat → Entry → List (Rat × Nat)) (fuel : Nat) (s : Sys) (T : Rat) : Run :=
  if T < s.t then ⟨.backwards, s, []⟩ else loopC kidsC T fuel s

/-- What each callback executed in a trace scheduled, given the clock it saw. -/
def fireTable (kidsC : Rat → Entry → List (Rat × Nat)) : List Event → List (Entry × List (Rat × Nat))
  | [] => []
  | Event.integrate _ :: tr => fireTable kidsC tr
  | Event.fire e clk :: tr => (e, kidsC clk e) :: fireTable kidsC tr

/-- A table of executed callbacks read as an entry-only `kids` function (first match; `[]` for
entries that never ran). -/
def tableKids (tbl : List (Entry × List (Rat × Nat))) (e : Entry) : List (Rat × Nat) :=
  match tbl.find? (fun p => p.1 = e) with
  | some p => p.2
  | none => []

/-- Sum of the integration intervals of a trace. -/
def sumDt : List Event → Rat
  | [] => 0
  | Event.integrate dt :: tr => dt + sumDt tr
  | Event.fire .. :: tr => sumDt tr

/-- The callbacks executed by a trace, in order, as queue entries. -/
def fired : List Event → List Entry
  | [] => []
  | Event.integrate _ :: tr => fired tr
  | Event.fire e _ :: tr => e :: fired tr

/-! ### Specification-level (still executable) functions used by the C20 theorems -/

/-- The queue entries `addAll` creates from a callback's children when the counter stands at `c`. -/
def mkEntries (c : Nat) : List (Rat × Nat) → List Entry
  | [] => []
  | (time, id) :: rest => ⟨time, c, id⟩ :: mkEntries (c + 1) rest

/-- Every entry created by the callbacks of the executed list `l` (in execution order), with the
counters the model hands out when the counter stands at `c` before the first of them runs. -/
def spawned (kids : Entry → List (Rat × Nat)) (c : Nat) : List Entry → List Entry
  | [] => []
  | e :: es => mkEntries c (kids e) ++ spawned kids (c + (kids e).length) es

/-- Total number of children scheduled by the executed list. -/
def nKids (kids : Entry → List (Rat × Nat)) (l : List Entry) : Nat :=
  (l.map (fun e => (kids e).length)).sum

/-- The integration intervals `(start, end)` of a trace that begins with the clock at `t`. -/
def intervals : Rat → List Event → List (Rat × Rat)
  | _, [] => []
  | t, Event.integrate dt :: tr => (t, t + dt) :: intervals (t + dt) tr
  | t, Event.fire .. :: tr => intervals t tr

/-- One call of the public interface. -/
inductive Op where
  | add (time : Rat) (id : Nat)
  | evolve (T : Rat)
deriving Repr, DecidableEq

/-- A system together with its observable history: `hz` is the largest target an accepted
`evolve_until` was given (the time the system has logically been evolved to), `trace` all events so
far, `created` every queue entry ever created (by `add_callback` from outside or from a callback). -/
structure Hist where
  s : Sys
  hz : Rat
  trace : List Event
  created : List Entry
deriving Repr, DecidableEq

def hinit : Hist := { s := init, hz := 0, trace := [], created := [] }

/-- One interface call on a history.  State, trace and created entries are always taken from what
`evolveUntil` returns — that a refused (backwards) call changes nothing is a *theorem*
(`stepOp_backwards`, from `backwards_refused`), not part of this definition; only `hz`, by its
meaning "largest *accepted* target", looks at the status. -/
def stepOp (kids : Entry → List (Rat × Nat)) (fuel : Nat) (h : Hist) : Op → Hist
  | .add time id =>
    { h with s := addCallback h.s time id, created := h.created ++ [⟨time, h.s.ctr, id⟩] }
  | .evolve T =>
    let r := evolveUntil kids fuel h.s T
    { s := r.s, hz := if r.status = .backwards then h.hz else if h.hz < T then T else h.hz,
      trace := h.trace ++ r.trace,
      created := h.created ++ spawned kids h.s.ctr (fired r.trace) }

/-- consecutive entries strictly increasing in `(time, counter)`; equivalent to `List.Pairwise
Entry.lt` (`sortedB_iff` in Lemmas/SchedulerStrong.lean), printed by the driver op `hist` -/
def sortedB : List Entry → Bool
  | x :: y :: rest => decide (x.lt y) && sortedB (y :: rest)
  | _ => true

/-- The clock shown to the last callback of a trace (`t` if none ran): the clock from which the final
stretch to the target is bridged. -/
def lastFireClock : Rat → List Event → Rat
  | t, [] => t
  | t, Event.integrate _ :: tr => lastFireClock t tr
  | _, Event.fire _ clk :: tr => lastFireClock clk tr

def runOps (kids : Entry → List (Rat × Nat)) (fuel : Nat) (h : Hist) (ops : List Op) : Hist :=
  ops.foldl (stepOp kids fuel) h

/-- A history with clock-reading callbacks: the history together with the table of what every
callback executed so far scheduled. -/
structure HistC where
  h : Hist
  tbl : List (Entry × List (Rat × Nat))
deriving Repr, DecidableEq

def hinitC : HistC := { h := hinit, tbl := [] }

/-- One interface call with clock-reading callbacks `kidsC`: the run of `evolveUntilC` extends the
table; the history is advanced by `stepOp` — the object of the history theorems — with the table
read as entry-only callbacks.  That this `stepOp` reproduces the `evolveUntilC` run is a theorem
(`stepOpC_evolve_run`), and so is that the whole history is `runOps` with the final table
(`runOpsC_eq_runOps`). -/
def stepOpC (kidsC : Rat → Entry → List (Rat × Nat)) (fuel : Nat) (hc : HistC) : Op → HistC
  | .add time id => { hc with h := stepOp (tableKids hc.tbl) fuel hc.h (.add time id) }
  | .evolve T =>
    let tbl := hc.tbl ++ fireTable kidsC (evolveUntilC kidsC fuel hc.h.s T).trace
    { h := stepOp (tableKids tbl) fuel hc.h (.evolve T), tbl := tbl }

def runOpsC (kidsC : Rat → Entry → List (Rat × Nat)) (fuel : Nat) (hc : HistC) (ops : List Op) : HistC :=
  ops.foldl (stepOpC kidsC fuel) hc

/-! ### The hypotheses of the history theorems, executable

`history_inv` / `history_exactly_once` assume `AddsFrom f` (every `add_callback(t, ·)` of the
history was issued in a state `h` with `f h ≤ t`) and `NoFuelOut` (every `evolve_until` returned).
These walk the history and decide them (`addsFromB_iff`, `noFuelOutB_iff`); the driver prints them
with `hist` and the harness compares them with its own classification of the real history, which
gates the oracle's order-across-calls and clock-ahead clauses. -/

def addsFromB (f : Hist → Rat) (kids : Entry → List (Rat × Nat)) (fuel : Nat) : Hist → List Op → Bool
  | _, [] => true
  | h, .add t id :: ops => decide (f h ≤ t) && addsFromB f kids fuel (stepOp kids fuel h (.add t id)) ops
  | h, .evolve T :: ops => addsFromB f kids fuel (stepOp kids fuel h (.evolve T)) ops

def noFuelOutB (kids : Entry → List (Rat × Nat)) (fuel : Nat) : Hist → List Op → Bool
  | _, [] => true
  | h, .add t id :: ops => noFuelOutB kids fuel (stepOp kids fuel h (.add t id)) ops
  | h, .evolve T :: ops =>
    decide ((evolveUntil kids fuel h.s T).status ≠ .outOfFuel) &&
      noFuelOutB kids fuel (stepOp kids fuel h (.evolve T)) ops

end HcipyVerif.Scheduler
