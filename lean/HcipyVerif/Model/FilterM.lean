import HcipyVerif.Model.FftIndex
import HcipyVerif.Model.Mft

/-!
# FourierFilter with a matrix-valued transfer function (`fourier_operations.py`, `_operation`)

```
f = internal_array; f[:] = 0; f[..., cutout] = field.shaped          -- P   (zero padding)
f = fftn(f, axes = grid axes)                                         -- F
tf = transfer_function (native FFT order); if adjoint: tf = field_conjugate_transpose(tf)
f = field_dot(tf, f)                                                  -- D r : 2×2 at every frequency sample r
f = ifftn(f)                                                          -- c⁻¹ · Fᴴ
res = f[..., cutout]                                                  -- Pᴴ
```

The model is polymorphic in the scalar (runs at `PSum`, proved over `ℂ`): `P` (an `M × n` matrix),
`F` (`M × M`), the conjugation `cj` and `cinv = c⁻¹` are parameters; the two tensor components are
written out (`a, b : Bool`, `false` = component 0).  `fmPad1`/`fmDft1` are the matrices of a 1-D
grid (cut-out start `padStart n M`, kernel `exp(-2πi·r·p/M)`).
-/
set_option linter.unusedVariables false

namespace HcipyVerif.Fft

section
variable {C : Type} [Zero C] [Add C] [Mul C]

/-- `fftn(pad x)`: zero padding `P` followed by the transform `F` -/
def fmAnalysisX (n M : Nat) (P F : Nat → Nat → C) (x : Nat → C) (r : Nat) : C :=
  sumRange M fun p => F r p * sumRange n fun j => P p j * x j

/-- `crop(ifftn g)`: `F⁻¹ = cinv·Fᴴ` followed by the cut-out `Pᴴ` -/
def fmSynthesisX (n M : Nat) (P F : Nat → Nat → C) (cj : C → C) (cinv : C) (g : Nat → C) (i : Nat) : C :=
  sumRange M fun q => cj (P q i) * (cinv * sumRange M fun r => cj (F r q) * g r)

/-- `field_dot(tf, f)` on a 2-component field at every frequency sample, between analysis and
synthesis: the matrix-field branch of `FourierFilter._operation` -/
def filterMX (n M : Nat) (P F : Nat → Nat → C) (cj : C → C) (cinv : C)
    (D : Nat → Bool → Bool → C) (x : Bool → Nat → C) (a : Bool) (i : Nat) : C :=
  fmSynthesisX n M P F cj cinv
    (fun r => D r a false * fmAnalysisX n M P F (x false) r + D r a true * fmAnalysisX n M P F (x true) r) i

/-- `field_conjugate_transpose` -/
def fmCtrX (cj : C → C) (D : Nat → Bool → Bool → C) : Nat → Bool → Bool → C := fun r a b => cj (D r b a)

/-- The same branch on a **matrix-valued field** (`tensor_shape = (2, ncol)`, `X b c j` = row `b`,
column `c`, sample `j`): padding, `fftn` and `ifftn` act on every tensor component, and
`field_dot(tf, f)` is `einsum('...ij,...jk->...ik')`, i.e. the 2×2 matrix is applied **from the
left** to the 2×ncol matrix at every frequency sample. -/
def filterMXM (n M : Nat) (P F : Nat → Nat → C) (cj : C → C) (cinv : C)
    (D : Nat → Bool → Bool → C) (X : Bool → Nat → Nat → C) (a : Bool) (c i : Nat) : C :=
  fmSynthesisX n M P F cj cinv
    (fun r => D r a false * fmAnalysisX n M P F (X false c) r + D r a true * fmAnalysisX n M P F (X true c) r) i

end

/-! ## executable instance: one grid axis, values in `PSum` -/

/-- the padding matrix of one axis: `internal_array[cutout] = field`, cut-out start `padStart n M` -/
def fmPad1 (n M : Nat) (p j : Nat) : PSum := if p = padStart n M + j ∧ j < n then PSum.ofRat 1 else 0

/-- the DFT matrix of `fftn` on one axis -/
def fmDft1 (M : Nat) (r p : Nat) : PSum := PSum.turns (-(((r * p : Nat) : Rat) / (M : Rat)))

/-- a complex number `re + i·im` -/
def PSum.ofGauss (re im : Rat) : PSum := PSum.ofRat re + PSum.ofRat im * PSum.turns (1 / 4)

/-- forward (`adjoint = false`) or backward (`adjoint = true`) response of the matrix filter to the
unit impulse in component `b`, sample `j`; transfer function `D r a' b'` = entry
`(4·r + 2·a' + b')` of the lists; all outputs `(a, i)`, component-major -/
def filterMImpulse (adjoint : Bool) (n M : Nat) (dre dim : List Rat) (b : Bool) (j : Nat) : List PSum :=
  let D : Nat → Bool → Bool → PSum := fun r a' b' =>
    let k := 4 * r + 2 * a'.toNat + b'.toNat
    PSum.ofGauss (dre.getD k 0) (dim.getD k 0)
  let D' := if adjoint then fmCtrX PSum.conj D else D
  let x : Bool → Nat → PSum := fun b' i => if b' = b then PSum.impulse j i else 0
  [false, true].flatMap fun a => (List.range n).map fun i =>
    filterMX n M (fmPad1 n M) (fmDft1 M) PSum.conj (PSum.ofRat (1 / (M : Rat))) D' x a i

/-- the same for a matrix-valued field with `ncol` columns: response to the unit impulse in row `b`,
column `c`, sample `j`; all outputs `(a, c', i)`, row-major (the raveled layout of the `Field`) -/
def filterMMImpulse (adjoint : Bool) (n M ncol : Nat) (dre dim : List Rat) (b : Bool) (c j : Nat) : List PSum :=
  let D : Nat → Bool → Bool → PSum := fun r a' b' =>
    let k := 4 * r + 2 * a'.toNat + b'.toNat
    PSum.ofGauss (dre.getD k 0) (dim.getD k 0)
  let D' := if adjoint then fmCtrX PSum.conj D else D
  let X : Bool → Nat → Nat → PSum := fun b' c' i => if b' = b ∧ c' = c then PSum.impulse j i else 0
  [false, true].flatMap fun a => (List.range ncol).flatMap fun c' => (List.range n).map fun i =>
    filterMXM n M (fmPad1 n M) (fmDft1 M) PSum.conj (PSum.ofRat (1 / (M : Rat))) D' X a c' i

end HcipyVerif.Fft
