import HcipyVerif.Model.OpIR
import HcipyVerif.Model.Effects

/-!
# C06 — one IR term schema and one effect program per shipped element family

Hand-written from the `forward`/`backward` bodies in hcipy/optics, propagation, coronagraphy,
wavefront_sensing and atmosphere; meant to be reviewed side by side with that code.  The harness
(`harness/props/c06.py`) fills the term schemas with each element's own exposed parameters and
compares `denote` with what the element returns, and compares the observable footprint of each
effect program (is the result the input object / does it share the input's array / which
attributes of the input were written, in which order) with what the real call does.
-/
namespace HcipyVerif.Elements
open HcipyVerif.OpIR HcipyVerif.Effects

/-! ## Term schemas (parameters = what the element exposes) -/
section Terms
variable {K : Type}

/-- `Apodizer`, `PhaseApodizer`, `SurfaceApodizer` (+ thin lens, prisms, gratings, tilt, surface
aberration, micro-lens arrays, periodic element, vibration), `ComplexSurfaceApodizer`,
`MultiplexedComplexSurfaceApodizer`, deformable / segmented / tip-tilt mirrors, atmospheric layers,
magnifier (constant field), empty element (all ones): `wf.electric_field *= m`. -/
def pointwise (m : List K) : Term K := .mulField m

/-- `JonesMatrixOpticalElement` and every retarder / polariser: per-pixel 2×2 product, written as
the block matrix acting on the stacked components. Propagators (`FraunhoferPropagator`,
`FresnelPropagator`, `AngularSpectrumPropagator`), `StepIndexFiber`: a dense matrix. -/
def dense (A : List (List K)) : Term K := .matrix A

/-- `SingleModeFiberInjection.forward`, `SingleModeFiberArray.forward`, `PhotonicLantern.forward`:
`dot(E.conj() * weights, mode)` — the code conjugates the *field*. -/
def fibreForward (rows : List (List K)) : Term K := .comp (.matrix rows) .conj

/-- their `backward`: `E * mode` / `projection_matrix.dot(E)`. -/
def fibreBackward (A : List (List K)) : Term K := .matrix A

/-- `PerfectCoronagraph`: `E - T (c ⊙ (T⁺ E))`. -/
def projection (T : List (List K)) (c : List K) (Ti : List (List K)) : Term K :=
  .sub .id (.comp (.matrix T) (.comp (.mulField c) (.matrix Ti)))

/-- `LyotCoronagraph.forward` without stop and `ZernikeWavefrontSensorOptics`:
`E - P⁻(foc - m ⊙ foc)`, `foc = P E`; `m1 = 1 - m`. -/
def lyotCore (Pb : List (List K)) (m1 : List K) (Pf : List (List K)) : Term K :=
  .sub .id (.comp (.matrix Pb) (.comp (.mulField m1) (.matrix Pf)))

def lyotForward (stop : List K) (Pb : List (List K)) (m1 : List K) (Pf : List (List K)) : Term K :=
  .comp (.mulField stop) (lyotCore Pb m1 Pf)

def lyotBackward (stop : List K) (Pb : List (List K)) (m1 : List K) (Pf : List (List K)) : Term K :=
  .comp (lyotCore Pb m1 Pf) (.mulField stop)

/-- `OccultedLyotCoronagraph`, `SurfaceAberrationAtDistance`: propagate, multiply, propagate back. -/
def sandwich (Pb : List (List K)) (m : List K) (Pf : List (List K)) : Term K :=
  .comp (.matrix Pb) (.comp (.mulField m) (.matrix Pf))

/-- an optional pointwise factor: a Lyot stop / apodizer that may be `None` in the code. -/
def optMul : Option (List K) → Term K
  | some m => .mulField m
  | none => .id

/-- `MultiScaleCoronagraph` (vortex, FQPM) without its Lyot stop: the coarse Fourier filter plus one
sandwich per finer level. -/
def multiscale (F0 : List (List K)) : List (List (List K) × List K × List (List K)) → Term K
  | [] => .matrix F0
  | (Pb, m, Pf) :: rest => .add (multiscale F0 rest) (sandwich Pb m Pf)

/-- `MultiScaleCoronagraph.forward`: `lyot_stop.forward(…)` applied last when there is a stop. -/
def multiscaleForward (stop : Option (List K)) (F0 : List (List K))
    (levels : List (List (List K) × List K × List (List K))) : Term K :=
  .comp (optMul stop) (multiscale F0 levels)

/-- `MultiScaleCoronagraph.backward`: `lyot_stop.backward(wavefront)` applied first. -/
def multiscaleBackward (stop : Option (List K)) (F0 : List (List K))
    (levels : List (List (List K) × List K × List (List K))) : Term K :=
  .comp (multiscale F0 levels) (optMul stop)

/-- `OpticalSystem`, wavefront-sensor optics, multi-layer atmosphere: composition, first part first. -/
def system : List (Term K) → Term K
  | [] => .id
  | t :: rest => .comp (system rest) t

/-- a system whose parts are given as dense matrices (the harness probes the exposed sub-elements). -/
def systemDense (parts : List (List (List K))) : Term K := system (parts.map dense)

/-- `FiberNuller.forward` and its subclasses: (optional) apodizer, propagator, then fibre injection. -/
def fibreNuller (rows : List (List K)) (P : List (List K)) (apod : Option (List K)) : Term K :=
  .comp (fibreForward rows) (.comp (.matrix P) (optMul apod))

/-- `FiberNuller.backward`: fibre backward, propagator backward, (optional) apodizer backward. -/
def fibreNullerBackward (apod : Option (List K)) (Pb : List (List K)) (B : List (List K)) : Term K :=
  .comp (optMul apod) (.comp (.matrix Pb) (fibreBackward B))

/-- `StepIndexFiber`: project on the LP modes (with the grid weights), apply the propagation phases,
expand again. -/
def fibreModes (Mc : List (List K)) (ph : List K) (Mh : List (List K)) (w : List K) : Term K :=
  .comp (.matrix Mc) (.comp (.mulField ph) (.comp (.matrix Mh) (.mulField w)))

/-- `FraunhoferPropagator`: `fourier_transform.forward(E) * norm_factor` (backward: `… / norm_factor`): the
element's own Fourier-transform object as a matrix, times the scalar the propagator computes from focal
length and wavelength.  (`FresnelPropagator`, `AngularSpectrumPropagator` and every `FourierFilter`-based
element are a `sandwich`: cut-out ∘ inverse FFT, transfer function, FFT ∘ zero-padding.) -/
def scaledTransform (c : K) (F : List (List K)) : Term K := .scale c (.matrix F)

/-! ### The family table: what the driver op `C06 denote-family` executes

The harness names a family and supplies the element's exposed parameters as arguments; the *term* is
built here, by `familyTerm`, from the schemas above — not in Python. -/

inductive Family where
  | pointwise | dense | fibreForward | fibreBackward | projection | lyotCore | lyotForward | lyotBackward
  | sandwich | multiscaleForward | multiscaleBackward | system | fibreNuller | fibreNullerBackward
  | fibreModes | scaledTransform
  deriving DecidableEq, Repr

def Family.all : List Family :=
  [.pointwise, .dense, .fibreForward, .fibreBackward, .projection, .lyotCore, .lyotForward, .lyotBackward,
   .sandwich, .multiscaleForward, .multiscaleBackward, .system, .fibreNuller, .fibreNullerBackward, .fibreModes,
   .scaledTransform]

def Family.name : Family → String
  | .pointwise => "pointwise" | .dense => "dense" | .fibreForward => "fibreForward"
  | .fibreBackward => "fibreBackward" | .projection => "projection" | .lyotCore => "lyotCore"
  | .lyotForward => "lyotForward" | .lyotBackward => "lyotBackward" | .sandwich => "sandwich"
  | .multiscaleForward => "multiscaleForward" | .multiscaleBackward => "multiscaleBackward"
  | .system => "system" | .fibreNuller => "fibreNuller" | .fibreNullerBackward => "fibreNullerBackward"
  | .fibreModes => "fibreModes" | .scaledTransform => "scaledTransform"

def Family.ofString? (s : String) : Option Family := Family.all.find? (·.name == s)

/-- does the code conjugate the incoming field in this family? (`some true` parity expected) -/
def Family.conj : Family → Bool
  | .fibreForward => true
  | .fibreNuller => true
  | _ => false

/-- An argument of a family: a vector, a matrix (rows), or an absent optional part. -/
inductive Arg (K : Type) where
  | vec (v : List K)
  | mat (A : List (List K))
  | none

def optVec : Arg K → Option (Option (List K))
  | .vec v => some (some v)
  | .none => some none
  | .mat _ => none

def levelsOf : List (Arg K) → Option (List (List (List K) × List K × List (List K)))
  | [] => some []
  | .mat Pb :: .vec m :: .mat Pf :: rest =>
    match levelsOf rest with
    | some l => some ((Pb, m, Pf) :: l)
    | none => none
  | _ => none

def matsOf : List (Arg K) → Option (List (List (List K)))
  | [] => some []
  | .mat A :: rest =>
    match matsOf rest with
    | some l => some (A :: l)
    | none => none
  | _ => none

/-- The term of family `f` for the given arguments; `none` when the arguments do not fit. -/
def familyTerm : Family → List (Arg K) → Option (Term K)
  | .pointwise, [.vec m] => some (pointwise m)
  | .dense, [.mat A] => some (dense A)
  | .fibreForward, [.mat rows] => some (fibreForward rows)
  | .fibreBackward, [.mat A] => some (fibreBackward A)
  | .projection, [.mat T, .vec c, .mat Ti] => some (projection T c Ti)
  | .lyotCore, [.mat Pb, .vec m1, .mat Pf] => some (lyotCore Pb m1 Pf)
  | .lyotForward, [.vec stop, .mat Pb, .vec m1, .mat Pf] => some (lyotForward stop Pb m1 Pf)
  | .lyotBackward, [.vec stop, .mat Pb, .vec m1, .mat Pf] => some (lyotBackward stop Pb m1 Pf)
  | .sandwich, [.mat Pb, .vec m, .mat Pf] => some (sandwich Pb m Pf)
  | .multiscaleForward, s :: .mat F0 :: rest =>
    match optVec s, levelsOf rest with
    | some stop, some levels => some (multiscaleForward stop F0 levels)
    | _, _ => none
  | .multiscaleBackward, s :: .mat F0 :: rest =>
    match optVec s, levelsOf rest with
    | some stop, some levels => some (multiscaleBackward stop F0 levels)
    | _, _ => none
  | .system, parts =>
    match matsOf parts with
    | some ms => some (systemDense ms)
    | none => none
  | .fibreNuller, [.mat rows, .mat P, s] =>
    match optVec s with
    | some apod => some (fibreNuller rows P apod)
    | none => none
  | .fibreNullerBackward, [s, .mat Pb, .mat B] =>
    match optVec s with
    | some apod => some (fibreNullerBackward apod Pb B)
    | none => none
  | .fibreModes, [.mat Mc, .vec ph, .mat Mh, .vec w] => some (fibreModes Mc ph Mh w)
  | .scaledTransform, [.vec [c], .mat F] => some (scaledTransform c F)
  | _, _ => none

end Terms

/-! ## Effect programs.  Name `0` is the parameter `wavefront`; operation numbers are opaque. -/

def opMul := 1
def opProp := 2
def opPropBack := 3
def opSub := 4
def opRsub := 5
def opAdd := 6
def opJones := 7
def opFilter := 8

/-- `EmptyOpticalElement`, `OpticalSystem([])`: `return wavefront`. -/
def identity : Prog := ⟨[], 0⟩

/-- `wf = wavefront.copy(); wf.electric_field *= a; return wf`. -/
def copyInplace : Prog := ⟨[.copy 1 0, .inplace opMul 1 []], 1⟩

/-- `PeriodicOpticalElement`: copies, then hands the copy to an apodizer (which copies again). -/
def copyThenCopyInplace : Prog := ⟨[.copy 1 0, .copy 2 1, .inplace opMul 2 []], 2⟩

/-- `Magnifier`: `wf = wavefront.copy(); wf.electric_field.grid = wf.electric_field.grid.scaled(m)`
(`scaled` = `copy()` then `scale` in place); then the copy's field is scaled in place. -/
def magnifier : Prog :=
  ⟨[.copy 1 0, .copyAttr 1 .grid, .inplaceAttr opMul 1 .grid, .inplace opMul 1 []], 1⟩

/-- **Defect class** (mutant M8, seeded C06-7): a result that points to the caller's grid object, and
a rescaling of that grid in place — field arrays untouched, the input's grid rewritten. -/
def scaleSharedGridOld : Prog := ⟨[.newFrom 1 opProp [0] 0, .inplaceAttr opMul 1 .grid], 1⟩

/-- **Defect class** (mutant M7): the Stokes vector of the argument updated in place. -/
def stokesInplaceOld : Prog := ⟨[.inplaceAttr opMul 0 .stokes, .newFrom 1 opJones [0] 0], 1⟩

/-- propagators, fibres, Jones elements on scalar input: `return Wavefront(Field(f(E)), …)`. -/
def newFrom : Prog := ⟨[.newFrom 1 opProp [0] 0], 1⟩

/-- Jones elements on polarised input: `wf = wavefront.copy(); wf.electric_field = J·wf.electric_field`. -/
def copySetField : Prog := ⟨[.copy 1 0, .setFieldNew 1 opJones [1]], 1⟩

/-- compositions of the above that never touch the argument (optical systems, nullers, beam
splitters, pyramid optics, occulted Lyot, knife edge): each stage builds a new wavefront. -/
def chain : Prog := ⟨[.newFrom 1 opProp [0] 0, .newFrom 2 opProp [1] 1], 2⟩

/-- `MultiLayerAtmosphere`: `wf = wavefront.copy()` then layer after layer (each copies). -/
def copyThenChain : Prog :=
  ⟨[.copy 1 0, .copy 2 1, .inplace opMul 2 [], .copy 3 2, .inplace opMul 3 []], 3⟩

/-- `LyotCoronagraph.forward`, no Lyot stop; also `ZernikeWavefrontSensorOptics`. -/
def lyotFwd : Prog :=
  ⟨[.newFrom 1 opProp [0] 0,            -- wf_foc = prop.forward(wavefront)
    .newFrom 2 opMul [1] 1,             -- focal_plane_mask.forward(wf_foc)
    .inplace opSub 1 [2],               -- wf_foc.electric_field -= …
    .newFrom 3 opPropBack [1] 1,        -- lyot = prop.backward(wf_foc)
    .inplace opRsub 3 [0]],             -- np.subtract(wavefront.electric_field, lyot.electric_field, out=lyot.electric_field)
   3⟩

def lyotFwdStop : Prog :=
  ⟨lyotFwd.body ++ [.copy 4 3, .inplace opMul 4 []], 4⟩

/-- `LyotCoronagraph.backward` without stop: `wf = wavefront` is a second name for the argument. -/
def lyotBwd : Prog :=
  ⟨[.bind 1 0,
    .newFrom 2 opProp [1] 1,
    .newFrom 3 opMul [2] 2,
    .inplace opSub 2 [3],
    .newFrom 4 opPropBack [2] 2,
    .inplace opRsub 4 [1]],
   4⟩

def lyotBwdStop : Prog :=
  ⟨[.copy 1 0, .inplace opMul 1 [],
    .newFrom 2 opProp [1] 1,
    .newFrom 3 opMul [2] 2,
    .inplace opSub 2 [3],
    .newFrom 4 opPropBack [2] 2,
    .inplace opRsub 4 [1]],
   4⟩

def zernike : Prog := lyotFwd

/-- `VectorZernikeWavefrontSensorOptics` on a polarised wavefront (vector or Jones-matrix field): no
stand-in is built, and the Jones elements (`HWP`, the mask) take the branch
`wf = wavefront.copy(); wf.electric_field = field_dot(J, wf.electric_field)` — so the argument
itself is copied once, by `HWP.forward(wavefront)` (found by the object-trace tie in round 4: the
scalar program below creates 6 wavefronts and never copies the argument, the code on polarised input
creates 5 and copies it once). -/
def vectorZernikePol : Prog :=
  ⟨[.newFrom 1 opProp [0] 0,            -- wf_foc = prop.forward(wavefront)
    .copy 2 1, .setFieldNew 2 opJones [2],   -- HWP.forward(wf_foc)
    .copy 3 1, .setFieldNew 3 opJones [3],   -- vZWFS_mask.forward(wf_foc)
    .setFieldNew 1 opSub [2, 3],        -- wf_foc.electric_field = … - …
    .newFrom 4 opPropBack [1] 1,        -- pup = prop.backward(wf_foc)
    .copy 5 0, .setFieldNew 5 opJones [5],   -- HWP.forward(wavefront)
    .inplace opRsub 4 [5]],             -- pup.electric_field[:] = … - pup.electric_field
   4⟩

/-- `VectorZernikeWavefrontSensorOptics`, scalar input. -/
def vectorZernike : Prog :=
  ⟨[.newFrom 1 opProp [0] 0,
    .newFrom 1 opJones [1] 1,           -- wf_foc = Wavefront(wf_foc.electric_field, …, stokes) (scalar case)
    .newFrom 2 opJones [1] 1, .newFrom 3 opJones [1] 1,
    .setFieldNew 1 opSub [2, 3],        -- wf_foc.electric_field = HWP(wf_foc) - mask(wf_foc)
    .newFrom 4 opPropBack [1] 1,
    .newFrom 5 opJones [0] 0,           -- HWP.forward(wavefront)
    .inplace opRsub 4 [5]],             -- pup.electric_field[:] = … - pup.electric_field
   4⟩

/-- `MultiScaleCoronagraph.forward` (and `.backward` without stop): the wavelength of the argument
is set to 1 for the duration of the call and restored. -/
def multiscaleFwd : Prog :=
  ⟨[.saveAttr 0 0 .wavelength,           -- wavelength = wavefront.wavelength
    .setAttrConst 0 .wavelength 1,       -- wavefront.wavelength = 1
    .newFrom 1 opFilter [0] 0,           -- lyot = Wavefront(prop.forward(wavefront.electric_field), …)
    .newFrom 2 opProp [0] 0,             -- focal = prop(wavefront)
    .inplace opMul 2 [],                 -- focal.electric_field *= mask
    .newFrom 3 opPropBack [2] 2,
    .inplace opAdd 1 [3],                -- lyot.electric_field += …
    .setAttrSlot 1 .wavelength 0,        -- lyot.wavelength = wavelength
    .setAttrSlot 0 .wavelength 0],       -- wavefront.wavelength = wavelength
   1⟩

def multiscaleFwdStop : Prog :=
  ⟨multiscaleFwd.body ++ [.copy 4 1, .inplace opMul 4 []], 4⟩

def multiscaleBwd : Prog := multiscaleFwd

/-- `.backward` with a stop: `wavefront = lyot_stop.backward(wavefront)` rebinds the name first, so
the wavelength juggling happens on the fresh object (name 5 here). -/
def multiscaleBwdStop : Prog :=
  ⟨[.copy 5 0, .inplace opMul 5 [],
    .saveAttr 0 5 .wavelength,
    .setAttrConst 5 .wavelength 1,
    .newFrom 1 opFilter [5] 5,
    .newFrom 2 opProp [5] 5,
    .inplace opMul 2 [],
    .newFrom 3 opPropBack [2] 2,
    .inplace opAdd 1 [3],
    .setAttrSlot 1 .wavelength 0,
    .setAttrSlot 5 .wavelength 0],
   1⟩

/-- `VectorVortexCoronagraph.forward`, scalar input: a polarised stand-in `wf` (name 6) is built
from the argument; the argument keeps its own name. -/
def vvcFwdScalar : Prog :=
  ⟨[.saveAttr 0 0 .wavelength,
    .setAttrConst 0 .wavelength 1,
    .newFrom 6 opJones [0] 0,            -- wf = Wavefront(wavefront.electric_field, stokes=(1,0,0,0))
    .newFrom 1 opFilter [6] 6,           -- lyot
    .newFrom 2 opProp [0] 0,             -- focal = prop(wavefront)
    .newFrom 7 opJones [2] 2,            -- focal = Wavefront(focal.electric_field, stokes)
    .setFieldNew 7 opJones [7],          -- focal.electric_field = field_dot(J, focal.electric_field)
    .newFrom 3 opPropBack [7] 7,
    .inplace opAdd 1 [3],
    .setAttrSlot 1 .wavelength 0,
    .setAttrSlot 0 .wavelength 0],
   1⟩

def vvcFwdPol : Prog :=
  ⟨[.saveAttr 0 0 .wavelength,
    .setAttrConst 0 .wavelength 1,
    .bind 6 0,                            -- wf = wavefront
    .newFrom 1 opFilter [6] 6,
    .newFrom 2 opProp [0] 0,
    .setFieldNew 2 opJones [2],
    .newFrom 3 opPropBack [2] 2,
    .inplace opAdd 1 [3],
    .setAttrSlot 1 .wavelength 0,
    .setAttrSlot 0 .wavelength 0],
   1⟩

def vvcFwdScalarStop : Prog := ⟨vvcFwdScalar.body ++ [.copy 4 1, .inplace opMul 4 []], 4⟩
def vvcFwdPolStop : Prog := ⟨vvcFwdPol.body ++ [.copy 4 1, .inplace opMul 4 []], 4⟩

/-- `VectorVortexCoronagraph.backward`, scalar input, no stop — **as on the pinned tree**: the
name `wavefront` (0) is rebound to the polarised stand-in inside the loop, and the final
`wavefront.wavelength = wavelength` therefore restores the stand-in, not the argument. -/
def vvcBwdScalarOld : Prog :=
  ⟨[.saveAttr 0 0 .wavelength,
    .setAttrConst 0 .wavelength 1,
    .newFrom 0 opJones [0] 0,            -- wavefront = Wavefront(wavefront.electric_field, stokes)
    .newFrom 1 opFilter [0] 0,           -- pup
    .newFrom 2 opProp [0] 0,
    .setFieldNew 2 opJones [2],
    .newFrom 3 opPropBack [2] 2,
    .inplace opAdd 1 [3],
    .setAttrSlot 1 .wavelength 0,
    .setAttrSlot 0 .wavelength 0],       -- restores the stand-in
   1⟩

/-- the same after the repair (pending_fixes/D60): a second name (9) keeps the argument. -/
def vvcBwdScalar : Prog :=
  ⟨[.saveAttr 0 0 .wavelength,
    .setAttrConst 0 .wavelength 1,
    .bind 9 0,                            -- rescaled_wavefront = wavefront
    .newFrom 0 opJones [0] 0,
    .newFrom 1 opFilter [0] 0,
    .newFrom 2 opProp [0] 0,
    .setFieldNew 2 opJones [2],
    .newFrom 3 opPropBack [2] 2,
    .inplace opAdd 1 [3],
    .setAttrSlot 1 .wavelength 0,
    .setAttrSlot 9 .wavelength 0],
   1⟩

def vvcBwdPol : Prog :=
  ⟨[.saveAttr 0 0 .wavelength,
    .setAttrConst 0 .wavelength 1,
    .bind 9 0,
    .newFrom 1 opFilter [0] 0,
    .newFrom 2 opProp [0] 0,
    .setFieldNew 2 opJones [2],
    .newFrom 3 opPropBack [2] 2,
    .inplace opAdd 1 [3],
    .setAttrSlot 1 .wavelength 0,
    .setAttrSlot 9 .wavelength 0],
   1⟩

/-- with a stop the name is rebound to `lyot_stop.backward(wavefront)` before anything is written. -/
def vvcBwdStopScalar : Prog :=
  ⟨[.copy 0 0, .inplace opMul 0 []] ++ vvcBwdScalar.body, 1⟩
def vvcBwdStopPol : Prog :=
  ⟨[.copy 0 0, .inplace opMul 0 []] ++ vvcBwdPol.body, 1⟩

/-! ### `FourierFilter._operation` (behind `FresnelPropagator`, `AngularSpectrumPropagator`, the multi-scale
coronagraphs; `hcipy/fourier/fourier_operations.py`) and the array it hands to its first FFT

Objects are array objects here (a `Field` wrapper / an `ndarray` view), buffers are memory.  Without zero
padding (`cutout is None`, q = 1) `f = field.shaped` is a *view* of the caller's array (`wrap`), and the first
FFT must not overwrite it (`overwrite_x=False`: a new array, `newFrom`); with zero padding the values are
copied into the filter's internal array first and the FFT runs in place.  Everything after the first FFT
works on arrays the filter created itself. -/
def opFft := 21
def opIfft := 22
def opCut := 23
def opZeroPad := 24

def fourierFilter (padded : Bool) : Prog :=
  if padded then
    ⟨[.newFrom 1 opZeroPad [0] 0,        -- f = internal_array; f[:] = 0; f[cutout] = field.shaped
      .inplace opFft 1 [],           -- fftn(f, overwrite_x=True)
      .newFrom 2 opMul [1] 1,        -- f = f * tf
      .inplace opIfft 2 [],          -- ifftn(f, overwrite_x=True)
      .newFrom 3 opCut [2] 0], 3⟩    -- res = f[cutout].reshape(...)
  else
    ⟨[.wrap 1 0,                     -- f = field.shaped
      .newFrom 2 opFft [1] 0,        -- fftn(f, overwrite_x=False)
      .newFrom 3 opMul [2] 2,
      .inplace opIfft 3 [],
      .wrap 4 3], 4⟩                 -- res = f.reshape(...)

/-- How `field.astype(dtype, copy=False)` relates its result to its argument: the very same object (an
old-style field — an `ndarray` subclass — that already has the dtype), a **new wrapper around the same
buffer** (a new-style field that already has the dtype: `NewStyleField.astype` always builds a new `Field`
around `data.astype(…, copy=False)`), or a converted private copy (the dtype differs). -/
inductive Cast where
  | same | wrapper | converted
  deriving DecidableEq, Repr

def castOf (newStyle sameDtype : Bool) : Cast :=
  if !sameDtype then .converted else if newStyle then .wrapper else .same

def castInstr (c : Cast) (d s : Var) : Instr :=
  match c with
  | .same => .bind d s
  | .wrapper => .wrap d s
  | .converted => .copy d s

/-- **Defect class** (seeded C06-10): the field is cast with `astype(copy=False)` and *object identity*
(`cast is not field`) decides whether the cast is a private copy that the first FFT may overwrite.  Right
for `same` and `converted`, wrong for `wrapper`. -/
def fourierFilterIdentityTestOld (c : Cast) (padded : Bool) : Prog :=
  let isPrivate := c != .same
  if padded then
    ⟨castInstr c 9 0 :: [.newFrom 1 opZeroPad [9] 9, .inplace opFft 1 [], .newFrom 2 opMul [1] 1, .inplace opIfft 2 [],
      .newFrom 3 opCut [2] 9], 3⟩
  else if isPrivate then
    ⟨castInstr c 9 0 :: [.wrap 1 9, .inplace opFft 1 [], .newFrom 3 opMul [1] 1, .inplace opIfft 3 [], .wrap 4 3], 4⟩
  else
    ⟨castInstr c 9 0 :: [.wrap 1 9, .newFrom 2 opFft [1] 9, .newFrom 3 opMul [2] 2, .inplace opIfft 3 [], .wrap 4 3], 4⟩

/-- What the first Fourier transform of a program (first instruction with operation `opFft`) is given:
(its argument uses the caller's buffer, it may overwrite its argument).  Computed on the concrete store. -/
def firstFftFrom (sem : Nat → List Int → Int) : St → List Instr → Option (Bool × Bool)
  | _, [] => none
  | c, i :: rest =>
    match i with
    | .inplace op t _ => if op = opFft then some (bufOf c t == 0, true) else firstFftFrom sem (step sem c i) rest
    | .newFrom _ op (x :: _) _ => if op = opFft then some (bufOf c x == 0, false) else firstFftFrom sem (step sem c i) rest
    | _ => firstFftFrom sem (step sem c i) rest

def firstFft (sem : Nat → List Int → Int) (p : Prog) (v : InVal) : Option (Bool × Bool) :=
  firstFftFrom sem (init v) p.body

/-- Every program shipped, by the name the harness uses. -/
def programs : List (String × Prog) :=
  [("identity", identity), ("copyInplace", copyInplace), ("copyThenCopyInplace", copyThenCopyInplace),
   ("magnifier", magnifier), ("newFrom", newFrom), ("copySetField", copySetField), ("chain", chain),
   ("copyThenChain", copyThenChain), ("lyotFwd", lyotFwd), ("lyotFwdStop", lyotFwdStop),
   ("lyotBwd", lyotBwd), ("lyotBwdStop", lyotBwdStop), ("zernike", zernike),
   ("vectorZernike", vectorZernike), ("vectorZernikePol", vectorZernikePol), ("multiscaleFwd", multiscaleFwd),
   ("multiscaleFwdStop", multiscaleFwdStop), ("multiscaleBwd", multiscaleBwd),
   ("multiscaleBwdStop", multiscaleBwdStop), ("vvcFwdScalar", vvcFwdScalar), ("vvcFwdPol", vvcFwdPol),
   ("vvcFwdScalarStop", vvcFwdScalarStop), ("vvcFwdPolStop", vvcFwdPolStop),
   ("vvcBwdScalar", vvcBwdScalar), ("vvcBwdPol", vvcBwdPol),
   ("vvcBwdStopScalar", vvcBwdStopScalar), ("vvcBwdStopPol", vvcBwdStopPol),
   ("fourierFilter[padded]", fourierFilter true), ("fourierFilter[unpadded]", fourierFilter false)]

/-! ### The programs with a loop, for any number of rounds

multi-scale coronagraphs: one round per scale beyond the first (`len(props) - 1`); vector vortex on
scalar input: each round also builds a polarised stand-in of the focal wavefront;
`MultiLayerAtmosphere`: `wf = wavefront.copy()` and one round per element of the chain
(`wf = el.forward(wf)`: a layer copies and multiplies in place; a propagator between layers creates
its one new wavefront — the same effect on the store as far as the checker and the trace go).
The one-round programs above (`multiscaleFwd`, …) stay in `programs`. -/

def msBody (src : Var) : List Instr :=
  [.newFrom 2 opProp [src] src, .inplace opMul 2 [], .newFrom 3 opPropBack [2] 2, .inplace opAdd 1 [3]]
def stopPost : List Instr := [.copy 4 1, .inplace opMul 4 []]

def multiscaleFwdL : LoopProg :=
  ⟨[.saveAttr 0 0 .wavelength, .setAttrConst 0 .wavelength 1, .newFrom 1 opFilter [0] 0], msBody 0,
   [.setAttrSlot 1 .wavelength 0, .setAttrSlot 0 .wavelength 0], 1⟩
def multiscaleFwdStopL : LoopProg := { multiscaleFwdL with post := multiscaleFwdL.post ++ stopPost, ret := 4 }
def multiscaleBwdStopL : LoopProg :=
  ⟨[.copy 5 0, .inplace opMul 5 [], .saveAttr 0 5 .wavelength, .setAttrConst 5 .wavelength 1, .newFrom 1 opFilter [5] 5],
   msBody 5, [.setAttrSlot 1 .wavelength 0, .setAttrSlot 5 .wavelength 0], 1⟩
def vvcBodyPol : List Instr :=
  [.newFrom 2 opProp [0] 0, .setFieldNew 2 opJones [2], .newFrom 3 opPropBack [2] 2, .inplace opAdd 1 [3]]
def vvcFwdScalarL : LoopProg :=
  ⟨[.saveAttr 0 0 .wavelength, .setAttrConst 0 .wavelength 1, .newFrom 6 opJones [0] 0, .newFrom 1 opFilter [6] 6],
   [.newFrom 2 opProp [0] 0, .newFrom 7 opJones [2] 2, .setFieldNew 7 opJones [7], .newFrom 3 opPropBack [7] 7, .inplace opAdd 1 [3]],
   [.setAttrSlot 1 .wavelength 0, .setAttrSlot 0 .wavelength 0], 1⟩
def vvcFwdPolL : LoopProg :=
  ⟨[.saveAttr 0 0 .wavelength, .setAttrConst 0 .wavelength 1, .bind 6 0, .newFrom 1 opFilter [6] 6], vvcBodyPol,
   [.setAttrSlot 1 .wavelength 0, .setAttrSlot 0 .wavelength 0], 1⟩
def vvcFwdScalarStopL : LoopProg := { vvcFwdScalarL with post := vvcFwdScalarL.post ++ stopPost, ret := 4 }
def vvcFwdPolStopL : LoopProg := { vvcFwdPolL with post := vvcFwdPolL.post ++ stopPost, ret := 4 }
def vvcBwdScalarL : LoopProg :=
  ⟨[.saveAttr 0 0 .wavelength, .setAttrConst 0 .wavelength 1, .bind 9 0, .newFrom 0 opJones [0] 0, .newFrom 1 opFilter [0] 0],
   vvcBodyPol, [.setAttrSlot 1 .wavelength 0, .setAttrSlot 9 .wavelength 0], 1⟩
def vvcBwdPolL : LoopProg :=
  ⟨[.saveAttr 0 0 .wavelength, .setAttrConst 0 .wavelength 1, .bind 9 0, .newFrom 1 opFilter [0] 0],
   vvcBodyPol, [.setAttrSlot 1 .wavelength 0, .setAttrSlot 9 .wavelength 0], 1⟩
def vvcBwdStopScalarL : LoopProg := { vvcBwdScalarL with pre := [.copy 0 0, .inplace opMul 0 []] ++ vvcBwdScalarL.pre }
def vvcBwdStopPolL : LoopProg := { vvcBwdPolL with pre := [.copy 0 0, .inplace opMul 0 []] ++ vvcBwdPolL.pre }
def layersL : LoopProg := ⟨[.copy 1 0], [.copy 2 1, .inplace opMul 2 [], .bind 1 2], [], 1⟩

def loopPrograms : List (String × LoopProg) :=
  [("multiscaleFwd", multiscaleFwdL), ("multiscaleFwdStop", multiscaleFwdStopL), ("multiscaleBwd", multiscaleFwdL),
   ("multiscaleBwdStop", multiscaleBwdStopL), ("vvcFwdScalar", vvcFwdScalarL), ("vvcFwdPol", vvcFwdPolL),
   ("vvcFwdScalarStop", vvcFwdScalarStopL), ("vvcFwdPolStop", vvcFwdPolStopL), ("vvcBwdScalar", vvcBwdScalarL),
   ("vvcBwdPol", vvcBwdPolL), ("vvcBwdStopScalar", vvcBwdStopScalarL), ("vvcBwdStopPol", vvcBwdStopPolL),
   ("copyThenChain", layersL)]

def loopProgramByName (n : String) : Option LoopProg := (loopPrograms.find? (·.1 == n)).map (·.2)


def programByName (n : String) : Option Prog :=
  if n == "vvcBwdScalarOld" then some vvcBwdScalarOld
  else if n == "scaleSharedGridOld" then some scaleSharedGridOld
  else if n == "stokesInplaceOld" then some stokesInplaceOld
  else (programs.find? (·.1 == n)).map (·.2)


/-! ## Programs with element-internal cells (the stateful families)

Parameter setters of agnostic elements clear the instance cache (`clear_cache()`); that is modelled
as the parameter being part of the cell's key (C05 proves the setter side: `setter_takes_effect`).
Operation numbers are opaque; `param i` are the element's mutable parameters. -/

def opMake := 10
def opLincomb := 11
def opPhase := 12
def opShift := 13
def opPad := 14
def opFT := 15
def opMatrices := 16
def opPoint := 17
def opApply := 18

/-- fibres, empty element, perfect coronagraph, knife edge, Jones beam splitters, vibration …:
nothing is kept between calls. -/
def iStateless : IProg :=
  { keyAtoms := fun _ => [], spec := fun _ => .atom .grid, body := [], ret := .op1 opApply .field }

/-- every `AgnosticOpticalElement`: `get_instance_data` looks the `(grid, wavelength)` key up in
`_instance_data_cache`, builds the `InstanceData` from the element's parameters on a miss and
stores it under that key. -/
def iAgnosticSpec : IExpr := .op2 opMake (.op2 opMake (.atom (.param 0)) (.atom .grid)) (.atom .wavelength)
def iAgnostic : IProg :=
  { keyAtoms := fun _ => [.param 0, .grid, .wavelength], spec := fun _ => iAgnosticSpec,
    body := [.memoRead 1 0 iAgnosticSpec, .memoFill 0 iAgnosticSpec],
    ret := .op2 opMul .field (.loc 1),
    cap := fun _ => 11 }

/-- `DeformableMirror.surface` (also segmented and tip-tilt mirrors): `_surface` is the linear
combination for `_actuators_for_cached_surface`; recomputed when the actuators differ. -/
def iMirrorSpec : IExpr := .op1 opLincomb (.atom (.param 0))
def iMirror : IProg :=
  { keyAtoms := fun _ => [.param 0], spec := fun _ => iMirrorSpec,
    body := [.memoRead 1 0 iMirrorSpec, .memoFill 0 iMirrorSpec],
    ret := .op2 opMul .field (.op2 opPhase (.loc 1) (.atom .wavelength)) }

/-- atmospheric layers: the achromatic screen for the current centre (`param 0`, set by
`evolve_until`) of the current noise realisation (`param 1`). -/
def iLayerSpec : IExpr := .op2 opShift (.atom (.param 1)) (.atom (.param 0))
def iLayer : IProg :=
  { keyAtoms := fun _ => [.param 0, .param 1], spec := fun _ => iLayerSpec,
    body := [.memoRead 1 0 iLayerSpec, .memoFill 0 iLayerSpec],
    ret := .op2 opMul .field (.op2 opPhase (.loc 1) (.atom .wavelength)) }

/-- Fourier objects (`FastFourierTransform`, `MatrixFourierTransform`, `FourierFilter`): matrices /
transfer function are a memo for the working precision (`param 0`); `internal_array` /
`intermediate_array` is a scratch buffer, fully written before it is read in every call. -/
def iFourierSpec : IExpr := .op1 opMatrices (.atom (.param 0))
def iFourier : IProg :=
  { keyAtoms := fun _ => [.param 0], spec := fun _ => iFourierSpec,
    body := [.memoRead 1 0 iFourierSpec, .memoFill 0 iFourierSpec,
             .scratchWrite 0 (.op1 opPad .field), .scratchRead 2 0,
             .scratchWrite 0 (.op2 opFT (.loc 2) (.loc 1)), .scratchRead 3 0],
    ret := .loc 3 }

/-- `MatrixFourierTransform` (2-D, `allocate_intermediate`): the matrices `M1`/`M2` (cell 0, key
`matrices_dtype`) **and** the preallocated `intermediate_array` (cell 1, key `intermediate_dtype`) are kept
per working precision.  The precision is that of the field passed in (`_compute_matrices(field.dtype)`);
it is modelled as `param 0`, which the harness sets before a call with a field of that precision.
The first `gemm` is handed the intermediate array as its output (`c=…, overwrite_c=True`): what lands in
the work buffer depends on the array it was given (scipy's BLAS wrapper works on a converted temporary
when `c` has another dtype than the routine's); the second `gemm` reads the buffer. -/
def opAlloc := 19
def opGemm := 20
def iMftMatSpec : IExpr := .op1 opMatrices (.atom (.param 0))
def iMftBufSpec : IExpr := .op1 opAlloc (.atom (.param 0))
def iMftBody : List IInstr :=
  [.memoRead 1 0 iMftMatSpec, .memoFill 0 iMftMatSpec,
   .memoRead 2 1 iMftBufSpec, .memoFill 1 iMftBufSpec,
   .scratchWrite 0 (.op2 opGemm (.op2 opMul .field (.loc 1)) (.loc 2)), .scratchRead 3 0]
def iMft : IProg :=
  { keyAtoms := fun _ => [.param 0], spec := fun c => if c = 0 then iMftMatSpec else iMftBufSpec,
    body := iMftBody, ret := .op2 opFT (.loc 3) (.loc 1) }

/-- **Seeded defect class (C06-8)** — the intermediate array allocated *once* (`if … is None`) instead of
per precision: cell 1 is keyed by nothing although its content depends on the precision. -/
def iMftAllocOnceOld : IProg :=
  { keyAtoms := fun c => if c = 0 then [.param 0] else [], spec := fun c => if c = 0 then iMftMatSpec else iMftBufSpec,
    body := iMftBody, ret := .op2 opFT (.loc 3) (.loc 1) }

/-- propagators: an agnostic instance (cell 0) that owns a Fourier object (cell 1, scratch 0). -/
def iPropagator : IProg :=
  { keyAtoms := fun c => if c = 0 then [.param 0, .grid, .wavelength] else [.param 1],
    spec := fun c => if c = 0 then iAgnosticSpec else .op1 opMatrices (.atom (.param 1)),
    body := [.memoRead 1 0 iAgnosticSpec, .memoFill 0 iAgnosticSpec,
             .memoRead 2 1 (.op1 opMatrices (.atom (.param 1))), .memoFill 1 (.op1 opMatrices (.atom (.param 1))),
             .scratchWrite 0 (.op1 opPad .field), .scratchRead 3 0],
    ret := .op2 opFT (.loc 3) (.op2 opMul (.loc 1) (.loc 2)),
    cap := fun c => if c = 0 then 11 else 1 }

/-- `ModulatedPyramidWavefrontSensorOptics`: sets the actuators of the tip-tilt mirror it owns to
each modulation point in turn; what stays behind is the last point, a function of its parameters. -/
def iModulatedSpec : IExpr := .op1 opPoint (.atom (.param 0))
def iModulated : IProg :=
  { keyAtoms := fun _ => [.param 0], spec := fun _ => iModulatedSpec,
    body := [.memoFill 0 iModulatedSpec, .memoRead 1 0 iModulatedSpec],
    ret := .op2 opMul .field (.loc 1) }

/-- **Seeded defect class 1** — a stored array handed out and corrected in place
(`ModalAdaptiveOpticsLayer.phase_for` at λ = 1 when the wrapped layer returns its stored screen
itself): the cell ends up holding a value that depends on how often it was used. -/
def iModalAOOld : IProg :=
  { keyAtoms := fun _ => [.param 0], spec := fun _ => .op1 opShift (.atom (.param 0)),
    body := [.memoRead 1 0 (.op1 opShift (.atom (.param 0))), .memoFill 0 (.loc 1),
             .letE 2 (.op2 opSub (.loc 1) (.atom (.param 1))), .cellUpdate 0 (.loc 2)],
    ret := .op2 opMul .field (.loc 2) }

/-- **Seeded defect class 2** — a cache not keyed by what its contents depend on: instance data
that depends on the wavelength stored under the grid alone. -/
def iUnkeyed : IProg :=
  { keyAtoms := fun _ => [.grid], spec := fun _ => .op1 opMake (.atom .wavelength),
    body := [.memoRead 1 0 (.op1 opMake (.atom .wavelength)), .memoFill 0 (.op1 opMake (.atom .wavelength))],
    ret := .op2 opMul .field (.loc 1) }

/-- a work buffer read before it is written in this call (left over from the previous call). -/
def iStaleScratch : IProg :=
  { keyAtoms := fun _ => [], spec := fun _ => .atom .grid,
    body := [.scratchRead 1 0, .scratchWrite 0 .field], ret := .op2 opAdd .field (.loc 1) }

/-- name, program, attribute names of its memo cells, attribute names of its scratch buffers —
as they appear on the Python objects (the harness compares these with the attributes it sees change). -/
def internalPrograms : List (String × IProg × List String × List String) :=
  [("stateless", iStateless, [], []),
   ("agnosticInstance", iAgnostic, ["_instance_data_cache", "_num_in_cache"], []),
   ("mirrorSurface", iMirror, ["_surface", "_actuators_for_cached_surface"], []),
   ("layerScreen", iLayer, ["_achromatic_screen"], []),
   ("fourierObject", iFourier,
      ["M", "M1", "M2", "weights_input", "weights_output", "matrices_dtype", "intermediate_dtype",
       "_transfer_function", "internal_array", "intermediate_array"],
      ["internal_array", "intermediate_array"]),
   ("mft", iMft, ["M1", "M2", "matrices_dtype", "intermediate_dtype", "intermediate_array"], ["intermediate_array"]),
   ("propagator", iPropagator, ["_instance_data_cache", "_num_in_cache"], []),
   ("modulatedPyramid", iModulated, ["tip_tilt_mirror"], [])]

def internalByName (n : String) : Option (IProg × List String × List String) :=
  if n == "modalAOOld" then some (iModalAOOld, ["_achromatic_screen"], [])
  else if n == "unkeyed" then some (iUnkeyed, ["_instance_data_cache"], [])
  else if n == "mftAllocOnceOld" then some (iMftAllocOnceOld, ["M1", "M2", "intermediate_array"], ["intermediate_array"])
  else (internalPrograms.find? (·.1 == n)).map (·.2)

end HcipyVerif.Elements
