import HcipyVerif.Model.AperturePupil
/-!
# Concrete telescope constants (C12, round 6): which segments LUVOIR A and LUVOIR B keep

The segment lattice and the `subset` criteria of `make_luvoir_a_aperture()` / `make_luvoir_b_aperture()` with their
default arguments, the floats written as the exact rationals they are (`pitch = actual_flat + actual_gap`,
`ap = pitch·√3/4` as NumPy rounds it, the clip radii `0.98·15/2`, `circum/2`, `0.9·8/2`).  The driver prints these
constants and the number of kept segments (`C12 hexcount`); the harness recomputes the constants with the NumPy
expressions of the makers and counts the segments the real makers return.
-/
namespace HcipyVerif.Aperture

/-- lattice and clip radii of one maker -/
structure PosCfg where
  rings : Nat
  pitch : Rat
  ap : Rat
  /-- the radius of the outer clip `subset(circular_aperture(…))` and, for LUVOIR A, of the circle that removes the
  central segment `subset(~(circular_aperture(circum) > 0))` -/
  radii : List Rat

def PosCfg.sels (c : PosCfg) : List Sel :=
  match c.radii with
  | [r0] => [.nonzero (.disk r0)]
  | [r0, r1] => [.nonzero (.disk r0), .notPos (.disk r1)]
  | _ => []

/-- the kept segment centres, as `HexCfg.positions` computes them -/
def PosCfg.positions (c : PosCfg) : List Pt := selectPositions c.sels (hexPositions c.rings c.pitch c.ap)

def luvoirAPos : PosCfg :=
  { rings := 6, pitch := 2766336071112327/2251799813685248, ap := 4791434625977021/9007199254740992,
    radii := [4137682157646643/562949953421312, 198668051494265/281474976710656] }

def luvoirBPos : PosCfg :=
  { rings := 4, pitch := 8655918483806093/9007199254740992, ap := 7496245300063357/18014398509481984,
    radii := [8106479329266893/2251799813685248] }

def posCfgOf (name : String) : Option PosCfg :=
  if name == "luvoir_a" then some luvoirAPos else if name == "luvoir_b" then some luvoirBPos else none

end HcipyVerif.Aperture
