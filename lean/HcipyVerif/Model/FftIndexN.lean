import HcipyVerif.Model.FftIndex2
import HcipyVerif.Model.FftIndex2b

/-!
# The FastFourierTransform pipeline on three axes (literal) and on `n` axes (iterated) —
executable, core Lean only

## Three axes

Arrays are indexed `(iz, iy, ix)` (shape order, `x` fastest).  `pad3`, `ifftshift3`, `fftshift3`,
`crop3` act on all three axes at once, as `np.fft.ifftshift(a)` / slicing with a tuple of slices
do; `dft3` is the assumed specification of `fftn` on a 3-D array (a separable kernel, three nested
sums).  `fastForward3` is the literal 3-D pipeline (one multiplication with a 3-D `shift_output`
array, one padded 3-D internal array, one `fftn`, one multiplication with a 3-D `shift_input`
array); `fastForward3Iter` applies the 1-D pipeline along `x`, then `y`, then `z`.

## `n` axes

Arrays are functions of an index *list*; the `i`-th entry of the list belongs to the `i`-th axis
configuration of the list `gs`.  `fastForwardN` / `fastBackwardN` are the *iterated* pipelines: the
1-D pipeline applied axis by axis (the last axis of the list first, the head of the list last).
`sumForwardN` / `sumBackwardN` are the `n`-dimensional defining sums: nested sums over all index
lists, the product of the weights, one phase `T(∓Σ a·x)·E(∓Σ s·x)`.
-/
namespace HcipyVerif.Fft

section generic
variable {C : Type} [Zero C] [Add C] [Mul C]

/-- zero padding on three axes at once -/
def pad3 (Nz Mz Ny My Nx Mx : Nat) (f : Nat → Nat → Nat → C) (pz py px : Nat) : C :=
  if (padStart Nz Mz ≤ pz ∧ pz < padStart Nz Mz + Nz) ∧
     (padStart Ny My ≤ py ∧ py < padStart Ny My + Ny) ∧
     (padStart Nx Mx ≤ px ∧ px < padStart Nx Mx + Nx)
  then f (pz - padStart Nz Mz) (py - padStart Ny My) (px - padStart Nx Mx) else 0

def ifftshift3 (Mz My Mx : Nat) (a : Nat → Nat → Nat → C) (iz iy ix : Nat) : C :=
  a ((iz + Mz / 2) % Mz) ((iy + My / 2) % My) ((ix + Mx / 2) % Mx)

def fftshift3 (Mz My Mx : Nat) (a : Nat → Nat → Nat → C) (iz iy ix : Nat) : C :=
  a ((iz + (Mz - Mz / 2)) % Mz) ((iy + (My - My / 2)) % My) ((ix + (Mx - Mx / 2)) % Mx)

/-- `fftn` on a 3-D array:
`out[qz,qy,qx] = Σ_pz Σ_py Σ_px a[pz,py,px]·kerZ(pz·qz)·kerY(py·qy)·kerX(px·qx)` -/
def dft3 (Mz My Mx : Nat) (kerZ kerY kerX : Int → C) (a : Nat → Nat → Nat → C) (qz qy qx : Nat) : C :=
  sumRange Mz fun pz => sumRange My fun py => sumRange Mx fun px =>
    a pz py px * (kerZ ((pz : Int) * (qz : Int)) *
      (kerY ((py : Int) * (qy : Int)) * kerX ((px : Int) * (qx : Int))))

def crop3 (Mz Moz My Moy Mx Mox : Nat) (a : Nat → Nat → Nat → C) (kz ky kx : Nat) : C :=
  a (kz + padStart Moz Mz) (ky + padStart Moy My) (kx + padStart Mox Mx)

/-- the centred 3-D FFT core, with or without the two shifts -/
def core3 (shifts : Bool) (Nz Mz Moz Ny My Moy Nx Mx Mox : Nat) (kerZ kerY kerX : Int → C)
    (f : Nat → Nat → Nat → C) : Nat → Nat → Nat → C :=
  if shifts then
    crop3 Mz Moz My Moy Mx Mox (fftshift3 Mz My Mx (dft3 Mz My Mx kerZ kerY kerX
      (ifftshift3 Mz My Mx (pad3 Nz Mz Ny My Nx Mx f))))
  else crop3 Mz Moz My Moy Mx Mox (dft3 Mz My Mx kerZ kerY kerX (pad3 Nz Mz Ny My Nx Mx f))

/-- `Σ` over all index lists `js` with `js[i] < ns[i]` (nested sums, head of the list outermost) -/
def sumOverN : List Nat → (List Nat → C) → C
  | [], F => F []
  | n :: ns, F => sumRange n fun j => sumOverN ns fun idx => F (j :: idx)

end generic

section pipeline
variable {K C : Type} [Zero K] [Add K] [Sub K] [Mul K] [Neg K] [Div K] [NatCast K] [IntCast K]
  [Zero C] [One C] [Add C] [Mul C] [Inv C] [NatCast C]
variable (T E : K → C)

/-! ### three axes, literally -/

/-- `exp(-i·center·u)` on the 3-D output grid -/
def centrePhase3 (gz gy gx : Cfg K C) (kz ky kx : Nat) : C :=
  T (-(gx.centre * gx.a kx + gy.centre * gy.a ky + gz.centre * gz.a kz))
    * E (-(gx.centre * gx.s + gy.centre * gy.s + gz.centre * gz.s))

def emuOut3 (gz gy gx : Cfg K C) (kz ky kx : Nat) : C :=
  if gx.emu then
    T (gx.fShift * gx.aInt (kx + padStart gx.Mo gx.M) + gy.fShift * gy.aInt (ky + padStart gy.Mo gy.M)
        + gz.fShift * gz.aInt (kz + padStart gz.Mo gz.M))
  else 1

def emuIn3 (gz gy gx : Cfg K C) (iz iy ix : Nat) : C :=
  if gx.emu then
    T (gx.fShift * gx.aInt (ix + padStart gx.N gx.M) + gy.fShift * gy.aInt (iy + padStart gy.N gy.M)
        + gz.fShift * gz.aInt (iz + padStart gz.N gz.M))
      * T (-(gx.fShift * gx.aInt 0 + gy.fShift * gy.aInt 0 + gz.fShift * gz.aInt 0))
  else 1

/-- `shift_input` in 3-D: one piston, one grid weight `gz.w·gy.w·gx.w` -/
def outMult3 (gz gy gx : Cfg K C) (kz ky kx : Nat) : C :=
  centrePhase3 T E gz gy gx kz ky kx
    * (centrePhase3 T E gz gy gx (gz.Mo / 2) (gy.Mo / 2) (gx.Mo / 2))⁻¹
    * emuOut3 T gz gy gx kz ky kx * (gz.w * gy.w * gx.w)

/-- `shift_output` in 3-D -/
def inMult3 (gz gy gx : Cfg K C) (iz iy ix : Nat) : C :=
  E (-(gx.s * gx.x ix + gy.s * gy.x iy + gz.s * gz.x iz)) * emuIn3 T gz gy gx iz iy ix

/-- `FastFourierTransform.forward` on a 3-D grid, literally -/
def fastForward3 (gz gy gx : Cfg K C) (f : Nat → Nat → Nat → C) (kz ky kx : Nat) : C :=
  core3 (!gx.emu) gz.N gz.M gz.Mo gy.N gy.M gy.Mo gx.N gx.M gx.Mo (gz.kerF T) (gy.kerF T) (gx.kerF T)
    (fun iz iy ix => f iz iy ix * inMult3 T E gz gy gx iz iy ix) kz ky kx
    * outMult3 T E gz gy gx kz ky kx

/-- the 1-D pipeline along `x`, then along `y`, then along `z` -/
def fastForward3Iter (gz gy gx : Cfg K C) (f : Nat → Nat → Nat → C) (kz ky kx : Nat) : C :=
  fastForward T E gz
    (fun iz => fastForward T E gy (fun iy => fastForward T E gx (f iz iy) kx) ky) kz

/-- the 3-D defining sum:
`Σ_iz Σ_iy Σ_ix f·(wz·wy·wx)·T(-(ax·x + ay·y + az·z))·E(-(sx·x + sy·y + sz·z))` -/
def sumForward3 (gz gy gx : Cfg K C) (f : Nat → Nat → Nat → C) (kz ky kx : Nat) : C :=
  sumRange gz.N fun iz => sumRange gy.N fun iy => sumRange gx.N fun ix =>
    f iz iy ix * (gz.w * gy.w * gx.w) *
      (T (-(gx.a kx * gx.x ix + gy.a ky * gy.x iy + gz.a kz * gz.x iz))
        * E (-(gx.s * gx.x ix + gy.s * gy.x iy + gz.s * gz.x iz)))

/-! ### backward, two and three axes, literally

`ifftn` carries the factor `1/size` of the internal array; the input of `backward` is divided by
the `shift_input` array, the cropped result by the `shift_output` array. -/

-- `fastBackward2`, `fastBackward2Iter`: see Model/FftIndex2b.lean

/-- `FastFourierTransform.backward` on a 3-D grid, literally -/
def fastBackward3 (gz gy gx : Cfg K C) (F : Nat → Nat → Nat → C) (jz jy jx : Nat) : C :=
  (((gz.M * gy.M * gx.M : Nat) : C))⁻¹ *
    core3 (!gx.emu) gz.Mo gz.M gz.N gy.Mo gy.M gy.N gx.Mo gx.M gx.N (gz.kerB T) (gy.kerB T) (gx.kerB T)
      (fun kz ky kx => F kz ky kx * (outMult3 T E gz gy gx kz ky kx)⁻¹) jz jy jx
    * (inMult3 T E gz gy gx jz jy jx)⁻¹

/-- the 1-D backward pipeline along `x`, then along `y`, then along `z` -/
def fastBackward3Iter (gz gy gx : Cfg K C) (F : Nat → Nat → Nat → C) (jz jy jx : Nat) : C :=
  fastBackward T E gz
    (fun kz => fastBackward T E gy (fun ky => fastBackward T E gx (F kz ky) jx) jy) jz

/-- the 3-D backward defining sum; `wz, wy, wx` are the output-grid weights `Δ/(2π)` per axis -/
def sumBackward3 (gz gy gx : Cfg K C) (wz wy wx : C) (F : Nat → Nat → Nat → C) (jz jy jx : Nat) : C :=
  sumRange gz.Mo fun kz => sumRange gy.Mo fun ky => sumRange gx.Mo fun kx =>
    F kz ky kx * (wz * wy * wx) *
      (T (gx.a kx * gx.x jx + gy.a ky * gy.x jy + gz.a kz * gz.x jz)
        * E (gx.s * gx.x jx + gy.s * gy.x jy + gz.s * gz.x jz))

/-! ### `n` axes, iterated -/

/-- The **iterated** forward pipeline on `n` axes: the 1-D `fastForward` applied axis by axis.
Input and output arrays are indexed by lists, entry `i` belonging to axis `gs[i]`. -/
def fastForwardN : List (Cfg K C) → (List Nat → C) → List Nat → C
  | [], f, _ => f []
  | g :: gs, f, k :: ks =>
      fastForward T E g (fun i => fastForwardN gs (fun idx => f (i :: idx)) ks) k
  | _ :: _, _, [] => 0

/-- The **iterated** backward pipeline on `n` axes. -/
def fastBackwardN : List (Cfg K C) → (List Nat → C) → List Nat → C
  | [], F, _ => F []
  | g :: gs, F, j :: js =>
      fastBackward T E g (fun k => fastBackwardN gs (fun idx => F (k :: idx)) js) j
  | _ :: _, _, [] => 0

/-- the grid weight of the `n`-D input grid: the product of the per-axis weights -/
def weightN : List (Cfg K C) → C
  | [] => 1
  | g :: gs => g.w * weightN gs

/-- the weight of the `n`-D output grid `Π Δ_i/(2π)`, the per-axis factor given by `wOut` -/
def weightOutN (wOut : Cfg K C → C) : List (Cfg K C) → C
  | [] => 1
  | g :: gs => wOut g * weightOutN wOut gs

/-- `Σ_i a_i(k_i)·x_i(j_i)`: the turns part of `u·x` -/
def dotA : List (Cfg K C) → List Nat → List Nat → K
  | g :: gs, k :: ks, j :: js => g.a k * g.x j + dotA gs ks js
  | _, _, _ => 0

/-- `Σ_i s_i·x_i(j_i)`: the radians part of `u·x` -/
def dotS : List (Cfg K C) → List Nat → K
  | g :: gs, j :: js => g.s * g.x j + dotS gs js
  | _, _ => 0

/-- the `n`-D defining sum, forward:
`Σ_{js} f(js)·(Π w_i)·T(-Σ a_i(k_i)·x_i(j_i))·E(-Σ s_i·x_i(j_i))` -/
def sumForwardN (gs : List (Cfg K C)) (f : List Nat → C) (ks : List Nat) : C :=
  sumOverN (gs.map fun g => g.N) fun js =>
    f js * weightN gs * (T (-(dotA gs ks js)) * E (-(dotS gs js)))

/-- the `n`-D defining sum, backward:
`Σ_{ks} F(ks)·(Π wOut_i)·T(+Σ a_i(k_i)·x_i(j_i))·E(+Σ s_i·x_i(j_i))` -/
def sumBackwardN (wOut : Cfg K C → C) (gs : List (Cfg K C)) (F : List Nat → C) (js : List Nat) : C :=
  sumOverN (gs.map fun g => g.Mo) fun ks =>
    F ks * weightOutN wOut gs * (T (dotA gs ks js) * E (dotS gs js))

end pipeline
end HcipyVerif.Fft
