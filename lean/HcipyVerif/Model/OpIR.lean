/-!
# C06 — an IR of (semi)linear operator terms over vectors `List K`

Every shipped optical element's `forward`/`backward` is, as the code writes it, built from
pointwise multiplication by a mask, dense matrices (Fourier transforms, filters, projections on
mode bases, per-pixel Jones products), sums, differences, compositions, scalar factors and — for
fibre injection — one complex conjugation of the incoming field.  `Term` is that vocabulary,
`denote` its meaning.  Core Lean only; polymorphic in the scalar through notation classes, so that
the driver runs it at Gaussian rationals (`CRat`) and the theorems (Lemmas/OpIR.lean,
Properties/C06.lean) hold over any commutative ring with a ring involution `cj`.
-/
namespace HcipyVerif.OpIR

/-- Pointwise sum (truncates to the shorter list, like `zip`). -/
def vadd {K} [Add K] (x y : List K) : List K := List.zipWith (· + ·) x y
/-- Pointwise difference. -/
def vsub {K} [Sub K] (x y : List K) : List K := List.zipWith (· - ·) x y
/-- Scalar multiple. -/
def smul {K} [Mul K] (a : K) (x : List K) : List K := x.map (a * ·)
/-- Pointwise product with a mask. -/
def vmul {K} [Mul K] (m x : List K) : List K := List.zipWith (· * ·) m x

/-- Row times vector. -/
def dot {K} [Add K] [Mul K] [Zero K] : List K → List K → K
  | r :: rs, x :: xs => r * x + dot rs xs
  | _, _ => 0

/-- Operator terms. -/
inductive Term (K : Type) where
  /-- the identity -/
  | id : Term K
  /-- the zero map into `K^n` -/
  | zero (n : Nat) : Term K
  /-- pointwise multiplication by a field (apodizers, phase screens, mirrors, masks, stops) -/
  | mulField (a : List K) : Term K
  /-- a dense matrix given by rows (Fourier transforms, filters, projections, interpolation,
      per-pixel tensor products) -/
  | matrix (rows : List (List K)) : Term K
  | add (s t : Term K) : Term K
  | sub (s t : Term K) : Term K
  /-- `comp s t` is `s` after `t` -/
  | comp (s t : Term K) : Term K
  | scale (c : K) (t : Term K) : Term K
  /-- complex conjugation of the field (`wavefront.electric_field.conj()` in fibre injection) -/
  | conj : Term K
  deriving Repr

/-- Meaning of a term; `cj` is the conjugation of the scalar type. -/
def denote {K} [Add K] [Sub K] [Mul K] [Zero K] (cj : K → K) : Term K → List K → List K
  | .id, x => x
  | .zero n, _ => List.replicate n 0
  | .mulField a, x => vmul a x
  | .matrix rows, x => rows.map (fun r => dot r x)
  | .add s t, x => vadd (denote cj s x) (denote cj t x)
  | .sub s t, x => vsub (denote cj s x) (denote cj t x)
  | .comp s t, x => denote cj s (denote cj t x)
  | .scale c t, x => smul c (denote cj t x)
  | .conj, x => x.map cj

/-- A polarised field (2 components for a Jones-vector field, 4 for a Jones-matrix field) is stored
component after component; elements without polarisation optics act on each component as on a
scalar field: `denoteBlocks cj t n r x` applies `t` to each of the `r` consecutive chunks of length
`n` of `x`. -/
def denoteBlocks {K} [Add K] [Sub K] [Mul K] [Zero K] (cj : K → K) (t : Term K) (n : Nat) : Nat → List K → List K
  | 0, _ => []
  | r + 1, x => denote cj t (x.take n) ++ denoteBlocks cj t n r (x.drop n)

/-- Change of scalars, entry by entry (used to transport a run of the driver, which computes with
`CDy`, to `ℂ`: `Lemmas/OpIR.lean: denote_map`). -/
def Term.map {K L : Type} (f : K → L) : Term K → Term L
  | .id => .id
  | .zero n => .zero n
  | .mulField a => .mulField (a.map f)
  | .matrix rows => .matrix (rows.map (fun r => r.map f))
  | .add s t => .add (s.map f) (t.map f)
  | .sub s t => .sub (s.map f) (t.map f)
  | .comp s t => .comp (s.map f) (t.map f)
  | .scale c t => .scale (f c) (t.map f)
  | .conj => .conj

/-- Parity of a term: `some false` = linear, `some true` = conjugate-linear, `none` = a sum of a
linear and a conjugate-linear part (neither).  Computed structurally, never by evaluation. -/
def parity {K} : Term K → Option Bool
  | .id => some false
  | .zero _ => some false
  | .mulField _ => some false
  | .matrix _ => some false
  | .add s t => match parity s, parity t with
    | some a, some b => if a = b then some a else none
    | _, _ => none
  | .sub s t => match parity s, parity t with
    | some a, some b => if a = b then some a else none
    | _, _ => none
  | .comp s t => match parity s, parity t with
    | some a, some b => some (a != b)
    | _, _ => none
  | .scale _ t => parity t
  | .conj => some true

/-- The factor a scalar `a` comes out with: `a` itself or its conjugate. -/
def twist {K} (cj : K → K) (b : Bool) (a : K) : K := if b then cj a else a

/-! ## Gaussian rationals: the scalar type the driver computes with -/

structure CRat where
  re : Rat
  im : Rat
  deriving DecidableEq, Repr

namespace CRat
instance : Add CRat := ⟨fun a b => ⟨a.re + b.re, a.im + b.im⟩⟩
instance : Sub CRat := ⟨fun a b => ⟨a.re - b.re, a.im - b.im⟩⟩
instance : Mul CRat := ⟨fun a b => ⟨a.re * b.re - a.im * b.im, a.re * b.im + a.im * b.re⟩⟩
instance : Zero CRat := ⟨⟨0, 0⟩⟩
def conj (a : CRat) : CRat := ⟨a.re, -a.im⟩
end CRat

/-! ## Gaussian dyadic rationals: the scalar type the driver computes with on floats

Every float is a dyadic rational `m / 2^e`.  `Dy` keeps that form un-normalised (no gcd per
operation, which is what makes `Rat` slow on dense matrices); `Dy.toRat` is its value, and
`Lemmas/OpIR.lean` proves that `+`, `-`, `*`, `0` on `Dy` are those of `Rat` under `toRat`
(`Dy.toRat_add`, `Dy.toRat_sub`, `Dy.toRat_mul`, `Dy.toRat_zero`), likewise for `CDy` and `CRat`. -/

structure Dy where
  m : Int
  e : Nat
  deriving Repr

namespace Dy
/-- numerator of `a` over the denominator `2^e` (for `e ≥ a.e`). -/
def align (a : Dy) (e : Nat) : Int := a.m * (((2 : Nat) ^ (e - a.e) : Nat) : Int)
instance : Add Dy := ⟨fun a b => ⟨a.align (max a.e b.e) + b.align (max a.e b.e), max a.e b.e⟩⟩
instance : Sub Dy := ⟨fun a b => ⟨a.align (max a.e b.e) - b.align (max a.e b.e), max a.e b.e⟩⟩
instance : Mul Dy := ⟨fun a b => ⟨a.m * b.m, a.e + b.e⟩⟩
instance : Zero Dy := ⟨⟨0, 0⟩⟩
def neg (a : Dy) : Dy := ⟨-a.m, a.e⟩
def toRat (a : Dy) : Rat := mkRat a.m (2 ^ a.e)
/-- a rational whose (reduced) denominator is a power of two. -/
def ofRat? (q : Rat) : Option Dy :=
  let e := Nat.log2 q.den
  if 2 ^ e = q.den then some ⟨q.num, e⟩ else none
end Dy

structure CDy where
  re : Dy
  im : Dy
  deriving Repr

namespace CDy
instance : Add CDy := ⟨fun a b => ⟨a.re + b.re, a.im + b.im⟩⟩
instance : Sub CDy := ⟨fun a b => ⟨a.re - b.re, a.im - b.im⟩⟩
instance : Mul CDy := ⟨fun a b => ⟨a.re * b.re - a.im * b.im, a.re * b.im + a.im * b.re⟩⟩
instance : Zero CDy := ⟨⟨0, 0⟩⟩
def conj (a : CDy) : CDy := ⟨a.re, a.im.neg⟩
def toCRat (a : CDy) : CRat := ⟨a.re.toRat, a.im.toRat⟩
end CDy

/-! ## A map that is *not* in the IR: input-dependent selection

"Only propagate what this input excites": keep the components that carry more than a fraction `θ`
of this input's total power, drop the others.  It commutes with scalar factors, so it passes every
test that uses one input at a time or inputs of comparable size, but it is not additive
(Properties/C06.lean: `keepExcited_homogeneous`, `keepExcited_not_additive`).  No `Term` denotes
it; the harness therefore probes additivity with terms of very different magnitude.

Namespace `Old`: this is the model of a *defect class* (seeded defect C06-2), not of code that exists
in /repo; no driver op runs it and the theorems about it are documentation of why the wide-magnitude
probe exists, not evidence about hcipy. -/
namespace Old

def sumsq (x : List Rat) : Rat := (x.map (fun c => c * c)).sum

def keepExcited (θ : Rat) (x : List Rat) : List Rat :=
  x.map (fun c => if θ * sumsq x < c * c then c else 0)

end Old

end HcipyVerif.OpIR
