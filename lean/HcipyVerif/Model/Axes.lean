/-!
# ZoomFastFourierTransform — axis bookkeeping, executable, core Lean only

`ZoomFastFourierTransform.forward/backward` loop over the grid dimensions; the `ChirpZTransform`
acts on the LAST axis of its argument.  `f` starts as `field.shaped`: the tensor axes (rank `r`)
followed by the grid axes in *shape* order, so the grid axis with dims-index `d` sits at position
`r + (ndim-1-d)`.  `czts[i]` belongs to dims-index `i`.

* `zoomLoopOld` — the code as it stands: `moveaxis(f, -i, 0); czt; moveaxis(f, -i, 0)`;
* `zoomLoop`    — the repair: `moveaxis(f, -i-1, -1); czt; moveaxis(f, -1, -i-1)`.

Both return the labels of the axis transformed at each iteration and the final layout.
-/
namespace HcipyVerif.Axes

/-- axis labels: tensor axis `i`, grid axis with dims-index `d` (`g 0` is x) -/
inductive Ax where
  | t (i : Nat)
  | g (d : Nat)
deriving DecidableEq, Repr

/-- NumPy `normalize_axis_index` (total: out-of-range indices are caught in `moveaxis`) -/
def normIdx (n : Nat) (i : Int) : Nat := if i < 0 then (i + (n : Int)).toNat else i.toNat

/-- the axis index is legal for `n` dimensions: `-n ≤ i < n` -/
def axisOk (n : Nat) (i : Int) : Bool := decide (-(n : Int) ≤ i) && decide (i < (n : Int))

/-- `np.moveaxis(a, src, dst)` on the list of axis labels: remove the label at `src`, insert it at
position `dst` of the result.  NumPy raises `AxisError` for an out-of-range axis; the model returns
the list unchanged. -/
def moveaxis {α : Type} (l : List α) (src dst : Int) : List α :=
  let s := normIdx l.length src
  let d := normIdx l.length dst
  if axisOk l.length src && axisOk l.length dst then
    match l[s]? with
    | none => l
    | some a => (l.eraseIdx s).insertIdx d a
  else l

/-- `field.shaped` layout: `t 0, …, t (r-1), g (ndim-1), …, g 0` -/
def initLayout (r ndim : Nat) : List Ax :=
  (List.range r).map Ax.t ++ (List.range ndim).reverse.map Ax.g

/-- one iteration of the repaired loop: the axis the CZT acts on, and the layout afterwards -/
def zoomStep (l : List Ax) (i : Nat) : List Ax × List Ax :=
  let l1 := moveaxis l (-(i : Int) - 1) (-1)
  (l1.getLast?.toList, moveaxis l1 (-1) (-(i : Int) - 1))

/-- one iteration of the current code -/
def zoomStepOld (l : List Ax) (i : Nat) : List Ax × List Ax :=
  let l1 := moveaxis l (-(i : Int)) 0
  (l1.getLast?.toList, moveaxis l1 (-(i : Int)) 0)

/-- run `step` for `i = 0, …, ndim-1`, collecting the transformed axes -/
def runLoop (step : List Ax → Nat → List Ax × List Ax) (l : List Ax) (ndim : Nat) :
    List Ax × List Ax :=
  (List.range ndim).foldl (fun (acc : List Ax × List Ax) i =>
    let (hit, l') := step acc.2 i
    (acc.1 ++ hit, l')) ([], l)

/-- the repaired loop: (axes transformed at iterations `0..ndim-1`, final layout) -/
def zoomLoop (r ndim : Nat) : List Ax × List Ax := runLoop zoomStep (initLayout r ndim) ndim

/-- the loop as currently written in hcipy -/
def zoomLoopOld (r ndim : Nat) : List Ax × List Ax := runLoop zoomStepOld (initLayout r ndim) ndim

/-- what a correct loop must return -/
def zoomExpected (r ndim : Nat) : List Ax × List Ax :=
  ((List.range ndim).map Ax.g, initLayout r ndim)

end HcipyVerif.Axes
