import HcipyVerif.Model.GridOps

/-!
# C10 — sharing at the level of the `Coords` object

A `Grid` never copies the `Coords` object it is given: `CartesianGrid(g.coords)`, `PolarGrid(g.coords)`,
two grids built by the caller on one `Coords` object, and the caller itself all hold the *same* object.
Whatever changes it — `scale` / `shift` / `reverse` of any holder (`self.coords *= …` returns the same
object), `coords *= 2` by the caller, an in-place edit of an array handed out by `grid.separated_coords` /
`grid.coords[i]` — is seen by every holder at once.  `==` and `hash` read the coordinates when they are
called, so they follow.  `SWorld` adds exactly that to the value store: every grid slot names the `Coords`
cell it holds; an operation that writes through the cell is propagated to all holders (`shareCoords`).
Weights are per grid and do not travel.
-/
namespace HcipyVerif.Grid
open HcipyVerif.Proto

structure SWorld where
  world : World := {}
  /-- the `Coords` object (cell id) every grid slot holds -/
  cell : List Nat := []
  /-- next unused cell id -/
  next : Nat := 0

/-- every grid that holds the `Coords` object `c` now reads the coordinates `co` -/
def shareCoords (grids : Store) (cell : List Nat) (c : Nat) (co : Coords) : Store :=
  grids.mapIdx fun j h => if cell[j]? = some c then { h with coords := co } else h

/-- grids on one `Coords` object read the same coordinates -/
def Coherent (grids : Store) (cell : List Nat) : Prop :=
  ∀ (j k : Nat) (g h : Grid), cell[j]? = cell[k]? → cell[j]? ≠ none → grids[j]? = some g → grids[k]? = some h → g.coords = h.coords

/-- slot `i` wrote through its `Coords` object: all holders of that object follow -/
def SWorld.propagate (s : SWorld) (i : Nat) : SWorld :=
  match s.world.grids[i]?, s.cell[i]? with
  | some g, some c => { s with world := { s.world with grids := shareCoords s.world.grids s.cell c g.coords } }
  | _, _ => s

/-- new slots (constructors, copies, `scaled`, … — all deep copies) hold fresh `Coords` objects; the list of cells always
has one entry per grid slot -/
def SWorld.sync (s : SWorld) : SWorld :=
  let n := s.world.grids.length
  { s with cell := s.cell.take n ++ List.range' s.next (n - s.cell.length), next := s.next + (n - s.cell.length) }

/-- requests that bind a *new* `Coords` object to the slot they change (`self.coords = …`: `rotate`; `set` replaces the object) -/
def isRebind : List String → Bool
  | op :: _ => decide (op ∈ ["rotate", "set"])
  | _ => false

/-- the existing slot a request of the value store changed (at most one: `world_frame`) -/
def changedSlot (old new : Store) : Option Nat :=
  (List.range old.length).find? fun j => decide (new[j]? ≠ old[j]?)

/-- slot `i` now holds a new `Coords` object of its own -/
def SWorld.rebind (s : SWorld) (i : Nat) : SWorld := { s with cell := s.cell.set i s.next, next := s.next + 1 }

/-- a write to the `Coords` object itself (not through a grid's API: no weight bookkeeping) -/
def coordsEdit : List String → Option (Coords → Coords)
  | ["cscale", f] => (parseRatList? f).map Coords.scale
  | ["cshift", b] => (parseRatList? b).map Coords.shift
  | ["creverse"] => some Coords.reverse
  | _ => none

/-- `Grid(g.coords)`: a new grid (no weights) on the `Coords` object grid `i` holds -/
def SWorld.on (s : SWorld) (i : Nat) (sys : System) : Option SWorld :=
  match s.world.grids[i]?, s.cell[i]? with
  | some g, some c =>
    some { s with world := { s.world with grids := s.world.grids.push { system := sys, coords := g.coords, weights := .none } },
                  cell := s.cell ++ [c] }
  | _, _ => none

/-- the `Coords` object grid `i` holds is changed directly: every holder reads the new coordinates -/
def SWorld.cedit (s : SWorld) (i : Nat) (f : Coords → Coords) : Option SWorld :=
  match s.world.grids[i]?, s.cell[i]? with
  | some g, some c => some { s with world := { s.world with grids := shareCoords s.world.grids s.cell c (f g.coords) } }
  | _, _ => none

/-- One request: `on i sys` builds a grid (no weights) on the `Coords` object of grid `i`;
`cedit i cscale|cshift|creverse …` changes the `Coords` object grid `i` holds directly (the caller's
`coords *= f`, an edit of an accessor's array); `cells` lists the cell ids; everything else is
`stepWorld`; the slot it changed (if any) either gets a `Coords` object of its own (`rotate`, `set`) or
wrote through its object (`scale`, `shift`, `reverse`, … — `self.coords *= …` returns the same object), and
then every holder of that object follows. -/
def stepShare (s : SWorld) : List String → Option (SWorld × String)
  | ["reset"] => some ({}, "ok")
  | ["cells"] => some (s, "ok " ++ ",".intercalate (s.cell.map toString))
  | ["on", i, sys] => do
    let i ← parseNat? i; let sys ← parseSys? sys
    match s.on i sys with
    | some s' => pure (s', s!"ok {s.world.grids.length}")
    | none => pure (s, "err noobj")
  | "cedit" :: i :: rest => do
    let i ← parseNat? i; let f ← coordsEdit rest
    match s.cedit i f with
    | some s' => pure (s', "ok")
    | none => pure (s, "err noobj")
  | toks => (stepWorld s.world toks).map fun r =>
    let s1 := ({ s with world := r.1 }).sync
    match changedSlot s.world.grids r.1.grids with
    | some i => (if isRebind toks then s1.rebind i else s1.propagate i, r.2)
    | none => (s1, r.2)

/-- what the driver holds true of its state: one cell per slot, cell ids below `next`, grids on one `Coords` object read
the same coordinates -/
structure SWorld.Inv (s : SWorld) : Prop where
  len : s.cell.length = s.world.grids.length
  lt : ∀ c ∈ s.cell, c < s.next
  coh : Coherent s.world.grids s.cell

end HcipyVerif.Grid
