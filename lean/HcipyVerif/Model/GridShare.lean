import HcipyVerif.Model.GridOps

/-!
# C10 — sharing at the level of the `Coords` object

A `Grid` never copies the `Coords` object it is given: `CartesianGrid(g.coords)`, `PolarGrid(g.coords)`,
two grids built by the caller on one `Coords` object, and the caller itself all hold the *same* object.
Whatever changes it — `scale` / `shift` / `reverse` of any holder (`self.coords *= …` returns the same
object), `coords *= 2` by the caller, an in-place edit of an array handed out by `grid.separated_coords` /
`grid.coords[i]` — is seen by every holder at once.  `==` and `hash` read the coordinates when they are
called, so they follow.  `SWorld` adds exactly that to the value store: every grid slot names the `Coords`
cell it holds; an operation that writes through the cell is propagated to all holders (`shareCoords`).
Weights are per grid and do not travel.
-/
namespace HcipyVerif.Grid
open HcipyVerif.Proto

structure SWorld where
  world : World := {}
  /-- the `Coords` object (cell id) every grid slot holds -/
  cell : List Nat := []
  /-- next unused cell id -/
  next : Nat := 0

/-- every grid that holds the `Coords` object `c` now reads the coordinates `co` -/
def shareCoords (grids : Store) (cell : List Nat) (c : Nat) (co : Coords) : Store :=
  grids.mapIdx fun j h => if cell[j]? = some c then { h with coords := co } else h

/-- grids on one `Coords` object read the same coordinates -/
def Coherent (grids : Store) (cell : List Nat) : Prop :=
  ∀ (j k : Nat) (g h : Grid), cell[j]? = cell[k]? → cell[j]? ≠ none → grids[j]? = some g → grids[k]? = some h → g.coords = h.coords

/-- slot `i` wrote through its `Coords` object: all holders of that object follow -/
def SWorld.propagate (s : SWorld) (i : Nat) : SWorld :=
  match s.world.grids[i]?, s.cell[i]? with
  | some g, some c => { s with world := { s.world with grids := shareCoords s.world.grids s.cell c g.coords } }
  | _, _ => s

/-- new slots (constructors, copies, `scaled`, … — all deep copies) hold fresh `Coords` objects -/
def SWorld.sync (s : SWorld) : SWorld :=
  let k := s.world.grids.length - s.cell.length
  { s with cell := s.cell ++ List.range' s.next k, next := s.next + k }

/-- requests of the value store that write *through* the `Coords` object of slot `i` -/
def coordsInplaceSlot : List String → Option Nat
  | op :: i :: _ => if op ∈ ["scale", "shift", "shiftf", "reverse", "protate"] then parseNat? i else none
  | _ => none

/-- requests that bind a *new* `Coords` object to slot `i` (`self.coords = …`) -/
def rebindSlot : List String → Option Nat
  | op :: i :: _ => if op ∈ ["rotate", "set"] then parseNat? i else none
  | _ => none

/-- a write to the `Coords` object itself (not through a grid's API: no weight bookkeeping) -/
def coordsEdit : List String → Option (Coords → Coords)
  | ["cscale", f] => (parseRatList? f).map Coords.scale
  | ["cshift", b] => (parseRatList? b).map Coords.shift
  | ["creverse"] => some Coords.reverse
  | _ => none

/-- One request: `on i sys` builds a grid (no weights) on the `Coords` object of grid `i`;
`cscale|cshift|creverse i …` change the `Coords` object grid `i` holds directly (the caller's
`coords *= f`, an edit of an accessor's array); `cells` lists the cell ids; everything else is
`stepWorld`, followed by the propagation to all holders when the request writes through a cell. -/
def stepShare (s : SWorld) : List String → Option (SWorld × String)
  | ["reset"] => some ({}, "ok")
  | ["cells"] => some (s, "ok " ++ ",".intercalate (s.cell.map toString))
  | ["on", i, sys] => do
    let i ← parseNat? i; let sys ← parseSys? sys
    match s.world.grids[i]?, s.cell[i]? with
    | some g, some c =>
      pure ({ s with world := { s.world with grids := s.world.grids.push { system := sys, coords := g.coords, weights := .none } },
                     cell := s.cell ++ [c] }, s!"ok {s.world.grids.length}")
    | _, _ => pure (s, "err noobj")
  | "cedit" :: i :: rest => do
    let i ← parseNat? i; let f ← coordsEdit rest
    match s.world.grids[i]?, s.cell[i]? with
    | some g, some c =>
      pure ({ s with world := { s.world with grids := shareCoords s.world.grids s.cell c (f g.coords) } }, "ok")
    | _, _ => pure (s, "err noobj")
  | toks => (stepWorld s.world toks).map fun r =>
    let s1 := ({ s with world := r.1 }).sync
    match coordsInplaceSlot toks, rebindSlot toks with
    | some i, _ => (s1.propagate i, r.2)
    | none, some i => ({ s1 with cell := s1.cell.set i s1.next, next := s1.next + 1 }, r.2)
    | none, none => (s1, r.2)

end HcipyVerif.Grid
