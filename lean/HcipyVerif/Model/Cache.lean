/-!
# C05 — model of `AgnosticOpticalElement`'s instance cache (hcipy/optics/optical_element.py)

Core Lean only.  The main definitions model the code *after* the proposed repair
`pending_fixes/D3-agnostic-cache-partial-keys.diff`:

* lookup consults only the key of the request itself (`_get_cache_keys(...)[:1]`), never the
  partial keys of a request that names both grids;
* after the grids have been resolved (`get_input_grid` / `get_output_grid`) the *full* key is
  consulted; a hit there registers the request key as an alias of that instance;
* a new instance is registered under its full key and the request key;
* eviction removes the oldest dictionary entry and every other entry that refers to the same
  instance object (`v is value`), instead of popping `len(keys)` entries.

The behaviour of the unrepaired code (no longer in /repo) is kept, as documentation only, in
`Lemmas/CacheOld.lean` (`namespace HcipyVerif.Cache.Old`); it is not part of the C05 evidence.

Grids are represented by small ids standing for their hashes, wavelengths by ids standing for the
log-rounded wavelength key (`int(round(log λ / log(1+1e-9)))`; the float formula is not modelled).
An element is `(grid_dependent, wavelength_dependent, max_in_cache, get_input_grid,
get_output_grid)`; the two grid functions may depend on the parameter version (setters change
them, e.g. `Magnifier.magnification`) and on the wavelength.  An instance is identified with what
it was made for: the full key (its declared dependencies), the parameter version current at its
creation, and an identity (creation counter, standing for Python object identity).
-/
namespace HcipyVerif.Cache

abbrev GridId := Nat
abbrev WlKey := Nat

structure Key where
  i : Option GridId
  o : Option GridId
  w : Option WlKey
deriving DecidableEq, Repr

structure Inst where
  /-- the full key the instance was made for -/
  key : Key
  /-- parameter version at creation -/
  ver : Nat
  /-- object identity (creation counter) -/
  id : Nat
deriving DecidableEq, Repr

structure Elem where
  gridDep : Bool
  wlDep : Bool
  maxN : Nat
  /-- `get_input_grid(output_grid, wavelength)` at a parameter version; `none` = Python `None` -/
  getIn : Nat → Option WlKey → GridId → Option GridId
  /-- `get_output_grid(input_grid, wavelength)` -/
  getOut : Nat → Option WlKey → GridId → Option GridId

inductive Err
  | value   -- ValueError of `_get_cache_keys`
  | key     -- KeyError of `popitem` on an empty dict
deriving DecidableEq, Repr

/-- First element of `_get_cache_keys(input_grid, output_grid, wavelength)`: the key of the request
itself.  `none` models the two `ValueError` branches. -/
def reqKey (e : Elem) (i o : Option GridId) (w : Option WlKey) : Option Key :=
  let g : Option (Option GridId × Option GridId) :=
    if e.gridDep then (if i.isNone && o.isNone then none else some (i, o)) else some (none, none)
  let wk : Option (Option WlKey) :=
    if e.wlDep then (match w with | none => none | some k => some (some k)) else some none
  match g, wk with
  | some (a, b), some k => some ⟨a, b, k⟩
  | _, _ => none

/-- "Try to guess input and output grid." -/
def resolve (e : Elem) (ver : Nat) (i o : Option GridId) (w : Option WlKey) :
    Option GridId × Option GridId :=
  let i' := match i with | some a => some a | none => o.bind (e.getIn ver w)
  let o' := match o with | some b => some b | none => i'.bind (e.getOut ver w)
  (i', o')

/-- The key of the instance a request leads to (both grids resolved). -/
def fullKey (e : Elem) (ver : Nat) (i o : Option GridId) (w : Option WlKey) : Option Key :=
  reqKey e (resolve e ver i o w).1 (resolve e ver i o w).2 w

structure St where
  /-- `_instance_data_cache` (OrderedDict), oldest entry first -/
  cache : List (Key × Inst)
  /-- `_num_in_cache` -/
  num : Nat
  /-- parameter version (bumped by every public setter) -/
  ver : Nat
  /-- number of instances created so far (next identity) -/
  next : Nat
deriving Repr

/-- A freshly constructed element with the parameters of version `ver`. -/
def St.init (ver : Nat) : St := { cache := [], num := 0, ver := ver, next := 0 }

/-- `clear_cache()` -/
def St.clear (s : St) : St := { s with cache := [], num := 0 }

/-- A public property setter: stores the new value (version bump) and calls `clear_cache()`. -/
def St.setParam (s : St) : St := { s with cache := [], num := 0, ver := s.ver + 1 }

/-- The mutant "setter without `clear_cache()`" (for the proved counterexample only; no driver op
runs a `Mutant.*` definition and none is evidence about /repo). -/
def Mutant.setParamNoClear (s : St) : St := { s with ver := s.ver + 1 }

def lookup (cache : List (Key × Inst)) (k : Key) : Option Inst :=
  (cache.find? (fun p => p.1 = k)).map (·.2)

/-- dict assignment `d[k] = v`: in place if the key is present, appended otherwise -/
def assign (cache : List (Key × Inst)) (k : Key) (v : Inst) : List (Key × Inst) :=
  if cache.any (fun p => p.1 = k) then cache.map (fun p => if p.1 = k then (k, v) else p)
  else cache ++ [(k, v)]

/-- The eviction part of `_add_to_cache`: when full, pop the oldest entry and delete every other
entry whose value is the same object. -/
def evict (e : Elem) (s : St) : Except Err St :=
  if s.num = e.maxN then
    match s.cache with
    | [] => .error .key
    | (_, v) :: rest =>
      .ok { s with cache := rest.filter (fun p => p.2.id != v.id), num := s.num - 1 }
  else .ok s

/-- `_add_to_cache(instance_data, cache_keys)` -/
def addToCache (e : Elem) (s : St) (inst : Inst) (keys : List Key) : Except Err St :=
  match evict e s with
  | .error err => .error err
  | .ok s' =>
    .ok { s' with cache := keys.foldl (fun c k => assign c k inst) s'.cache, num := s'.num + 1 }

/-- Which branch of `get_instance_data` answered (observable through the cache contents). -/
inductive How
  | hitRequest | hitFull | created
deriving DecidableEq, Repr

/-- `get_instance_data(input_grid, output_grid, wavelength)` (repaired). -/
def getInstanceDataHow (e : Elem) (s : St) (i o : Option GridId) (w : Option WlKey) :
    Except Err (St × Inst × How) :=
  match reqKey e i o w with
  | none => .error .value
  | some k1 =>
    match lookup s.cache k1 with
    | some v => .ok (s, v, .hitRequest)
    | none =>
      match fullKey e s.ver i o w with
      | none => .error .value
      | some k2 =>
        match lookup s.cache k2 with
        | some v => .ok ({ s with cache := assign s.cache k1 v }, v, .hitFull)
        | none =>
          let inst : Inst := ⟨k2, s.ver, s.next⟩
          match addToCache e s inst [k2, k1] with
          | .error err => .error err
          | .ok s' => .ok ({ s' with next := s.next + 1 }, inst, .created)

def getInstanceData (e : Elem) (s : St) (i o : Option GridId) (w : Option WlKey) :
    Except Err (St × Inst) :=
  match getInstanceDataHow e s i o w with
  | .error err => .error err
  | .ok (s', v, _) => .ok (s', v)

/-! ### Histories -/

inductive Op
  /-- forward: `req (some a) none w`; backward: `req none (some b) w`; attribute access with both
  grids: `req (some a) (some b) w` -/
  | req (i o : Option GridId) (w : Option WlKey)
  | clear
  | set
deriving DecidableEq, Repr

/-- What the caller can observe of a step: which instance *content* it was handed. -/
inductive Resp
  | inst (key : Key) (ver : Nat)
  | error (err : Err)
  | done
deriving DecidableEq, Repr

def step (e : Elem) (s : St) : Op → St × Resp
  | .req i o w =>
    match getInstanceData e s i o w with
    | .ok (s', v) => (s', .inst v.key v.ver)
    | .error err => (s, .error err)
  | .clear => (s.clear, .done)
  | .set => (s.setParam, .done)

def run (e : Elem) : St → List Op → List Resp
  | _, [] => []
  | s, op :: ops => (step e s op).2 :: run e (step e s op).1 ops

/-- The specification: every request is answered by a *freshly constructed* element that has the
current parameters and sees this request alone. -/
def specRun (e : Elem) : Nat → List Op → List Resp
  | _, [] => []
  | ver, .req i o w :: ops => (step e (St.init ver) (.req i o w)).2 :: specRun e ver ops
  | ver, .clear :: ops => .done :: specRun e ver ops
  | ver, .set :: ops => .done :: specRun e (ver + 1) ops

/-! ### Parameter values behind the version counter

`St.ver` counts the public setters called; what an instance is *built from* is the value the parameter had at the
version at which the instance was created.  A value, as the caller holds it, is an object (identity), its content at
the time of the call, and its kind (constant / function of the grid / of the wavelength / of both: what `callable()`,
`evaluate_parameter` and the elements' own `__init__` look at).  The setters in /repo store whatever they are given and
always call `clear_cache()`: neither the identity of the object nor the kind of the previous value matters
(driver ops `pnew` / `pset` / `preq`). -/

structure PVal where
  /-- identity of the object handed to the constructor / setter -/
  obj : Nat
  /-- its content at the time of the call -/
  content : Nat
  /-- 0 constant, 1 function of the grid, 2 of the wavelength, 3 of both -/
  kind : Nat
deriving DecidableEq, Repr, Inhabited

structure PSt where
  st : St
  /-- the values of all parameter versions, newest first: version `v` stands for `vals[vals.length - 1 - v]` -/
  vals : List PVal
deriving Repr

/-- An element constructed with value `v`. -/
def PSt.init (v : PVal) : PSt := ⟨St.init 0, [v]⟩

/-- The value the element holds now. -/
def PSt.stored (p : PSt) : PVal := p.vals.headD default

/-- The value an instance created at parameter version `ver` was built from. -/
def builtFrom (vals : List PVal) (ver : Nat) : PVal := vals.getD (vals.length - 1 - ver) default

inductive POp
  | req (i o : Option GridId) (w : Option WlKey)
  | clear
  | set (v : PVal)
deriving DecidableEq, Repr

inductive PResp
  /-- the request was answered by an instance for `key` built from value `v` -/
  | built (key : Key) (v : PVal)
  | error (err : Err)
  | done
deriving DecidableEq, Repr

def POp.toOp : POp → Op
  | .req i o w => .req i o w
  | .clear => .clear
  | .set _ => .set

def PResp.ofResp (val : Nat → PVal) : Resp → PResp
  | .inst k ver => .built k (val ver)
  | .error err => .error err
  | .done => .done

/-- One step of an element that has a parameter: the cache step, and the setter stores the value it is given. -/
def pstep (e : Elem) (p : PSt) (op : POp) : PSt × PResp :=
  let r := step e p.st op.toOp
  let vals := match op with
    | .set v => v :: p.vals
    | _ => p.vals
  (⟨r.1, vals⟩, PResp.ofResp (builtFrom vals) r.2)

def prun (e : Elem) : PSt → List POp → List PResp
  | _, [] => []
  | p, op :: ops => (pstep e p op).2 :: prun e (pstep e p op).1 ops

/-- The specification: every request is answered by a freshly constructed element that was given the value the
shared element holds now (content and kind as they are now, whatever object carries them). -/
def pspec (e : Elem) : PVal → Nat → List POp → List PResp
  | _, _, [] => []
  | cur, ver, .req i o w :: ops =>
    PResp.ofResp (fun _ => cur) (step e (St.init ver) (.req i o w)).2 :: pspec e cur ver ops
  | cur, ver, .clear :: ops => .done :: pspec e cur ver ops
  | _, ver, .set v :: ops => .done :: pspec e v (ver + 1) ops

/-- The setter: stores the value and calls `clear_cache()` (`pstep` on `.set v`, state part). -/
def PSt.set' (p : PSt) (v : PVal) : PSt := ⟨p.st.setParam, v :: p.vals⟩

/-- Mutant (seeded regression C08-11 and its class): a setter that returns early -- no `clear_cache()` -- when it is
handed the object it already holds; the caller has edited that object in place. -/
def Mutant.psetSkipSameObject (p : PSt) (v : PVal) : PSt :=
  if v.obj = p.stored.obj then ⟨p.st, v :: p.vals.tail⟩ else ⟨p.st.setParam, v :: p.vals⟩

/-- Mutant (seeded regression C09-10 and its class): the kind of the value is decided once, at construction; instances
are built from the current content treated as the kind the *first* value had. -/
def Mutant.builtFromKindAtInit (vals : List PVal) (ver : Nat) : PVal :=
  { builtFrom vals ver with kind := (builtFrom vals 0).kind }

/-! ### Grids: coordinates *and* weights

`Grid.__eq__` / `Grid.__hash__` look at the coordinates only (C10), but what `make_instance` builds
generally depends on the weights too (every Fourier transform does).  A grid is therefore a pair of ids
(coordinates, weights) and the `GridId` under which the cache sees it is `_get_grid_key(grid)`, a digest of
`hash(grid)` *and* the weights (repair `pending_fixes/D505-agnostic-cache-key-weights.diff`).  The driver
ops `req`/`reqc` receive grids as `<coord>.<weights>` and run `gridKey` on them. -/

structure Grid where
  /-- id standing for the coordinates (what `__eq__`/`__hash__` cover) -/
  coord : Nat
  /-- id standing for the weights (shape and values) -/
  weights : Nat
deriving DecidableEq, Repr

/-- An injective pairing of two naturals (the definition of Mathlib's `Nat.pair`). -/
def pair (a b : Nat) : Nat := if a < b then b * b + a else a * a + a + b

/-- `_get_grid_key(grid)`: the part of a cache key that stands for a grid. -/
def gridKey (g : Grid) : GridId := pair g.coord g.weights

/-- The unrepaired key part `hash(grid)`: coordinates only (for the proved counterexample; no driver op
runs a `Mutant.*` definition). -/
def Mutant.gridKeyCoords (g : Grid) : GridId := g.coord

/-- Histories on actual grids. -/
inductive OpG
  | req (i o : Option Grid) (w : Option WlKey)
  | clear
  | set
deriving DecidableEq, Repr

/-- What the cache sees of a history, for a given key function. -/
def OpG.toOp (gk : Grid → GridId) : OpG → Op
  | .req i o w => .req (i.map gk) (o.map gk) w
  | .clear => .clear
  | .set => .set

/-! ### What `make_instance` reads, and what the key retains

The cache model identifies an instance with its key: `Content.make : Key → Nat → α`.  That is sound only if
`make_instance` (and the propagation methods, through the instance) read nothing of the request but what the
key retains.  A request is described by the value ids of its *dimensions*; an element family declares its
dependence flags and the dimensions its `make_instance` reads; `uncovered` lists the reads the key loses.  The
driver op `covers` runs `uncovered` on the flags and reads *observed* on the running code (recording proxy
grids and wavelengths handed to `get_instance_data`), `family` prints the declared row of a shipped family. -/

inductive Dim
  /-- coordinates of the grid named in the request (what `Grid.__eq__`/`__hash__` cover) -/
  | coords
  /-- weights of that grid -/
  | weights
  | wavelength
deriving DecidableEq, Repr

/-- What the request key (after repair D505) retains of a request. -/
def keyCovers (gridDep wlDep : Bool) : Dim → Bool
  | .coords => gridDep
  | .weights => gridDep
  | .wavelength => wlDep

/-- The unrepaired key: `hash(grid)` loses the weights (for the proved counterexample only). -/
def Mutant.keyCoversCoordsOnly (gridDep wlDep : Bool) : Dim → Bool
  | .coords => gridDep
  | .weights => false
  | .wavelength => wlDep

/-- The reads the key does not retain: must be empty for the cache to be transparent. -/
def uncoveredBy (covers : Dim → Bool) (reads : List Dim) : List Dim := reads.filter (fun d => !covers d)

def uncovered (gridDep wlDep : Bool) (reads : List Dim) : List Dim := uncoveredBy (keyCovers gridDep wlDep) reads

/-- A shipped element family: declared flags and what its `make_instance` reads. -/
structure Family where
  name : String
  gridDep : Bool
  wlDep : Bool
  reads : List Dim
deriving Repr

/-- The shipped families (all `AgnosticOpticalElement` subclasses in /repo), as declared in their constructors, with an
upper bound of what their `make_instance` reads (parameters may be callables of grid and wavelength). -/
def shippedFamilies : List Family :=
  [ ⟨"FraunhoferPropagator", true, true, [.coords, .weights, .wavelength]⟩,
    ⟨"FresnelPropagator", true, true, [.coords, .weights, .wavelength]⟩,
    ⟨"AngularSpectrumPropagator", true, true, [.coords, .weights, .wavelength]⟩,
    ⟨"Apodizer", true, true, [.coords, .weights, .wavelength]⟩,
    ⟨"JonesMatrixOpticalElement", true, true, [.coords, .weights, .wavelength]⟩,
    ⟨"StepIndexFiber", true, true, [.coords, .weights, .wavelength]⟩,
    ⟨"VectorVortexCoronagraph", true, true, [.coords, .weights, .wavelength]⟩,
    ⟨"Magnifier", false, true, [.wavelength]⟩ ]

def familyOf (name : String) : Option Family := shippedFamilies.find? (fun f => f.name == name)

/-! ### The wavelength part of the key: an executed rational enclosure of key differences

`wavelength_key = int(np.round(np.log(wavelength) / np.log(1 + 1e-9)))` is modelled over ℝ in
`Lemmas/WavelengthKey.lean` (`wlKey`); a real logarithm with quotients of the order 10¹⁰ cannot be executed exactly.
What *can* be executed exactly is an enclosure of the difference of the keys of two rational wavelengths, from
`1 − 1/x ≤ log x ≤ x − 1`: with `ρ = λ2/λ1 ≥ 1` and `b` the double nearest to `1 + 1e-9`,
`(1 − 1/ρ)/(b − 1) ≤ log ρ / log b ≤ (ρ − 1)/(1 − 1/b)`, and rounding moves each key by at most ½.  The driver op
`wldiff` runs these definitions; the harness checks that the key differences of the running code lie inside. -/

/-- The double nearest to `1 + 1e-9` (what `1 + 1e-9` evaluates to in the code). -/
def wlBase : Rat := 1 + 4503600 / 2 ^ 52

/-- Lower bound of `(log λ2 − log λ1) / log base` for `0 < λ1 ≤ λ2`. -/
def wlDiffLo (l1 l2 : Rat) : Rat := (1 - l1 / l2) / (wlBase - 1)

/-- Upper bound of `(log λ2 − log λ1) / log base` for `0 < λ1 ≤ λ2`. -/
def wlDiffHi (l1 l2 : Rat) : Rat := (l2 / l1 - 1) / (1 - 1 / wlBase)

/-- Enclosure of `key(λ2) − key(λ1)` (whatever the tie-breaking of the rounding). -/
def wlKeyDiffBounds (l1 l2 : Rat) : Rat × Rat := (wlDiffLo l1 l2 - 1, wlDiffHi l1 l2 + 1)

/-! ### Scratch state of the Fourier objects owned by the instances

`MatrixFourierTransform` keeps matrices computed for one complex dtype (`matrices_dtype`),
`FourierFilter` keeps the transfer function cast to one dtype and an internal array for one
(dtype, tensor shape); `FastFourierTransform` keeps `internal_array`.  All follow one of two
patterns: a *memo cell* (tag + value, recomputed when the requested tag differs) and a *scratch
buffer* (fully rewritten before it is read; modelled by `Fft.loadArray`, Model/FftState.lean). -/

/-- A memo cell: `tag` says what `val` was computed for. -/
structure Memo (τ α : Type) where
  slot : Option (τ × α)

/-- `_compute_matrices(dtype)` / `_compute_functions(field)`: reuse when the tag matches. -/
def Memo.get {τ α} [DecidableEq τ] (compute : τ → α) (m : Memo τ α) (t : τ) : Memo τ α × α :=
  match m.slot with
  | some (t', v) => if t' = t then (m, v) else (⟨some (t, compute t)⟩, compute t)
  | none => (⟨some (t, compute t)⟩, compute t)

/-- The mutant "matrices not rebuilt on dtype change" (for the proved counterexample only). -/
def Mutant.memoGetStale {τ α} (compute : τ → α) (m : Memo τ α) (t : τ) : Memo τ α × α :=
  match m.slot with
  | some (_, v) => (m, v)
  | none => (⟨some (t, compute t)⟩, compute t)

/-- `_remove_matrices()` when nothing is to be kept. -/
def Memo.drop {τ α} (_ : Memo τ α) : Memo τ α := ⟨none⟩

/-! ### `ZoomFastFourierTransform`: a memo cell that owns memo cells

`_compute_shifts_and_weights(dtype)` rebuilds the shifts *and constructs new `ChirpZTransform`
objects* (`czts` for forward, `inv_czts` for backward) when the complex dtype differs from
`_current_dtype`; each `ChirpZTransform` is itself a memo cell (`_current_dtype` + kernels). -/

structure Zoom (α : Type) where
  /-- `ZoomFastFourierTransform._current_dtype` -/
  tag : Option Nat
  /-- the forward `ChirpZTransform`s (one per axis, all driven alike) -/
  czt : Memo Nat α
  /-- the backward `ChirpZTransform`s -/
  inv : Memo Nat α

def Zoom.fresh {α} : Zoom α := ⟨none, ⟨none⟩, ⟨none⟩⟩

/-- `forward(field)` (`back = false`) / `backward(field)` with a field of complex dtype `t`:
returns the kernel the chirp-z transforms use. -/
def Zoom.call {α} (compute : Nat → α) (z : Zoom α) (back : Bool) (t : Nat) : Zoom α × α :=
  let z1 : Zoom α := if z.tag = some t then z else ⟨some t, ⟨none⟩, ⟨none⟩⟩
  if back then
    let r := z1.inv.get compute t
    ({ z1 with inv := r.1 }, r.2)
  else
    let r := z1.czt.get compute t
    ({ z1 with czt := r.1 }, r.2)

/-! ### Instance *contents*

The cache model above identifies an instance with `(key, version, identity)`.  What a propagation
returns is computed from the *content* of the instance object (`make_instance` filled it in) and may
update scratch state inside it (Fourier objects).  `Content` makes that explicit: `make` is
`make_instance` for a full key at a parameter version, `use` is `forward/backward(instance, wavefront)`
returning the possibly updated content and the result. -/

structure Content (α W R : Type) where
  make : Key → Nat → α
  use : α → W → α × R

inductive Res (R : Type)
  | result (r : R)
  | error (err : Err)
  | done
deriving DecidableEq, Repr

inductive OpC (W : Type)
  | req (i o : Option GridId) (w : Option WlKey) (wf : W)
  | clear
  | set

/-- The heap: the current content of every instance object.  An object that has not been used yet
holds what `make_instance` built: `fun v => c.make v.key v.ver`. -/
def Content.heap0 {α W R} (c : Content α W R) : Inst → α := fun v => c.make v.key v.ver

def stepC {α W R} (e : Elem) (c : Content α W R) (s : St) (heap : Inst → α) :
    OpC W → St × (Inst → α) × Res R
  | .req i o w wf =>
    match getInstanceData e s i o w with
    | .ok (s', v) =>
      let r := c.use (heap v) wf
      (s', (fun v' => if v' = v then r.1 else heap v'), .result r.2)
    | .error err => (s, heap, .error err)
  | .clear => (s.clear, heap, .done)
  | .set => (s.setParam, heap, .done)

def runC {α W R} (e : Elem) (c : Content α W R) : St → (Inst → α) → List (OpC W) → List (Res R)
  | _, _, [] => []
  | s, heap, op :: ops =>
    (stepC e c s heap op).2.2 :: runC e c (stepC e c s heap op).1 (stepC e c s heap op).2.1 ops

/-- The specification with results: every request is answered by a freshly constructed element
(fresh cache, fresh instance content) carrying the current parameters. -/
def specC {α W R} (e : Elem) (c : Content α W R) : Nat → List (OpC W) → List (Res R)
  | _, [] => []
  | ver, .req i o w wf :: ops =>
    (match (step e (St.init ver) (.req i o w)).2 with
     | .inst k v => Res.result (c.use (c.make k v) wf).2
     | .error err => Res.error err
     | .done => Res.done) :: specC e c ver ops
  | ver, .clear :: ops => .done :: specC e c ver ops
  | ver, .set :: ops => .done :: specC e c (ver + 1) ops

/-! ### Instances that own a memo cell

The `FourierFilter` of a `FresnelPropagator` / `AngularSpectrumPropagator` instance keeps its transfer
function cast to one dtype (`_transfer_function`), rebuilt when a field of another dtype arrives.  The
content of such an instance is what it was made for plus that cell.  Driver op `reqc` runs `stepC` with
this content; the harness compares, after every propagation through the real elements, the dtype the
cell of the instance handed out holds and whether this propagation rebuilt it. -/

/-- `make_instance` leaves the cell empty; a propagation with a field of dtype tag `t` reads the cell
through `Memo.get` and returns the kernel it used (`compute key ver t`: what is computed for this
instance and this dtype). -/
def memoContent {τ β : Type} [DecidableEq τ] (compute : Key → Nat → τ → β) :
    Content (Key × Nat × Memo τ β) τ β where
  make := fun k ver => (k, ver, ⟨none⟩)
  use := fun a t =>
    ((a.1, a.2.1, (a.2.2.get (compute a.1 a.2.1) t).1), (a.2.2.get (compute a.1 a.2.1) t).2)

end HcipyVerif.Cache
