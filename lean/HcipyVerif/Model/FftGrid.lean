/-!
# FFT grid bookkeeping (C01/C02) — executable, core Lean only

Model of `hcipy/fourier/fast_fourier_transform.py:make_fft_grid` and of the size / cut-out
computations in `FastFourierTransform.__init__`, **after** the repair of D4 (the padded size is
computed once as an integer and everything else is derived from it).

Per axis the input grid is `(N, δ, z)` (points, spacing, zero), the request is `(q, fov, s)`.
The output spacing is `Δ = 2π·dT` with `dT = 1/(M·δ)` an exact rational (spacing *in turns*),
the output zero is `2π·zeroT + s` with `zeroT = -dT·⌊Mo/2⌋`.
-/
namespace HcipyVerif.Fft

/-- `np.round` (round half to even) on an exact rational. -/
def roundHalfEven (x : Rat) : Int :=
  let f := x.floor
  let r := x - (f : Rat)
  if r < 1 / 2 then f else if 1 / 2 < r then f + 1 else if f % 2 = 0 then f else f + 1

/-- distance of `x` to the nearest rounding decision boundary (half-integers) -/
def roundSlack (x : Rat) : Rat :=
  let r := x - (x.floor : Rat)
  if r < 1 / 2 then 1 / 2 - r else r - 1 / 2

/-- `M = round(q·N)`: the zero-padded size. -/
def paddedSize (N : Nat) (q : Rat) : Nat := (roundHalfEven (q * (N : Rat))).toNat

/-- `Mo = int(M·fov)`: the cropped output size (truncation of a non-negative number = floor). -/
def outSize (M : Nat) (fov : Rat) : Nat := (((M : Rat) * fov).floor).toNat

/-- distance of `M·fov` to the next integer boundary of the truncation -/
def outSlack (M : Nat) (fov : Rat) : Rat :=
  let x := (M : Rat) * fov
  let r := x - (x.floor : Rat)
  if r < 1 - r then r else 1 - r

/-- request for one axis -/
structure AxisIn where
  N : Nat
  delta : Rat
  zero : Rat
  q : Rat
  fov : Rat
  shift : Rat
deriving Repr

/-- everything `FastFourierTransform` derives for one axis -/
structure AxisPlan where
  N : Nat
  M : Nat
  Mo : Nat
  delta : Rat
  zero : Rat
  /-- output spacing in turns, `Δ = 2π·dT` -/
  dT : Rat
  shift : Rat
deriving Repr, DecidableEq

def plan (a : AxisIn) : AxisPlan :=
  let M := paddedSize a.N a.q
  { N := a.N, M := M, Mo := outSize M a.fov, delta := a.delta, zero := a.zero,
    dT := 1 / ((M : Rat) * a.delta), shift := a.shift }

/-- the output zero is `2π·zeroT + shift` -/
def AxisPlan.zeroT (p : AxisPlan) : Rat := -(p.dT * ((p.Mo / 2 : Nat) : Rat))

/-- start of the centred window of `inner` samples inside `M` samples
(`int(M/2.) - int(inner/2.)` in the code) -/
def padStart (inner M : Nat) : Nat := M / 2 - inner / 2

/-- The grid-consistency predicate on the sizes and spacings an FFT object reports:
the frequency spacing belongs to the array the FFT is actually taken of. -/
def FftConsistent (N M Mo : Nat) (delta dT : Rat) : Prop :=
  0 < M ∧ N ≤ M ∧ Mo ≤ M ∧ dT * (M : Rat) * delta = 1

instance (N M Mo : Nat) (delta dT : Rat) : Decidable (FftConsistent N M Mo delta dT) := by
  unfold FftConsistent; infer_instance

/-- Cut-outs of an n-dimensional transform (`None` when the shapes agree on every axis,
otherwise one slice per axis). Axis order = the order of the argument lists. -/
def cutouts (inner outer : List Nat) : Option (List (Nat × Nat)) :=
  if inner = outer then none
  else some ((inner.zip outer).map fun (n, m) => (padStart n m, padStart n m + n))

/-- Old behaviour (defect D4), *as far as it is expressible exactly*: the code recomputed the
output size as `int(N·fov·q')` with `q' = round(q·N)/N` evaluated in floating point.  In exact
arithmetic this is the same number as `outSize`; in binary64 the product lands just below the
integer for about 5 % of `(N, M)` (e.g. `N = 87, M = 218 ↦ 217`).  The old model therefore takes the
size the implementation *reports* and only checks consistency. -/
def reportedConsistentOld (N Minternal Mo : Nat) (delta dTreported : Rat) : Bool :=
  decide (FftConsistent N Minternal Mo delta dTreported)

end HcipyVerif.Fft
