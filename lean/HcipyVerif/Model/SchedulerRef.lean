import HcipyVerif.Model.Scheduler

/-!
# C20 — time arguments as *references* to caller-owned mutable cells

`add_callback(t, f)` / `evolve_until(t)` accept any object as `t`, in particular a NumPy array the
caller owns and goes on overwriting in place (`t += dt; system.evolve_until(t)`).  The world is the
system **plus the caller's cells**; a call hands over either a value or a reference to a cell, and the
caller may `mutate` a cell at any moment between calls.

One machine, two storage policies:
* `Policy.copy`  — `heapq.heappush(self.callbacks, (copy.copy(t), …))`, the code as it is: what is
  stored is the value the cell had at the moment of the call;
* `Policy.alias` — the reference itself is stored (the code without `copy.copy`): the queued time is
  whatever the cell holds when the queue is next looked at.

The machine keeps the by-value history `Hist` of `Model/Scheduler.lean` (the object of all C20
theorems) and a registry `refs` saying which queued entries (by their unique counter) alias which
cell; before every call the aliased entries are `refresh`ed from the cells.  Under `copy` the registry
stays empty (`Properties/C20.lean`: `stored_by_value`), under `alias` a later mutation changes the
run (`Bad.byReference_counterexample`).
-/
namespace HcipyVerif.Scheduler

/-- A time argument as the caller spells it. -/
inductive TimeArg where
  | val (x : Rat)
  | ref (cell : Nat)
deriving Repr, DecidableEq

/-- the value a time argument has *now* -/
def deref (cells : Nat → Rat) : TimeArg → Rat
  | .val x => x
  | .ref c => cells c

/-- the caller writes `x` into its cell `c` (`arr[...] = x`, `arr += dx`) -/
def setCell (cells : Nat → Rat) (c : Nat) (x : Rat) : Nat → Rat :=
  fun j => if j = c then x else cells j

/-- One step of the caller's program. -/
inductive ROp where
  | add (a : TimeArg) (id : Nat)
  | evolve (a : TimeArg)
  | mutate (cell : Nat) (x : Rat)
deriving Repr, DecidableEq

inductive Policy where
  | copy
  | alias
deriving Repr, DecidableEq

/-- The system, the registry of aliased queue entries (counter ↦ cell), and the caller's cells. -/
structure World where
  h : Hist
  refs : List (Nat × Nat)
  cells : Nat → Rat

def winit : World := { h := hinit, refs := [], cells := fun _ => 0 }

/-- the queue as the loop sees it: aliased entries show what their cell holds now -/
def refresh (refs : List (Nat × Nat)) (cells : Nat → Rat) (q : List Entry) : List Entry :=
  q.map fun e =>
    match refs.find? (fun p => p.1 = e.ctr) with
    | some p => { e with time := cells p.2 }
    | none => e

def refreshH (w : World) : Hist :=
  { w.h with s := { w.h.s with queue := refresh w.refs w.cells w.h.s.queue } }

/-- One step of the caller's program on the world.  The call itself is `stepOp` — the object of the
history theorems — on the refreshed history, with the value the argument has at this moment. -/
def stepG (p : Policy) (kids : Entry → List (Rat × Nat)) (fuel : Nat) (w : World) : ROp → World
  | .add a id =>
    { w with
      h := stepOp kids fuel (refreshH w) (.add (deref w.cells a) id)
      refs := match p, a with
        | .alias, .ref c => (w.h.s.ctr, c) :: w.refs
        | _, _ => w.refs }
  | .evolve a => { w with h := stepOp kids fuel (refreshH w) (.evolve (deref w.cells a)) }
  | .mutate c x => { w with cells := setCell w.cells c x }

def runG (p : Policy) (kids : Entry → List (Rat × Nat)) (fuel : Nat) (w : World) (ops : List ROp) : World :=
  ops.foldl (stepG p kids fuel) w

/-- The scheduler that stores the caller's reference instead of its value. -/
def Bad.byReference := runG .alias

/-- The value-level history of a caller program: every call with the value its argument had at the
moment of the call; the mutations themselves disappear. -/
def resolve (cells : Nat → Rat) : List ROp → List Op
  | [] => []
  | .add a id :: r => .add (deref cells a) id :: resolve cells r
  | .evolve a :: r => .evolve (deref cells a) :: resolve cells r
  | .mutate c x :: r => resolve (setCell cells c x) r

/-! ### A callback that raises before doing anything

`raises e`: the callback of queue entry `e` raises as soon as it is called.  `evolve_until` has popped
the entry and bridged the interval to it by then; the exception leaves the loop. -/

/-- a run together with the entry whose callback raised, if one did -/
structure RunX where
  run : Run
  raisedAt : Option Entry
deriving Repr, DecidableEq

def loopX (kids : Entry → List (Rat × Nat)) (raises : Entry → Bool) (T : Rat) : Nat → Sys → RunX
  | 0, s => ⟨⟨.outOfFuel, s, []⟩, none⟩
  | fuel + 1, s =>
    match s.queue with
    | e :: rest =>
      if e.time < T then
        let a := advance { s with queue := rest } (e.time - s.t)
        if raises e then ⟨⟨.outOfFuel, a.1, a.2 ++ [Event.fire e a.1.t]⟩, some e⟩
        else
          let r := loopX kids raises T fuel (addAll a.1 (kids e))
          ⟨{ r.run with trace := a.2 ++ Event.fire e a.1.t :: r.run.trace }, r.raisedAt⟩
      else
        let a := advance s (T - s.t)
        ⟨⟨.ok, a.1, a.2⟩, none⟩
    | [] =>
      let a := advance s (T - s.t)
      ⟨⟨.ok, a.1, a.2⟩, none⟩

def evolveUntilX (kids : Entry → List (Rat × Nat)) (raises : Entry → Bool) (fuel : Nat) (s : Sys) (T : Rat) : RunX :=
  if T < s.t then ⟨⟨.backwards, s, []⟩, none⟩ else loopX kids raises T fuel s

/-- the callbacks `kids`, except that the one of entry `e` does nothing (it raised at once) -/
def kidsExcept (kids : Entry → List (Rat × Nat)) (e : Entry) : Entry → List (Rat × Nat) :=
  fun x => if x = e then [] else kids x

/-! ### Re-entrancy: a callback that itself calls `evolve_until` (round 6)

Decided from the code: the loop variables of `evolve_until` (`t`, `end`, `t_next`) are locals of each
activation, the heap, the clock and the counter are shared.  The entry has been popped before its
callback is called, so a nested `self.evolve_until(T2)` made from inside a callback runs the very same
loop on the shared state — it pops and executes everything due before `T2`, bridges to `T2` — and
when it returns the outer activation goes on with what is left.  A nested target below the clock
raises `ValueError`, which leaves the callback and the outer call like any exception of a callback
(the entry is gone, the clock stands where the callback saw it).  `Body`: what a callback does —
schedule `pre`, then possibly call `evolve_until(nested)`, then schedule `post`. -/

structure Body where
  pre : List (Rat × Nat)
  nested : Option Rat
  post : List (Rat × Nat)
deriving Repr, DecidableEq

/-- `loop` with callbacks that may re-enter `evolve_until`.  The fuel bounds the nesting-and-iteration
depth (each activation of the loop body passes `fuel` on to the nested call and to its own
continuation). -/
def loopR (acts : Entry → Body) (T : Rat) : Nat → Sys → Run
  | 0, s => ⟨.outOfFuel, s, []⟩
  | fuel + 1, s =>
    match s.queue with
    | e :: rest =>
      if e.time < T then
        let a := advance { s with queue := rest } (e.time - s.t)
        let s1 := addAll a.1 (acts e).pre
        match (acts e).nested with
        | none =>
          let r := loopR acts T fuel (addAll s1 (acts e).post)
          { r with trace := a.2 ++ Event.fire e a.1.t :: r.trace }
        | some T2 =>
          if T2 < s1.t then
            -- the nested call is refused: ValueError leaves the callback and the outer call
            ⟨.backwards, s1, a.2 ++ [Event.fire e a.1.t]⟩
          else
            let n := loopR acts T2 fuel s1
            if n.status = .ok then
              let r := loopR acts T fuel (addAll n.s (acts e).post)
              { r with trace := a.2 ++ Event.fire e a.1.t :: (n.trace ++ r.trace) }
            else
              { n with trace := a.2 ++ Event.fire e a.1.t :: n.trace }
      else
        let a := advance s (T - s.t)
        ⟨.ok, a.1, a.2⟩
    | [] =>
      let a := advance s (T - s.t)
      ⟨.ok, a.1, a.2⟩

def evolveUntilR (acts : Entry → Body) (fuel : Nat) (s : Sys) (T : Rat) : Run :=
  if T < s.t then ⟨.backwards, s, []⟩ else loopR acts T fuel s

/-- callbacks that never re-enter, as bodies -/
def plainBody (kids : Entry → List (Rat × Nat)) (e : Entry) : Body := ⟨kids e, none, []⟩

/-- the body of a callback that schedules `kids e` and, after the first `k` of them, calls
`evolve_until(e.time + d)` — the shape the harness's re-entering callbacks have -/
def nestBody (kids : Entry → List (Rat × Nat)) (nest : Entry → Option (Rat × Nat)) (e : Entry) : Body :=
  match nest e with
  | none => plainBody kids e
  | some (d, k) => ⟨(kids e).take k, some (e.time + d), (kids e).drop k⟩

/-! ### A callback that raises at once, with callbacks that read the clock (round 6)

`loopX` with the clock handed to the callbacks (`loopC`'s callbacks): the docstring idiom
`add_callback(self.t + period, ...)` combined with a callback that raises before doing anything. -/

def loopXC (kidsC : Rat → Entry → List (Rat × Nat)) (raises : Entry → Bool) (T : Rat) : Nat → Sys → RunX
  | 0, s => ⟨⟨.outOfFuel, s, []⟩, none⟩
  | fuel + 1, s =>
    match s.queue with
    | e :: rest =>
      if e.time < T then
        let a := advance { s with queue := rest } (e.time - s.t)
        if raises e then ⟨⟨.outOfFuel, a.1, a.2 ++ [Event.fire e a.1.t]⟩, some e⟩
        else
          let r := loopXC kidsC raises T fuel (addAll a.1 (kidsC a.1.t e))
          ⟨{ r.run with trace := a.2 ++ Event.fire e a.1.t :: r.run.trace }, r.raisedAt⟩
      else
        let a := advance s (T - s.t)
        ⟨⟨.ok, a.1, a.2⟩, none⟩
    | [] =>
      let a := advance s (T - s.t)
      ⟨⟨.ok, a.1, a.2⟩, none⟩

def kidsExceptC (kidsC : Rat → Entry → List (Rat × Nat)) (e : Entry) : Rat → Entry → List (Rat × Nat) :=
  fun clk x => if x = e then [] else kidsC clk x

def evolveUntilXC (kidsC : Rat → Entry → List (Rat × Nat)) (raises : Entry → Bool) (fuel : Nat) (s : Sys) (T : Rat) : RunX :=
  if T < s.t then ⟨⟨.backwards, s, []⟩, none⟩ else loopXC kidsC raises T fuel s

end HcipyVerif.Scheduler
