import HcipyVerif.Model.FieldProg

/-!
# C19 — the dispatch table of the two Field implementations against the wrapping policies of the model

`harness/props/c19.py` probes the running hcipy on every run (tie T2): every NumPy ufunc with all operand
kinds (`Field ∘ Field`, `Field ∘ ndarray`, `ndarray ∘ Field`, scalars, 0-d), `out=`, `where=`, the ufunc
methods `reduce / accumulate / outer`, multi-output ufuncs, reductions with `axis` / `keepdims` as method
and as function, the index kinds of `__getitem__` / `__setitem__`, and which public `ndarray` attributes
exist on a Field of either style.  What came back is recorded as an `Entry` of the regenerated table
`Gen/FieldDispatch.lean`.  Here: what the policies of `Model/FieldProg.lean` (`oldPolicy`, `newPolicy`,
`fnTag`, `getitemTag` — the definitions both interpreters execute) *predict* for such an entry, and the
executable checks the driver runs over the table (`C19 dispatch`).  Core Lean only.
-/
namespace HcipyVerif.FieldDispatch
open HcipyVerif.FieldProg

/-- what an operation handed back -/
inductive Obs where
  | field         -- a Field on the grid of the Field operand
  | fieldOther    -- a Field on another grid / without grid
  | plain         -- a bare ndarray
  | scalar        -- a NumPy / Python scalar
  | tupleFields   -- a tuple of Fields on the grid (multi-output ufunc)
  | tupleOther    -- any other tuple
  | wrote         -- (`__setitem__`) the target holds the assigned values
  | raised        -- an exception
  | other         -- anything else (also: `out=` given but not written)
deriving DecidableEq, Repr

/-- how an entry is handled -/
inductive DKind where
  | fn (c : TagClass)     -- re-wrapped by the policy rule of class `c` (`fnTag`)
  | fnMulti               -- multi-output ufunc: every output by the ufunc rule
  | getitem               -- `__getitem__` (`getitemTag`)
  | setitem               -- `__setitem__`: writes into the target
deriving DecidableEq, Repr

structure Entry where
  name : String
  kind : DKind
  /-- operand tags, left to right (`out=` last) -/
  args : List Tag
  /-- the raw result is 0-d -/
  zeroD : Bool
  old : Obs
  new : Obs
deriving Repr

structure Attr where
  name : String
  old : Bool
  new : Bool
deriving Repr

/-- a raw result of the probed rank (only `shape = []` or not matters to the policies) -/
def probeArr (zeroD : Bool) : Arr := ⟨if zeroD then [] else [4], .real, []⟩

/-- the probes live on grid 0 -/
def obsOfTag : Tag → Obs
  | .field 0 => .field
  | .field _ => .fieldOther
  | .plain => .plain
  | .scalar => .scalar

def tupleOf : Obs → Obs
  | .field => .tupleFields
  | _ => .tupleOther

/-- what the wrapping policy `P` of the model says this entry returns -/
def predict (P : Policy) (e : Entry) : Obs :=
  match e.kind with
  | .fn c => obsOfTag (fnTag P c e.args (probeArr e.zeroD))
  | .fnMulti => tupleOf (obsOfTag (P.ufunc e.args (probeArr e.zeroD)))
  | .getitem => obsOfTag (getitemTag (e.args.headD .plain) e.zeroD)
  | .setitem => .wrote

/-- the entry is handled as the model says, under both routes -/
def entryOk (e : Entry) : Bool := e.old == predict oldPolicy e && e.new == predict newPolicy e

/-- an elementwise operation with a Field operand and an array result -/
def elementwise (e : Entry) : Bool :=
  (e.kind == .fn .ufunc || e.kind == .fnMulti) && (leftGrid e.args == some 0) && !e.zeroD

def keepsGrid (o : Obs) : Bool := o == .field || o == .tupleFields

/-- `ndarray` attributes a new-style Field is known not to have (none of them an array operation in the
sense of the property: memory layout, raw bytes, file output, device) -/
def knownMissing : List String :=
  ["base", "byteswap", "ctypes", "device", "dump", "dumps", "getfield", "resize", "setfield", "setflags",
   "strides", "to_device", "tobytes", "tofile", "view"]

def attrOk (a : Attr) : Bool := !a.old || a.new || knownMissing.contains a.name

/-- names of the entries that are *not* handled as the model says -/
def failures (t : List Entry) : List String := (t.filter fun e => !entryOk e).map (·.name)

def missing (t : List Attr) : List String := (t.filter fun a => !attrOk a).map (·.name)

def showObs : Obs → String
  | .field => "field" | .fieldOther => "fieldOther" | .plain => "plain" | .scalar => "scalar"
  | .tupleFields => "tupleFields" | .tupleOther => "tupleOther" | .wrote => "wrote" | .raised => "raised" | .other => "other"

/-- answer of the driver op `C19 dispatch`: sizes, entries not handled as predicted, attributes missing, number of elementwise
entries, number of those that keep the grid under both styles, then the predictions per entry -/
def report (t : List Entry) (as : List Attr) : String :=
  let f := failures t
  let m := missing as
  let preds := t.map fun e => showObs (predict oldPolicy e) ++ "/" ++ showObs (predict newPolicy e)
  let ew := t.filter elementwise
  let kept := ew.filter fun e => keepsGrid e.old && keepsGrid e.new
  s!"ok {t.length} {as.length} {if f.isEmpty then "-" else ",".intercalate f} {if m.isEmpty then "-" else ",".intercalate m} {ew.length} {kept.length} " ++ " ".intercalate preds

end HcipyVerif.FieldDispatch
