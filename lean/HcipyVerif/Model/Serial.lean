/-!
# C16 — model of hcipy's serialisation (hcipy/util/io.py, `to_dict`/`from_dict` of
`Coords`, `Grid`, `Field`, `ModeBasis`)

Three layers are modelled.

* **Dictionary trees.**  `Tree` is the JSON-like value that `to_dict` produces and `from_dict`
  consumes: `None`, booleans, Python numbers, strings (an enumeration of the tags that occur),
  NumPy arrays (`Arr`: dtype tag, shape, row-major data as exact rationals), lists and
  dictionaries with an ordered list of (enumerated) keys.  `toDict`/`fromDict` follow the Python
  code key by key, including the error raised when a key or a registered class is missing.
* **Row-major index maps.**  `ravel`/`unravel` are NumPy's C-order flat index and its inverse;
  `Arr.reshape` keeps the flat data (what `ndarray.reshape` does to a contiguous array),
  `transposeFlat`/`moveLastToFront`/`moveFirstToLast`/`transposeAll` permute it the way
  `np.moveaxis`/`.T` followed by `np.ascontiguousarray` do.
* **The FITS paths of `write_field`/`read_field`/`write_mode_basis`/`read_mode_basis`.**  A file is
  an optional image (primary HDU) plus the embedded tree.  The main definitions model the code
  *after* the repairs proposed in `pending_fixes/` (D14, D19, D160); the behaviour of the
  unrepaired tree is kept as `readFieldFitsOld`, `writeBasisFitsOld`, `readBasisFitsOld`.

* **Object state.**  `Grid.toDictM`, `Field.toDictM`, `ModeBasis.toDictM` and the writers
  `write…M` are programs over the object (`StateM`): `_weights` is lazily materialised state that a
  writer could alter (`Grid.toDictMBad`).
* **Grid files and the ASDF layer.**  `writeGridAsdf`/`writeGridFits`/… with the ASDF library as a
  parameter (`AsdfLib`) and the assumption about it as the hypothesis structure `AsdfFaithful`.

* **File names, formats, the readers / writers as a whole.**  `guessFormat` (`_guess_file_format`),
  `resolveName`, `dispatch`, `write…File` / `read…File` (`fmt` argument or guessed extension;
  `to_dict()` before the dispatch; a pickle of a field is `Field.getState`, of a grid or mode basis
  the object), and chains of such round trips (`gridChain`, `fieldChain`).  A reader given a file of
  another format than the one it resolves answers `ValueError`: that branch is a placeholder (the
  libraries raise various errors) and is neither exercised nor used by a theorem.

Not modelled: the ASDF / FITS / pickle byte formats, NaN and infinities, byte order other than the
one flag `native` that decides whether `scipy.sparse` accepts an array, default pickling of grids
and mode bases.

Core Lean only (no Mathlib): this file is linked into the native driver.
-/
namespace HcipyVerif.Serial

/-- The exceptions that matter: `KeyError`, `ValueError`, `TypeError`, `AttributeError`,
`NotImplementedError`. -/
inductive Err where
  | key | value | type | attr | notImpl
deriving DecidableEq, Repr

/-- A Python scalar as `ndarray.tolist()` produces it. -/
inductive PyNum where
  | int (i : Int)
  | float (q : Rat)
deriving DecidableEq, Repr

/-- A NumPy array (or NumPy scalar: `shape = []`): dtype tag without byte order (`f8`, `i4`,
`c16` with interleaved re/im, `b1`…), shape, C-order data. -/
structure Arr where
  dtype : String
  shape : List Nat
  data : List Rat
deriving DecidableEq, Repr

/-- Dictionary keys that occur in the trees. -/
inductive Key where
  | type | delta | dims | zero | coords | sepCoords | system | weights | values | grid
  | tm | isSparse | data | indices | indptr | shape
deriving DecidableEq, Repr

/-- String values that occur in the trees (`other` stands for any unregistered name). -/
inductive Tag where
  | regular | separated | unstructured | cartesian | polar | noneSys | other
deriving DecidableEq, Repr

inductive Tree where
  | null
  | bool (b : Bool)
  | num (x : PyNum)
  | str (s : Tag)
  | arr (a : Arr)
  | list (l : List Tree)
  | dict (kv : List (Key × Tree))
deriving Repr

/-! ## association lists -/

def lookup (k : Key) : List (Key × Tree) → Option Tree
  | [] => none
  | (k', v) :: r => if k' = k then some v else lookup k r

/-- `tree[k]`: `KeyError` when absent, `TypeError` when `tree` is not a dictionary. -/
def Tree.get (t : Tree) (k : Key) : Except Err Tree :=
  match t with
  | .dict kv => match lookup k kv with
    | some v => .ok v
    | none => .error .key
  | _ => .error .type

def eraseKey (k : Key) : List (Key × Tree) → List (Key × Tree)
  | [] => []
  | (k', v) :: r => if k' = k then eraseKey k r else (k', v) :: eraseKey k r

/-- `del tree[k]` (no error modelled when absent; the callers delete keys that exist). -/
def Tree.erase (t : Tree) (k : Key) : Tree :=
  match t with
  | .dict kv => .dict (eraseKey k kv)
  | t => t

def setKey (k : Key) (v : Tree) : List (Key × Tree) → List (Key × Tree)
  | [] => [(k, v)]
  | (k', v') :: r => if k' = k then (k, v) :: r else (k', v') :: setKey k v r

/-- `tree[k] = v`: replaces in place, or appends a new key. -/
def Tree.set (t : Tree) (k : Key) (v : Tree) : Tree :=
  match t with
  | .dict kv => .dict (setKey k v kv)
  | t => t

/-! ## row-major index maps -/

def prod : List Nat → Nat
  | [] => 1
  | n :: s => n * prod s

/-- `np.ravel_multi_index(idx, shape)` (C order). -/
def ravel : List Nat → List Nat → Nat
  | _ :: s, i :: is => i * prod s + ravel s is
  | _, _ => 0

/-- `np.unravel_index(k, shape)` (C order). -/
def unravel : List Nat → Nat → List Nat
  | [], _ => []
  | _ :: s, k => (k / prod s) :: unravel s (k % prod s)

/-- `idx` is a valid multi-index of an array of shape `shape`. -/
def InBounds : List Nat → List Nat → Prop
  | [], [] => True
  | i :: is, n :: s => i < n ∧ InBounds is s
  | _, _ => False

/-- `InBounds` is decidable: the driver's `ravel` answers `err value` (NumPy's `ValueError`) exactly
when it is false. -/
def InBounds.dec : (idx s : List Nat) → Decidable (InBounds idx s)
  | [], [] => .isTrue trivial
  | i :: is, n :: s =>
    match InBounds.dec is s with
    | .isTrue h => if hi : i < n then .isTrue ⟨hi, h⟩ else .isFalse fun h' => hi h'.1
    | .isFalse h => .isFalse fun h' => h h'.2
  | [], _ :: _ => .isFalse fun h => h
  | _ :: _, [] => .isFalse fun h => h

instance (idx s : List Nat) : Decidable (InBounds idx s) := InBounds.dec idx s

/-- `np.ravel_multi_index(idx, shape)` with its check: `ValueError` for an index that is out of
bounds or of the wrong length. -/
def ravelChecked (s idx : List Nat) : Except Err Nat :=
  if InBounds idx s then .ok (ravel s idx) else .error .value

/-- `np.unravel_index(k, shape)` with its check: `ValueError` when `k` is not below the size. -/
def unravelChecked (s : List Nat) (k : Nat) : Except Err (List Nat) :=
  if k < prod s then .ok (unravel s k) else .error .value

/-- element at a multi-index (no bounds check beyond the flat one) -/
def Arr.at (a : Arr) (idx : List Nat) : Option Rat := a.data[ravel a.shape idx]?

/-- Python's `s[:-n]` for `n ≥ 0`, literally: `-0` is `0`, so `s[:-0] = s[:0] = []` -/
def pyDropLast (s : List Nat) (n : Nat) : List Nat :=
  if n = 0 then [] else s.take (s.length - n)

/-- `a.reshape(s)` for a C-contiguous array: same flat data, `ValueError` when the sizes differ. -/
def Arr.reshape (a : Arr) (s : List Nat) : Except Err Arr :=
  if prod s = prod a.shape then .ok { a with shape := s } else .error .value

/-- `a.reshape(-1, *s)`: the leading length is inferred; `ValueError` when it cannot be. -/
def Arr.reshapeInfer (a : Arr) (s : List Nat) : Except Err Arr :=
  if prod s = 0 then .error .value
  else if prod a.shape % prod s = 0 then .ok { a with shape := (prod a.shape / prod s) :: s }
  else .error .value

/-- C-order data of the transpose of an `r × c` matrix given in C order. -/
def transposeFlat (r c : Nat) (d : List Rat) : List Rat :=
  (List.range (r * c)).map fun k => d.getD ((k % r) * c + k / r) 0

/-- `np.ascontiguousarray(np.moveaxis(a, -1, 0))` -/
def Arr.moveLastToFront (a : Arr) : Arr :=
  let pre := a.shape.dropLast
  let m := a.shape.getLastD 1
  { a with shape := m :: pre, data := transposeFlat (prod pre) m a.data }

/-- `np.ascontiguousarray(np.moveaxis(a, 0, -1))` -/
def Arr.moveFirstToLast (a : Arr) : Arr :=
  match a.shape with
  | [] => a
  | m :: pre => { a with shape := pre ++ [m], data := transposeFlat m (prod pre) a.data }

/-- `np.ascontiguousarray(a.T)`: all axes reversed. -/
def Arr.transposeAll (a : Arr) : Arr :=
  let rs := a.shape.reverse
  { a with shape := rs
           data := (List.range (prod rs)).map fun k =>
             a.data.getD (ravel a.shape (unravel rs k).reverse) 0 }

/-! ## coordinates -/

inductive Coords where
  /-- `delta`, `dims`, `zero` as `ndarray.tolist()` gives them -/
  | regular (delta : List PyNum) (dims : List Nat) (zero : List PyNum)
  | separated (axes : List Arr)
  | unstructured (axes : List Arr)
deriving DecidableEq, Repr

def PyNum.isInt : PyNum → Bool
  | .int _ => true
  | .float _ => false

def PyNum.toFloat : PyNum → PyNum
  | .int i => .float i
  | .float q => .float q

/-- `np.array(l).tolist()`: a list containing one float becomes all floats. -/
def coerce (l : List PyNum) : List PyNum :=
  if l.all PyNum.isInt then l else l.map PyNum.toFloat

/-- what `.tolist()` of one NumPy array can look like: all ints or all floats -/
def Homogeneous (l : List PyNum) : Prop := l.all PyNum.isInt = true ∨ l.all (fun x => !x.isInt) = true

def Coords.toDict : Coords → Tree
  | .regular d n z => .dict [(.type, .str .regular), (.delta, .list (d.map .num)),
      (.dims, .list (n.map fun (k : Nat) => .num (.int k))), (.zero, .list (z.map .num))]
  | .separated ax => .dict [(.type, .str .separated), (.sepCoords, .list (ax.map .arr))]
  | .unstructured ax => .dict [(.type, .str .unstructured), (.coords, .list (ax.map .arr))]

def asNum : Tree → Except Err PyNum
  | .num x => .ok x
  | _ => .error .type

def asDim : Tree → Except Err Nat
  | .num (.int i) => if 0 ≤ i then .ok i.toNat else .error .value
  | _ => .error .type

def asArr : Tree → Except Err Arr
  | .arr a => .ok a
  | _ => .error .type

def asList : Tree → Except Err (List Tree)
  | .list l => .ok l
  | _ => .error .type

def Coords.fromDict (t : Tree) : Except Err Coords := do
  let ty ← t.get .type
  match ty with
  | .str .regular =>
    let d ← (← asList (← t.get .delta)).mapM asNum
    let n ← (← asList (← t.get .dims)).mapM asDim
    let z ← (← asList (← t.get .zero)).mapM asNum
    .ok (.regular (coerce d) n (coerce z))
  | .str .separated =>
    let ax ← (← asList (← t.get .sepCoords)).mapM asArr
    .ok (.separated ax)
  | .str .unstructured =>
    let ax ← (← asList (← t.get .coords)).mapM asArr
    .ok (.unstructured ax)
  | _ => .error .key      -- `Coords._coordinate_types[tree['type']]`

def Coords.isSeparated : Coords → Bool
  | .unstructured _ => false
  | _ => true

def Coords.isRegular : Coords → Bool
  | .regular .. => true
  | _ => false

def Coords.ndim : Coords → Nat
  | .regular _ n _ => n.length
  | .separated ax => ax.length
  | .unstructured ax => ax.length

/-- `dims` of a separated grid (number of points per axis, x first) -/
def Coords.dims : Coords → List Nat
  | .regular _ n _ => n
  | .separated ax => ax.map fun a => prod a.shape
  | .unstructured _ => []

/-- `grid.shape` = `dims[::-1]` -/
def Coords.shape (c : Coords) : List Nat := c.dims.reverse

def Coords.size : Coords → Nat
  | .unstructured ax => match ax with
    | [] => 0
    | a :: _ => prod a.shape
  | c => prod c.shape

/-! ## grids -/

structure Grid where
  system : Tag
  coords : Coords
  /-- `grid._weights` exactly as stored: `None`, a scalar, a list or an array -/
  weights : Tree
deriving Repr

/-- `Grid._coordinate_systems` after the repair of D161: `CartesianGrid`, `PolarGrid` and the base
class `Grid` itself (`'none'`).  `Tag.other` stands for the `_coordinate_system` of a user subclass
that never called `Grid._add_coordinate_system`. -/
def knownSystem : Tag → Bool
  | .cartesian | .polar | .noneSys => true
  | _ => false

/-- `Grid._coordinate_systems` on the unrepaired tree: the base class is not registered. -/
def knownSystemOld : Tag → Bool
  | .cartesian | .polar => true
  | _ => false

def Grid.toDict (g : Grid) : Tree :=
  .dict [(.system, .str g.system), (.coords, g.coords.toDict), (.weights, g.weights)]

/-- `Grid.from_dict` for a given registry `Grid._coordinate_systems` -/
def Grid.fromDictWith (known : Tag → Bool) (t : Tree) : Except Err Grid := do
  let c ← Coords.fromDict (← t.get .coords)
  let st ← t.get .system
  match st with
  | .str s =>
    if known s then
      let w := match t.get .weights with
        | .ok w => w
        | .error _ => .null
      .ok ⟨s, c, w⟩
    else .error .key
  | _ => .error .key

def Grid.fromDict (t : Tree) : Except Err Grid := Grid.fromDictWith knownSystem t

/-- `Grid.from_dict` on the unrepaired tree (D161) -/
def Grid.fromDictOld (t : Tree) : Except Err Grid := Grid.fromDictWith knownSystemOld t

/-! ### object state: what `to_dict` and the writers may touch

A grid object carries one piece of lazily computed state: `_weights`.  It is `None` (`Tree.null`)
until somebody reads the *property* `grid.weights`, which computes the automatic weights of the
grid's class and **stores** them.  The functions below are programs over the object (`StateM`):
the state after the call is part of the result, so "writing never alters the object" is a statement
that can fail (`Grid.toDictMBad`). -/

/-- `cls._get_automatic_weights(coords)`, abstractly: any function of the coordinates (`None` where
the class has none) -/
abbrev AutoWeights := Coords → Tree

def Tree.isNull : Tree → Bool
  | .null => true
  | _ => false

/-- the attribute read `grid._weights`: no effect on the object.  (A program `StateM σ α` is a
function from the object before to (result, object after).) -/
def Grid.readWeightsAttr : StateM Grid Tree := fun g => (g.weights, g)

/-- the property `grid.weights`: when `_weights is None` the automatic weights (or `1` when the
class has none) are computed and stored in `_weights` -/
def Grid.weightsProperty (auto : AutoWeights) : StateM Grid Tree := fun g =>
  if g.weights.isNull then
    let a := auto g.coords
    let w := if a.isNull then Tree.num (.int 1) else a
    (w, { g with weights := w })
  else (g.weights, g)

/-- `Grid.to_dict` as a program over the object, given the way it obtains the weights -/
def Grid.toDictMWith (getW : StateM Grid Tree) : StateM Grid Tree := fun g =>
  let (w, g') := getW g
  (.dict [(.system, .str g'.system), (.coords, g'.coords.toDict), (.weights, w)], g')

/-- `Grid.to_dict` as it is: it reads the attribute `_weights`. -/
def Grid.toDictM : StateM Grid Tree := Grid.toDictMWith Grid.readWeightsAttr

/-- The variant that reads the property `weights` (mutant class "to_dict materialises the weights"). -/
def Grid.toDictMBad (auto : AutoWeights) : StateM Grid Tree :=
  Grid.toDictMWith (Grid.weightsProperty auto)

/-! ## fields -/

structure Field where
  /-- shape = tensor shape ++ [number of points] -/
  values : Arr
  grid : Grid
deriving Repr

def Field.toDict (f : Field) : Tree := .dict [(.values, .arr f.values), (.grid, f.grid.toDict)]

def Field.fromDict (t : Tree) : Except Err Field := do
  let v ← asArr (← t.get .values)
  let g ← Grid.fromDict (← t.get .grid)
  .ok ⟨v, g⟩

/-- `Field.to_dict` as a program over the field object: `np.asarray(self)` is a read, the grid's
`to_dict` (given as `gd`) runs on the grid the field holds. -/
def Field.toDictMWith (gd : StateM Grid Tree) : StateM Field Tree := fun f =>
  let (gt, g') := gd f.grid
  (.dict [(.values, .arr f.values), (.grid, gt)], { f with grid := g' })

def Field.toDictM : StateM Field Tree := Field.toDictMWith Grid.toDictM

def Field.tensorShape (f : Field) : List Nat := f.values.shape.dropLast

/-- Memory layout of the data as far as `ndarray.__reduce__` distinguishes it: `f` = Fortran-
contiguous and not C-contiguous (e.g. `Field(xy.T, grid)`), `c` = everything else (C-ordered
arrays and strided or negative-stride views, whose bytes are taken in C order). -/
inductive Layout where
  | c | f
deriving DecidableEq, Repr

/-- the bytes `ndarray.__reduce__` stores: C order, or Fortran order (= C-order data of the array
with all axes reversed) -/
def Arr.raw (a : Arr) : Layout → List Rat
  | .c => a.data
  | .f => a.transposeAll.data

/-- `Field.__getstate__()` = `ndarray.__reduce__()[2] + (grid,)`:
`(version, shape, dtype, is_fortran, raw bytes, grid)` (version omitted) -/
structure PickleState where
  shape : List Nat
  dtype : String
  isFortran : Bool
  raw : List Rat
  grid : Grid
deriving Repr

def Field.getState (f : Field) (l : Layout) : PickleState :=
  ⟨f.values.shape, f.values.dtype, l == .f, f.values.raw l, f.grid⟩

/-- `_field_reconstruct` followed by `__setstate__`: Fortran-flagged bytes are read column-major -/
def Field.setState (s : PickleState) : Field :=
  let data := if s.isFortran then (Arr.transposeAll ⟨s.dtype, s.shape.reverse, s.raw⟩).data else s.raw
  ⟨⟨s.dtype, s.shape, data⟩, s.grid⟩

/-- A hand-built `__getstate__` that records the real memory-order flag but emits `tobytes()`
(always C order): the class of defect this model dimension exists for. -/
def Field.getStateBad (f : Field) (l : Layout) : PickleState :=
  ⟨f.values.shape, f.values.dtype, l == .f, f.values.data, f.grid⟩

/-! ## mode bases -/

/-- `scipy.sparse.csc_matrix`: `data`, `indices`, `indptr`, `shape = [rows, columns]` -/
structure Csc where
  data : Arr
  indices : Arr
  indptr : Arr
  shape : List Nat
deriving DecidableEq, Repr

inductive Matrix where
  | dense (a : Arr)
  | sparse (c : Csc)
deriving DecidableEq, Repr

structure ModeBasis where
  /-- dense: shape = tensor shape ++ [points, modes] -/
  tm : Matrix
  grid : Option Grid
deriving Repr

def ModeBasis.isSparse (b : ModeBasis) : Bool :=
  match b.tm with
  | .sparse _ => true
  | .dense _ => false

def natRat (n : Nat) : Rat := (n : Int)

def ratNat (q : Rat) : Nat := q.num.toNat

/-- the non-zero entries `(row, value)` of column `j` of an `n × m` C-order matrix -/
def colEntries (n m : Nat) (d : List Rat) (j : Nat) : List (Nat × Rat) :=
  (List.range n).filterMap fun i =>
    let x := d.getD (i * m + j) 0
    if x = 0 then none else some (i, x)

/-- running totals `[0, l₀, l₀+l₁, …]` -/
def cumul (acc : Nat) : List Nat → List Nat
  | [] => [acc]
  | l :: r => acc :: cumul (acc + l) r

/-- `scipy.sparse.csc_matrix(a)` followed by `eliminate_zeros()` for a 2-D array -/
def denseToCsc (a : Arr) : Csc :=
  let n := a.shape.headD 0
  let m := (a.shape.drop 1).headD 0
  let cols := (List.range m).map (colEntries n m a.data)
  let flat := cols.flatten
  { data := ⟨a.dtype, [flat.length], flat.map (·.2)⟩
    indices := ⟨"i4", [flat.length], flat.map fun p => natRat p.1⟩
    indptr := ⟨"i4", [m + 1], (cumul 0 (cols.map List.length)).map natRat⟩
    shape := [n, m] }

def sumRat : List Rat → Rat
  | [] => 0
  | x :: r => x + sumRat r

/-- `c.todense()`: duplicates are summed -/
def cscToDense (c : Csc) : Arr :=
  let n := c.shape.headD 0
  let m := (c.shape.drop 1).headD 0
  let ptr := fun j => ratNat (c.indptr.data.getD j 0)
  { dtype := c.data.dtype, shape := [n, m]
    data := (List.range (n * m)).map fun k =>
      let i := k / m
      let j := k % m
      sumRat ((List.range (ptr (j + 1) - ptr j)).map fun q =>
        let p := ptr j + q
        if c.indices.data.getD p 0 = natRat i then c.data.data.getD p 0 else 0) }

/-- `ModeBasis.to_sparse()`.  `native = false` stands for an array in non-native byte order,
which `scipy.sparse` refuses. -/
def ModeBasis.toSparse (native : Bool) (b : ModeBasis) : Except Err ModeBasis :=
  match b.tm with
  | .sparse _ => .ok b
  | .dense a =>
    if a.shape.length ≠ 2 then .error .type
    else if !native then .error .value
    else .ok { b with tm := .sparse (denseToCsc a) }

/-- `ModeBasis.to_dense()` -/
def ModeBasis.toDense (b : ModeBasis) : ModeBasis :=
  match b.tm with
  | .dense _ => b
  | .sparse c => { b with tm := .dense (cscToDense c) }

def ModeBasis.denseArr (b : ModeBasis) : Arr :=
  match b.tm with
  | .dense a => a
  | .sparse c => cscToDense c

def Csc.toDict (c : Csc) : Tree :=
  .dict [(.data, .arr c.data), (.indices, .arr c.indices), (.indptr, .arr c.indptr),
         (.shape, .list (c.shape.map fun (k : Nat) => .num (.int k)))]

/-- `to_dict` raises `AttributeError` for a basis without grid (`self.grid.to_dict()`). -/
def ModeBasis.toDict (b : ModeBasis) : Except Err Tree :=
  match b.grid with
  | none => .error .attr
  | some g => .ok (.dict [(.grid, g.toDict),
      (.tm, match b.tm with
        | .dense a => .arr a
        | .sparse c => c.toDict),
      (.isSparse, .bool b.isSparse)])

/-- `ModeBasis.to_dict` as a program over the basis object -/
def ModeBasis.toDictMWith (gd : StateM Grid Tree) : StateM ModeBasis (Except Err Tree) := fun b =>
  match b.grid with
  | none => (.error .attr, b)
  | some g =>
    let (gt, g') := gd g
    (.ok (.dict [(.grid, gt),
      (.tm, match b.tm with
        | .dense a => .arr a
        | .sparse c => c.toDict),
      (.isSparse, .bool b.isSparse)]), { b with grid := some g' })

def ModeBasis.toDictM : StateM ModeBasis (Except Err Tree) := ModeBasis.toDictMWith Grid.toDictM

def Csc.fromDict (t : Tree) : Except Err Csc := do
  let d ← asArr (← t.get .data)
  let i ← asArr (← t.get .indices)
  let p ← asArr (← t.get .indptr)
  let s ← (← asList (← t.get .shape)).mapM asDim
  .ok ⟨d, i, p, s⟩

def ModeBasis.fromDict (t : Tree) (native : Bool := true) : Except Err ModeBasis := do
  let tmT ← t.get .tm
  let m ← match tmT with
    | .dict kv => (Csc.fromDict (.dict kv)).map Matrix.sparse
    | .arr a => .ok (Matrix.dense a)
    | _ => .error .type
  let g ← match t.get .grid with
    | .ok gt => (Grid.fromDict gt).map some
    | .error _ => .ok none
  let sp ← t.get .isSparse
  match sp with
  | .bool true => ModeBasis.toSparse native ⟨m, g⟩
  | .bool false => .ok (ModeBasis.toDense ⟨m, g⟩)
  | _ => .error .type

/-! ## sparse storage formats assigned through the `transformation_matrix` setter

The constructor, `append` and `extend` always store CSC; the setter stores what it is given.
`to_dict` (after the repair of D162) converts to CSC first; the unrepaired `to_dict` wrote the
`data` / `indices` / `indptr` attributes of whatever matrix was stored. -/

/-- what `ModeBasis._transformation_matrix` can hold when it is sparse.  A CSR matrix is carried as
its three arrays and its shape `[rows, columns]` (same record as `Csc`; `indices` are column indices,
`indptr` has `rows + 1` entries).  `noIndices`: COO, LIL, DIA, DOK — formats without
`indices` / `indptr` attributes. -/
inductive SpStore where
  | csc (c : Csc)
  | csr (r : Csc)
  | noIndices
deriving Repr

/-- the stored entries `(row, column, value)` of a CSR matrix, in storage order -/
def csrEntries (r : Csc) : List (Nat × Nat × Rat) :=
  (List.range (r.shape.headD 0)).flatMap fun i =>
    let lo := ratNat (r.indptr.data.getD i 0)
    let hi := ratNat (r.indptr.data.getD (i + 1) 0)
    (List.range (hi - lo)).map fun q =>
      (i, ratNat (r.indices.data.getD (lo + q) 0), r.data.data.getD (lo + q) 0)

/-- `scipy.sparse.csc_matrix(csr)` (`csr_tocsc`): the entries are distributed over the columns in
storage order, i.e. sorted by row inside each column; explicit zeros and duplicates are kept -/
def csrToCsc (r : Csc) : Csc :=
  let n := r.shape.headD 0
  let m := (r.shape.drop 1).headD 0
  let es := csrEntries r
  let cols := (List.range m).map fun j => es.filter fun e => e.2.1 == j
  let flat := cols.flatten
  { data := ⟨r.data.dtype, [flat.length], flat.map (·.2.2)⟩
    indices := ⟨r.indices.dtype, [flat.length], flat.map fun e => natRat e.1⟩
    indptr := ⟨r.indptr.dtype, [m + 1], (cumul 0 (cols.map List.length)).map natRat⟩
    shape := [n, m] }

/-- the dense matrix a CSR record stands for (duplicates summed) -/
def csrToDense (r : Csc) : Arr :=
  let n := r.shape.headD 0
  let m := (r.shape.drop 1).headD 0
  let es := csrEntries r
  { dtype := r.data.dtype, shape := [n, m]
    data := (List.range (n * m)).map fun k =>
      sumRat ((es.filter fun e => e.1 == k / m && e.2.1 == k % m).map (·.2.2)) }

/-- the `transformation_matrix` entry of `to_dict()` after the repair of D162:
`scipy.sparse.csc_matrix(T)` first.  (COO … DOK are converted by SciPy too; their conversion is not
modelled: `none`.) -/
def SpStore.toCsc : SpStore → Option Csc
  | .csc c => some c
  | .csr r => some (csrToCsc r)
  | .noIndices => none

/-- the unrepaired `to_dict()`: the attributes of the stored matrix as they are (`AttributeError`
for the formats that have none) -/
def SpStore.toDictOld : SpStore → Except Err Tree
  | .csc c => .ok c.toDict
  | .csr r => .ok r.toDict
  | .noIndices => .error .attr

/-- SciPy's consistency check of `csc_matrix((data, indices, indptr), shape)`:
`len(indptr) == columns + 1` ("index pointer size … should be …") and 1-D arrays of equal length -/
def Csc.wellFormed (c : Csc) : Bool :=
  c.shape.length == 2 &&
  c.indptr.data.length == (c.shape.drop 1).headD 0 + 1 &&
  c.data.data.length == c.indices.data.length

/-! ## FITS files -/

structure FitsFile where
  /-- data of the primary HDU, if an image was written -/
  image : Option Arr
  /-- the `field` / `mode_basis` entry of the embedded ASDF tree -/
  tree : Tree
deriving Repr

/-- The dtypes astropy accepts for an image HDU (signed 8 bit and the unsigned types through
`BZERO` scaling); anything else (`bool`, `complex`, `float16`) is a `KeyError`. -/
def fitsDtypeOk (dtype : String) : Bool :=
  ["f8", "f4", "i8", "i4", "i2", "u1", "i1", "u2", "u4", "u8"].contains dtype

/-- `write_field(field, 'x.fits')`: separated grids store `field.shaped` as an image and drop
`values` from the tree. -/
def writeFieldFits (f : Field) : Except Err FitsFile :=
  if f.grid.coords.isSeparated then do
    let img ← f.values.reshape (f.values.shape.dropLast ++ f.grid.coords.shape)
    if fitsDtypeOk img.dtype then .ok ⟨some img, f.toDict.erase .values⟩ else .error .key
  else .ok ⟨none, f.toDict⟩

/-- `read_field('x.fits')` after the repair of D19: only an image is reshaped. -/
def readFieldFits (file : FitsFile) : Except Err Field :=
  match file.image with
  | some img => do
    let g ← Grid.fromDict (← file.tree.get .grid)
    let v ← img.reshape (pyDropLast img.shape g.coords.ndim ++ [g.coords.size])
    Field.fromDict (file.tree.set .values (.arr v))
  | none => Field.fromDict file.tree

/-- `read_field('x.fits')` on the unrepaired tree: whatever `values` is (image or the array of
the tree) is reshaped to `values.shape[:-grid.ndim] + [grid.size]`. -/
def readFieldFitsOld (file : FitsFile) : Except Err Field := do
  let tree := match file.image with
    | some img => file.tree.set .values (.arr img)
    | none => file.tree
  let g ← Grid.fromDict (← tree.get .grid)
  let vals ← asArr (← tree.get .values)
  let newShape := pyDropLast vals.shape g.coords.ndim ++ [g.coords.size]
  let v ← vals.reshape newShape
  let f ← Field.fromDict (tree.set .values (.arr v))
  let v' ← f.values.reshape newShape
  .ok { f with values := v' }

/-- `write_mode_basis(b, 'x.fits')` after the repair of D160: on a separated grid of non-zero
size the dense matrix is stored as an image with axes (mode, tensor…, grid…).  A separated grid
that is not regular has no `delta`: `ValueError` before anything is written. -/
def writeBasisFits (b : ModeBasis) : Except Err FitsFile := do
  let t ← b.toDict
  match b.grid with
  | none => .error .attr
  | some g =>
    if g.coords.size ≠ 0 && g.coords.isSeparated then do
      let T := b.denseArr
      let newShape := T.shape.getLastD 1 :: (T.shape.dropLast.dropLast ++ g.coords.shape)
      let img ← T.moveLastToFront.reshape newShape
      if !fitsDtypeOk img.dtype then .error .key
      else if g.coords.isRegular then .ok ⟨some img, t.erase .tm⟩ else .error .value
    else .ok ⟨none, t⟩

/-- `read_mode_basis('x.fits')` after the repairs of D14 (native byte order) and D160. -/
def readBasisFits (file : FitsFile) : Except Err ModeBasis :=
  match file.image with
  | some img => do
    let g ← Grid.fromDict (← file.tree.get .grid)
    let m ← img.reshape (pyDropLast img.shape g.coords.ndim ++ [g.coords.size])
    ModeBasis.fromDict (file.tree.set .tm (.arr m.moveFirstToLast)) true
  | none => ModeBasis.fromDict file.tree true

/-- unrepaired `write_mode_basis`: `T.T.reshape(-1, *grid.shape)` -/
def writeBasisFitsOld (b : ModeBasis) : Except Err FitsFile := do
  let t ← b.toDict
  match b.grid with
  | none => .error .attr
  | some g =>
    if g.coords.size ≠ 0 && g.coords.isSeparated then do
      let img ← b.denseArr.transposeAll.reshapeInfer g.coords.shape
      if !fitsDtypeOk img.dtype then .error .key
      else if g.coords.isRegular then .ok ⟨some img, t.erase .tm⟩ else .error .value
    else .ok ⟨none, t⟩

/-- astropy returns single-byte and (`BZERO`-scaled) unsigned images in native byte order, every
other image big endian -/
def fitsNative (dtype : String) : Bool := ["u1", "i1", "u2", "u4", "u8"].contains dtype

/-- unrepaired `read_mode_basis`: `modes.reshape(old_shape).T`, image still big endian -/
def readBasisFitsOld (file : FitsFile) : Except Err ModeBasis :=
  match file.image with
  | some img => do
    let g ← Grid.fromDict (← file.tree.get .grid)
    let m ← img.reshape (pyDropLast img.shape g.coords.ndim ++ [g.coords.size])
    ModeBasis.fromDict (file.tree.set .tm (.arr m.transposeAll)) (fitsNative img.dtype)
  | none => ModeBasis.fromDict file.tree true

/-! ## dtypes: kind, item size, byte order, and what each route does with them

Until round 5 a dtype was the opaque tag of `Arr.dtype` and `fitsDtypeOk` a table.  Here a dtype is
NumPy's triple; `fitsCard` is astropy's choice of `BITPIX` / `BZERO` for an image HDU (signed 8 bit
and the unsigned types are stored with an offset), and `readDType` is the dtype of the values read
back through each route.  `fitsDtypeOk` is proved to be `fitsCard` succeeding. -/

inductive DKind where
  | bool | int | uint | float | complex
deriving DecidableEq, Repr

/-- NumPy's byte-order character: `<`, `>`, `|` (single byte: not applicable) -/
inductive BOrder where
  | little | big | na
deriving DecidableEq, Repr

structure DType where
  kind : DKind
  size : Nat
  order : BOrder
deriving DecidableEq, Repr

/-- the dtypes NumPy has for these kinds (bool; 8–64 bit integers; float16/32/64; complex64/128);
single-byte types have no byte order, every other type has one -/
def DType.wellFormed (d : DType) : Bool :=
  (match d.kind with
   | .bool => d.size == 1
   | .int | .uint => d.size == 1 || d.size == 2 || d.size == 4 || d.size == 8
   | .float => d.size == 2 || d.size == 4 || d.size == 8
   | .complex => d.size == 8 || d.size == 16) &&
  ((d.order == .na) == (d.size == 1))

def DKind.char : DKind → String
  | .bool => "b" | .int => "i" | .uint => "u" | .float => "f" | .complex => "c"

def BOrder.char : BOrder → String
  | .little => "<" | .big => ">" | .na => "|"

/-- the byte-order-free tag carried by `Arr.dtype` (`"f8"`, `"u2"`, `"b1"`, `"c16"`) -/
def DType.tag (d : DType) : String := d.kind.char ++ toString d.size

/-- NumPy's `dtype.str` (`"<f8"`, `"|u1"`) -/
def DType.str (d : DType) : String := d.order.char ++ d.tag

def DType.parse? (s : String) : Option DType :=
  match s.toList with
  | o :: k :: digits =>
    match (match o with | '<' => some BOrder.little | '>' => some .big | '|' => some .na | _ => none),
          (match k with | 'b' => some DKind.bool | 'i' => some .int | 'u' => some .uint | 'f' => some .float
                        | 'c' => some .complex | _ => none),
          (String.ofList digits).toNat? with
    | some o, some k, some n => some ⟨k, n, o⟩
    | _, _, _ => none
  | _ => none

/-- the machine is little endian (x86-64 / aarch64): `=` is `<`, single bytes stay `|` -/
def DType.native (d : DType) : DType := { d with order := if d.size = 1 then .na else .little }

/-- the integers a dtype can hold (floats and complex numbers are not restricted here: the model
carries their values as exact rationals) -/
def DType.holds (d : DType) (v : Int) : Bool :=
  match d.kind with
  | .bool => v == 0 || v == 1
  | .int => decide (-(2 ^ (8 * d.size - 1) : Int) ≤ v) && decide (v < (2 ^ (8 * d.size - 1) : Int))
  | .uint => decide (0 ≤ v) && decide (v < (2 ^ (8 * d.size) : Int))
  | .float | .complex => true

/-- the header cards of a FITS image HDU that decide how pixels are stored -/
structure FitsCard where
  bitpix : Int
  /-- `BZERO` (0 = the card is absent) -/
  bzero : Int
deriving DecidableEq, Repr

/-- `astropy.io.fits.ImageHDU(array)`: `BITPIX` from the dtype (`DTYPE2BITPIX[dtype.name]`, a
`KeyError` for `bool`, `float16`, `complex64/128`), signed bytes and unsigned 16/32/64 bit integers as
the signed / unsigned storage type of the same width with `BZERO = ∓2^(bits-1)`.  Byte order plays no
role: the file is big endian. -/
def fitsCard (d : DType) : Except Err FitsCard :=
  match d.kind, d.size with
  | .uint, 1 => .ok ⟨8, 0⟩
  | .int, 1 => .ok ⟨8, -128⟩
  | .int, 2 => .ok ⟨16, 0⟩
  | .int, 4 => .ok ⟨32, 0⟩
  | .int, 8 => .ok ⟨64, 0⟩
  | .uint, 2 => .ok ⟨16, 32768⟩
  | .uint, 4 => .ok ⟨32, 2147483648⟩
  | .uint, 8 => .ok ⟨64, 9223372036854775808⟩
  | .float, 4 => .ok ⟨-32, 0⟩
  | .float, 8 => .ok ⟨-64, 0⟩
  | _, _ => .error .key

/-- the number written to the file for the pixel value `v`, and back -/
def FitsCard.store (c : FitsCard) (v : Rat) : Rat := v - c.bzero
def FitsCard.load (c : FitsCard) (s : Rat) : Rat := s + c.bzero

/-- does the stored integer fit the storage type of the file (`BITPIX = 8`: unsigned byte;
16/32/64: two's complement; negative `BITPIX`: IEEE floats, not restricted here) -/
def FitsCard.fits (c : FitsCard) (s : Int) : Bool :=
  if c.bitpix = 8 then decide (0 ≤ s) && decide (s < 256)
  else if 0 < c.bitpix then
    decide (-(2 ^ (c.bitpix.toNat - 1) : Int) ≤ s) && decide (s < (2 ^ (c.bitpix.toNat - 1) : Int))
  else true

/-- the ways values travel -/
inductive Route where
  /-- `from_dict(to_dict(x))` -/
  | dict
  /-- an asdf file (arrays keep dtype and byte order) -/
  | asdf
  /-- `pickle` of a `Field` (`__getstate__` / `__setstate__`) -/
  | pickle
  /-- `pickle` of a `ModeBasis` or `Grid` (default pickling: the object's `__dict__`, arrays by NumPy).  Kind and
  item size are kept; which byte order NumPy's unpickling hands back depends on the protocol and the memory
  layout and is not modelled (native here; the harness compares this route up to byte order) -/
  | pickleObject
  /-- FITS file, values inside the embedded ASDF tree (non-separated grids) -/
  | fitsTree
  /-- FITS file, `Field` values as the image HDU -/
  | fitsImageField
  /-- FITS file, mode-basis matrix as the image HDU (`read_mode_basis` converts to native order, D14) -/
  | fitsImageBasis
deriving DecidableEq, Repr

/-- the dtype astropy hands back for an image HDU: single bytes as they are, `BZERO`-scaled unsigned
integers as a freshly computed native array, everything else as the big-endian file content -/
def fitsImageDType (d : DType) : Except Err DType := do
  let c ← fitsCard d
  .ok (if d.size = 1 then { d with order := .na }
       else if c.bzero ≠ 0 then d.native else { d with order := .big })

/-- **the dtype of the values read back** through each route, or the refusal of the write.
Pickles (a `Field` through `__setstate__`, the arrays inside a pickled `ModeBasis`) come back in native
byte order: that is what NumPy's array pickling does on the NumPy under test (observed, tied). -/
def readDType (r : Route) (d : DType) : Except Err DType :=
  match r with
  | .dict | .asdf | .fitsTree => .ok d
  | .pickle | .pickleObject => .ok d.native
  | .fitsImageField => fitsImageDType d
  | .fitsImageBasis => (fitsImageDType d).map DType.native

/-- every well-formed dtype (for the finite statements) -/
def DType.all : List DType :=
  [⟨.bool, 1, .na⟩, ⟨.int, 1, .na⟩, ⟨.uint, 1, .na⟩] ++
  ([BOrder.little, BOrder.big].flatMap fun o =>
    [⟨.int, 2, o⟩, ⟨.int, 4, o⟩, ⟨.int, 8, o⟩, ⟨.uint, 2, o⟩, ⟨.uint, 4, o⟩, ⟨.uint, 8, o⟩,
     ⟨.float, 2, o⟩, ⟨.float, 4, o⟩, ⟨.float, 8, o⟩, ⟨.complex, 8, o⟩, ⟨.complex, 16, o⟩])

/-! ## the ASDF layer (asdf files, and the ASDF table embedded in FITS files)

The ASDF library is a parameter: `lib.load t` is the tree that `asdf.open(file).tree[key]` hands
back after `AsdfFile({key: t}).write_to(file)`.  What is assumed about it is the named hypothesis
`AsdfFaithful`; `AsdfLib.observed` is the behaviour seen on the real library (and monitored by the
harness on every file written): everything comes back as stored, except that a NumPy *scalar*
(`grid._weights = np.float64(2)`) is stored as a plain YAML number. -/

structure AsdfLib where
  load : Tree → Tree

/-- a NumPy scalar of float / integer kind becomes the Python number of the same value -/
def pyScalar : Tree → Tree
  | .arr ⟨dt, [], [v]⟩ =>
    if dt.startsWith "f" then .num (.float v)
    else if dt.startsWith "i" || dt.startsWith "u" then .num (.int v.num)
    else .arr ⟨dt, [], [v]⟩
  | t => t

def Tree.isNpScalar : Tree → Bool
  | .arr ⟨_, [], [_]⟩ => true
  | _ => false

/-- the tree of a grid after ASDF: only `weights` can hold a NumPy scalar -/
def normGridTree (t : Tree) : Tree :=
  match t.get .weights with
  | .ok w => t.set .weights (pyScalar w)
  | .error _ => t

/-- the tree of a field or mode basis after ASDF -/
def normObjTree (t : Tree) : Tree :=
  match t.get .grid with
  | .ok g => t.set .grid (normGridTree g)
  | .error _ => t

def asdfLoad (t : Tree) : Tree :=
  match t.get .grid with
  | .ok _ => normObjTree t
  | .error _ => normGridTree t

def AsdfLib.observed : AsdfLib := ⟨asdfLoad⟩

/-- **The assumption about the ASDF library**, as a hypothesis of the file theorems: as far as
`from_dict` can tell, the trees of grids, fields and mode bases come back as stored, NumPy-scalar
weights as Python numbers.  (`from_dict` only looks keys up; the real library returns the keys of
every dictionary in alphabetical order, which is why the clauses are stated through `fromDict`
rather than as equality of association lists.  The harness compares the tree loaded from every
file with `normGridTree`/`normObjTree` of the tree stored, dictionaries as maps.)  The FITS models
of fields and mode bases, `writeFieldFits` / `writeBasisFits`, identify the embedded tree with the
stored one; there the harness canonicalises NumPy-scalar weights before comparing. -/
structure AsdfFaithful (lib : AsdfLib) : Prop where
  grid : ∀ g : Grid, Grid.fromDict (lib.load g.toDict) = Grid.fromDict (normGridTree g.toDict)
  field : ∀ f : Field, Field.fromDict (lib.load f.toDict) = Field.fromDict (normObjTree f.toDict)
  basis : ∀ (b : ModeBasis) (t : Tree), b.toDict = .ok t →
    ModeBasis.fromDict (lib.load t) = ModeBasis.fromDict (normObjTree t)

/-- the grid as it is after a pass through ASDF: NumPy-scalar weights are Python numbers -/
def Grid.pyWeights (g : Grid) : Grid := { g with weights := pyScalar g.weights }

structure AsdfFile where
  /-- the `grid` / `field` / `mode_basis` entry as `asdf.open` returns it -/
  tree : Tree
deriving Repr

/-- `write_grid(g, 'x.asdf')` -/
def writeGridAsdf (lib : AsdfLib) (g : Grid) : Except Err AsdfFile := .ok ⟨lib.load g.toDict⟩
/-- `read_grid('x.asdf')` -/
def readGridAsdf (file : AsdfFile) : Except Err Grid := Grid.fromDict file.tree
/-- `read_grid('x.asdf')` on the unrepaired tree (D161) -/
def readGridAsdfOld (file : AsdfFile) : Except Err Grid := Grid.fromDictOld file.tree

/-- `write_grid(g, 'x.fits')`: no image, the tree in the embedded ASDF table -/
def writeGridFits (lib : AsdfLib) (g : Grid) : Except Err FitsFile := .ok ⟨none, lib.load g.toDict⟩
/-- `read_grid('x.fits')` -/
def readGridFits (file : FitsFile) : Except Err Grid := Grid.fromDict file.tree
def readGridFitsOld (file : FitsFile) : Except Err Grid := Grid.fromDictOld file.tree

def writeFieldAsdf (lib : AsdfLib) (f : Field) : Except Err AsdfFile := .ok ⟨lib.load f.toDict⟩
def readFieldAsdf (file : AsdfFile) : Except Err Field := Field.fromDict file.tree

def writeBasisAsdf (lib : AsdfLib) (b : ModeBasis) : Except Err AsdfFile := do
  let t ← b.toDict
  .ok ⟨lib.load t⟩
def readBasisAsdf (file : AsdfFile) : Except Err ModeBasis := ModeBasis.fromDict file.tree

/-! ## writers as programs over the object (for "writing never alters the object") -/

/-- `write_grid` (asdf / fits): `grid.to_dict()` is the only access to the object -/
def writeGridM (gd : StateM Grid Tree) (lib : AsdfLib) : StateM Grid (Except Err FitsFile) := fun g =>
  let (t, g') := gd g
  (.ok ⟨none, lib.load t⟩, g')

/-- `write_field(…, 'x.fits')`: `field.to_dict()`, then reads of `field.grid`, `field.shaped` -/
def writeFieldFitsM (gd : StateM Grid Tree) : StateM Field (Except Err FitsFile) := fun f =>
  let (_, f') := Field.toDictMWith gd f
  (writeFieldFits f', f')

/-- `write_mode_basis(…, 'x.fits')` -/
def writeBasisFitsM (gd : StateM Grid Tree) : StateM ModeBasis (Except Err FitsFile) := fun b =>
  let (_, b') := ModeBasis.toDictMWith gd b
  (writeBasisFits b', b')

/-! ## file names, formats and the dispatch of `read_*` / `write_*` -/

inductive Fmt where
  | asdf | fits | pickle
deriving DecidableEq, Repr

/-- `str.endswith` on the characters of the name -/
def endsWith (name suffix : List Char) : Bool := suffix.isSuffixOf name

/-- the suffixes `_guess_file_format` looks for (explicit character lists: proofs reduce them) -/
def sAsdf : List Char := ['a', 's', 'd', 'f']
def sFits : List Char := ['f', 'i', 't', 's']
def sFitsGz : List Char := ['f', 'i', 't', 's', '.', 'g', 'z']
def sPkl : List Char := ['p', 'k', 'l']
def sPickle : List Char := ['p', 'i', 'c', 'k', 'l', 'e']

/-- `_guess_file_format(filename)` -/
def guessFormat (name : List Char) : Option Fmt :=
  if endsWith name sAsdf then some .asdf
  else if endsWith name sFits || endsWith name sFitsGz then some .fits
  else if endsWith name sPkl || endsWith name sPickle then some .pickle
  else none

def Fmt.name : Fmt → String
  | .asdf => "asdf" | .fits => "fits" | .pickle => "pickle"

/-- the `fmt` string the branches `if fmt == 'asdf' … elif fmt == 'fits' … elif fmt == 'pickle'`
accept -/
def Fmt.ofName? (s : String) : Option Fmt :=
  if s = "asdf" then some .asdf else if s = "fits" then some .fits
  else if s = "pickle" then some .pickle else none

/-- first step of every reader and writer: `if fmt is None: fmt = _guess_file_format(filename)`,
`ValueError` when nothing could be guessed -/
def resolveName (name : List Char) (fmt : Option String) : Except Err String :=
  match fmt with
  | some s => .ok s
  | none =>
    match guessFormat name with
    | some f => .ok f.name
    | none => .error .value

/-- last step: the `if / elif` chain; anything else is `NotImplementedError` -/
def dispatch (s : String) : Except Err Fmt :=
  match Fmt.ofName? s with
  | some f => .ok f
  | none => .error .notImpl

/-- the format a reader / writer ends up with for `(filename, fmt)` -/
def formatOf (name : List Char) (fmt : Option String) : Except Err Fmt :=
  (resolveName name fmt).bind dispatch

/-- what a file holds: an asdf file, a FITS file, or a pickle of `P` -/
inductive Stored (P : Type) where
  | asdf (f : AsdfFile)
  | fits (f : FitsFile)
  | pickle (p : P)

/-- the format of a file (what the magic bytes of the real file say) -/
def Stored.fmt {P : Type} : Stored P → Fmt
  | .asdf _ => .asdf | .fits _ => .fits | .pickle _ => .pickle

/-! ### the `overwrite` argument: a write onto a path that may already hold a file -/

/-- why a write onto a path did not happen: the writer itself refused (`Err`, before the path is touched:
format resolution, `to_dict()`, building the HDUs) or the path holds a file (`OSError` of
`astropy`'s `HDUList.writeto(..., overwrite=False)`) -/
inductive Refusal where
  | writer (e : Err)
  | fileExists
deriving DecidableEq, Repr

/-- `write_*(x, name, fmt, overwrite)` on a path that holds `prev`; `w` is what the writer produces for
`(x, name, fmt)` on a fresh path (`writeGridFile …`, `writeFieldFile …`, `writeBasisFile …`).  Returns what
the path holds afterwards and whether the call raised.  Only the FITS branch hands `overwrite` on (to
`HDUList.writeto`); `asdf.AsdfFile.write_to` and `open(name, 'wb')` replace whatever is there — the
argument has no effect for asdf and pickle files. -/
def writeOver {P : Type} (prev : Option (Stored P)) (overwrite : Bool) (w : Except Err (Stored P)) :
    Option (Stored P) × Except Refusal Unit :=
  match w with
  | .error e => (prev, .error (.writer e))
  | .ok st =>
    if st.fmt == .fits && prev.isSome && !overwrite then (prev, .error .fileExists)
    else (some st, .ok ())

/-- `write_grid(grid, filename, fmt)`: the format is resolved, `grid.to_dict()` is computed (for
every format), then the format's writer runs.  A pickle holds the object (default pickling). -/
def writeGridFile (lib : AsdfLib) (name : List Char) (fmt : Option String) (g : Grid) :
    Except Err (Stored Grid) := do
  let s ← resolveName name fmt
  let _tree := g.toDict
  match ← dispatch s with
  | .asdf => (writeGridAsdf lib g).map .asdf
  | .fits => (writeGridFits lib g).map .fits
  | .pickle => .ok (.pickle g)

/-- `read_grid(filename, fmt)`; a file of another format than the one asked for is refused by the
library that opens it -/
def readGridFile (name : List Char) (fmt : Option String) (c : Stored Grid) : Except Err Grid := do
  let s ← resolveName name fmt
  match ← dispatch s, c with
  | .asdf, .asdf file => readGridAsdf file
  | .fits, .fits file => readGridFits file
  | .pickle, .pickle g => .ok g
  | _, _ => .error .value

/-- `write_field`: a pickle holds `Field.__getstate__()` (`l` = memory layout of the data) -/
def writeFieldFile (lib : AsdfLib) (l : Layout) (name : List Char) (fmt : Option String) (f : Field) :
    Except Err (Stored PickleState) := do
  let s ← resolveName name fmt
  let _tree := f.toDict
  match ← dispatch s with
  | .asdf => (writeFieldAsdf lib f).map .asdf
  | .fits => (writeFieldFits f).map .fits
  | .pickle => .ok (.pickle (f.getState l))

def readFieldFile (name : List Char) (fmt : Option String) (c : Stored PickleState) :
    Except Err Field := do
  let s ← resolveName name fmt
  match ← dispatch s, c with
  | .asdf, .asdf file => readFieldAsdf file
  | .fits, .fits file => readFieldFits file
  | .pickle, .pickle st => .ok (Field.setState st)
  | _, _ => .error .value

/-- `write_mode_basis`: `mode_basis.to_dict()` is computed before the dispatch, so a basis without
grid is refused (`AttributeError`) in every format, pickle included -/
def writeBasisFile (lib : AsdfLib) (name : List Char) (fmt : Option String) (b : ModeBasis) :
    Except Err (Stored ModeBasis) := do
  let s ← resolveName name fmt
  let _tree ← b.toDict
  match ← dispatch s with
  | .asdf => (writeBasisAsdf lib b).map .asdf
  | .fits => (writeBasisFits b).map .fits
  | .pickle => .ok (.pickle b)

def readBasisFile (name : List Char) (fmt : Option String) (c : Stored ModeBasis) :
    Except Err ModeBasis := do
  let s ← resolveName name fmt
  match ← dispatch s, c with
  | .asdf, .asdf file => readBasisAsdf file
  | .fits, .fits file => readBasisFits file
  | .pickle, .pickle b => .ok b
  | _, _ => .error .value

/-! ## chains of files: what is read from one file is written to the next -/

abbrev Hop := List Char × Option String

/-- a chain of file round trips: what is read from one file is written to the next -/
def gridChain (lib : AsdfLib) : List Hop → Grid → Except Err Grid
  | [], g => .ok g
  | (n, f) :: r, g => do
    let c ← writeGridFile lib n f g
    let g' ← readGridFile n f c
    gridChain lib r g'

/-- each hop comes with the memory layout of the data it writes (it matters for pickle files only:
a field read from a pickle of Fortran-ordered data is Fortran-ordered again, every other reader
returns C-ordered data) -/
def fieldChain (lib : AsdfLib) : List (Layout × Hop) → Field → Except Err Field
  | [], x => .ok x
  | (l, n, f) :: r, x => do
    let c ← writeFieldFile lib l n f x
    let x' ← readFieldFile n f c
    fieldChain lib r x'

def basisChain (lib : AsdfLib) : List Hop → ModeBasis → Except Err ModeBasis
  | [], b => .ok b
  | (n, f) :: r, b => do
    let c ← writeBasisFile lib n f b
    let b' ← readBasisFile n f c
    basisChain lib r b'

end HcipyVerif.Serial
