import HcipyVerif.Model.Cache

/-!
# C05 — model of the cache inside `make_agnostic_optical_element` (hcipy/optics/optical_element.py l.791-991)

Core Lean only.  The deprecated but exported decorator `make_agnostic_optical_element` wraps a
"gnostic" element class (one that needs `input_grid` and/or `wavelength` at construction) into a
class whose `get_instance(input_grid, output_grid, wavelength)` keeps its **own** `OrderedDict`
cache, independent of `AgnosticOpticalElement._instance_data_cache`:

* the key is `('input', grid, wlkey)` or `('output', grid, wlkey)` (grid part only for grid
  dependent elements, wavelength part only for wavelength dependent ones);
* a hit returns the cached element;
* a miss with an output grid raises `RuntimeError('Output grid is not known. Perform a forward
  propagation first …')` — an element cannot be built from its output grid;
* when `len(cache) == 2 * num_in_cache` the two oldest *entries* are popped (whatever they belong to);
* the new element is stored under the request key and, for grid dependent elements, under
  `('output', elem.output_grid, wlkey)` (plain dict assignment: an existing entry is overwritten in place).

Grids and wavelength keys are ids as in `Model/Cache.lean`.  An instance is what it was built from
(`input_grid` for grid dependent classes, the wavelength for wavelength dependent ones) plus an identity.
-/
namespace HcipyVerif.Cache.Deco

inductive Side
  | input | output
deriving DecidableEq, Repr

structure DKey where
  /-- `('input', g)` / `('output', g)`; `none` for an element that is not grid dependent -/
  grid : Option (Side × GridId)
  /-- the wavelength key; `none` for an element that is not wavelength dependent -/
  w : Option WlKey
deriving DecidableEq, Repr

structure DInst where
  /-- the `input_grid` the element was constructed with (`none`: the class takes no grid) -/
  i : Option GridId
  /-- the wavelength (key) the element was constructed with (`none`: the class takes no wavelength) -/
  w : Option WlKey
  /-- object identity (creation counter) -/
  id : Nat
deriving DecidableEq, Repr

structure DElem where
  gridDep : Bool
  wlDep : Bool
  /-- `num_in_cache` -/
  num : Nat
  /-- `elem.output_grid` of the element constructed for this input grid and wavelength -/
  outOf : GridId → Option WlKey → GridId

inductive DErr
  | value     -- ValueError: no / both grids, or no wavelength
  | runtime   -- RuntimeError: 'Output grid is not known. Perform a forward propagation first …'
  | key       -- KeyError of `popitem` on an empty dict
deriving DecidableEq, Repr

structure DSt where
  /-- `self._cache` (OrderedDict), oldest entry first -/
  cache : List (DKey × DInst)
  /-- number of elements constructed so far (next identity) -/
  next : Nat
deriving Repr

/-- A freshly constructed decorated element. -/
def DSt.init : DSt := { cache := [], next := 0 }

def dlookup (cache : List (DKey × DInst)) (k : DKey) : Option DInst :=
  (cache.find? (fun p => p.1 = k)).map (·.2)

/-- dict assignment `d[k] = v`: in place if the key is present, appended otherwise -/
def dassign (cache : List (DKey × DInst)) (k : DKey) (v : DInst) : List (DKey × DInst) :=
  if cache.any (fun p => p.1 = k) then cache.map (fun p => if p.1 = k then (k, v) else p)
  else cache ++ [(k, v)]

/-- `self._cache.popitem(False)` -/
def popOldest (cache : List (DKey × DInst)) : Except DErr (List (DKey × DInst)) :=
  match cache with
  | [] => .error .key
  | _ :: rest => .ok rest

/-- "If the cache is full, remove the oldest element": two `popitem(False)` when
`len(cache) == 2 * num_in_cache`. -/
def devict (e : DElem) (cache : List (DKey × DInst)) : Except DErr (List (DKey × DInst)) :=
  if cache.length = 2 * e.num then
    match popOldest cache with
    | .error err => .error err
    | .ok c1 => popOldest c1
  else .ok cache

/-- The cache key of a request (after the two `ValueError` checks); `none` = `ValueError`. -/
def dreqKey (e : DElem) (i o : Option GridId) (w : Option WlKey) : Option DKey :=
  if e.gridDep && (i.isNone == o.isNone) then none
  else if e.wlDep && w.isNone then none
  else
    some { grid := if e.gridDep then
                      (match i, o with
                       | some a, _ => some (Side.input, a)
                       | none, some b => some (Side.output, b)
                       | none, none => none)
                   else none,
           w := if e.wlDep then w else none }

/-- What a new element is constructed from. -/
def newInst (e : DElem) (i : Option GridId) (w : Option WlKey) (id : Nat) : DInst :=
  { i := if e.gridDep then i else none, w := if e.wlDep then w else none, id := id }

/-- `get_instance(input_grid, output_grid, wavelength)` -/
def getInstance (e : DElem) (s : DSt) (i o : Option GridId) (w : Option WlKey) :
    Except DErr (DSt × DInst) :=
  match dreqKey e i o w with
  | none => .error .value
  | some k =>
    match dlookup s.cache k with
    | some v => .ok (s, v)
    | none =>
      if o.isSome then .error .runtime
      else
        match devict e s.cache with
        | .error err => .error err
        | .ok c =>
          let inst := newInst e i w s.next
          let c1 := dassign c k inst
          let c2 := match e.gridDep, i with
            | true, some a => dassign c1 { grid := some (Side.output, e.outOf a (if e.wlDep then w else none)),
                                           w := if e.wlDep then w else none } inst
            | _, _ => c1
          .ok ({ cache := c2, next := s.next + 1 }, inst)

/-! ### Histories -/

/-- One call of `get_instance`: forward = `(some a, none, w)`, backward = `(none, some b, w)`. -/
structure DOp where
  i : Option GridId
  o : Option GridId
  w : Option WlKey
deriving DecidableEq, Repr

/-- What the caller can observe: the *content* of the element it was handed, or the exception. -/
inductive DResp
  | inst (i : Option GridId) (w : Option WlKey)
  | error (err : DErr)
deriving DecidableEq, Repr

def dstep (e : DElem) (s : DSt) (op : DOp) : DSt × DResp :=
  match getInstance e s op.i op.o op.w with
  | .ok (s', v) => (s', .inst v.i v.w)
  | .error err => (s, .error err)

def drun (e : DElem) : DSt → List DOp → List DResp
  | _, [] => []
  | s, op :: ops => (dstep e s op).2 :: drun e (dstep e s op).1 ops

/-- The specification of C05: every request is answered by a freshly constructed decorated element. -/
def dspecRun (e : DElem) (ops : List DOp) : List DResp :=
  ops.map fun op => (dstep e DSt.init op).2

/-- The responses to the requests that name no output grid (forward propagations). -/
def forwardOnly : List DOp → List DResp → List DResp
  | op :: ops, r :: rs => if op.o.isNone then r :: forwardOnly ops rs else forwardOnly ops rs
  | _, _ => []

end HcipyVerif.Cache.Deco
