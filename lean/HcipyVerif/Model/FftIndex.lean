import HcipyVerif.Model.FftGrid

/-!
# The FastFourierTransform pipeline, one axis — executable, core Lean only

The definitions are polymorphic in the coordinate scalars `K` (run at `Rat`, proved over any
field) and in the field values `C` (run at the formal phase sums `PSum` below, proved over any
field, in particular `ℂ`).  `exp` enters through two characters

* `T : K → C`  — argument in *turns*   (`T t = exp(2πi·t)`),
* `E : K → C`  — argument in *radians* (`E r = exp(i·r)`),

so that an output coordinate `u = 2π·a + s` never has to be formed: `exp(-i·u·x) = T(-(a·x))·E(-(s·x))`.

`fastForward` / `fastBackward` follow `FastFourierTransform.forward/backward` line by line:
input multiplier (`shift_output`), zero padding into the internal array, `ifftshift`, DFT,
`fftshift`, crop, output multiplier (`shift_input`: centre phase with the piston divided out, the
emulated-fftshift phase if configured, the weights).
-/
namespace HcipyVerif.Fft

section generic
variable {C : Type} [Zero C] [Add C] [Mul C]

/-- `Σ_{i<n} g i` -/
def sumRange : Nat → (Nat → C) → C
  | 0, _ => 0
  | n + 1, g => sumRange n g + g n

/-- zero padding: `internal_array[:] = 0; internal_array[cutout] = f` -/
def pad (N M : Nat) (f : Nat → C) (p : Nat) : C :=
  if padStart N M ≤ p ∧ p < padStart N M + N then f (p - padStart N M) else 0

/-- `np.fft.ifftshift`: roll by `-(M//2)` -/
def ifftshift (M : Nat) (a : Nat → C) (i : Nat) : C := a ((i + M / 2) % M)

/-- `np.fft.fftshift`: roll by `+(M//2)` -/
def fftshift (M : Nat) (a : Nat → C) (i : Nat) : C := a ((i + (M - M / 2)) % M)

/-- the assumed specification of the FFT kernel: `out[q] = Σ_p a[p]·ker(p·q)`,
`ker n = exp(∓2πi·n/M)` -/
def dft (M : Nat) (ker : Int → C) (a : Nat → C) (q : Nat) : C :=
  sumRange M fun p => a p * ker ((p : Int) * (q : Int))

/-- `array[cutout]` for the centred window of `Mo` samples -/
def crop (M Mo : Nat) (a : Nat → C) (k : Nat) : C := a (k + padStart Mo M)

/-- the centred FFT core, with or without the two shifts -/
def core (shifts : Bool) (N M Mo : Nat) (ker : Int → C) (f : Nat → C) : Nat → C :=
  if shifts then crop M Mo (fftshift M (dft M ker (ifftshift M (pad N M f))))
  else crop M Mo (dft M ker (pad N M f))

end generic

/-- One axis of a `FastFourierTransform`: sizes, input grid `(δ, z)`, output grid
`(Δ = 2π·dT, zero = 2π·(-dT·⌊Mo/2⌋) + s)`, the weight factor `w` and the configuration switch. -/
structure Cfg (K C : Type) where
  N : Nat
  M : Nat
  Mo : Nat
  δ : K
  z : K
  dT : K
  s : K
  w : C
  emu : Bool

section pipeline
variable {K C : Type} [Add K] [Sub K] [Mul K] [Neg K] [Div K] [NatCast K] [IntCast K]
  [Zero C] [One C] [Add C] [Mul C] [Inv C] [NatCast C]

/-- input coordinate `x_j = z + j·δ` -/
def Cfg.x (g : Cfg K C) (j : Nat) : K := g.z + (j : K) * g.δ

/-- output coordinate in turns (without the shift): `a_k = dT·(k - ⌊Mo/2⌋)`;
the coordinate itself is `u_k = 2π·a_k + s` -/
def Cfg.a (g : Cfg K C) (k : Nat) : K := g.dT * ((k : K) - ((g.Mo / 2 : Nat) : K))

/-- `center = zero + delta·(dims // 2)` -/
def Cfg.centre (g : Cfg K C) : K := g.z + g.δ * ((g.N / 2 : Nat) : K)

/-- `f_shift = delta·(internal_shape // 2)` -/
def Cfg.fShift (g : Cfg K C) : K := g.δ * ((g.M / 2 : Nat) : K)

/-- internal grid coordinate in turns: `dT·(p - ⌊M/2⌋)` -/
def Cfg.aInt (g : Cfg K C) (p : Nat) : K := g.dT * ((p : K) - ((g.M / 2 : Nat) : K))

variable (T E : K → C)

/-- `exp(-i·center·u_k)` on the output grid -/
def Cfg.centrePhase (g : Cfg K C) (k : Nat) : C := T (-(g.centre * g.a k)) * E (-(g.centre * g.s))

/-- emulated fftshift on the output side: `exp(i·f_shift·u_int)[cutout_output]` -/
def Cfg.emuOut (g : Cfg K C) (k : Nat) : C :=
  if g.emu then T (g.fShift * g.aInt (k + padStart g.Mo g.M)) else 1

/-- emulated fftshift on the input side:
`(exp(i·f_shift·u_int)·exp(-i·f_shift·zero_int))[cutout_input]` -/
def Cfg.emuIn (g : Cfg K C) (j : Nat) : C :=
  if g.emu then T (g.fShift * g.aInt (j + padStart g.N g.M)) * T (-(g.fShift * g.aInt 0)) else 1

/-- `shift_input`: centre phase, piston removed, emulated shift, weights -/
def Cfg.outMult (g : Cfg K C) (k : Nat) : C :=
  g.centrePhase T E k * (g.centrePhase T E (g.Mo / 2))⁻¹ * g.emuOut T k * g.w

/-- `shift_output`: output-shift phase on the input grid, emulated shift -/
def Cfg.inMult (g : Cfg K C) (j : Nat) : C := E (-(g.s * g.x j)) * g.emuIn T j

/-- forward FFT kernel `exp(-2πi·n/M)` -/
def Cfg.kerF (g : Cfg K C) (n : Int) : C := T (-((n : K) / (g.M : K)))
/-- backward FFT kernel `exp(+2πi·n/M)` -/
def Cfg.kerB (g : Cfg K C) (n : Int) : C := T ((n : K) / (g.M : K))

/-- `FastFourierTransform.forward` on one axis -/
def fastForward (g : Cfg K C) (f : Nat → C) (k : Nat) : C :=
  core (!g.emu) g.N g.M g.Mo (g.kerF T) (fun j => f j * g.inMult T E j) k * g.outMult T E k

/-- `FastFourierTransform.backward` on one axis (`ifftn` carries the factor `1/M`) -/
def fastBackward (g : Cfg K C) (F : Nat → C) (j : Nat) : C :=
  ((g.M : C))⁻¹ * core (!g.emu) g.Mo g.M g.N (g.kerB T) (fun k => F k * (g.outMult T E k)⁻¹) j
    * (g.inMult T E j)⁻¹

/-- the defining sum, forward: `Σ_j f_j·w·exp(-i·u_k·x_j)` -/
def sumForward (g : Cfg K C) (f : Nat → C) (k : Nat) : C :=
  sumRange g.N fun j => f j * g.w * (T (-(g.a k * g.x j)) * E (-(g.s * g.x j)))

/-- the defining sum, backward: `Σ_k F_k·(Δ/2π)·exp(+i·u_k·x_j)`; the weight `Δ/2π = dT` is
passed as `wOut` -/
def sumBackward (g : Cfg K C) (wOut : C) (F : Nat → C) (j : Nat) : C :=
  sumRange g.Mo fun k => F k * wOut * (T (g.a k * g.x j) * E (g.s * g.x j))

end pipeline

/-! ## Formal phase sums: the executable instance of `C`

A term is `c·exp(i·(2π·t + r))` with `c, t, r` rational, `t` reduced to `[0,1)`.  Sums are kept
with distinct phases.  Only monomials are invertible (all multipliers are monomials). -/

structure Term where
  c : Rat
  t : Rat
  r : Rat
deriving DecidableEq, Repr

structure PSum where
  terms : List Term
deriving DecidableEq, Repr

def fracPart (x : Rat) : Rat := x - (x.floor : Rat)

namespace PSum

def addTerm (l : List Term) (x : Term) : List Term :=
  if x.c = 0 then l else
  match l with
  | [] => [x]
  | y :: ys =>
    if y.t = x.t ∧ y.r = x.r then
      (if y.c + x.c = 0 then ys else { y with c := y.c + x.c } :: ys)
    else y :: addTerm ys x

def add (a b : PSum) : PSum := ⟨b.terms.foldl addTerm a.terms⟩

def mulTerm (x y : Term) : Term := ⟨x.c * y.c, fracPart (x.t + y.t), x.r + y.r⟩

def mul (a b : PSum) : PSum :=
  ⟨(a.terms.flatMap fun x => b.terms.map fun y => mulTerm x y).foldl addTerm []⟩

def inv (a : PSum) : PSum :=
  match a.terms with
  | [x] => if x.c = 0 then ⟨[]⟩ else ⟨[⟨1 / x.c, fracPart (-x.t), -x.r⟩]⟩
  | _ => ⟨[]⟩

instance : Zero PSum := ⟨⟨[]⟩⟩
instance : One PSum := ⟨⟨[⟨1, 0, 0⟩]⟩⟩
instance : Add PSum := ⟨add⟩
instance : Mul PSum := ⟨mul⟩
instance : Inv PSum := ⟨inv⟩
instance : NatCast PSum := ⟨fun n => if n = 0 then ⟨[]⟩ else ⟨[⟨(n : Rat), 0, 0⟩]⟩⟩

/-- `exp(2πi·t)` -/
def turns (t : Rat) : PSum := ⟨[⟨1, fracPart t, 0⟩]⟩
/-- `exp(i·r)` -/
def rad (r : Rat) : PSum := ⟨[⟨1, 0, r⟩]⟩
def ofRat (c : Rat) : PSum := if c = 0 then ⟨[]⟩ else ⟨[⟨c, 0, 0⟩]⟩
/-- the unit impulse at `j` -/
def impulse (j : Nat) (i : Nat) : PSum := if i = j then ofRat 1 else 0

end PSum

/-- the executable instance: coordinates in `Rat`, values in `PSum` -/
abbrev RCfg := Cfg Rat PSum

def RCfg.ofPlan (p : AxisPlan) (w : Rat) (emu : Bool) : RCfg :=
  { N := p.N, M := p.M, Mo := p.Mo, δ := p.delta, z := p.zero, dT := p.dT, s := p.shift,
    w := PSum.ofRat w, emu := emu }

end HcipyVerif.Fft
