import HcipyVerif.Model.Shift
/-!
# C15 — the turbulence layers as state machines
(`hcipy/atmosphere/finite_atmospheric_layer.py`, `infinite_atmospheric_layer.py`)

The random generator is an explicit value `Rng = (seed, position in the stream)`;
`copy.deepcopy(rng)` is the value itself (an independent stream in the same state) and drawing `n`
numbers advances the position by `n`.  What a layer shows is a deterministic function of the
stream state its randomness was drawn from plus the bookkeeping below, so the model keeps exactly
that: for the finite layer the observable screen is the pair (noise key, centre) — the real screen is
`synth` of the noise shifted by the centre (`Model/Shift.lean`); for the infinite layer the screen is
a row-major matrix of *symbolic samples* `Sym` (which draw produced it, after which extrusion history,
which element), moved around by `Shift.extrude` exactly as the code moves the floats.

Main definitions model the code **after** the repairs D17 (finite layer: `reset` rewinds `center` and
`t`, `evolve_until` stores `t`) and D18 (infinite layer: a positive velocity brings the new column/row
in at the left/bottom, so the screen moves with the wind).  `…Old` definitions keep the previous behaviour.
-/
namespace HcipyVerif.Layer
open HcipyVerif.Shift

structure Rng where
  seed : Nat
  pos : Nat
deriving DecidableEq, Repr

/-- drawing `n` numbers -/
def Rng.draw (r : Rng) (n : Nat) : Rng := { r with pos := r.pos + n }

abbrev V2 := Rat × Rat

/-- the physical parameters that can be changed on an existing layer through their setters -/
structure Par where
  cn2 : Rat
  L0 : Rat
deriving DecidableEq, Repr

inductive Op where
  | evolve (t : Rat)
  | reset (indep : Bool)
  /-- `layer.Cn_squared = c` (also what `MultiLayerAtmosphere.Cn_squared = …` does to each layer) -/
  | setCn2 (c : Rat)
  /-- `layer.L0 = l` / `layer.outer_scale = l` -/
  | setL0 (l : Rat)
  /-- `layer.velocity = v` -/
  | setVel (v : V2)
deriving DecidableEq, Repr

/-! ## Finite layer -/

structure FinL where
  nx : Nat
  ny : Nat
  vel : V2
  /-- current `Cn_squared`, `L0` -/
  par : Par
  /-- the parameters `_noise` was made with -/
  noisePar : Par
  /-- `_original_rng` -/
  orig : Rng
  /-- `rng` -/
  rng : Rng
  /-- the stream state from which `_noise` was drawn -/
  noise : Rng
  center : V2
  t : Rat
deriving DecidableEq, Repr

/-- numbers consumed by `SpectralNoiseFactoryMultiscale.make_random`: real and imaginary parts on
both Fourier grids, each of the size of the input grid -/
def FinL.draws (L : FinL) : Nat := 4 * (L.nx * L.ny)

/-- `_make_noise` -/
def FinL.makeNoise (L : FinL) : FinL := { L with noise := L.rng, noisePar := L.par, rng := L.rng.draw L.draws }

/-- the two branches on `make_independent_realization` -/
def FinL.pickRng (indep : Bool) (L : FinL) : FinL :=
  if indep then { L with orig := L.rng } else { L with rng := L.orig }

/-- `reset(make_independent_realization)` (repaired: rewinds centre and time) -/
def FinL.reset (indep : Bool) (L : FinL) : FinL :=
  { (L.pickRng indep).makeNoise with center := (0, 0), t := 0 }

/-- `reset` before the repair D17: `center` (and `_t`) untouched -/
def FinL.resetOld (indep : Bool) (L : FinL) : FinL := (L.pickRng indep).makeNoise

/-- a layer whose original generator is in state `o` (`__init__` ends with `reset()`) -/
def FinL.fresh (nx ny : Nat) (vel : V2) (par : Par) (o : Rng) : FinL :=
  FinL.reset false { nx := nx, ny := ny, vel := vel, par := par, noisePar := par, orig := o, rng := o, noise := o,
                     center := (0, 0), t := 0 }

/-- `FiniteAtmosphericLayer(grid, Cn_squared, L0, velocity, seed=seed)` -/
def FinL.new (nx ny : Nat) (vel : V2) (par : Par) (seed : Nat) : FinL := FinL.fresh nx ny vel par ⟨seed, 0⟩

/-- the parameter setters.  Only the stored parameter is modelled: the lazily re-drawn noise and the cached screen
of a *running* layer are not (the correspondence only runs histories in which a setter is followed by `reset`). -/
def FinL.setCn2 (c : Rat) (L : FinL) : FinL := { L with par := { L.par with cn2 := c } }
def FinL.setL0 (l : Rat) (L : FinL) : FinL := { L with par := { L.par with L0 := l } }
def FinL.setVel (v : V2) (L : FinL) : FinL := { L with vel := v }

/-- `evolve_until(t)` (repaired: stores `t`) -/
def FinL.evolve (t : Rat) (L : FinL) : FinL :=
  { L with center := (L.vel.1 * t, L.vel.2 * t), t := t }

def FinL.evolveOld (t : Rat) (L : FinL) : FinL :=
  { L with center := (L.vel.1 * t, L.vel.2 * t) }

def FinL.step (L : FinL) : Op → FinL
  | .evolve t => L.evolve t
  | .reset b => L.reset b
  | .setCn2 c => L.setCn2 c
  | .setL0 l => L.setL0 l
  | .setVel v => L.setVel v

def FinL.stepOld (L : FinL) : Op → FinL
  | .evolve t => L.evolveOld t
  | .reset b => L.resetOld b
  | .setCn2 c => L.setCn2 c
  | .setL0 l => L.setL0 l
  | .setVel v => L.setVel v

def FinL.run (L : FinL) (h : List Op) : FinL := h.foldl FinL.step L

/-- What `phase_for(1)` is a function of: the noise realisation (generator state and the parameters it was
made with) and the displacement. -/
def FinL.screen (L : FinL) : Rng × Par × V2 := (L.noise, L.noisePar, L.center)

/-- the screens read after each operation of a history -/
def FinL.screens (L : FinL) : List Op → List (Rng × Par × V2)
  | [] => []
  | o :: h => (L.step o).screen :: (L.step o).screens h

def FinL.screensOld (L : FinL) : List Op → List (Rng × Par × V2)
  | [] => []
  | o :: h => (L.stepOld o).screen :: (L.stepOld o).screensOld h

/-! ## Infinite layer -/

/-- A symbolic sample: drawn in the realisation that started at stream position `start`, after the
extrusion history coded by `hist` (0 = the initial screen), element `j` of that draw, with the layer
parameters `par` (the initial screen and every new row/column use the *current* `Cn_squared` / `L0`). -/
structure Sym where
  start : Nat
  hist : Nat
  j : Nat
  /-- the layer parameters when the sample was generated -/
  par : Par
  /-- the parameter changes made on the *running* layer since the reset before the sample was generated, latest first:
  (extrusion code at the time of the change, the parameters that were replaced).  A new row/column is computed from
  samples generated under the earlier parameters, so they are part of its identity. -/
  plog : List (Nat × Par)
deriving DecidableEq, Repr

def _root_.HcipyVerif.Shift.Where.code : Where → Nat
  | .left => 1 | .right => 2 | .top => 3 | .bottom => 4

/-- `np.round` (half to even) of a rational -/
def roundHalfEven (q : Rat) : Int :=
  let f := q.floor
  let r := q - f
  if r < 1 / 2 then f else if 1 / 2 < r then f + 1 else if f % 2 = 0 then f else f + 1

structure InfL where
  nx : Nat
  ny : Nat
  delta : V2
  vel : V2
  par : Par
  orig : Rng
  rng : Rng
  center : V2
  t : Rat
  /-- stream position at which the current realisation began -/
  start : Nat
  /-- code of the extrusions since the last reset -/
  hist : Nat
  /-- `_achromatic_screen`, flat, x fastest -/
  screen : List Sym
  /-- the sub-pixel offset handed to the interpolation, in length units -/
  sub : V2
  /-- parameter changes on the running layer since the last reset (see `Sym.plog`) -/
  plog : List (Nat × Par) := []
deriving DecidableEq, Repr

/-- `_make_initial_phase_screen`: a temporary finite layer (oversampling 16) draws the screen. -/
def InfL.initScreen (L : InfL) : InfL :=
  { L with start := L.rng.pos, hist := 0, plog := [],
           screen := (List.range (L.nx * L.ny)).map (fun k => ⟨L.rng.pos, 0, k, L.par, []⟩),
           rng := L.rng.draw (4 * (L.nx * L.ny)) }

def InfL.pickRng (indep : Bool) (L : InfL) : InfL :=
  if indep then { L with orig := L.rng } else { L with rng := L.orig }

/-- `reset(make_independent_realization)` -/
def InfL.reset (indep : Bool) (L : InfL) : InfL :=
  { (L.pickRng indep).initScreen with center := (0, 0), t := 0, sub := (0, 0) }

/-- a layer whose `_original_rng` is in state `o` -/
def InfL.fresh (nx ny : Nat) (delta vel : V2) (par : Par) (o : Rng) : InfL :=
  InfL.reset false { nx := nx, ny := ny, delta := delta, vel := vel, par := par, orig := o, rng := o,
                     center := (0, 0), t := 0, start := 0, hist := 0, screen := [], sub := (0, 0) }

/-- `InfiniteAtmosphericLayer(grid, …, seed=seed)`: the stencils consume `nx + ny` numbers first -/
def InfL.new (nx ny : Nat) (delta vel : V2) (par : Par) (seed : Nat) : InfL :=
  InfL.fresh nx ny delta vel par ((⟨seed, 0⟩ : Rng).draw (nx + ny))

/-- the setters: `Cn_squared` is only stored (the extrusion multiplies the innovation by `sqrt(Cn_squared)` at the
time of the extrusion, the matrices are built for unit strength); `L0` rebuilds the matrices, the stencils stay.
On a running layer the screen stays as it is and later rows/columns use the new value: the change is logged (`plog`). -/
def InfL.setCn2 (c : Rat) (L : InfL) : InfL :=
  { L with par := { L.par with cn2 := c }, plog := (L.hist, L.par) :: L.plog }
def InfL.setL0 (l : Rat) (L : InfL) : InfL :=
  { L with par := { L.par with L0 := l }, plog := (L.hist, L.par) :: L.plog }
def InfL.setVel (v : V2) (L : InfL) : InfL := { L with vel := v }

/-- one `_extrude(where)`: draws `ny` (horizontal) or `nx` numbers for the new column/row -/
def InfL.extrude1 (w : Where) (L : InfL) : InfL :=
  let n := if w.horizontal then L.ny else L.nx
  let h := L.hist * 5 + w.code
  let new := (List.range n).map (fun j => (⟨L.start, h, j, L.par, L.plog⟩ : Sym))
  { L with hist := h, rng := L.rng.draw n, screen := Shift.extrude w L.nx L.ny new L.screen }

def InfL.extrudeN (w : Where) : Nat → InfL → InfL
  | 0, L => L
  | k + 1, L => InfL.extrudeN w k (L.extrude1 w)

/-- which side the new column enters for a pixel displacement `d` along x (repaired, D18) -/
def sideX (d : Int) : Where := if d < 0 then .right else .left
def sideY (d : Int) : Where := if d < 0 then .top else .bottom

def pixel (c δ : Rat) : Int := roundHalfEven (c / δ)

/-- `evolve_until(t)` for `t ≥ self.t` with the given side tables -/
def InfL.evolveWith (sx sy : Int → Where) (t : Rat) (L : InfL) : InfL :=
  let c : V2 := (L.center.1 + L.vel.1 * (t - L.t), L.center.2 + L.vel.2 * (t - L.t))
  let dx := pixel c.1 L.delta.1 - pixel L.center.1 L.delta.1
  let dy := pixel c.2 L.delta.2 - pixel L.center.2 L.delta.2
  let L1 := InfL.extrudeN (sx dx) dx.natAbs L
  let L2 := InfL.extrudeN (sy dy) dy.natAbs L1
  { L2 with center := c, t := t,
            sub := (c.1 - pixel c.1 L.delta.1 * L.delta.1, c.2 - pixel c.2 L.delta.2 * L.delta.2) }

/-- the arguments of the read-out call of the interpolating infinite layer,
`affine_transform(ps, np.array([1, 1]), (-sub_delta / self.input_grid.delta)[::-1], mode='nearest', order=5)`:
the diagonal of the transform, the offset in (row, column) = (y, x) order and in pixels of each axis, the spline order
and the boundary mode -/
structure InterpReq where
  matrix : V2
  offset : V2
  order : Nat
  nearest : Bool
deriving DecidableEq, Repr

/-- the request `evolve_until` makes after the extrusions (when `use_interpolation`) -/
def InfL.interpRequest (L : InfL) : InterpReq :=
  { matrix := (1, 1), offset := (-L.sub.2 / L.delta.2, -L.sub.1 / L.delta.1), order := 5, nearest := true }

/-- `evolve_until(t)`; `none` = `ValueError('Backwards temporal evolution is not allowed.')` -/
def InfL.evolve (t : Rat) (L : InfL) : Option InfL :=
  if t < L.t then none else some (L.evolveWith sideX sideY t)

/-- a refused operation leaves the layer as it was -/
def InfL.step (L : InfL) : Op → InfL
  | .evolve t => (L.evolve t).getD L
  | .reset b => L.reset b
  | .setCn2 c => L.setCn2 c
  | .setL0 l => L.setL0 l
  | .setVel v => L.setVel v

def InfL.run (L : InfL) (h : List Op) : InfL := h.foldl InfL.step L

/-- everything `phase_for` can depend on: the unshifted screen and the sub-pixel offset -/
def InfL.view (L : InfL) : List Sym × V2 := (L.screen, L.sub)

def InfL.screens (L : InfL) : List Op → List (List Sym × V2)
  | [] => []
  | o :: h => (L.step o).view :: (L.step o).screens h

/-! ## Chromatic and strength scaling (`phase_for`, `_extrude`, `fried_parameter_from_Cn_squared`) -/

/-- `phase_for(λ) = achromatic_screen / λ` -/
def phaseFor {K} [Div K] (achromatic wavelength : K) : K := achromatic / wavelength

/-- `np.dot` of two vectors -/
def dot {K} [Add K] [Mul K] [Zero K] : List K → List K → K
  | a :: as, b :: bs => a * b + dot as bs
  | _, _ => 0

/-- one element of a new row/column of the infinite layer:
`A.dot(stencil_data) + B.dot(random_data) * np.sqrt(Cn_squared)`; `amp` stands for `sqrt(Cn²)`
(`amp ≥ 0`, `amp² = Cn²`), `A`, `B` are rows of the two matrices (built for `Cn² = 1`). -/
def arSample {K} [Add K] [Mul K] [Zero K] (A st B rnd : List K) (amp : K) : K := dot A st + dot B rnd * amp

/-- **numeric `_extrude(where)`**, as the code computes it: `stencil_data = screen[stencil]` (on the flat-reversed
screen for `top`/`right`; `idx` = the positions where the boolean stencil is set), one `arSample` per row of `A`, `B`
for the new column/row, then the list surgery of `Shift.extrude`. -/
def arExtrude {K} [Add K] [Mul K] [Zero K] (w : Where) (W H : Nat) (A B : List (List K)) (idx : List Nat)
    (rnd : List K) (amp : K) (s : List K) : List K :=
  let st := idx.map fun i => (stencilView w s).getD i 0
  Shift.extrude w W H (List.zipWith (fun a b => arSample a st b rnd amp) A B) s

/-- the data of one extrusion: side, the two matrices (built for unit strength), stencil positions, normals -/
structure ArStep (K : Type) where
  w : Where
  A : List (List K)
  B : List (List K)
  idx : List Nat
  rnd : List K

/-- a sequence of extrusions with the amplitude `amp = sqrt(Cn²)` -/
def arRun {K} [Add K] [Mul K] [Zero K] (W H : Nat) (amp : K) : List (ArStep K) → List K → List K
  | [], s => s
  | e :: es, s => arRun W H amp es (arExtrude e.w W H e.A e.B e.idx e.rnd amp s)

/-- a sequence of extrusions, each with the amplitude `sqrt(Cn²)` in force at that time (`Cn_squared` changed on the
running layer between extrusions; `arRun` is the case of a constant amplitude) -/
def arRunLive {K} [Add K] [Mul K] [Zero K] (W H : Nat) : List (ArStep K × K) → List K → List K
  | [], s => s
  | (e, amp) :: es, s => arRunLive W H es (arExtrude e.w W H e.A e.B e.idx e.rnd amp s)

end HcipyVerif.Layer
