import HcipyVerif.Model.Coords

/-!
# C10 / C11 — model of `Grid`, `CartesianGrid`, `PolarGrid` (hcipy/field/*grid.py)

`points` (x fastest), the in-place coordinate arithmetic of the three coordinate kinds, the weight
bookkeeping (explicit weights, or automatic weights computed on first use and cached), and the
grid transformations.  All definitions model the code *after* the proposed repairs
(pending_fixes D2, D20, D21, D24-26, D27, D30); the behaviour before the repairs is kept as `…Old`.
-/
namespace HcipyVerif.Grid

def absQ (x : Rat) : Rat := if 0 ≤ x then x else -x

def ratProd : List Rat → Rat
  | [] => 1
  | x :: xs => x * ratProd xs

def ratSum : List Rat → Rat
  | [] => 0
  | x :: xs => x + ratSum xs

/-! ## Points -/

/-- `np.arange(n) * delta + zero` -/
def RegAxis.values (a : RegAxis) : List Rat :=
  (List.range a.dim).map fun (i : Nat) => (i : Rat) * a.delta + a.zero

/-- Tensor product of separated axes, first axis (x) fastest: what `coords[i]` for `i = 0 … ndim-1`
(broadcast + ravel) lists column by column. -/
def tensorPoints : List (List Rat) → List (List Rat)
  | [] => [[]]
  | ax :: rest => (tensorPoints rest).flatMap fun p => ax.map (· :: p)

/-- `np.array(cols).T` for `n` points -/
def pointsOfCols (n : Nat) : List (List Rat) → List (List Rat)
  | [] => List.replicate n []
  | c :: cs => List.zipWith (· :: ·) c (pointsOfCols n cs)

/-- the separated axes of a separated or regular grid -/
def Coords.axes? : Coords → Option (List (List Rat))
  | .regular a => some (a.map RegAxis.values)
  | .separated a => some a
  | .unstructured _ => none

/-- `grid.points` -/
def Coords.points : Coords → List (List Rat)
  | .regular a => tensorPoints (a.map RegAxis.values)
  | .separated a => tensorPoints a
  | .unstructured c => pointsOfCols (c.headD []).length c

/-! ## The affine maps on single points (specification side) -/

/-- `p ↦ (p_i · f_i)_i` -/
def scalePt (f p : List Rat) : List Rat := List.zipWith (fun fi x => x * fi) f p

/-- `p ↦ (p_i + b_i)_i` -/
def shiftPt (b p : List Rat) : List Rat := List.zipWith (fun bi x => x + bi) b p

/-! ## In-place coordinate arithmetic (`__imul__`, `__iadd__`, `reverse`) -/

/-- apply one function per axis to the coordinate values -/
def Coords.scale (f : List Rat) : Coords → Coords
  | .regular a => .regular (List.zipWith (fun x fi => { x with delta := x.delta * fi, zero := x.zero * fi }) a f)
  | .separated a => .separated (List.zipWith (fun ax fi => ax.map (· * fi)) a f)
  | .unstructured c => .unstructured (List.zipWith (fun col fi => col.map (· * fi)) c f)

def Coords.shift (b : List Rat) : Coords → Coords
  | .regular a => .regular (List.zipWith (fun x bi => { x with zero := x.zero + bi }) a b)
  | .separated a => .separated (List.zipWith (fun ax bi => ax.map (· + bi)) a b)
  | .unstructured c => .unstructured (List.zipWith (fun col bi => col.map (· + bi)) c b)

/-- `maximum = zero + delta * (dims - 1); delta = -delta; zero = maximum` -/
def RegAxis.reverse (a : RegAxis) : RegAxis :=
  { delta := -a.delta, dim := a.dim, zero := a.zero + a.delta * ((a.dim : Rat) - 1) }

def Coords.reverse : Coords → Coords
  | .regular a => .regular (a.map RegAxis.reverse)
  | .separated a => .separated (a.map List.reverse)
  | .unstructured c => .unstructured (c.map List.reverse)

/-! ## Weights -/

/-- the stored `_weights` attribute -/
inductive Weights where
  | none
  | scalar (w : Rat)
  | array (ws : List Rat)
deriving DecidableEq, Repr

structure Grid where
  system : System
  coords : Coords
  weights : Weights
deriving DecidableEq, Repr

/-- `Grid.__eq__`: both grids, same coordinate system, then `Coords.__eq__` (weights ignored) -/
def Grid.eq (a b : Grid) : Bool := decide (a.system = b.system) && a.coords.eq b.coords

def Grid.eqOld (a b : Grid) : Bool := decide (a.system = b.system) && a.coords.eqOld b.coords

/-- `Grid.__eq__` when coordinates may be **NaN** (`na` / `nb`: "some coordinate value of `a` / `b` — a
`delta` or `zero` entry of regular coordinates, an axis or column entry otherwise — is NaN"; the
rational grid holds any placeholder at those positions).  `np.array_equal` compares elementwise with
IEEE `==`, under which NaN differs from everything, itself included: with a NaN on either side the
answer is `False` whatever the shapes and the other values are. -/
def Grid.eqNaN (a b : Grid) (na nb : Bool) : Bool := a.eq b && !na && !nb

def Grid.hashInput (g : Grid) : List Tok := Tok.name g.system :: g.coords.hashInput

def getR (x : List Rat) (i : Nat) : Rat := x.getD i 0

/-- signed centred differences: `w = (x[2:] - x[:-2]) / 2` framed by `x[1]-x[0]` and `x[-1]-x[-2]`;
entry `k` is `(x[hi] - x[lo]) / (hi - lo)` with `hi = min (k+1) (n-1)`, `lo = k-1` (truncated). -/
def axisWSigned (x : List Rat) : List Rat :=
  (List.range x.length).map fun k =>
    (getR x (min (k + 1) (x.length - 1)) - getR x (k - 1)) / (((min (k + 1) (x.length - 1) - (k - 1) : Nat) : Rat))

/-- per-axis automatic weights (repaired: absolute values) -/
def axisW (x : List Rat) : List Rat := (axisWSigned x).map absQ

/-- `_prod(np.ix_(*weights[::-1])).ravel()` -/
def tensorW (ws : List (List Rat)) : List Rat := (tensorPoints ws).map ratProd

/-- `_get_automatic_weights` (after the repair of D21), `none` = the IndexError raised for a
separated axis with fewer than two points.  Polar grids and unstructured coordinates have no
automatic weights: the getter stores the scalar 1 (and warns). -/
def autoWeights : System → Coords → Option Weights
  | .polar, _ => some (.scalar 1)
  | .cartesian, .regular a => some (.scalar (absQ (ratProd (a.map (·.delta)))))
  | .cartesian, .separated a =>
    if a.all (fun ax => decide (2 ≤ ax.length)) then some (.array (tensorW (a.map axisW))) else none
  | .cartesian, .unstructured _ => some (.scalar 1)

/-- before the repair: signed products / signed differences -/
def autoWeightsOld : System → Coords → Option Weights
  | .polar, _ => some (.scalar 1)
  | .cartesian, .regular a => some (.scalar (ratProd (a.map (·.delta))))
  | .cartesian, .separated a =>
    if a.all (fun ax => decide (2 ≤ ax.length)) then some (.array (tensorW (a.map axisWSigned))) else none
  | .cartesian, .unstructured _ => some (.scalar 1)

/-- the `weights` property: stored weights, else automatic weights (which the getter caches) -/
def Grid.getWeights (g : Grid) : Option Weights :=
  match g.weights with
  | .none => autoWeights g.system g.coords
  | w => some w

def Grid.getWeightsOld (g : Grid) : Option Weights :=
  match g.weights with
  | .none => autoWeightsOld g.system g.coords
  | w => some w

/-- reading `grid.weights` caches the automatic weights -/
def Grid.materialize (g : Grid) : Option Grid :=
  g.getWeights.map fun w => { g with weights := w }

/-- `grid.weights = w`: the stored weights are replaced (after the repair D87 by a private copy of an array), nothing else -/
def Grid.setWeights (w : Weights) (g : Grid) : Grid := { g with weights := w }

def Weights.mul (k : Rat) : Weights → Weights
  | .none => .none
  | .scalar w => .scalar (w * k)
  | .array ws => .array (ws.map (· * k))

def Weights.reverse : Weights → Weights
  | .array ws => .array ws.reverse
  | w => w

/-- per-point weights, scalars broadcast to `n` points -/
def Weights.toList (n : Nat) : Weights → List Rat
  | .none => []
  | .scalar w => List.replicate n w
  | .array ws => ws

/-- the per-point weights a user reads from `grid.weights` (broadcast) -/
def Grid.weightList (g : Grid) : Option (List Rat) := g.getWeights.map (Weights.toList g.coords.size)

def Grid.weightListOld (g : Grid) : Option (List Rat) := g.getWeightsOld.map (Weights.toList g.coords.size)

/-! ## Grid transformations (in-place forms; the non-mutating forms are `copy` + these) -/

/-- `|Π f_i|`-type Jacobian: `np.prod(np.abs(scale))` -/
def jac (f : List Rat) : Rat := ratProd (f.map absQ)

inductive ScaleArg where
  | scalar (s : Rat)
  | vector (f : List Rat)
deriving Repr

def ScaleArg.factors (n : Nat) : ScaleArg → List Rat
  | .scalar s => List.replicate n s
  | .vector f => f

/-- the factor applied to the weights: `|s|^ndim` for a scalar, `Π|f_i|` for a vector -/
def ScaleArg.weightFactor (n : Nat) : ScaleArg → Rat
  | .scalar s => (absQ s) ^ n
  | .vector f => jac f

/-- `CartesianGrid.scale`: `self.weights *= …` (materialises the weights first), then
`self.coords *= scale`.  `PolarGrid.scale` (scalar only): `coords *= [s, 1]`, `weights *= |s|^ndim`. -/
def Grid.scale (s : ScaleArg) (g : Grid) : Option Grid :=
  match g.system with
  | .cartesian =>
    g.getWeights.map fun w =>
      { g with weights := w.mul (s.weightFactor g.coords.ndim), coords := g.coords.scale (s.factors g.coords.ndim) }
  | .polar =>
    match s with
    | .scalar k =>
      g.getWeights.map fun w =>
        { g with weights := w.mul ((absQ k) ^ g.coords.ndim), coords := g.coords.scale [k, 1] }
    | .vector _ => none

/-- `CartesianGrid.shift`: `self.coords += shift`; weights untouched (still uncached if they were) -/
def Grid.shift (b : List Rat) (g : Grid) : Grid := { g with coords := g.coords.shift b }

/-- `Grid.reverse` after the repair (D30): per-point weights are reversed with the points -/
def Grid.reverse (g : Grid) : Grid := { g with coords := g.coords.reverse, weights := g.weights.reverse }

/-- `Grid.reverse` before the repair: cached weights stay in the old order -/
def Grid.reverseOld (g : Grid) : Grid := { g with coords := g.coords.reverse }

/-! ## Float-like arithmetic (C10: what an in-place shift does to *floating-point* coordinates)

The exact-rational operations above are what the code does whenever the float arithmetic is exact
(the correspondence generates dyadic values for that reason).  In general `x += b` stores
`fl(x + b)`.  `Coords.shiftR rnd` is the in-place shift with a rounding function applied to every
stored sum; `roundBin 53 (-1022)` is IEEE-754 binary64 round-to-nearest-even (normal and subnormal
range; overflow to ±inf is outside the model). -/

def pow2 (e : Int) : Rat := if 0 ≤ e then ((2 ^ e.toNat : Nat) : Rat) else 1 / ((2 ^ (-e).toNat : Nat) : Rat)

/-- `⌊log₂ |q|⌋` for `q ≠ 0` -/
def ilog2 (q : Rat) : Int :=
  let e : Int := (q.num.natAbs.log2 : Int) - (q.den.log2 : Int)
  if pow2 e ≤ absQ q then e else e - 1

/-- round half to even of a non-negative rational, as an integer -/
def rheNat (x : Rat) : Nat :=
  let f := x.floor
  let r := x - (f : Rat)
  (if r < 1 / 2 then f else if 1 / 2 < r then f + 1 else if f % 2 = 0 then f else f + 1).toNat

/-- round to nearest, ties to even, to `p` significant bits with minimal exponent `emin`
(`p = 53`, `emin = -1022`: binary64) -/
def roundBin (p : Nat) (emin : Int) (q : Rat) : Rat :=
  if q = 0 then 0 else
    let e := max (ilog2 q) emin
    let ulp := pow2 (e - ((p : Int) - 1))
    let m : Rat := ((rheNat (absQ q / ulp) : Nat) : Rat) * ulp
    if 0 ≤ q then m else -m

def roundF64 : Rat → Rat := roundBin 53 (-1022)

/-- `coords += b` where every stored sum is rounded by `rnd` -/
def Coords.shiftR (rnd : Rat → Rat) (b : List Rat) : Coords → Coords
  | .regular a => .regular (List.zipWith (fun x bi => { x with zero := rnd (x.zero + bi) }) a b)
  | .separated a => .separated (List.zipWith (fun ax bi => ax.map (fun x => rnd (x + bi))) a b)
  | .unstructured c => .unstructured (List.zipWith (fun col bi => col.map (fun x => rnd (x + bi))) c b)

/-- the values an in-place shift along axis `i` rewrites: the origin of a regular axis, every stored
coordinate otherwise -/
def Coords.shiftVals : Coords → List (List Rat)
  | .regular a => a.map fun x => [x.zero]
  | .separated a => a
  | .unstructured c => c

/-- does every value the shift rewrites absorb its shift, `rnd (x + b_i) = x`?  (decidable form of the
right-hand side of `shiftF_keeps_iff`) -/
def Coords.absorbs (rnd : Rat → Rat) (b : List Rat) (c : Coords) : Bool :=
  (List.zip c.shiftVals b).all fun vb => vb.1.all fun x => decide (rnd (x + vb.2) = x)

def Grid.shiftR (rnd : Rat → Rat) (b : List Rat) (g : Grid) : Grid := { g with coords := g.coords.shiftR rnd b }

/-! ## Coordinate-system conversion `as_`: an exact executable model

`_cartesian_to_polar` computes `(hypot(x, y), arctan2(y, x))`, `_polar_to_cartesian` computes
`(r cos θ, r sin θ)`.  A rational model cannot hold `θ`; it holds the **direction** `(c, s) = (cos θ,
sin θ)` instead — a rational point of the unit circle exactly when `x² + y²` is a rational square
("Pythagorean" points).  A polar point of this model is `[r, c, s]`.  `none` = the radius is
irrational (outside the exact model; the oracle and the `ℝ` theorems cover those points). -/

/-- the non-negative rational square root, if there is one (`q` is in lowest terms, so it is a
square iff numerator and denominator are) -/
def ratSqrt? (q : Rat) : Option Rat :=
  if q < 0 then none
  else if q.num.natAbs.sqrt * q.num.natAbs.sqrt = q.num.natAbs ∧ q.den.sqrt * q.den.sqrt = q.den then
    some ((q.num.natAbs.sqrt : Rat) / (q.den.sqrt : Rat))
  else none

/-- `(x, y) ↦ (hypot(x, y), direction of arctan2(y, x))`; `arctan2(0, 0) = 0`, direction `(1, 0)` -/
def cartToPolar? : List Rat → Option (List Rat)
  | [x, y] => (ratSqrt? (x * x + y * y)).map fun r => if r = 0 then [0, 1, 0] else [r, x / r, y / r]
  | _ => none

/-- `(r, θ) ↦ (r cos θ, r sin θ)` with `(cos θ, sin θ) = (c, s)` -/
def polarToCart : List Rat → List Rat
  | [r, c, s] => [r * c, r * s]
  | p => p

/-- `grid.as_('polar')` of a Cartesian grid: the conversion of its **current** points, one by one -/
def Coords.asPolarPts (c : Coords) : List (Option (List Rat)) := c.points.map cartToPolar?

/-- `grid.as_('cartesian')` of a polar grid whose `k`-th point has the direction `dirs[k]`
(= `(cos θ_k, sin θ_k)`, supplied from outside: the model does not evaluate `cos`): the current
radius of every point times its direction -/
def Coords.asCartPts (dirs : List (Rat × Rat)) (c : Coords) : List (List Rat) :=
  List.zipWith (fun p d => polarToCart [p.headD 0, d.1, d.2]) c.points dirs

/-- `PolarGrid.shifted(b)`: the grid is converted to Cartesian coordinates (direction of every point
supplied, as for `asCartPts`) and shifted there — the result is a *Cartesian* grid -/
def Coords.pshiftedPts (dirs : List (Rat × Rat)) (b : List Rat) (c : Coords) : List (List Rat) :=
  (c.asCartPts dirs).map (shiftPt b)

/-- `PolarGrid.shift(b)`, its three steps composed: polar → Cartesian, shift, Cartesian → polar
(`[r, cos θ, sin θ]` per point; `none` where the new radius is irrational) -/
def Coords.pshiftPts (dirs : List (Rat × Rat)) (b : List Rat) (c : Coords) : List (Option (List Rat)) :=
  (c.pshiftedPts dirs b).map cartToPolar?

def dot (r p : List Rat) : Rat := ratSum (List.zipWith (· * ·) r p)

/-- matrix times point -/
def linPt (M : List (List Rat)) (p : List Rat) : List Rat := M.map fun r => dot r p

/-- `np.einsum('ik,kn->in', R, np.array(self.coords))` followed by `UnstructuredCoords(coords)` -/
def Coords.linmap (M : List (List Rat)) (c : Coords) : Coords :=
  .unstructured (M.map fun r => c.points.map (dot r))

def rot2 (c s : Rat) : List (List Rat) := [[c, -s], [s, c]]

/-- Rodrigues: `I + s K + (1 - c) K²` for a unit axis `(a, b, d)` -/
def rot3 (a b d c s : Rat) : List (List Rat) :=
  [[1 + (1 - c) * (-(d * d) - b * b), -(s * d) + (1 - c) * (a * b), s * b + (1 - c) * (a * d)],
   [s * d + (1 - c) * (a * b), 1 + (1 - c) * (-(d * d) - a * a), -(s * a) + (1 - c) * (b * d)],
   [-(s * b) + (1 - c) * (a * d), s * a + (1 - c) * (b * d), 1 + (1 - c) * (-(b * b) - a * a)]]

/-- `CartesianGrid.rotate` (in place): coordinates become unstructured, `_weights` is left as is -/
def Grid.linmap (M : List (List Rat)) (g : Grid) : Grid := { g with coords := g.coords.linmap M }

/-- `CartesianGrid.rotated`: a *new* grid without weights -/
def Grid.linmapped (M : List (List Rat)) (g : Grid) : Grid :=
  { system := .cartesian, coords := g.coords.linmap M, weights := .none }

/-- `PolarGrid.rotate` after the repair (D20): `coords += [0, angle]` — the angle is the
transcendental `atan2(s, c)`; the model keeps it as an abstract rational `α`. -/
def Grid.polarRotate (α : Rat) (g : Grid) : Grid := g.shift [0, α]

end HcipyVerif.Grid
