import HcipyVerif.Model.Layer
/-!
# C15 — generators as heap cells, the finite layer's lazy noise and cached screen

`Model/Layer.lean` treats a generator as a *value* (`copy.deepcopy` = the value itself), so a missing `deepcopy`
(`self.rng = self._original_rng`) cannot be written down there.  Here the generators live in a heap of cells;
a layer holds two *handles* (`rngH`, `origH`), `copy.deepcopy` allocates a new cell, drawing mutates the cell a
handle points to — two handles to one cell see each other's draws.  The value-level state machines of
`Model/Layer.lean` are reused unchanged: an operation of the heap layer is

1. the pointer operations (`Ptr`) the real method performs first (`Access.ptr`),
2. the value-level step run on the *view* (the body with the two cells read through the handles),
3. the working generator's new state written back into the cell `rngH` points to.

`HL.step` uses `deepcopy` where the code does; `HL.stepAliased` is the defect class "plain assignment instead of
`deepcopy`".  `HL.foreignDraw` is somebody else drawing from a cell — the caller who passed a `Generator` object as
`seed=` and keeps using it.

`FinC` adds to `FinL` what `FiniteAtmosphericLayer` has besides the bookkeeping: `_noise is None` (set by the
`Cn_squared` / `outer_scale` setters; the next read re-draws the *same* realisation with the new parameters without
rewinding) and the cached `_achromatic_screen` (dropped by `evolve_until` and `_make_noise`, **not** by the setters).
-/
namespace HcipyVerif.Layer

/-! ## finite layer with `_noise` / `_achromatic_screen` -/

structure FinC where
  base : FinL
  /-- `_noise is not None` -/
  valid : Bool
  /-- `_achromatic_screen` (what it was computed from), `none` = `None` -/
  cache : Option (Rng × Par × V2)
deriving DecidableEq, Repr

inductive COp where
  | op (o : Op)
  /-- `phase_for(λ)` (→ `achromatic_screen` → `noise`) -/
  | read
deriving DecidableEq, Repr

/-- the lazy branch of the `noise` property: `self.rng = copy.deepcopy(self._original_rng); self._make_noise()` —
centre and time stay -/
def FinL.redraw (L : FinL) : FinL := ({ L with rng := L.orig }).makeNoise

def FinC.fresh (nx ny : Nat) (vel : V2) (par : Par) (o : Rng) : FinC := ⟨FinL.fresh nx ny vel par o, true, none⟩
def FinC.new (nx ny : Nat) (vel : V2) (par : Par) (seed : Nat) : FinC := FinC.fresh nx ny vel par ⟨seed, 0⟩

/-- `achromatic_screen` -/
def FinC.read (C : FinC) : FinC :=
  match C.cache with
  | some _ => C
  | none =>
    let b := if C.valid then C.base else C.base.redraw
    { base := b, valid := true, cache := some b.screen }

def FinC.step (C : FinC) : COp → FinC
  | .op (.evolve t) => { C with base := C.base.evolve t, cache := none }
  | .op (.reset b) => { base := C.base.reset b, valid := true, cache := none }
  | .op (.setCn2 c) => { C with base := C.base.setCn2 c, valid := false }
  | .op (.setL0 l) => { C with base := C.base.setL0 l, valid := false }
  | .op (.setVel v) => { C with base := C.base.setVel v }
  | .read => C.read

def FinC.run (C : FinC) (h : List COp) : FinC := h.foldl FinC.step C

/-- what `phase_for(1)` returns now -/
def FinC.shown (C : FinC) : Rng × Par × V2 := C.read.cache.getD C.base.screen

/-- the setters as they would be with the cache dropped too (`self._achromatic_screen = None`) -/
def FinC.stepInval (C : FinC) : COp → FinC
  | .op (.setCn2 c) => { C with base := C.base.setCn2 c, valid := false, cache := none }
  | .op (.setL0 l) => { C with base := C.base.setL0 l, valid := false, cache := none }
  | o => C.step o

/-! ## heap of generators -/

inductive Ptr where
  /-- `self.rng = copy.deepcopy(self._original_rng)` -/
  | rngFromOrig
  /-- `self._original_rng = copy.deepcopy(self.rng)` -/
  | origFromRng
  /-- `_make_initial_phase_screen`: the temporary finite layer deep-copies `self.rng`, draws from the copy, and the
  infinite layer continues with that copy (`self.rng = layer.rng`) -/
  | rngFresh
deriving DecidableEq, Repr

/-- how a value-level state machine exposes its two generators and which pointer operations an operation performs -/
structure Access (σ ω : Type) where
  rng : σ → Rng
  orig : σ → Rng
  setRng : σ → Rng → σ
  setOrig : σ → Rng → σ
  step : σ → ω → σ
  ptr : σ → ω → List Ptr

structure HL (σ : Type) where
  cells : List Rng
  rngH : Nat
  origH : Nat
  body : σ
deriving Repr

variable {σ ω : Type}

def HL.get (H : HL σ) (i : Nat) : Rng := H.cells.getD i ⟨0, 0⟩

/-- the value-level state seen through the handles -/
def HL.view (A : Access σ ω) (H : HL σ) : σ := A.setOrig (A.setRng H.body (H.get H.rngH)) (H.get H.origH)

/-- the pointer operations with `copy.deepcopy`, as the code has them -/
def HL.repoint (H : HL σ) : Ptr → HL σ
  | .rngFromOrig => { H with cells := H.cells ++ [H.get H.origH], rngH := H.cells.length }
  | .origFromRng => { H with cells := H.cells ++ [H.get H.rngH], origH := H.cells.length }
  | .rngFresh => { H with cells := H.cells ++ [H.get H.rngH], rngH := H.cells.length }

/-- the defect class: `self.rng = self._original_rng` / `self._original_rng = self.rng` without `deepcopy` -/
def HL.repointAliased (H : HL σ) : Ptr → HL σ
  | .rngFromOrig => { H with rngH := H.origH }
  | .origFromRng => { H with origH := H.rngH }
  | .rngFresh => H.repoint .rngFresh

def HL.stepWith (rp : HL σ → Ptr → HL σ) (A : Access σ ω) (H : HL σ) (o : ω) : HL σ :=
  let H1 := (A.ptr (H.view A) o).foldl rp H
  let L' := A.step (H1.view A) o
  { H1 with cells := H1.cells.set H1.rngH (A.rng L'), body := L' }

def HL.step (A : Access σ ω) (H : HL σ) (o : ω) : HL σ := HL.stepWith HL.repoint A H o
def HL.stepAliased (A : Access σ ω) (H : HL σ) (o : ω) : HL σ := HL.stepWith HL.repointAliased A H o

def HL.run (A : Access σ ω) (H : HL σ) (h : List ω) : HL σ := h.foldl (HL.step A) H

/-- somebody else draws `n` numbers from cell `c` -/
def HL.foreignDraw (c n : Nat) (H : HL σ) : HL σ := { H with cells := H.cells.set c ((H.get c).draw n) }

/-- operations of a heap layer: the layer's own, or a foreign draw -/
inductive HOp (ω : Type) where
  | own (o : ω)
  | foreign (c n : Nat)

def HL.stepH (A : Access σ ω) (H : HL σ) : HOp ω → HL σ
  | .own o => H.step A o
  | .foreign c n => H.foreignDraw c n

def HL.runH (A : Access σ ω) (H : HL σ) (h : List (HOp ω)) : HL σ := h.foldl (HL.stepH A) H

/-! ### the two layers -/

def COp.ptr (C : FinC) : COp → List Ptr
  | .op (.reset false) => [.rngFromOrig]
  | .op (.reset true) => [.origFromRng]
  | .read => if C.cache.isNone && !C.valid then [.rngFromOrig] else []
  | _ => []

def finAccess : Access FinC COp where
  rng C := C.base.rng
  orig C := C.base.orig
  setRng C r := { C with base := { C.base with rng := r } }
  setOrig C r := { C with base := { C.base with orig := r } }
  step := FinC.step
  ptr := COp.ptr

def Op.ptrInf : Op → List Ptr
  | .reset false => [.rngFromOrig, .rngFresh]
  | .reset true => [.origFromRng, .rngFresh]
  | _ => []

def infAccess : Access InfL Op where
  rng L := L.rng
  orig L := L.orig
  setRng L r := { L with rng := r }
  setOrig L r := { L with orig := r }
  step := InfL.step
  ptr _ o := o.ptrInf

abbrev HFin := HL FinC
abbrev HInf := HL InfL

/-- how the generator arrives: an integer seed (a private new generator), or a `Generator` object owned by the
caller, which `np.random.default_rng(gen)` returns *as is* — cell 0 is then the caller's. -/
inductive SeedKind where
  | int
  /-- repaired: the layer snapshots the caller's generator (`copy.deepcopy`) -/
  | gen
  /-- before the repair: `_original_rng` *is* the caller's generator -/
  | genShared
deriving DecidableEq, Repr

/-- `FiniteAtmosphericLayer.__init__`: `self._original_rng = default_rng(seed)` (snapshot if it is a caller's
object), then `self.reset()` -/
def HFin.new (k : SeedKind) (nx ny : Nat) (vel : V2) (par : Par) (g : Rng) : HFin :=
  let b : FinL := { nx := nx, ny := ny, vel := vel, par := par, noisePar := par, orig := g, rng := g, noise := g,
                    center := (0, 0), t := 0 }
  let H0 : HFin := match k with
    | .gen => { cells := [g, g], rngH := 1, origH := 1, body := ⟨b, true, none⟩ }
    | _ => { cells := [g], rngH := 0, origH := 0, body := ⟨b, true, none⟩ }
  H0.step finAccess (.op (.reset false))

/-- `InfiniteAtmosphericLayer.__init__`: `self.rng = default_rng(seed)`, the stencils draw `nx + ny` numbers **from
that object** (the caller's, if it is one), `self._original_rng = copy.deepcopy(self.rng)` (before the repair:
`= self.rng`), `self.reset()` -/
def HInf.new (k : SeedKind) (nx ny : Nat) (delta vel : V2) (par : Par) (g : Rng) : HInf :=
  let g' := g.draw (nx + ny)
  let b : InfL := { nx := nx, ny := ny, delta := delta, vel := vel, par := par, orig := g', rng := g',
                    center := (0, 0), t := 0, start := 0, hist := 0, screen := [], sub := (0, 0) }
  let H0 : HInf := match k with
    | .gen => { cells := [g', g'], rngH := 0, origH := 1, body := b }
    | _ => { cells := [g'], rngH := 0, origH := 0, body := b }
  H0.step infAccess (.reset false)

end HcipyVerif.Layer
