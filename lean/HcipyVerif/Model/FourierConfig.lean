import HcipyVerif.Model.Mft
import HcipyVerif.Model.FourierSwitch

/-!
# C19 — the MFT switch model (`Model/FourierSwitch.lean`) at the concrete kernel of C01's
MatrixFourierTransform model (`Model/Mft.lean`) — core Lean only

`Model/FourierSwitch.lean` drives the caches of a reused `MatrixFourierTransform` object
(`precompute_matrices`, `allocate_intermediate`) over an *abstract* kernel `MftKern`.  `mftKern` is that
kernel built from the definitions C01 executes: the matrices are `mftM1`/`mftM2`, stage 1 is the first
`gemm` of `mftForward`/`mftBackward` (the product that lands in `intermediate_array`), stage 2 the
second one (with `alpha`, `.T.reshape(-1)`).  The arithmetic is exact, so the dtype cast is the identity
and `np.empty` is the zero matrix (any value would do: the buffer is overwritten before it is read —
that is what `FourierSwitch.mftCall_spec` proves).

`Properties/C19.lean` (`mftKern_fresh`) proves that a fresh switch-less object over this kernel *is*
`mftForward` / `mftBackward`, definitionally up to the case split on the weights branch.
-/
namespace HcipyVerif.FourierConfig
open HcipyVerif.Fft HcipyVerif.FourierSwitch

section
variable {K C : Type} [Mul K] [Neg K] [Zero C] [One C] [Add C] [Mul C]

/-- `alpha` of the second `gemm`: the scalar weight, or `1` when the weights were multiplied into the
field (`mftOperand … .2`, which does not depend on the field) -/
def mftAlpha (w : Weights C) : C :=
  match w with
  | .scalar w0 => w0
  | .array _ => 1

/-- The kernel of one `MatrixFourierTransform` object (ndim = 2): input axes `x` (`Nx`), `y` (`Ny`),
output axes `u` (`Nu`), `v` (`Nv`), `weights_input = w`, `weights_output = wOut`.
`mats = (M1, M2)`; `stage1` = the `gemm` into `intermediate_array.T`; `stage2` = the `gemm` that
returns, transposed and flattened. -/
def mftKern (E : K → C) (cj : C → C) (Nx Ny Nu Nv : Nat) (x y u v : Nat → K) (w wOut : Weights C) :
    MftKern (Nat → C) (Mat C × Mat C) (Mat C) (Nat → C) where
  mats _ := (mftM1 E v y, mftM2 E x u)
  cast _ field := field
  stage1 m d field :=
    match d with
    | .fwd => gemm 1 Nx m.2.tr (mftOperand Nx w field).1.tr
    | .bwd => gemm 1 Nv (mftOperand Nu wOut field).1.tr (Mat.ctr cj m.1.tr)
  stage2 m d interm :=
    match d with
    | .fwd => flatten2 Nu (gemm (mftAlpha w) Ny interm m.1.tr).tr
    | .bwd => flatten2 Nx (gemm (mftAlpha wOut) Nu (Mat.ctr cj m.2.tr) interm).tr
  garbage _ := fun _ _ => 0

end

end HcipyVerif.FourierConfig
