import HcipyVerif.Model.Aperture
/-!
# One Grid object with a history of in-place operations (C12, round 6)

`Grid.scale / shift / rotate / reverse` and the assignment `grid.weights = …` mutate a grid object
between two aperture evaluations.  The aperture makers hold no state and `Grid.as_` converts anew on
every call, so the second evaluation sees exactly the coordinates the object has *now*.

* `GObj` — the coordinates of one grid object as the makers read them: a Cartesian grid (any storage:
  the separated and the non-separated path give the same field, `representation_independent`) or a
  polar grid storing `(r, cos θ, sin θ)` per point (`PPt`);
* `IOp.apply` — the in-place operations of `hcipy/field/cartesian_grid.py`, `polar_grid.py`, `grid.py`:
  `CartesianGrid.scale` (`coords *= scale`, per axis), `PolarGrid.scale` (one factor, on the radius only;
  `ValueError` for two different factors), `CartesianGrid.shift` (`coords += shift`), `CartesianGrid.rotate`
  (`einsum` with the rotation matrix), `PolarGrid.rotate` (`coords += [0, angle]`), `Grid.reverse`
  (`coords.reverse()`), `weights = …` (touches no coordinate).  `PolarGrid.shift` re-derives `(r, θ)` with
  `hypot/arctan2` — not a rational operation: `none` here (the harness oracle covers it);
* `evalObj` — the code path the makers take on the object (`evalPts` / `evalPolar`);
* `evalAfter s ops g` — evaluate `s` on the object after the history `ops`.

Executed by the driver (`C12 hist`) and compared with the running code (current points and values).
-/
namespace HcipyVerif.Aperture

inductive GObj where
  | cart (pts : List Pt)
  | polar (qs : List PPt)
  deriving Repr, DecidableEq

/-- the physical positions of the points of the object -/
def GObj.points : GObj → List Pt
  | .cart pts => pts
  | .polar qs => qs.map toCart

inductive IOp where
  | scale (sx sy : Rat)
  | shift (dx dy : Rat)
  | rot (c s : Rat)
  | reverse
  | weights
  deriving Repr, DecidableEq

def scalePt (sx sy : Rat) (p : Pt) : Pt := (sx * p.1, sy * p.2)
def movePt (dx dy : Rat) (p : Pt) : Pt := (p.1 + dx, p.2 + dy)
/-- `PolarGrid.scale`: the radius is multiplied, the angle kept -/
def scaleRad (k : Rat) (q : PPt) : PPt := (k * q.1, q.2)

def IOp.apply : IOp → GObj → Option GObj
  | .scale sx sy, .cart pts => some (.cart (pts.map (scalePt sx sy)))
  | .scale sx sy, .polar qs => if sx = sy then some (.polar (qs.map (scaleRad sx))) else none
  | .shift dx dy, .cart pts => some (.cart (pts.map (movePt dx dy)))
  | .shift _ _, .polar _ => none
  | .rot c s, .cart pts => some (.cart (pts.map (rotPt c s)))
  | .rot c s, .polar qs => some (.polar (qs.map (rotDir c s)))
  | .reverse, .cart pts => some (.cart pts.reverse)
  | .reverse, .polar qs => some (.polar qs.reverse)
  | .weights, g => some g

/-- the history: the operations applied one after the other to the same object -/
def runOps : List IOp → GObj → Option GObj
  | [], g => some g
  | o :: os, g => (o.apply g).bind (runOps os)

/-- the code path of the makers on the object -/
def evalObj (s : Shape) : GObj → List Rat
  | .cart pts => evalPts s pts
  | .polar qs => evalPolar s qs

/-- evaluate `s` on the object after the history `ops` -/
def evalAfter (s : Shape) (ops : List IOp) (g : GObj) : Option (List Rat) := (runOps ops g).map (evalObj s)

/-- what the operation does to one physical point … -/
def IOp.onPt : IOp → Pt → Pt
  | .scale sx sy => scalePt sx sy
  | .shift dx dy => movePt dx dy
  | .rot c s => rotPt c s
  | .reverse => id
  | .weights => id

/-- … and to the order of the points -/
def IOp.reorder {α : Type} : IOp → List α → List α
  | .reverse, l => l.reverse
  | _, l => l

/-- the radius shortcuts taken on the object agree with the Cartesian test at every point (always true on a
Cartesian object; see `diskAgree` for polar objects) -/
def GObj.agree (s : Shape) : GObj → Bool
  | .cart _ => true
  | .polar qs => qs.all (diskAgree s)

end HcipyVerif.Aperture
