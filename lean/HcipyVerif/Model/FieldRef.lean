/-!
# Reference model of hcipy Fields: a store with aliasing (core Lean only)

The other C19 models have no references (every derived array owns its data), so statements
about `copy` / `pickle` / views are definitional there.  Here an array object is a *window* onto a
buffer of a heap; several objects may look at the same buffer (aliases, slices, `np.asarray`),
and grids are heap *objects* too (identity = index, equality = content).

* `bufs`  : data buffers, buffer id = index
* `grids` : grid objects, grid id = index, the `Nat` is the content
* `vars`  : association list, newest binding first

Element `j` of object `o` is `bufs[o.buf][o.idx[j]]`.
-/
namespace HcipyVerif.FieldRef

/-- An array object: a window `idx` onto buffer `buf`; `grid = some g`: a Field on grid object `g`. -/
structure Obj where
  buf : Nat
  idx : List Nat
  grid : Option Nat
deriving Repr, DecidableEq, Inhabited

structure State where
  bufs : List (List Int) := []
  grids : List Nat := []
  vars : List (Nat × Obj) := []
deriving Repr, DecidableEq, Inhabited

/-- Wrapper style; both flags `false` is the intended behaviour. -/
structure Sty where
  /-- defective: `__getitem__` with a slice returns a copy instead of a view -/
  sliceCopies : Bool
  /-- defective: `np.array(f, dtype=f.dtype)` returns the wrapped buffer instead of a copy -/
  arrayShares : Bool
deriving Repr, DecidableEq, Inhabited

def good : Sty := ⟨false, false⟩
def badSlice : Sty := ⟨true, false⟩
def badArray : Sty := ⟨false, true⟩

inductive Op where
  /-- `x = Field(vals, Grid(c))` -/
  | new (x c : Nat) (vals : List Int)
  /-- `x = Field(vals, y.grid)` -/
  | newOn (x y : Nat) (vals : List Int)
  /-- `y = x` -/
  | alias (y x : Nat)
  /-- `y = x.copy()` -/
  | copy (y x : Nat)
  /-- `y = pickle.loads(pickle.dumps(x))` -/
  | pickle (y x : Nat)
  /-- `y = x[start : start + step*len : step]` -/
  | slice (y x start step len : Nat)
  /-- `y = np.asarray(x)` -/
  | asarray (y x : Nat)
  /-- `y = np.array(x, dtype=x.dtype)` -/
  | array (y x : Nat)
  /-- `x[i] = v` -/
  | write (x i : Nat) (v : Int)
  /-- `x += v` -/
  | iadd (x : Nat) (v : Int)
deriving Repr, DecidableEq, Inhabited

/-- First binding of `x`. -/
def lookup : List (Nat × Obj) → Nat → Option Obj
  | [], _ => none
  | (k, o) :: t, x => if k = x then some o else lookup t x

/-- `some` of all the elements, or `none` if one is missing. -/
def allSome {α : Type} : List (Option α) → Option (List α)
  | [] => some []
  | none :: _ => none
  | some a :: t =>
    match allSome t with
    | some r => some (a :: r)
    | none => none

/-- Cell `p` of buffer `b`. -/
def cell (bufs : List (List Int)) (b p : Nat) : Option Int :=
  match bufs[b]? with
  | some l => l[p]?
  | none => none

/-- Element `j` of the object, read through its window. -/
def readAt (bufs : List (List Int)) (o : Obj) (j : Nat) : Option Int :=
  match o.idx[j]? with
  | some p => cell bufs o.buf p
  | none => none

/-- All elements of the object (a `none` is a dangling window position). -/
def read (bufs : List (List Int)) (o : Obj) : List (Option Int) :=
  o.idx.map (cell bufs o.buf)

/-- The values of the object, if the whole window is in range. -/
def values (bufs : List (List Int)) (o : Obj) : Option (List Int) :=
  allSome (read bufs o)

/-- What variable `x` reads. -/
def readVar (s : State) (x : Nat) : Option (List Int) :=
  match lookup s.vars x with
  | some o => values s.bufs o
  | none => none

/-- What variable `x` reads at position `j`. -/
def readVarAt (s : State) (x j : Nat) : Option Int :=
  match lookup s.vars x with
  | some o => readAt s.bufs o j
  | none => none

/-- `bufs[b][p] := v` (unchanged if `b` is not a buffer; `List.set` ignores `p` out of range). -/
def setCell (bufs : List (List Int)) (b p : Nat) (v : Int) : List (List Int) :=
  match bufs[b]? with
  | some l => bufs.set b (l.set p v)
  | none => bufs

/-- Every cell of buffer `b` whose position is in `idx` gets `+ v`. -/
def addCells (bufs : List (List Int)) (b : Nat) (idx : List Nat) (v : Int) : List (List Int) :=
  match bufs[b]? with
  | some l => bufs.set b (l.mapIdx fun p w => if p ∈ idx then w + v else w)
  | none => bufs

/-- Bind `x` to a new object owning a fresh buffer holding `vals`. -/
def fresh (s : State) (x : Nat) (vals : List Int) (g : Option Nat) : State :=
  { bufs := s.bufs ++ [vals], grids := s.grids,
    vars := (x, ⟨s.bufs.length, List.range vals.length, g⟩) :: s.vars }

/-- Bind `x` to an existing object. -/
def bind (s : State) (x : Nat) (o : Obj) : State :=
  { bufs := s.bufs, grids := s.grids, vars := (x, o) :: s.vars }

/-- Append a grid object. -/
def addGrid (s : State) (c : Nat) : State :=
  { bufs := s.bufs, grids := s.grids ++ [c], vars := s.vars }

/-- Replace the buffers. -/
def withBufs (s : State) (bufs : List (List Int)) : State :=
  { bufs := bufs, grids := s.grids, vars := s.vars }

/-- `y :=` an object with a fresh buffer holding the current values of `o`, grid `g`. -/
def copyOf (s : State) (y : Nat) (o : Obj) (g : Option Nat) : Option State :=
  match values s.bufs o with
  | some vals => some (fresh s y vals g)
  | none => none

/-- The window of `x[start : start + step*len : step]`. -/
def sliceIdx (idx : List Nat) (start step len : Nat) : Option (List Nat) :=
  allSome ((List.range len).map fun k => idx[start + k * step]?)

/-- One operation; `none`: unbound variable / out of range. -/
def step (sty : Sty) : Op → State → Option State
  | .new x c vals, s => some (fresh (addGrid s c) x vals (some s.grids.length))
  | .newOn x y vals, s =>
    match lookup s.vars y with
    | some oy =>
      match oy.grid with
      | some g => some (fresh s x vals (some g))
      | none => none
    | none => none
  | .alias y x, s =>
    match lookup s.vars x with
    | some o => some (bind s y o)
    | none => none
  | .copy y x, s =>
    match lookup s.vars x with
    | some o => copyOf s y o o.grid
    | none => none
  | .pickle y x, s =>
    match lookup s.vars x with
    | some o =>
      match o.grid with
      | some g =>
        match s.grids[g]? with
        | some c => copyOf (addGrid s c) y o (some s.grids.length)
        | none => none
      | none => copyOf s y o none
    | none => none
  | .slice y x start stp len, s =>
    match lookup s.vars x with
    | some o =>
      if stp = 0 then none else
      match sliceIdx o.idx start stp len with
      | some idx' =>
        if sty.sliceCopies then copyOf s y ⟨o.buf, idx', o.grid⟩ o.grid
        else some (bind s y ⟨o.buf, idx', o.grid⟩)
      | none => none
    | none => none
  | .asarray y x, s =>
    match lookup s.vars x with
    | some o => some (bind s y ⟨o.buf, o.idx, none⟩)
    | none => none
  | .array y x, s =>
    match lookup s.vars x with
    | some o =>
      if sty.arrayShares then some (bind s y ⟨o.buf, o.idx, none⟩)
      else copyOf s y o none
    | none => none
  | .write x i v, s =>
    match lookup s.vars x with
    | some o =>
      match o.idx[i]? with
      | some p =>
        match cell s.bufs o.buf p with
        | some _ => some (withBufs s (setCell s.bufs o.buf p v))
        | none => none
      | none => none
    | none => none
  | .iadd x v, s =>
    match lookup s.vars x with
    | some o =>
      match values s.bufs o with
      | some _ => some (withBufs s (addCells s.bufs o.buf o.idx v))
      | none => none
    | none => none

/-- Run from index `k`; `.error k`: op number `k` failed. -/
def runFrom (sty : Sty) (k : Nat) : List Op → State → Except Nat State
  | [], s => .ok s
  | op :: ops, s =>
    match step sty op s with
    | some s' => runFrom sty (k + 1) ops s'
    | none => .error k

/-- Run a script; stops at the first failing op and reports its index. -/
def run (sty : Sty) (ops : List Op) (s : State) : Except Nat State := runFrom sty 0 ops s

/-- The states after each op, and whether the script ran to the end
(if not, the failing op has index `(trace …).1.length`). -/
def trace (sty : Sty) : List Op → State → List State × Bool
  | [], _ => ([], true)
  | op :: ops, s =>
    match step sty op s with
    | some s' => let r := trace sty ops s'; (s' :: r.1, r.2)
    | none => ([], false)

/-- One line of the read-out. -/
structure Entry where
  name : Nat
  isField : Bool
  vals : List (Option Int)
  buf : Nat
  grid : Option Nat
  content : Option Nat
deriving Repr, DecidableEq, Inhabited

/-- The distinct bound names, increasing. -/
def names (s : State) : List Nat :=
  ((s.vars.map Prod.fst).eraseDups).mergeSort (fun a b => decide (a ≤ b))

def entry (s : State) (x : Nat) : Option Entry :=
  match lookup s.vars x with
  | some o =>
    some { name := x, isField := o.grid.isSome, vals := read s.bufs o, buf := o.buf, grid := o.grid,
           content := match o.grid with
             | some g => s.grids[g]?
             | none => none }
  | none => none

/-- Read-out of every bound variable, by increasing name. -/
def dump (s : State) : List Entry := (names s).filterMap (entry s)

end HcipyVerif.FieldRef
