/-!
# C12 — model of the aperture generators (hcipy/aperture/generic.py, hcipy/field/util.py)

Three layers.

* `val : Shape → Pt → Rat` — the *point semantics*: the value an aperture has at a physical
  point.  This is the representation-independent object the property talks about.
* `evalPts : Shape → List Pt → List Rat` — the code path taken on grids that are **not
  separated** (unstructured Cartesian grids and every polar grid after `as_('cartesian')`):
  element-wise NumPy arithmetic on the coordinate arrays, boolean-mask compression
  (`x[m]`), masked assignment (`f[m] = f_sub`).
* `evalSep : Shape → List Rat → List Rat → List Rat` — the code path taken on **separated**
  grids (regular grids are separated): broadcast of `x[newaxis, :]` against `y[:, newaxis]`,
  bounding slices `ind[0] … ind[-1]`, assignment into `f[m_y, m_x]` / `res.shaped[mask][…] = t`,
  `ravel()` (x fastest).

The model is the code *after* the repairs proposed in `pending_fixes/` (D6, D7, D8, D28, D30);
`…Old` definitions keep the defective behaviour where its counterexample is cheap to prove.
Scalars are exact rationals; trigonometric constants (`cos θ`, `sin θ`, the inflated apothem)
enter as the rational numbers the floats *are* (the harness computes them the way the maker's
closure does and sends them exactly).

Core Lean only (this file is linked into the native driver).
-/
namespace HcipyVerif.Aperture

abbrev Pt := Rat × Rat

def b2r (b : Bool) : Rat := if b then 1 else 0
def sq (x : Rat) : Rat := x * x
def rabs (x : Rat) : Rat := if 0 ≤ x then x else -x

/-! ## NumPy-like two-dimensional arrays (row index = y, column index = x) -/

structure Arr (α : Type) where
  nr : Nat
  nc : Nat
  get : Nat → Nat → α

namespace Arr
variable {α β γ : Type}

/-- `x[np.newaxis, :]` -/
def row (xs : List Rat) : Arr Rat := ⟨1, xs.length, fun _ j => xs.getD j 0⟩
/-- `y[:, np.newaxis]` -/
def col (ys : List Rat) : Arr Rat := ⟨ys.length, 1, fun i _ => ys.getD i 0⟩
/-- `x[a:b][np.newaxis, :]` -/
def rowSlice (xs : List Rat) (a b : Nat) : Arr Rat := ⟨1, b - a, fun _ j => xs.getD (a + j) 0⟩
/-- `y[a:b][:, np.newaxis]` -/
def colSlice (ys : List Rat) (a b : Nat) : Arr Rat := ⟨b - a, 1, fun i _ => ys.getD (a + i) 0⟩
/-- `np.zeros(shape)`, `np.ones(shape)` -/
def full (nr nc : Nat) (v : α) : Arr α := ⟨nr, nc, fun _ _ => v⟩
/-- a unary ufunc -/
def map (f : α → β) (A : Arr α) : Arr β := ⟨A.nr, A.nc, fun i j => f (A.get i j)⟩
/-- a binary ufunc with NumPy broadcasting (an axis of length one is stretched) -/
def zip (f : α → β → γ) (A : Arr α) (B : Arr β) : Arr γ :=
  ⟨if A.nr = 1 then B.nr else A.nr, if A.nc = 1 then B.nc else A.nc,
   fun i j => f (A.get (if A.nr = 1 then 0 else i) (if A.nc = 1 then 0 else j))
                (B.get (if B.nr = 1 then 0 else i) (if B.nc = 1 then 0 else j))⟩
/-- `A.ravel()` (C order: the last axis, x, varies fastest) -/
def ravel (A : Arr α) : List α :=
  (List.range A.nr).flatMap fun i => (List.range A.nc).map fun j => A.get i j
/-- `A[r0:r0+S.nr, c0:c0+S.nc] = S` -/
def setSlice (A : Arr α) (r0 c0 : Nat) (S : Arr α) : Arr α :=
  ⟨A.nr, A.nc, fun i j =>
    if r0 ≤ i ∧ i < r0 + S.nr ∧ c0 ≤ j ∧ j < c0 + S.nc then S.get (i - r0) (j - c0) else A.get i j⟩
/-- `A[r0:r0+M.nr, c0:c0+M.nc][M] = t` (a basic slice is a view, so the masked assignment
writes through) -/
def setWhere (A : Arr α) (r0 c0 : Nat) (M : Arr Bool) (t : α) : Arr α :=
  ⟨A.nr, A.nc, fun i j =>
    if r0 ≤ i ∧ i < r0 + M.nr ∧ c0 ≤ j ∧ j < c0 + M.nc ∧ M.get (i - r0) (j - c0) = true then t
    else A.get i j⟩
end Arr

/-- the points of a separated grid, x fastest (`Grid.points`, `Grid.coords` of separated coords) -/
def sepPoints (xs ys : List Rat) : List Pt := ys.flatMap fun y => xs.map fun x => (x, y)

/-! ## one-dimensional boolean-mask operations -/

/-- `v[m]` -/
def compress {α : Type} : List Bool → List α → List α
  | b :: m, x :: v => if b then x :: compress m v else compress m v
  | _, _ => []

/-- `base[m] = sub` (returns the updated `base`) -/
def scatter {α : Type} : List Bool → List α → List α → List α
  | b :: m, x :: base, sub =>
    if b then
      match sub with
      | s :: sub' => s :: scatter m base sub'
      | [] => x :: scatter m base []
    else x :: scatter m base sub
  | _, base, _ => base

/-- repaired D8: `res[np.flatnonzero(m)[sel]] = t` — the `k`-th masked element is set to `t`
when `sel[k]` -/
def scatterWhere {α : Type} : List Bool → List Bool → List α → α → List α
  | b :: m, sel, x :: res, t =>
    if b then
      match sel with
      | s :: sel' => (if s then t else x) :: scatterWhere m sel' res t
      | [] => x :: scatterWhere m [] res t
    else x :: scatterWhere m sel res t
  | _, _, res, _ => res

/-- `res[m] = t` -/
def setMask {α : Type} (m : List Bool) (res : List α) (t : α) : List α :=
  List.zipWith (fun b x => if b then t else x) m res

/-- `ind[0]` of `ind = np.flatnonzero(b)` -/
def firstTrue : List Bool → Option Nat
  | [] => none
  | b :: t => if b then some 0 else (firstTrue t).map (· + 1)

/-- `ind[-1]` of `ind = np.flatnonzero(b)` -/
def lastTrue : List Bool → Option Nat
  | [] => none
  | b :: t =>
    match lastTrue t with
    | some k => some (k + 1)
    | none => if b then some 0 else none

/-! ## point predicates of the primitive shapes -/

def inCircle (r cx cy : Rat) (p : Pt) : Bool :=
  decide (sq (p.1 - cx) + sq (p.2 - cy) ≤ sq r)

/-- one of the half-plane tests of the VLT quadrants: `n·p > c` resp. `n·p < c` -/
def inHalf (gt : Bool) (a b c : Rat) (p : Pt) : Bool :=
  if gt then decide (a * p.1 + b * p.2 > c) else decide (a * p.1 + b * p.2 < c)

/-- as the code has it: the grid is shifted by `+centre` (so the ellipse sits at `−centre`);
`cM = cos φ / a`, `sM = sin φ / a`, `cm = cos φ / b`, `sm = sin φ / b` -/
def inEllipse (cM sM cm sm cx cy : Rat) (p : Pt) : Bool :=
  decide (sq ((p.1 + cx) * cM - (p.2 + cy) * sM) + sq ((p.1 + cx) * sm + (p.2 + cy) * cm) ≤ 1)

def inRect (hx hy cx cy : Rat) (p : Pt) : Bool :=
  decide (rabs (p.1 - cx) ≤ hx) && decide (rabs (p.2 - cy) ≤ hy)

/-- one of the half-plane (pair) tests of the regular polygon at the centred point `(x, y)`;
`d = (cos θ, sin θ)`, `a` the (inflated) apothem -/
def hp (even : Bool) (a : Rat) (d : Rat × Rat) (x y : Rat) : Bool :=
  if even then decide (sq (d.1 * x + d.2 * y) ≤ sq a)
  else decide (rabs (d.2 * x) - d.1 * y ≤ a)

def allHp (even : Bool) (a : Rat) (dirs : List (Rat × Rat)) (x y : Rat) : Bool :=
  dirs.all fun d => hp even a d x y

/-- the regular polygon: inside the bounding square of the circumscribed circle *and* inside
every half-plane pair (this is the definition both code paths implement after D7/D30) -/
def inRegpoly (even : Bool) (r a : Rat) (dirs : List (Rat × Rat)) (cx cy : Rat) (p : Pt) : Bool :=
  decide (rabs (p.1 - cx) ≤ r) && decide (rabs (p.2 - cy) ≤ r) && allHp even a dirs (p.1 - cx) (p.2 - cy)

/-- does the edge `v → w` cross the horizontal ray from `p` towards `+x`
(even–odd rule, `matplotlib.path.Path.contains_points`) -/
def edgeCross (p v w : Pt) : Bool :=
  (decide (v.2 ≤ p.2) != decide (w.2 ≤ p.2)) &&
    decide (p.1 < (w.1 - v.1) * (p.2 - v.2) / (w.2 - v.2) + v.1)

/-- edges of the closed polygon through `vs` -/
def edges : List Pt → List (Pt × Pt)
  | [] => []
  | v :: vs => (v :: vs).zip (vs ++ [v])

def crossings (vs : List Pt) (p : Pt) : Nat := ((edges vs).filter fun e => edgeCross p e.1 e.2).length

def containsPt (vs : List Pt) (p : Pt) : Bool := crossings vs p % 2 == 1

/-- rotated frame of a spider: `x' = x c + y s`, `y' = y c − x s` at the centred point -/
def inSpider (sx sy c s hl hw : Rat) (p : Pt) : Bool :=
  let x := p.1 - sx
  let y := p.2 - sy
  let xn := x * c + y * s
  let yn := y * c - x * s
  decide (xn ≤ hl) && decide (xn ≥ -hl) && decide (yn ≤ hw) && decide (yn ≥ -hw)

/-- as the code has it: the start point is *added* (`x + p[0]`) -/
def inSpiderInf (px py c s hw : Rat) (p : Pt) : Bool :=
  let x := p.1 + px
  let y := p.2 + py
  let xn := x * c + y * s
  let yn := y * c - x * s
  decide (yn ≤ hw) && decide (yn ≥ -hw) && decide (xn ≥ 0)

/-! ## shapes -/

inductive Shape where
  /-- `make_circular_aperture(2r, center)` with a centre given (also `[0, 0]`) -/
  | circle (r cx cy : Rat)
  /-- `make_circular_aperture(2r)` with `center=None`: the maker that takes the `r ≤ R` shortcut on
  polar grids -/
  | disk (r : Rat)
  /-- `(n·p > c) * 1.0` resp. `(n·p < c) * 1.0` (the quadrant tests of `make_vlt_aperture`) -/
  | halfplane (gt : Bool) (a b c : Rat)
  /-- `mn` = smaller semi-axis, used only by `near` -/
  | ellipse (cM sM cm sm cx cy mn : Rat)
  | rect (hx hy cx cy : Rat)
  | regpoly (even : Bool) (r a : Rat) (dirs : List (Rat × Rat)) (cx cy : Rat)
  /-- vertices and the bounding rectangle (half sizes, centre) the maker computed -/
  | irrpoly (vs : List Pt) (hx hy bx by_ : Rat)
  | spider (sx sy c s hl hw : Rat)
  | spiderInf (px py c s hw : Rat)
  | const (v : Rat)
  | compl (a : Shape)
  | mul (a b : Shape)
  | sub (a b : Shape)
  /-- `make_rotated_aperture`: `c = cos(−angle)`, `s = sin(−angle)` -/
  | rot (c s : Rat) (a : Shape)
  | shift (dx dy : Rat) (a : Shape)
  /-- `make_segmented_aperture`: segment shape, `(position, transmission)` list -/
  | seg (segs : List (Pt × Rat)) (a : Shape)

def rotPt (c s : Rat) (p : Pt) : Pt := (c * p.1 - s * p.2, s * p.1 + c * p.2)
def shiftPt (dx dy : Rat) (p : Pt) : Pt := (p.1 - dx, p.2 - dy)

/-- later segments overwrite earlier ones where they overlap -/
def segFold (f : Pt → Rat) (p : Pt) (segs : List (Pt × Rat)) (init : Rat) : Rat :=
  segs.foldl (fun acc s => if f (shiftPt s.1.1 s.1.2 p) > 1/2 then s.2 else acc) init

/-- **the value of a shape at a physical point** -/
def val : Shape → Pt → Rat
  | .circle r cx cy, p => b2r (inCircle r cx cy p)
  | .disk r, p => b2r (inCircle r 0 0 p)
  | .halfplane gt a b c, p => b2r (inHalf gt a b c p)
  | .ellipse cM sM cm sm cx cy _, p => b2r (inEllipse cM sM cm sm cx cy p)
  | .rect hx hy cx cy, p => b2r (inRect hx hy cx cy p)
  | .regpoly even r a dirs cx cy, p => b2r (inRegpoly even r a dirs cx cy p)
  | .irrpoly vs hx hy bx by_, p => b2r (inRect hx hy bx by_ p && containsPt vs p)
  | .spider sx sy c s hl hw, p => 1 - b2r (inSpider sx sy c s hl hw p)
  | .spiderInf px py c s hw, p => 1 - b2r (inSpiderInf px py c s hw p)
  | .const v, _ => v
  | .compl a, p => 1 - val a p
  | .mul a b, p => val a p * val b p
  | .sub a b, p => val a p - val b p
  | .rot c s a, p => val a (rotPt c s p)
  | .shift dx dy a, p => val a (shiftPt dx dy p)
  | .seg segs a, p => segFold (val a) p segs 0

/-! ## the non-separated code path -/

/-- product over the half-plane tests, as the loop `f_sub *= (…) <= apothem` computes it -/
def hpProd (even : Bool) (a : Rat) (dirs : List (Rat × Rat)) (x y : Rat) : Rat :=
  dirs.foldl (fun acc d => acc * b2r (hp even a d x y)) 1

/-- `make_regular_polygon_aperture.func(grid, return_with_mask=True)`, slow path (repaired D7:
the mask is the rectangle *around the centre*): `(f_sub, m)` -/
def regpolySlowSub (even : Bool) (r a : Rat) (dirs : List (Rat × Rat)) (cx cy : Rat)
    (pts : List Pt) : List Rat × List Bool :=
  let m := pts.map fun p => inRect r r cx cy p
  ((compress m pts).map fun p => hpProd even a dirs (p.1 - cx) (p.2 - cy), m)

def regpolySlow (even : Bool) (r a : Rat) (dirs : List (Rat × Rat)) (cx cy : Rat)
    (pts : List Pt) : List Rat :=
  let (fsub, m) := regpolySlowSub even r a dirs cx cy pts
  scatter m (pts.map fun _ => 0) fsub

/-- D7 as shipped: the mask rectangle is centred on the origin whatever `center` is -/
def regpolySlowOld (even : Bool) (r a : Rat) (dirs : List (Rat × Rat)) (cx cy : Rat)
    (pts : List Pt) : List Rat :=
  let m := pts.map fun p => inRect r r 0 0 p
  scatter m (pts.map fun _ => 0) ((compress m pts).map fun p => hpProd even a dirs (p.1 - cx) (p.2 - cy))

/-- D6 as shipped: on a polar grid the circle is `r ≤ R` whatever `center` is
(the point is given by its Cartesian coordinates; `r² = x² + y²`) -/
def circlePolarOld (r _cx _cy : Rat) (p : Pt) : Bool := decide (sq p.1 + sq p.2 ≤ sq r)

def evalPts : Shape → List Pt → List Rat
  | .regpoly even r a dirs cx cy, pts => regpolySlow even r a dirs cx cy pts
  | .irrpoly vs hx hy bx by_, pts =>
    -- res = zeros; mask = rect(grid); res[mask] = contains_points(points[mask])
    let m := pts.map fun p => inRect hx hy bx by_ p
    scatter m (pts.map fun _ => 0) ((compress m pts).map fun p => b2r (containsPt vs p))
  | .compl a, pts => (evalPts a pts).map fun v => 1 - v
  | .mul a b, pts => List.zipWith (· * ·) (evalPts a pts) (evalPts b pts)
  | .sub a b, pts => List.zipWith (· - ·) (evalPts a pts) (evalPts b pts)
  | .rot c s a, pts => evalPts a (pts.map (rotPt c s))
  | .shift dx dy a, pts => evalPts a (pts.map (shiftPt dx dy))
  | .seg segs (.regpoly even r a dirs cx cy), pts =>
    -- mask_available: segment_sub, mask = shape(grid.shifted(-p), return_with_mask=True)
    segs.foldl (fun res s =>
      let (fsub, m) := regpolySlowSub even r a dirs cx cy (pts.map (shiftPt s.1.1 s.1.2))
      scatterWhere m (fsub.map fun v => decide (v > 1/2)) res s.2) (pts.map fun _ => 0)
  | .seg segs a, pts =>
    segs.foldl (fun res s =>
      setMask ((evalPts a (pts.map (shiftPt s.1.1 s.1.2))).map fun v => decide (v > 1/2)) res s.2)
      (pts.map fun _ => 0)
  -- every other primitive: element-wise arithmetic on the coordinate arrays
  | s, pts => pts.map (val s)

/-! ## the separated code path -/

/-- one factor of the loop over `thetas` in the fast path, on the sliced axes -/
def hpArr (even : Bool) (a : Rat) (d : Rat × Rat) (xs ys : List Rat) (x0 x1 y0 y1 : Nat) : Arr Rat :=
  if even then
    Arr.map (fun v => b2r (decide (sq v ≤ sq a)))
      (Arr.zip (· + ·) (Arr.map (fun x => d.1 * x) (Arr.rowSlice xs x0 x1))
                       (Arr.map (fun y => d.2 * y) (Arr.colSlice ys y0 y1)))
  else
    Arr.map (fun v => b2r (decide (v ≤ a)))
      (Arr.zip (· - ·) (Arr.map (fun x => rabs (d.2 * x)) (Arr.rowSlice xs x0 x1))
                       (Arr.map (fun y => d.1 * y) (Arr.colSlice ys y0 y1)))

structure Sub where
  y0 : Nat
  x0 : Nat
  F : Arr Rat

/-- `make_regular_polygon_aperture.func(grid, return_with_mask=True)`, fast path, on the
already centred axes `xs = x − shift[0]`, `ys = y − shift[1]`.  `none` = "no index inside the
box".  Repaired D30: the sub-array starts as the outer product of the two box masks (the shipped
code starts from `ones((len(ind_y), len(ind_x)))`, which has the wrong shape when the in-box
indices are not contiguous). -/
def regpolySub (even : Bool) (r a : Rat) (dirs : List (Rat × Rat)) (xs ys : List Rat) : Option Sub :=
  let bx := xs.map fun x => decide (sq x ≤ sq r)
  let by_ := ys.map fun y => decide (sq y ≤ sq r)
  match firstTrue bx, lastTrue bx with
  | some x0, some x1 =>
    match firstTrue by_, lastTrue by_ with
    | some y0, some y1 =>
      let init : Arr Rat :=
        Arr.zip (· * ·)
          (Arr.map (fun y => b2r (decide (sq y ≤ sq r))) (Arr.colSlice ys y0 (y1 + 1)))
          (Arr.map (fun x => b2r (decide (sq x ≤ sq r))) (Arr.rowSlice xs x0 (x1 + 1)))
      some ⟨y0, x0, dirs.foldl (fun F d => Arr.zip (· * ·) F (hpArr even a d xs ys x0 (x1 + 1) y0 (y1 + 1))) init⟩
    | _, _ => none
  | _, _ => none

def regpolyFast (even : Bool) (r a : Rat) (dirs : List (Rat × Rat)) (cx cy : Rat)
    (xs ys : List Rat) : List Rat :=
  match regpolySub even r a dirs (xs.map (· - cx)) (ys.map (· - cy)) with
  | none => (Arr.full ys.length xs.length (0 : Rat)).ravel
  | some sub => (Arr.setSlice (Arr.full ys.length xs.length (0 : Rat)) sub.y0 sub.x0 sub.F).ravel

/-- broadcast evaluation of a point predicate written with `x[newaxis, :]`, `y[:, newaxis]` -/
def bcast (f : Rat → Rat → Rat) (xs ys : List Rat) : List Rat :=
  (Arr.zip f (Arr.row xs) (Arr.col ys)).ravel

def circleFast (r cx cy : Rat) (xs ys : List Rat) : List Rat :=
  ((Arr.map (fun v => decide (v ≤ sq r))
    (Arr.zip (· + ·) (Arr.map (fun x => sq (x - cx)) (Arr.row xs))
                     (Arr.map (fun y => sq (y - cy)) (Arr.col ys)))).ravel).map b2r

/-- `((n[0] * x + n[1] * y) > c) * 1.0` with `x = x[newaxis, :]`, `y = y[:, newaxis]` -/
def halfFast (gt : Bool) (a b c : Rat) (xs ys : List Rat) : List Rat :=
  ((Arr.map (fun v => if gt then decide (v > c) else decide (v < c))
    (Arr.zip (· + ·) (Arr.map (fun x => a * x) (Arr.row xs))
                     (Arr.map (fun y => b * y) (Arr.col ys)))).ravel).map b2r

def rectFast (hx hy cx cy : Rat) (xs ys : List Rat) : List Rat :=
  ((Arr.zip (fun a b => a && b)
    (Arr.map (fun x => decide (rabs (x - cx) ≤ hx)) (Arr.row xs))
    (Arr.map (fun y => decide (rabs (y - cy) ≤ hy)) (Arr.col ys))).ravel).map b2r

def ellipseFast (cM sM cm sm cx cy : Rat) (xs ys : List Rat) : List Rat :=
  -- g = grid.shifted(shift): the separated axes are shifted first
  let X := Arr.row (xs.map (· + cx))
  let Y := Arr.col (ys.map (· + cy))
  let t1 := Arr.map sq (Arr.zip (· - ·) (Arr.map (· * cM) X) (Arr.map (· * sM) Y))
  let t2 := Arr.map sq (Arr.zip (· + ·) (Arr.map (· * sm) X) (Arr.map (· * cm) Y))
  ((Arr.map (fun v => decide (v ≤ 1)) (Arr.zip (· + ·) t1 t2)).ravel).map b2r

def spiderFast (sx sy c s hl hw : Rat) (xs ys : List Rat) : List Rat :=
  let X := Arr.map (· - sx) (Arr.row xs)
  let Y := Arr.map (· - sy) (Arr.col ys)
  let xn := Arr.zip (· + ·) (Arr.map (· * c) X) (Arr.map (· * s) Y)
  let yn := Arr.zip (· - ·) (Arr.map (· * c) Y) (Arr.map (· * s) X)
  let sp := Arr.map (fun v => decide (v ≤ hl)) xn
  let sp := Arr.zip (fun a b => a && b) sp (Arr.map (fun v => decide (v ≥ -hl)) xn)
  let sp := Arr.zip (fun a b => a && b) sp (Arr.map (fun v => decide (v ≤ hw)) yn)
  let sp := Arr.zip (fun a b => a && b) sp (Arr.map (fun v => decide (v ≥ -hw)) yn)
  (sp.ravel).map fun b => 1 - b2r b

def spiderInfFast (px py c s hw : Rat) (xs ys : List Rat) : List Rat :=
  let X := Arr.map (· + px) (Arr.row xs)
  let Y := Arr.map (· + py) (Arr.col ys)
  let xn := Arr.zip (· + ·) (Arr.map (· * c) X) (Arr.map (· * s) Y)
  let yn := Arr.zip (· - ·) (Arr.map (· * c) Y) (Arr.map (· * s) X)
  let sp := Arr.map (fun v => decide (v ≤ hw)) yn
  let sp := Arr.zip (fun a b => a && b) sp (Arr.map (fun v => decide (v ≥ -hw)) yn)
  let sp := Arr.zip (fun a b => a && b) sp (Arr.map (fun v => decide (v ≥ 0)) xn)
  (sp.ravel).map fun b => 1 - b2r b

/-- `make_segmented_aperture` on a separated grid with a mask-returning segment shape:
`res.shaped[mask][segment_sub > 0.5] = t` for every segment in turn -/
def segFastArr (even : Bool) (r a : Rat) (dirs : List (Rat × Rat)) (cx cy : Rat)
    (xs ys : List Rat) (segs : List (Pt × Rat)) : Arr Rat :=
  segs.foldl (fun res s =>
    match regpolySub even r a dirs ((xs.map (· - s.1.1)).map (· - cx)) ((ys.map (· - s.1.2)).map (· - cy)) with
    | none => res
    | some sub => Arr.setWhere res sub.y0 sub.x0 (Arr.map (fun v => decide (v > 1/2)) sub.F) s.2)
    (Arr.full ys.length xs.length (0 : Rat))

def evalSep : Shape → List Rat → List Rat → List Rat
  | .circle r cx cy, xs, ys => circleFast r cx cy xs ys
  | .disk r, xs, ys => circleFast r 0 0 xs ys
  | .halfplane gt a b c, xs, ys => halfFast gt a b c xs ys
  | .ellipse cM sM cm sm cx cy _, xs, ys => ellipseFast cM sM cm sm cx cy xs ys
  | .rect hx hy cx cy, xs, ys => rectFast hx hy cx cy xs ys
  | .regpoly even r a dirs cx cy, xs, ys => regpolyFast even r a dirs cx cy xs ys
  | .irrpoly vs hx hy bx by_, xs, ys =>
    let m := (rectFast hx hy bx by_ xs ys).map fun v => decide (v ≠ 0)   -- .astype('bool')
    scatter m ((sepPoints xs ys).map fun _ => 0)
      ((compress m (sepPoints xs ys)).map fun p => b2r (containsPt vs p))
  | .spider sx sy c s hl hw, xs, ys => spiderFast sx sy c s hl hw xs ys
  | .spiderInf px py c s hw, xs, ys => spiderInfFast px py c s hw xs ys
  | .const v, xs, ys => (sepPoints xs ys).map fun _ => v
  | .compl a, xs, ys => (evalSep a xs ys).map fun v => 1 - v
  | .mul a b, xs, ys => List.zipWith (· * ·) (evalSep a xs ys) (evalSep b xs ys)
  | .sub a b, xs, ys => List.zipWith (· - ·) (evalSep a xs ys) (evalSep b xs ys)
  -- `grid.rotated` destroys the structure: the inner shape sees an unstructured grid
  | .rot c s a, xs, ys => evalPts a ((sepPoints xs ys).map (rotPt c s))
  -- `grid.shifted` keeps a separated grid separated
  | .shift dx dy a, xs, ys => evalSep a (xs.map (· - dx)) (ys.map (· - dy))
  | .seg segs (.regpoly even r a dirs cx cy), xs, ys => (segFastArr even r a dirs cx cy xs ys segs).ravel
  | .seg segs a, xs, ys =>
    segs.foldl (fun res s =>
      setMask ((evalSep a (xs.map (· - s.1.1)) (ys.map (· - s.1.2))).map fun v => decide (v > 1/2)) res s.2)
      ((sepPoints xs ys).map fun _ => 0)

/-! ## the code path on polar grids -/

/-- a point of a polar grid: radius and the direction cosines `(cos θ, sin θ)` of its angle -/
abbrev PPt := Rat × Rat × Rat

/-- `_polar_to_cartesian`: `x = r cos θ`, `y = r sin θ` -/
def toCart (q : PPt) : Pt := (q.1 * q.2.1, q.1 * q.2.2)

/-- `PolarGrid.rotate(−angle)` adds to θ: with `c = cos(−angle)`, `s = sin(−angle)` the new
direction is `(c cos θ − s sin θ, s cos θ + c sin θ)`; the radius is untouched -/
def rotDir (c s : Rat) (q : PPt) : PPt := (q.1, c * q.2.1 - s * q.2.2, s * q.2.1 + c * q.2.2)

/-- **the code path on a polar grid**: `make_circular_aperture` without a centre compares the stored
radius (`grid.as_('polar').r <= diameter / 2`); `make_rotated_aperture` keeps the grid polar
(`PolarGrid.rotate`); obstruction/products/differences evaluate their operands on the same polar
grid; every other maker converts with `as_('cartesian')` (an unstructured grid) first — also
`make_shifted_aperture` and `make_segmented_aperture`, because `PolarGrid.shifted` returns a
Cartesian grid. -/
def evalPolar : Shape → List PPt → List Rat
  | .disk R, qs => qs.map fun q => b2r (decide (q.1 ≤ R))
  | .compl a, qs => (evalPolar a qs).map fun v => 1 - v
  | .mul a b, qs => List.zipWith (· * ·) (evalPolar a qs) (evalPolar b qs)
  | .sub a b, qs => List.zipWith (· - ·) (evalPolar a qs) (evalPolar b qs)
  | .rot c s a, qs => evalPolar a (qs.map (rotDir c s))
  | s, qs => evalPts s (qs.map toCart)

/-- at the polar point `q` every radius shortcut of `s` (at the rotated point) gives what the
Cartesian test gives at `toCart q`.  True for exact unit direction vectors and radii ≥ 0; for the
floats `cos θ`, `sin θ` it can fail within one rounding error of a rim.  Run by the driver for every
polar request. -/
def diskAgree : Shape → PPt → Bool
  | .disk R, q => decide (q.1 ≤ R) == inCircle R 0 0 (toCart q)
  | .compl a, q => diskAgree a q
  | .mul a b, q => diskAgree a q && diskAgree b q
  | .sub a b, q => diskAgree a q && diskAgree b q
  | .rot c s a, q => diskAgree a (rotDir c s q)
  | _, _ => true

/-! ## supersampling (`evaluate_supersampled`, separated grids, statistic 'mean') -/

/-- `d = concatenate(([x[1]-x[0]], (x[2:]-x[:-2])/2, [x[-1]-x[-2]]))`; `none` when the axis has
fewer than two points (the code raises IndexError there) -/
def deltas (x : List Rat) : Option (List Rat) :=
  match x with
  | x0 :: x1 :: rest =>
    let l := x0 :: x1 :: rest
    let mid := List.zipWith (fun a b => (b - a) / 2) l (l.drop 2)
    let n := l.length
    some ((x1 - x0) :: mid ++ [l.getD (n - 1) 0 - l.getD (n - 2) 0])
  | _ => none

/-- the coordinates of `make_uniform_grid(n, 1)` along one axis: `(k + 1/2)/n − 1/2` -/
def dithers (n : Nat) : List Rat := (List.range n).map fun (k : Nat) => ((k : Rat) + 1/2) / (n : Rat) - 1/2

/-- pointwise sum of equally long fields -/
def addFields (a b : List Rat) : List Rat := List.zipWith (· + ·) a b

/-- `field = 0; for dither: field += gen(dithered grid); field /= len(dithers)` -/
def meanFields (n : Nat) (fs : List (List Rat)) : List Rat :=
  (fs.foldl addFields (List.replicate n 0)).map fun v => v / fs.length

/-- all dithered separated grids, x dither fastest -/
def ditherGrids (nx ny : Nat) (xs ys : List Rat) : Option (List (List Rat × List Rat)) :=
  match deltas xs, deltas ys with
  | some dx, some dy =>
    some ((dithers ny).flatMap fun ey => (dithers nx).map fun ex =>
      (List.zipWith (fun c d => c + ex * d) xs dx, List.zipWith (fun c d => c + ey * d) ys dy))
  | _, _ => none

/-- the two ways `evaluate_supersampled` fails on a separated grid -/
inductive SuperErr where
  /-- an axis with fewer than two points: `x[1] - x[0]` raises IndexError -/
  | index
  /-- an oversampling factor that rounds to 0, statistic 'mean': `make_uniform_grid` has no points, the
  loop does not run and `field / len(dithers)` is `0 / 0` on Python ints: ZeroDivisionError -/
  | zeroDiv
  /-- an oversampling factor that rounds to 0, statistics 'sum' / 'min' / 'max': the loop does not
  run and `field.grid = grid` is applied to the initial `0` resp. `None`: AttributeError -/
  | attribute
  /-- an empty list of generators: `ModeBasis([], grid)` raises ValueError (`np.stack` of nothing) -/
  | value
  deriving DecidableEq, Repr

/-- `evaluate_supersampled(gen, grid, (nx, ny))` on a separated grid, statistic 'mean'.  The spacings
are computed first (IndexError), then the dither grid (ZeroDivisionError for a factor 0); only then
is the generator evaluated. -/
def supersampled (s : Shape) (nx ny : Nat) (xs ys : List Rat) : Except SuperErr (List Rat) :=
  match ditherGrids nx ny xs ys with
  | none => .error .index
  | some gs =>
    if nx = 0 ∨ ny = 0 then .error .zeroDiv
    else .ok (meanFields (xs.length * ys.length) (gs.map fun g => evalSep s g.1 g.2))

/-! ### the other statistics of `evaluate_supersampled` on a separated grid: 'sum', 'min', 'max' -/

/-- the `statistic` argument (the dithered path implements these four) -/
inductive Stat where
  | mean | sum | min | max
  deriving DecidableEq, Repr

/-- `np.minimum(field, gen(dithered grid))` -/
def minFields (a b : List Rat) : List Rat := List.zipWith (fun u v => if u ≤ v then u else v) a b

/-- `np.maximum(field, gen(dithered grid))` -/
def maxFields (a b : List Rat) : List Rat := List.zipWith (fun u v => if u ≤ v then v else u) a b

/-- `field = 0; for dither: field += gen(dithered grid)` -/
def sumFields (n : Nat) (fs : List (List Rat)) : List Rat := fs.foldl addFields (List.replicate n 0)

/-- the loop over the dithered grids: 'mean'/'sum' start from 0 and add, 'min'/'max' start from the
first field (`field = None`) and fold `np.minimum` / `np.maximum`; only 'mean' divides at the end -/
def combineFields (st : Stat) (n : Nat) (fs : List (List Rat)) : List Rat :=
  match st, fs with
  | .mean, fs => meanFields n fs
  | .sum, fs => sumFields n fs
  | .min, [] => []
  | .min, f :: r => r.foldl minFields f
  | .max, [] => []
  | .max, f :: r => r.foldl maxFields f

/-- `evaluate_supersampled(gen, grid, (nx, ny), statistic=st)` on a separated grid.  A one-point axis
fails in the spacings for every statistic (IndexError); a factor 0 leaves the loop over the dithers
empty and fails afterwards — in the division for 'mean', in `field.grid = grid` for the others. -/
def supersampledStat (st : Stat) (s : Shape) (nx ny : Nat) (xs ys : List Rat) :
    Except SuperErr (List Rat) :=
  match ditherGrids nx ny xs ys with
  | none => .error .index
  | some gs =>
    if nx = 0 ∨ ny = 0 then .error (if st = .mean then .zeroDiv else .attribute)
    else .ok (combineFields st (xs.length * ys.length) (gs.map fun g => evalSep s g.1 g.2))

/-! ### a list of generators (`evaluate_supersampled([gen, …], grid, …)` → ModeBasis) -/

/-- `for fg in field_generator: modes.append(evaluate_supersampled(fg, …))`: the first failure ends
the loop -/
def supersampledListAux (st : Stat) (nx ny : Nat) (xs ys : List Rat) :
    List Shape → Except SuperErr (List (List Rat))
  | [] => .ok []
  | s :: rest =>
    match supersampledStat st s nx ny xs ys with
    | .error e => .error e
    | .ok f =>
      match supersampledListAux st nx ny xs ys rest with
      | .error e => .error e
      | .ok fs => .ok (f :: fs)

/-- … followed by `ModeBasis(modes, grid)`, which rejects an empty list -/
def supersampledList (st : Stat) (nx ny : Nat) (xs ys : List Rat) :
    List Shape → Except SuperErr (List (List Rat))
  | [] => .error .value
  | s :: rest => supersampledListAux st nx ny xs ys (s :: rest)

/-! ## distance-to-a-decision flags (used only to skip near-boundary points in the tie) -/

def nearSq (tol r v : Rat) : Bool := decide (rabs (v - sq r) < tol * (2 * rabs r + tol))
def nearLin (tol r v : Rat) : Bool := decide (rabs (v - r) < tol)

/-- squared distance from `p` to the segment `v w` is below `tol²` -/
def nearSeg (tol : Rat) (p v w : Pt) : Bool :=
  let dx := w.1 - v.1
  let dy := w.2 - v.2
  let l2 := sq dx + sq dy
  let t := if l2 = 0 then 0 else ((p.1 - v.1) * dx + (p.2 - v.2) * dy) / l2
  let t := if t < 0 then 0 else if t > 1 then 1 else t
  decide (sq (p.1 - (v.1 + t * dx)) + sq (p.2 - (v.2 + t * dy)) < sq tol)

def near (tol : Rat) : Shape → Pt → Bool
  | .circle r cx cy, p => nearSq tol r (sq (p.1 - cx) + sq (p.2 - cy))
  | .disk r, p => nearSq tol r (sq p.1 + sq p.2)
  | .halfplane _ a b c, p => nearLin (tol * (rabs a + rabs b)) c (a * p.1 + b * p.2)
  | .ellipse cM sM cm sm cx cy mn, p =>
    let t := sq ((p.1 + cx) * cM - (p.2 + cy) * sM) + sq ((p.1 + cx) * sm + (p.2 + cy) * cm)
    nearSq (if mn = 0 then tol else tol / mn) 1 t
  | .rect hx hy cx cy, p => nearLin tol hx (rabs (p.1 - cx)) || nearLin tol hy (rabs (p.2 - cy))
  | .regpoly even r a dirs cx cy, p =>
    let x := p.1 - cx
    let y := p.2 - cy
    nearLin tol r (rabs x) || nearLin tol r (rabs y) ||
      dirs.any fun d =>
        if even then nearSq tol a (sq (d.1 * x + d.2 * y)) else nearLin tol a (rabs (d.2 * x) - d.1 * y)
  | .irrpoly vs _ _ _ _, p => (edges vs).any fun e => nearSeg tol p e.1 e.2
  | .spider sx sy c s hl hw, p =>
    let x := p.1 - sx
    let y := p.2 - sy
    nearLin tol hl (rabs (x * c + y * s)) || nearLin tol hw (rabs (y * c - x * s))
  | .spiderInf px py c s hw, p =>
    let x := p.1 + px
    let y := p.2 + py
    nearLin tol hw (rabs (y * c - x * s)) || nearLin tol 0 (x * c + y * s)
  | .const _, _ => false
  | .compl a, p => near tol a p
  | .mul a b, p => near tol a p || near tol b p
  | .sub a b, p => near tol a p || near tol b p
  | .rot c s a, p => near tol a (rotPt c s p)
  | .shift dx dy a, p => near tol a (shiftPt dx dy p)
  | .seg segs a, p => segs.any fun s => near tol a (shiftPt s.1.1 s.1.2 p)

/-! ## a telescope pupil end to end: the Keck pupil (`make_keck_aperture`) -/

/-- axial coordinates `(q, r)` of ring `n` of `make_hexagonal_grid`, in the order the loop appends
them: top, right top, right bottom, bottom, left bottom, left top -/
def hexRing (n : Nat) : List (Int × Int) :=
  let N : Int := n
  (List.range n).map (fun (k : Nat) => (N - (k : Int), (k : Int))) ++
  (List.range n).map (fun (k : Nat) => (-(k : Int), N)) ++
  (List.range n).map (fun (k : Nat) => (-N, N - (k : Int))) ++
  (List.range n).map (fun (k : Nat) => (-N + (k : Int), -(k : Int))) ++
  (List.range n).map (fun (k : Nat) => ((k : Int), -N)) ++
  (List.range n).map (fun (k : Nat) => (N, -N + (k : Int)))

/-- `q, r` lists of `make_hexagonal_grid(·, rings)`: the centre, then ring 1, 2, … -/
def hexQR (rings : Nat) : List (Int × Int) :=
  (0, 0) :: (List.range rings).flatMap fun m => hexRing (m + 1)

/-- segment centres of `make_hexagonal_grid(cd, rings, pointy_top=False)`:
`x = (r − q)·cd/2`, `y = (q + r)·apothem·2`, stored as `(y, x)`; `ap` is the float `cd·√3/4` -/
def hexPositions (rings : Nat) (cd ap : Rat) : List Pt :=
  (hexQR rings).map fun qr =>
    ((((qr.1 + qr.2 : Int) : Rat)) * ap * 2, (((qr.2 - qr.1 : Int) : Rat)) * cd / 2)

/-- product of the infinite spiders, `spider1(grid) * spider2(grid) * …` (left associated) -/
def spiderProd (hw : Rat) (s0 : Rat × Rat) (rest : List (Rat × Rat)) : Shape :=
  rest.foldl (fun acc d => Shape.mul acc (.spiderInf 0 0 d.1 d.2 hw)) (.spiderInf 0 0 s0.1 s0.2 hw)

/-- `make_keck_aperture`: `segmented(grid) * (1 − circular(obscuration)(grid))`, then
`res *= spider1 * … * spider6`.  `pitch` = segment pitch, `segR, segA, dirs` the hexagonal
segment (circum-radius, inflated apothem, side directions), `trs` the 37 transmissions. -/
def keckShape (rings : Nat) (pitch ap segR segA : Rat) (dirs : List (Rat × Rat)) (trs : List Rat)
    (obsR : Rat) (spiders : List (Rat × Rat)) (hw : Rat) : Shape :=
  let body := Shape.mul (.seg ((hexPositions rings pitch ap).zip trs) (.regpoly true segR segA dirs 0 0))
    (.compl (.disk obsR))
  match spiders with
  | [] => body
  | s0 :: rest => .mul body (spiderProd hw s0 rest)

/-! ## a non-hexagonal telescope pupil end to end: the VLT pupil (`make_vlt_aperture`) -/

/-- a spider as `make_spider` sees it: `(sx, sy, cos, sin, half length, half width)` -/
abbrev SpiderC := Rat × Rat × Rat × Rat × Rat × Rat

/-- `obstructed(grid) * spider1(grid) * … [* m3_cover(grid)]` with
`obstructed = (circular(D) − circular(D·ratio)) * 1` (no spiders of its own) and
`m3_cover = 1 − rectangular(…)` -/
def vltShape (ro ri : Rat) (spiders : List SpiderC) (m3 : Option (Rat × Rat × Rat × Rat)) : Shape :=
  let body := Shape.mul (.sub (.disk ro) (.disk ri)) (.const 1)
  let sp := spiders.foldl (fun acc (q : SpiderC) =>
    Shape.mul acc (.spider q.1 q.2.1 q.2.2.1 q.2.2.2.1 q.2.2.2.2.1 q.2.2.2.2.2)) body
  match m3 with
  | none => sp
  | some (hx, hy, cx, cy) => .mul sp (.compl (.rect hx hy cx cy))

/-- the line through a spider: `n = (end.y − start.y, start.x − end.x)`, `c = n · end` -/
def spiderLine (st en : Pt) : (Rat × Rat) × Rat :=
  let n := (en.2 - st.2, st.1 - en.1)
  (n, n.1 * en.1 + n.2 * en.2)

/-- `np.array([c1, c2]).dot(np.linalg.inv(np.array([n1, n2])))`, then `ni = (−v[1], −v[0])`;
`none` when the matrix is singular (LinAlgError) -/
def vltThird (n1 : Rat × Rat) (c1 : Rat) (n2 : Rat × Rat) (c2 : Rat) : Option (Rat × Rat) :=
  let det := n1.1 * n2.2 - n1.2 * n2.1
  if det = 0 then none else
    let v0 := (c1 * n2.2 - c2 * n2.1) / det
    let v1 := (c2 * n1.1 - c1 * n1.2) / det
    some (-v1, -v0)

/-- quadrant `i` of `make_vlt_aperture(return_segments=True)`: `lines` are the spider lines in the
order the code lists them (`[1, 4, 3, 2]`); the quadrant uses `lines[i]` and `lines[i+1]` (cyclic),
`f = (n1·p > c1) * (n2·p < c2) * (ni·p < 0)`, then `f *= func(grid)` and, with the M3 cover,
`f *= m3_cover(grid)` once more -/
def vltSegment (i : Nat) (lines : List ((Rat × Rat) × Rat)) (pupil : Shape)
    (m3 : Option (Rat × Rat × Rat × Rat)) : Option Shape :=
  match lines[i % lines.length]?, lines[(i + 1) % lines.length]? with
  | some (n1, c1), some (n2, c2) =>
    (vltThird n1 c1 n2 c2).map fun ni =>
      let f := Shape.mul (.mul (.mul (.halfplane true n1.1 n1.2 c1) (.halfplane false n2.1 n2.2 c2))
        (.halfplane false ni.1 ni.2 0)) pupil
      match m3 with
      | none => f
      | some (hx, hy, cx, cy) => .mul f (.compl (.rect hx hy cx cy))
  | _, _ => none

/-- the spider lines in the code's order `ns = [n1, n4, n3, n2]` from the start/end points of
spiders 1…4 -/
def vltLines (se : List (Pt × Pt)) : List ((Rat × Rat) × Rat) :=
  match se with
  | [s1, s2, s3, s4] => [spiderLine s1.1 s1.2, spiderLine s4.1 s4.2, spiderLine s3.1 s3.2, spiderLine s2.1 s2.2]
  | _ => []

end HcipyVerif.Aperture
