import HcipyVerif.Model.ModeBasis

/-!
# C14 — model of the surface cache of `DeformableMirror` (hcipy/optics/deformable_mirror.py)

`SegmentedDeformableMirror` and `TipTiltMirror` inherit `surface`, `flatten`, `random` and the
`actuators` / `influence_functions` properties unchanged, so the same state machine models all
three.

Python hands out *the array object itself* (`dm.actuators` returns `self._actuators`, and the
setter stores the caller's array without copying), so the caller can later edit, in place, the
very array the mirror holds — or an array the mirror held earlier.  The model therefore has an
explicit heap of actuator arrays addressed by handles; the mirror holds the handle `cur`.
The cache is `(surface, cached)` where `cached` is a **private copy** of the actuator values
for which `surface` was computed (`self._actuators_for_cached_surface = self.actuators.copy()`)
and is compared **by value** (`np.all(self.actuators == cached)`).

`readByRef` / `readByIdentity` are the two classic broken caches (copy dropped; compared by
object identity) kept for their counterexamples.
-/
namespace HcipyVerif.Mirror
open HcipyVerif.ModeBasis

section
variable {K : Type}

structure Mirror (K : Type) where
  /-- influence functions, as the dense table of the mode basis (`npix` rows) -/
  infl : List (List K)
  nmodes : Nat
  /-- every actuator array ever created or passed in, addressed by handle -/
  heap : List (List K)
  /-- handle of the array the mirror currently holds (`self._actuators`) -/
  cur : Nat
  /-- private copy of the actuator values the cached surface belongs to -/
  cached : Option (List K)
  surface : List K
  /-- (broken variants only) handle of the array the surface was computed from -/
  cachedRef : Option Nat := none
deriving Repr

inductive Op (K : Type) where
  /-- `dm.actuators = <new array with these values>`; the caller keeps the array -/
  | assign (v : List K)
  /-- `dm.actuators = <array with handle h>` (an array the caller already holds) -/
  | reassign (h : Nat)
  /-- `a[i] = v` on the array with handle `h` (any array: current, or handed out earlier) -/
  | edit (h i : Nat) (v : K)
  | flatten
  /-- `dm.random(rms)`: a fresh array, the values `randn·rms` supplied as data -/
  | random (v : List K)
  /-- `dm.influence_functions = …` -/
  | setInfl (m : List (List K)) (nmodes : Nat)
  /-- read `dm.surface` -/
  | read
deriving Repr

/-- `DeformableMirror(influence_functions)`: actuators `zeros(nmodes)` (handle 0), empty cache -/
def init [Zero K] (infl : List (List K)) (nmodes : Nat) : Mirror K :=
  { infl := infl, nmodes := nmodes, heap := [List.replicate nmodes 0], cur := 0,
    cached := none, surface := List.replicate infl.length 0 }

/-- the current actuator values -/
def acts (m : Mirror K) : List K := m.heap.getD m.cur []

/-- what the surface has to be -/
def ideal [Zero K] [Add K] [Mul K] (m : Mirror K) : List K := matvec m.infl (acts m)

/-- the `surface` property -/
def read [Zero K] [Add K] [Mul K] [DecidableEq K] (m : Mirror K) : Mirror K × List K :=
  if m.cached = some (acts m) then (m, m.surface)
  else
    let s := matvec m.infl (acts m)
    ({ m with surface := s, cached := some (acts m), cachedRef := some m.cur }, s)

def step [Zero K] [Add K] [Mul K] [DecidableEq K] (m : Mirror K) : Op K → Mirror K × Option (List K)
  | .assign v => ({ m with heap := m.heap ++ [v], cur := m.heap.length }, none)
  | .reassign h => (if h < m.heap.length then { m with cur := h } else m, none)
  | .edit h i v => ({ m with heap := m.heap.modify h (fun a => a.set i v) }, none)
  | .flatten => ({ m with heap := m.heap ++ [List.replicate m.nmodes 0], cur := m.heap.length }, none)
  | .random v => ({ m with heap := m.heap ++ [v], cur := m.heap.length }, none)
  | .setInfl i n => ({ m with infl := i, nmodes := n, cached := none, cachedRef := none }, none)
  | .read => let r := read m; (r.1, some r.2)

/-- run a history; collect what every `read` returned, in order -/
def run [Zero K] [Add K] [Mul K] [DecidableEq K] (m : Mirror K) : List (Op K) → Mirror K × List (List K)
  | [] => (m, [])
  | op :: rest =>
    let r := step m op
    let rr := run r.1 rest
    (rr.1, (match r.2 with | some s => [s] | none => []) ++ rr.2)

/-! ### The specification: a mirror without any cache

Same heap, same handles, same operations; `read` simply evaluates
`influence_functions.linear_combination(actuators)`. -/

structure Spec (K : Type) where
  infl : List (List K)
  nmodes : Nat
  heap : List (List K)
  cur : Nat
deriving Repr

def spec (m : Mirror K) : Spec K := ⟨m.infl, m.nmodes, m.heap, m.cur⟩

def Spec.acts (s : Spec K) : List K := s.heap.getD s.cur []

def Spec.step [Zero K] [Add K] [Mul K] (s : Spec K) : Op K → Spec K × Option (List K)
  | .assign v => ({ s with heap := s.heap ++ [v], cur := s.heap.length }, none)
  | .reassign h => (if h < s.heap.length then { s with cur := h } else s, none)
  | .edit h i v => ({ s with heap := s.heap.modify h (fun a => a.set i v) }, none)
  | .flatten => ({ s with heap := s.heap ++ [List.replicate s.nmodes 0], cur := s.heap.length }, none)
  | .random v => ({ s with heap := s.heap ++ [v], cur := s.heap.length }, none)
  | .setInfl i n => ({ s with infl := i, nmodes := n }, none)
  | .read => (s, some (matvec s.infl s.acts))

def Spec.run [Zero K] [Add K] [Mul K] (s : Spec K) : List (Op K) → List (List K)
  | [] => []
  | op :: rest =>
    let r := s.step op
    (match r.2 with | some x => [x] | none => []) ++ Spec.run r.1 rest

/-! ### Broken caches (for counterexamples) -/

/-- `step` with a replaceable `surface` property -/
def stepWith [Zero K] [Add K] [Mul K] [DecidableEq K] (rd : Mirror K → Mirror K × List K)
    (m : Mirror K) : Op K → Mirror K × Option (List K)
  | .read => let r := rd m; (r.1, some r.2)
  | op => step m op

def runWith [Zero K] [Add K] [Mul K] [DecidableEq K] (rd : Mirror K → Mirror K × List K)
    (m : Mirror K) : List (Op K) → List (List K)
  | [] => []
  | op :: rest =>
    let r := stepWith rd m op
    (match r.2 with | some x => [x] | none => []) ++ runWith rd r.1 rest


/-- copy dropped: the "cached actuators" are the live array itself, so the comparison can
only fail when the mirror holds a different array with different values -/
def readByRef [Zero K] [Add K] [Mul K] [DecidableEq K] (m : Mirror K) : Mirror K × List K :=
  match m.cachedRef with
  | some h =>
    if m.heap.getD h [] = acts m then (m, m.surface)
    else let s := matvec m.infl (acts m); ({ m with surface := s, cachedRef := some m.cur }, s)
  | none => let s := matvec m.infl (acts m); ({ m with surface := s, cachedRef := some m.cur }, s)

/-- compared by object identity -/
def readByIdentity [Zero K] [Add K] [Mul K] [DecidableEq K] (m : Mirror K) : Mirror K × List K :=
  if m.cachedRef = some m.cur then (m, m.surface)
  else let s := matvec m.infl (acts m); ({ m with surface := s, cachedRef := some m.cur }, s)

end
end HcipyVerif.Mirror
