import HcipyVerif.Model.ModeBasis

/-!
# C14 — model of the surface cache of `DeformableMirror` (hcipy/optics/deformable_mirror.py)

`SegmentedDeformableMirror` and `TipTiltMirror` inherit `surface`, `flatten`, `random` and the
`actuators` / `influence_functions` properties unchanged, so the same state machine models all
three.

Python hands out *the array object itself* (`dm.actuators` returns `self._actuators`, and the
setter stores the caller's array without copying), so the caller can later edit, in place, the
very array the mirror holds — or an array the mirror held earlier.  The model therefore has an
explicit heap of actuator arrays addressed by handles; the mirror holds the handle `cur`.
The cache is `(surface, cached)` where `cached` is a **private copy** of the actuator values
for which `surface` was computed (`self._actuators_for_cached_surface = self.actuators.copy()`)
and is compared **by value** (`np.all(self.actuators == cached)`).

The `surface` property hands out an array as well.  The cached surface (`self._surface`) is an
array object like any other, so there is a second heap, `sheap`, of surface arrays; the mirror
holds the handle `surf` of its cached one, and the caller keeps every array a read returned
(`outs`: the `k`-th read returned the array with handle `outs[k]`) and may edit it in place at
any later time (`Op.editSurface`).  `read` is the **repaired** property (pending_fixes/D22f): the
caller receives a fresh copy.  `Old.readAlias` is the code as pinned: the caller receives the
cached array object itself, so an edit of a returned surface silently corrupts the cache.

`readByRef` / `readByIdentity` are the two classic broken caches (copy dropped; compared by
object identity) kept for their counterexamples.
-/
namespace HcipyVerif.Mirror
open HcipyVerif.ModeBasis

section
variable {K : Type}

structure Mirror (K : Type) where
  /-- influence functions, as the dense table of the mode basis (`npix` rows) -/
  infl : List (List K)
  nmodes : Nat
  /-- every actuator array ever created or passed in, addressed by handle -/
  heap : List (List K)
  /-- handle of the array the mirror currently holds (`self._actuators`) -/
  cur : Nat
  /-- private copy of the actuator values the cached surface belongs to -/
  cached : Option (List K)
  /-- every surface array ever created (`grid.zeros()`, `linear_combination`, `.copy()`) -/
  sheap : List (List K)
  /-- handle of the cached surface array (`self._surface`) -/
  surf : Nat
  /-- the arrays the caller received from its reads of `dm.surface`, in order -/
  outs : List Nat := []
  /-- (broken variants only) handle of the array the surface was computed from -/
  cachedRef : Option Nat := none
deriving Repr

inductive Op (K : Type) where
  /-- `dm.actuators = <new array with these values>`; the caller keeps the array -/
  | assign (v : List K)
  /-- `dm.actuators = <array with handle h>` (an array the caller already holds) -/
  | reassign (h : Nat)
  /-- `a[i] = v` on the array with handle `h` (any array: current, or handed out earlier) -/
  | edit (h i : Nat) (v : K)
  | flatten
  /-- `dm.random(rms)`: a fresh array, the values `randn·rms` supplied as data -/
  | random (v : List K)
  /-- `dm.influence_functions = …` -/
  | setInfl (m : List (List K)) (nmodes : Nat)
  /-- read `dm.surface` (the caller keeps the returned array) -/
  | read
  /-- `s[i] = v` on the array that the `k`-th read of `dm.surface` returned -/
  | editSurface (k i : Nat) (v : K)
deriving Repr

/-- `DeformableMirror(influence_functions)`: actuators `zeros(nmodes)` (handle 0), empty cache -/
def init [Zero K] (infl : List (List K)) (nmodes : Nat) : Mirror K :=
  { infl := infl, nmodes := nmodes, heap := [List.replicate nmodes 0], cur := 0,
    cached := none, sheap := [List.replicate infl.length 0], surf := 0 }

/-- the current actuator values -/
def acts (m : Mirror K) : List K := m.heap.getD m.cur []

/-- the contents of the cached surface array -/
def surface (m : Mirror K) : List K := m.sheap.getD m.surf []

/-- `self._surface = linear_combination(...)`, `self._actuators_for_cached_surface = copy` -/
def recompute [Zero K] [Add K] [Mul K] (m : Mirror K) : Mirror K :=
  { m with sheap := m.sheap ++ [matvec m.infl (acts m)], surf := m.sheap.length,
           cached := some (acts m), cachedRef := some m.cur }

/-- hand the caller a fresh copy of the cached surface array -/
def handCopy (m : Mirror K) : Mirror K × List K :=
  ({ m with sheap := m.sheap ++ [surface m], outs := m.outs ++ [m.sheap.length] }, surface m)

/-- the caller edits, in place, the array its `k`-th read returned -/
def editOut (m : Mirror K) (k i : Nat) (v : K) : Mirror K :=
  match m.outs[k]? with
  | some h => { m with sheap := m.sheap.modify h (fun a => a.set i v) }
  | none => m

/-- what the surface has to be -/
def ideal [Zero K] [Add K] [Mul K] (m : Mirror K) : List K := matvec m.infl (acts m)

/-- the `surface` property (repaired, D22f): validate or recompute the cache, return a copy -/
def read [Zero K] [Add K] [Mul K] [DecidableEq K] (m : Mirror K) : Mirror K × List K :=
  if m.cached = some (acts m) then handCopy m else handCopy (recompute m)

def step [Zero K] [Add K] [Mul K] [DecidableEq K] (m : Mirror K) : Op K → Mirror K × Option (List K)
  | .assign v => ({ m with heap := m.heap ++ [v], cur := m.heap.length }, none)
  | .reassign h => (if h < m.heap.length then { m with cur := h } else m, none)
  | .edit h i v => ({ m with heap := m.heap.modify h (fun a => a.set i v) }, none)
  | .flatten => ({ m with heap := m.heap ++ [List.replicate m.nmodes 0], cur := m.heap.length }, none)
  | .random v => ({ m with heap := m.heap ++ [v], cur := m.heap.length }, none)
  | .setInfl i n => ({ m with infl := i, nmodes := n, cached := none, cachedRef := none }, none)
  | .read => let r := read m; (r.1, some r.2)
  | .editSurface k i v => (editOut m k i v, none)

/-- run a history; collect what every `read` returned, in order -/
def run [Zero K] [Add K] [Mul K] [DecidableEq K] (m : Mirror K) : List (Op K) → Mirror K × List (List K)
  | [] => (m, [])
  | op :: rest =>
    let r := step m op
    let rr := run r.1 rest
    (rr.1, (match r.2 with | some s => [s] | none => []) ++ rr.2)

/-! ### The specification: a mirror without any cache

Same heap, same handles, same operations; `read` simply evaluates
`influence_functions.linear_combination(actuators)`. -/

structure Spec (K : Type) where
  infl : List (List K)
  nmodes : Nat
  heap : List (List K)
  cur : Nat
deriving Repr, DecidableEq

/-- The specification ignores the surface arrays altogether: what a caller does to an array it
received earlier has no bearing on what the mirror's surface is. -/
def spec (m : Mirror K) : Spec K := ⟨m.infl, m.nmodes, m.heap, m.cur⟩

def Spec.acts (s : Spec K) : List K := s.heap.getD s.cur []

def Spec.step [Zero K] [Add K] [Mul K] (s : Spec K) : Op K → Spec K × Option (List K)
  | .assign v => ({ s with heap := s.heap ++ [v], cur := s.heap.length }, none)
  | .reassign h => (if h < s.heap.length then { s with cur := h } else s, none)
  | .edit h i v => ({ s with heap := s.heap.modify h (fun a => a.set i v) }, none)
  | .flatten => ({ s with heap := s.heap ++ [List.replicate s.nmodes 0], cur := s.heap.length }, none)
  | .random v => ({ s with heap := s.heap ++ [v], cur := s.heap.length }, none)
  | .setInfl i n => ({ s with infl := i, nmodes := n }, none)
  | .read => (s, some (matvec s.infl s.acts))
  | .editSurface _ _ _ => (s, none)

def Spec.run [Zero K] [Add K] [Mul K] (s : Spec K) : List (Op K) → List (List K)
  | [] => []
  | op :: rest =>
    let r := s.step op
    (match r.2 with | some x => [x] | none => []) ++ Spec.run r.1 rest

/-- the state of the specification after a history (the driver steps it alongside the cached
mirror, one `Spec.step` per operation) -/
def Spec.after [Zero K] [Add K] [Mul K] (s : Spec K) : List (Op K) → Spec K
  | [] => s
  | op :: rest => Spec.after (s.step op).1 rest

/-! ### Read-outs derived from the surface: `opd`

`opd` is `2 * self.surface`: one evaluation of the `surface` property (cache validated or
recomputed exactly as for a read; the array it returns is kept by nobody else) and a new array
with every value doubled (`2 * x` is `x + x`, exactly, in binary floating point as well).
`phase_for`, `forward` and `backward` multiply the same surface by `4π/λ` resp. exponentiate it;
they are compared numerically by the harness, not modelled. -/

/-- `2 * s`, element by element -/
def double [Add K] (s : List K) : List K := s.map fun x => x + x

/-- a read-out that evaluates the `surface` property once and post-processes the array with `g`
(`opd`: `g = double`; `phase_for(λ)`: `g s = 2 s · 2π/λ`; `forward`/`backward`:
`g s = E · exp(±2ik s)`) -/
def readOut {β : Type} [Zero K] [Add K] [Mul K] [DecidableEq K] (g : List K → β) (m : Mirror K) :
    Mirror K × β :=
  let r := read m
  (r.1, g r.2)

/-- the `opd` property of the cached mirror -/
def readOpd [Zero K] [Add K] [Mul K] [DecidableEq K] (m : Mirror K) : Mirror K × List K :=
  readOut double m

/-- what the optical path difference has to be: `2 · IF · actuators`, no cache involved -/
def Spec.opd [Zero K] [Add K] [Mul K] (s : Spec K) : List K := double (matvec s.infl s.acts)

/-! ### Broken caches (for counterexamples) -/

/-- `step` with a replaceable `surface` property -/
def stepWith [Zero K] [Add K] [Mul K] [DecidableEq K] (rd : Mirror K → Mirror K × List K)
    (m : Mirror K) : Op K → Mirror K × Option (List K)
  | .read => let r := rd m; (r.1, some r.2)
  | op => step m op

def runWith [Zero K] [Add K] [Mul K] [DecidableEq K] (rd : Mirror K → Mirror K × List K)
    (m : Mirror K) : List (Op K) → List (List K)
  | [] => []
  | op :: rest =>
    let r := stepWith rd m op
    (match r.2 with | some x => [x] | none => []) ++ runWith rd r.1 rest


/-- copy dropped: the "cached actuators" are the live array itself, so the comparison can
only fail when the mirror holds a different array with different values -/
def readByRef [Zero K] [Add K] [Mul K] [DecidableEq K] (m : Mirror K) : Mirror K × List K :=
  match m.cachedRef with
  | some h => if m.heap.getD h [] = acts m then handCopy m else handCopy (recompute m)
  | none => handCopy (recompute m)

/-- compared by object identity -/
def readByIdentity [Zero K] [Add K] [Mul K] [DecidableEq K] (m : Mirror K) : Mirror K × List K :=
  if m.cachedRef = some m.cur then handCopy m else handCopy (recompute m)

/-! ### Old: the `surface` property before pending_fixes/D22f (documentation, not evidence) -/
namespace Old

/-- hand the caller the cached surface array itself -/
def handAlias (m : Mirror K) : Mirror K × List K :=
  ({ m with outs := m.outs ++ [m.surf] }, surface m)

/-- `surface` as pinned: `return self._surface` on both paths -/
def readAlias [Zero K] [Add K] [Mul K] [DecidableEq K] (m : Mirror K) : Mirror K × List K :=
  if m.cached = some (acts m) then handAlias m else handAlias (recompute m)

end Old

/-! ### Bad: a surface that is *updated* instead of recomputed (seeded regression C14-9)

`surface += IF[changed] · (actuators − cached)[changed]` whenever at most one actuator in `ratio`
differs from the vector the cached surface belongs to.  Over an exact ring this is the same array as
`IF · actuators` — which is why a model over `ℚ` alone cannot tell it from `read`.  Over a scalar
domain with a non-number (`Ext`, below: `nan − x = nan`, as IEEE NaN, and as `inf − inf`) the
surface keeps the `nan` after the actuator has been set back: the surface depends on the history.
Kept for its counterexample (`Properties/C14.lean`, `bad_incremental_not_history_free`). -/
namespace Bad

/-- number of positions in which two vectors differ -/
def nchanged [DecidableEq K] (a c : List K) : Nat :=
  ((List.zipWith (fun x y => decide (x ≠ y)) a c).filter id).length

def readIncremental [Zero K] [Add K] [Sub K] [Mul K] [DecidableEq K] (ratio : Nat) (m : Mirror K) :
    Mirror K × List K :=
  match m.cached with
  | some c =>
    if c = acts m then handCopy m
    else if c.length = (acts m).length ∧ nchanged (acts m) c * ratio ≤ c.length then
      handCopy { m with
        sheap := m.sheap ++ [List.zipWith (· + ·) (surface m)
                  (matvec m.infl (List.zipWith (· - ·) (acts m) c))],
        surf := m.sheap.length, cached := some (acts m), cachedRef := some m.cur }
    else handCopy (recompute m)
  | none => handCopy (recompute m)

end Bad

/-! ### Segment actuators (`SegmentedDeformableMirror.set_segment_actuators / get_segment_actuators`)

The actuator vector of a segmented mirror of `nseg` segments is `[pistons…, tips…, tilts…]`;
`set_segment_actuators(id, p, t, tl)` is three in-place item assignments on the array the mirror
currently holds, `get_segment_actuators(id)` three item reads. -/

def setSegment [Zero K] [Add K] [Mul K] [DecidableEq K] (m : Mirror K) (nseg id : Nat) (p t tl : K) :
    Mirror K :=
  (step (step (step m (.edit m.cur id p)).1 (.edit m.cur (id + nseg) t)).1
    (.edit m.cur (id + 2 * nseg) tl)).1

def getSegment [Zero K] (m : Mirror K) (nseg id : Nat) : K × K × K :=
  ((acts m).getD id 0, (acts m).getD (id + nseg) 0, (acts m).getD (id + 2 * nseg) 0)

/-! ### The influence functions of a segmented mirror (`SegmentedDeformableMirror.segments.setter`)

For every segment `s` (one value per grid point) the tip mode is `s·x − β·s` with
`β = (mean(s·x·s) − mean(s)·mean(s·x)) / (mean(s²) − mean(s)²)` (no subtraction when the
denominator is zero), the tilt mode the same with `y`; the influence functions are
`segments + tip + tilt`: the columns `[s₀ … | tip₀ … | tilt₀ …]`. -/

/-- `np.mean(v)` -/
def mean [Zero K] [Add K] [Div K] [NatCast K] (v : List K) : K := v.sum / (v.length : K)

/-- the tip (`c = grid.x`) or tilt (`c = grid.y`) mode of one segment `s` -/
def tiltMode [Zero K] [Add K] [Sub K] [Mul K] [Div K] [NatCast K] [DecidableEq K] (s c : List K) :
    List K :=
  let ms := mean s
  let norm := mean (s.map fun a => a * a) - ms * ms
  let t := List.zipWith (· * ·) s c
  if norm = 0 then t else
  let β := (mean (List.zipWith (· * ·) t s) - ms * mean t) / norm
  List.zipWith (fun ti si => ti - β * si) t s

/-- the dense table (`npix` rows) of the influence functions built from the segments (given as
columns) and the grid coordinates -/
def segInfl [Zero K] [Add K] [Sub K] [Mul K] [Div K] [NatCast K] [DecidableEq K]
    (segs : List (List K)) (xs ys : List K) : List (List K) :=
  let cols := segs ++ segs.map (tiltMode · xs) ++ segs.map (tiltMode · ys)
  (List.range xs.length).map fun i => cols.map fun c => c.getD i 0

/-! ### Phase read-outs: `phase_for`, `forward`, `backward`

`phase_for(λ) = 2 · surface · 2π/λ`, `forward: E ↦ E · exp(2i·k·surface)`, `backward: E ↦ E ·
exp(−2i·k·surface)` with `k = 2π/λ`.  The transcendental factor is kept **formal**: a phase is
stored as its exact coefficient `c`, standing for the angle `2π · c` (`c = 2·surface/λ` turns), and a
field value as a pair `(E, c)` standing for `E · exp(2πi · c)`.  Multiplying by `exp(2πi·d)` adds `d`
to the coefficient — that is all `forward`/`backward` do, so they are exact in this representation
and the harness evaluates `E · exp(2πi·c)` in floating point only at the very end to compare it with
the electric field the running code returns. -/

/-- a field value `E · exp(2πi·turns)` -/
structure PVal (K : Type) where
  amp : K
  turns : K
deriving Repr, DecidableEq

/-- `2 · surface / λ`, in turns: `phase_for(λ) = 2π · phaseTurns` -/
def phaseTurns [Add K] [Div K] (wl : K) (s : List K) : List K := (double s).map (· / wl)

/-- `E · exp(+2πi · d)` for every pixel -/
def applyPhase [Add K] (e : List (PVal K)) (d : List K) : List (PVal K) :=
  List.zipWith (fun x t => ⟨x.amp, x.turns + t⟩) e d

/-- `E · exp(−2πi · d)` for every pixel -/
def applyPhaseConj [Sub K] (e : List (PVal K)) (d : List K) : List (PVal K) :=
  List.zipWith (fun x t => ⟨x.amp, x.turns - t⟩) e d

/-- `DeformableMirror.phase_for(wavelength)` (in turns) on the cached mirror -/
def readPhase [Zero K] [Add K] [Mul K] [Div K] [DecidableEq K] (wl : K) (m : Mirror K) :
    Mirror K × List K := readOut (phaseTurns wl) m

/-- `DeformableMirror.forward(wavefront)`: one evaluation of `surface`, the field multiplied by
`exp(2ik·surface)` -/
def forward [Zero K] [Add K] [Mul K] [Div K] [DecidableEq K] (wl : K) (e : List (PVal K))
    (m : Mirror K) : Mirror K × List (PVal K) := readOut (fun s => applyPhase e (phaseTurns wl s)) m

/-- `DeformableMirror.backward(wavefront)`: the conjugate phase -/
def backward [Zero K] [Add K] [Sub K] [Mul K] [Div K] [DecidableEq K] (wl : K) (e : List (PVal K))
    (m : Mirror K) : Mirror K × List (PVal K) :=
  readOut (fun s => applyPhaseConj e (phaseTurns wl s)) m

/-- power of a field in the formal representation: `|E · exp(2πi c)|² = |E|²` (`nsq` = squared modulus) -/
def power [Zero K] [Add K] (nsq : K → K) (e : List (PVal K)) : K := (e.map fun x => nsq x.amp).sum

end

/-! ### A scalar domain with a non-number

`Ext α` adds one absorbing element `nan` to `α` (`nan ∘ x = x ∘ nan = nan` for every operation) — the
behaviour of IEEE NaN, and of `inf − inf`.  The mirror model needs no algebraic law, so every mirror
theorem holds over `Ext α` as well. -/
inductive Ext (α : Type) where
  | fin (a : α)
  | nan
deriving DecidableEq, Repr

namespace Ext
variable {α : Type}
def lift2 (f : α → α → α) : Ext α → Ext α → Ext α
  | .fin a, .fin b => .fin (f a b)
  | _, _ => .nan
instance [Zero α] : Zero (Ext α) := ⟨.fin 0⟩
instance [Add α] : Add (Ext α) := ⟨lift2 (· + ·)⟩
instance [Sub α] : Sub (Ext α) := ⟨lift2 (· - ·)⟩
instance [Mul α] : Mul (Ext α) := ⟨lift2 (· * ·)⟩
end Ext

end HcipyVerif.Mirror
