/-!
# Jones / Mueller / Stokes calculus (model for C08, shared with C07) — core Lean only

Everything is polymorphic in the real scalar `K` through plain notation classes, so the same
definitions are *executed* at `Rat` by the line-protocol driver and *proved about* at `ℝ`
(`Properties/C08.lean`).  A complex number is a pair `Cx K` with the textbook product; a Jones matrix
is four of them; a Stokes vector four reals.

The specification used throughout is the **coherency matrix**: a (partially) polarised beam with
Stokes vector `S = (a, b, c, d)` has `C(S) = ½ [[a+b, c−i d], [c+i d, a−b]]`; a Jones matrix `J`
maps it to `J · C · Jᴴ`; and the Stokes parameters of a coherency matrix are
`I = C₁₁+C₂₂`, `Q = C₁₁−C₂₂`, `U = 2 Re C₁₂`, `V = −2 Im C₁₂` (hcipy's sign convention:
`U = 2 Re(Ex conj Ey)`, `V = −2 Im(Ex conj Ey)`).
-/
namespace HcipyVerif.Jones

/-- A complex number as a pair of reals. -/
structure Cx (K : Type) where
  re : K
  im : K
deriving Repr, BEq, DecidableEq

/-- A 2×2 complex (Jones or coherency) matrix `[[a11, a12], [a21, a22]]`. -/
structure J2 (K : Type) where
  a11 : Cx K
  a12 : Cx K
  a21 : Cx K
  a22 : Cx K
deriving Repr, BEq, DecidableEq

/-- A Jones vector. -/
structure V2 (K : Type) where
  x : Cx K
  y : Cx K
deriving Repr, BEq, DecidableEq

/-- A Stokes vector `(I, Q, U, V)`. -/
structure S4 (K : Type) where
  i : K
  q : K
  u : K
  v : K
deriving Repr, BEq, DecidableEq

section
variable {K : Type} [Add K] [Sub K] [Mul K] [Neg K]

namespace Cx
def add (a b : Cx K) : Cx K := ⟨a.re + b.re, a.im + b.im⟩
def sub (a b : Cx K) : Cx K := ⟨a.re - b.re, a.im - b.im⟩
def mul (a b : Cx K) : Cx K := ⟨a.re * b.re - a.im * b.im, a.re * b.im + a.im * b.re⟩
def neg (a : Cx K) : Cx K := ⟨-a.re, -a.im⟩
def conj (a : Cx K) : Cx K := ⟨a.re, -a.im⟩
/-- multiplication by a real -/
def smul (k : K) (a : Cx K) : Cx K := ⟨k * a.re, k * a.im⟩
/-- squared modulus -/
def normSq (a : Cx K) : K := a.re * a.re + a.im * a.im
instance : Add (Cx K) := ⟨add⟩
instance : Sub (Cx K) := ⟨sub⟩
instance : Mul (Cx K) := ⟨mul⟩
instance : Neg (Cx K) := ⟨neg⟩
end Cx

namespace J2
def mul (a b : J2 K) : J2 K :=
  ⟨a.a11 * b.a11 + a.a12 * b.a21, a.a11 * b.a12 + a.a12 * b.a22,
   a.a21 * b.a11 + a.a22 * b.a21, a.a21 * b.a12 + a.a22 * b.a22⟩
def add (a b : J2 K) : J2 K := ⟨a.a11 + b.a11, a.a12 + b.a12, a.a21 + b.a21, a.a22 + b.a22⟩
/-- conjugate transpose -/
def adj (a : J2 K) : J2 K := ⟨a.a11.conj, a.a21.conj, a.a12.conj, a.a22.conj⟩
/-- matrix times Jones vector -/
def apply (a : J2 K) (e : V2 K) : V2 K := ⟨a.a11 * e.x + a.a12 * e.y, a.a21 * e.x + a.a22 * e.y⟩
/-- multiplication of every entry by a complex scalar (a scalar field entering a Jones element) -/
def scale (a : J2 K) (e : Cx K) : J2 K := ⟨a.a11 * e, a.a12 * e, a.a21 * e, a.a22 * e⟩
def det (a : J2 K) : Cx K := a.a11 * a.a22 - a.a12 * a.a21
instance : Mul (J2 K) := ⟨mul⟩
instance : Add (J2 K) := ⟨add⟩
end J2

/-- Stokes parameters of a coherency matrix (hcipy sign conventions). -/
def stokesOfCoh (c : J2 K) : S4 K :=
  ⟨c.a11.re + c.a22.re, c.a11.re - c.a22.re, c.a12.re + c.a12.re, -(c.a12.im + c.a12.im)⟩

/-- Coherency matrix `E Eᴴ` of a pure state. -/
def cohOfVec (e : V2 K) : J2 K :=
  ⟨e.x * e.x.conj, e.x * e.y.conj, e.y * e.x.conj, e.y * e.y.conj⟩

/-- Stokes vector of a Jones-vector (fully polarised) wavefront. -/
def vecStokes (e : V2 K) : S4 K := stokesOfCoh (cohOfVec e)

variable [Zero K]

/-- Twice the coherency matrix of a Stokes vector: `[[a+b, c−i d], [c+i d, a−b]]`. -/
def coh2 (s : S4 K) : J2 K :=
  ⟨⟨s.i + s.q, 0⟩, ⟨s.u, -s.v⟩, ⟨s.u, s.v⟩, ⟨s.i - s.q, 0⟩⟩

variable [Div K] [OfNat K 2]

def S4.half (s : S4 K) : S4 K := ⟨s.i / 2, s.q / 2, s.u / 2, s.v / 2⟩

/-- **Specification**: Stokes vector of a Jones-matrix wavefront `J` with input Stokes vector `S`,
i.e. of the coherency matrix `J · C(S) · Jᴴ`. -/
def jonesStokes (j : J2 K) (s : S4 K) : S4 K := (stokesOfCoh (j * coh2 s * j.adj)).half

/-- Stokes vector of a scalar wavefront (unpolarised convention): `(|e|², 0, 0, 0)`. -/
def scalarStokes (e : Cx K) : S4 K := ⟨e.normSq, 0, 0, 0⟩

/-! ### Degrees of polarisation reported from a Stokes vector (squares, so that no square root is needed)

`Wavefront.degree_of_polarization = √(Q²+U²+V²)/I`, `degree_of_linear_polarization = √(Q²+U²)/I`,
`degree_of_circular_polarization = V/I`, `ellipticity = V/(I+√(Q²+U²))`, `angle_of_linear_polarization = ½ atan2(U, Q)`
are all functions of the squares below and of the normalised parameters `Q/I, U/I, V/I`. -/

/-- `degree_of_polarization²` -/
def S4.dopSq (s : S4 K) : K := (s.q * s.q + s.u * s.u + s.v * s.v) / (s.i * s.i)
/-- `degree_of_linear_polarization²` -/
def S4.dolpSq (s : S4 K) : K := (s.q * s.q + s.u * s.u) / (s.i * s.i)
/-- `Q/I` (`= cos(2·angle_of_linear_polarization) · degree_of_linear_polarization`) -/
def S4.qn (s : S4 K) : K := s.q / s.i
/-- `U/I` (`= sin(2·angle_of_linear_polarization) · degree_of_linear_polarization`) -/
def S4.un (s : S4 K) : K := s.u / s.i
/-- `V/I = degree_of_circular_polarization` -/
def S4.vn (s : S4 K) : K := s.v / s.i

/-! ### The Mueller matrix as hcipy builds it: `Re (U (J ⊗ J̄) Uᴴ)`, `U = A/√2` -/

/-- `√2 · _U_matrix` of `hcipy/optics/wavefront.py` (rows, Gaussian integers). -/
def uMat [OfNat K 1] : Nat → Nat → Cx K
  | 0, 0 => ⟨1, 0⟩ | 0, 3 => ⟨1, 0⟩
  | 1, 0 => ⟨1, 0⟩ | 1, 3 => ⟨-1, 0⟩
  | 2, 1 => ⟨1, 0⟩ | 2, 2 => ⟨1, 0⟩
  | 3, 1 => ⟨0, 1⟩ | 3, 2 => ⟨0, -1⟩
  | _, _ => ⟨0, 0⟩

def J2.get (j : J2 K) : Nat → Nat → Cx K
  | 0, 0 => j.a11 | 0, 1 => j.a12 | 1, 0 => j.a21 | _, _ => j.a22

/-- Kronecker product `J ⊗ conj J` (numpy.kron index convention). -/
def kronConj (j : J2 K) (r c : Nat) : Cx K := j.get (r / 2) (c / 2) * (j.get (r % 2) (c % 2)).conj

def sum4 (f : Nat → Cx K) : Cx K := f 0 + f 1 + f 2 + f 3

/-- Entry `(r, c)` (0-based, `< 4`) of the Mueller matrix `Re(U (J⊗J̄) Uᴴ)`. -/
def muellerDef [OfNat K 1] (j : J2 K) (r c : Nat) : K :=
  (sum4 fun k => sum4 fun l => uMat r k * kronConj j k l * (uMat c l).conj).re / 2

/-- Mueller matrix times Stokes vector. -/
def mulVec (m : Nat → Nat → K) (s : S4 K) : S4 K :=
  ⟨m 0 0 * s.i + m 0 1 * s.q + m 0 2 * s.u + m 0 3 * s.v,
   m 1 0 * s.i + m 1 1 * s.q + m 1 2 * s.u + m 1 3 * s.v,
   m 2 0 * s.i + m 2 1 * s.q + m 2 2 * s.u + m 2 3 * s.v,
   m 3 0 * s.i + m 3 1 * s.q + m 3 2 * s.u + m 3 3 * s.v⟩

/-! ### Retarder, polariser -/

/-- `PhaseRetarder.jones_matrix` with the trigonometric atoms supplied:
`c = cos θ`, `s = sin θ`, `p = exp(iφ/2)` (`φ₋ = conj p`), `x = exp(iχ)`. -/
def retarder (c s : K) (p x : Cx K) : J2 K :=
  let pm := p.conj
  ⟨Cx.smul (c * c) p + Cx.smul (s * s) pm,
   Cx.smul (c * s) ((p - pm) * x.conj),
   Cx.smul (c * s) ((p - pm) * x),
   Cx.smul (s * s) p + Cx.smul (c * c) pm⟩

/-- `HalfWavePlate(θ)` = `LinearRetarder(π, θ)`: the retarder at `exp(iφ/2) = i`, `exp(iχ) = 1` (also `GeometricPhaseElement`). -/
def halfWavePlate [OfNat K 1] (c s : K) : J2 K := retarder c s ⟨0, 1⟩ ⟨1, 0⟩

/-- `QuarterWavePlate(θ)` = `LinearRetarder(π/2, θ)`: `exp(iφ/2) = h + h i` with `h = √½` supplied. -/
def quarterWavePlate [OfNat K 1] (c s h : K) : J2 K := retarder c s ⟨h, h⟩ ⟨1, 0⟩

/-- `LinearPolarizer.jones_matrix`: `[[c², cs], [cs, s²]]`. -/
def polarizer (c s : K) : J2 K := ⟨⟨c * c, 0⟩, ⟨c * s, 0⟩, ⟨c * s, 0⟩, ⟨s * s, 0⟩⟩

/-- The two ports of a polarising beam splitter behind a retarder `r` (the identity for
`LinearPolarizingBeamSplitter`, a quarter-wave plate at 45° for `CircularPolarizingBeamSplitter`), Jones-matrix
wavefront: `P(θ)·r·E` and `P(θ+π/2)·r·E`. -/
def splitterPorts (c s : K) (r e : J2 K) : J2 K × J2 K := (polarizer c s * (r * e), polarizer (-s) c * (r * e))

/-- … Jones-vector wavefront. -/
def splitterPortsV (c s : K) (r : J2 K) (e : V2 K) : V2 K × V2 K :=
  ((polarizer c s).apply (r.apply e), (polarizer (-s) c).apply (r.apply e))

end
end HcipyVerif.Jones
