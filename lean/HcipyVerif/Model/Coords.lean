/-!
# C10 / C11 — model of `hcipy/field/coordinates.py` and of `Grid.__eq__` / `Grid.__hash__`

Scalars are exact rationals (`Rat`): every finite float *is* a rational, `-0.0` and `0.0` are the
same rational (the repaired hash normalises the sign of zero, D25), NaN/inf are outside the model.

A `RegularCoords` object stores three arrays `delta`, `dims`, `zero` of one common length; the
model stores the same data as one list of per-axis triples (so the "same length" invariant is
structural).  `SeparatedCoords` is a list of axes (lengths may differ), `UnstructuredCoords` a
list of columns (one per dimension, all of the same length for a well-formed grid).
-/
namespace HcipyVerif.Grid

inductive System where
  | cartesian
  | polar
deriving DecidableEq, Repr

structure RegAxis where
  delta : Rat
  dim : Nat
  zero : Rat
deriving DecidableEq, Repr

inductive Coords where
  | regular (axes : List RegAxis)
  | separated (axes : List (List Rat))
  | unstructured (cols : List (List Rat))
deriving DecidableEq, Repr

/-- `np.array_equal` on two sequences whose elements are compared by `p`: same length, then all
pairs equal. -/
def allZip {α} (p : α → α → Bool) (a b : List α) : Bool :=
  a.length == b.length && (List.zipWith p a b).all id

/-- `np.array_equal` of two 1-D float arrays. -/
def arrEq (a b : List Rat) : Bool := allZip (fun x y => decide (x = y)) a b

def natArrEq (a b : List Nat) : Bool := allZip (fun x y => decide (x = y)) a b

/-- all columns have the length of the first one (what `np.asarray(list_of_arrays)` needs) -/
def rect : List (List Rat) → Bool
  | [] => true
  | c :: cs => cs.all (fun d => d.length == c.length)

/-- `RegularCoords.__eq__`: `np.array_equal((delta, dims, zero), (delta', dims', zero'))` -/
def regEq (a b : List RegAxis) : Bool :=
  arrEq (a.map (·.delta)) (b.map (·.delta)) && natArrEq (a.map (·.dim)) (b.map (·.dim)) &&
    arrEq (a.map (·.zero)) (b.map (·.zero))

/-- `Coords.__eq__` after the repair of D2: type test, then
* regular: the three arrays;
* separated: same number of axes and `np.array_equal` **per axis** (ragged-safe);
* unstructured: `np.array_equal(self.coords, other.coords)` — both lists are converted to 2-D
  arrays first, which fails (→ `False`) when the columns of one operand have unequal lengths. -/
def Coords.eq : Coords → Coords → Bool
  | .regular a, .regular b => regEq a b
  | .separated a, .separated b => allZip arrEq a b
  | .unstructured a, .unstructured b => rect a && rect b && allZip arrEq a b
  | _, _ => false

/-- `SeparatedCoords.__eq__` as it stood (D2): `np.array_equal(self.separated_coords, …)` converts
the *list of axes* to one array, which raises (caught → `False`) as soon as the axes of either
operand have unequal lengths. -/
def sepEqOld (a b : List (List Rat)) : Bool := rect a && rect b && allZip arrEq a b

def Coords.eqOld : Coords → Coords → Bool
  | .separated a, .separated b => sepEqOld a b
  | a, b => Coords.eq a b

def Coords.ndim : Coords → Nat
  | .regular a => a.length
  | .separated a => a.length
  | .unstructured c => c.length

def natProd : List Nat → Nat
  | [] => 1
  | n :: ns => n * natProd ns

def Coords.size : Coords → Nat
  | .regular a => natProd (a.map (·.dim))
  | .separated a => natProd (a.map List.length)
  | .unstructured c => (c.headD []).length

/-- 0 regular, 1 separated, 2 unstructured -/
def Coords.kind : Coords → Nat
  | .regular _ => 0
  | .separated _ => 1
  | .unstructured _ => 2

/-- well-formed: at least one dimension; unstructured columns all of one length -/
def Coords.WF : Coords → Prop
  | .regular a => a ≠ []
  | .separated a => a ≠ []
  | .unstructured c => c ≠ [] ∧ rect c = true

instance : DecidablePred Coords.WF := fun c => by cases c <;> unfold Coords.WF <;> exact inferInstance

/-! ## The byte string fed to the hash -/

/-- One item of the byte string fed to `xxhash`: the coordinate-system name, a float64 (after the
repair every value is converted to a contiguous float64 array and `+ 0.0` normalises the sign of
zero, so the eight bytes are a function of the *real value*), or an int64 (`dims`). -/
inductive Tok where
  | name (s : System)
  | f64 (x : Rat)
  | i64 (n : Nat)
deriving DecidableEq, Repr

/-- What `Grid.__hash__` feeds to the hash for the coordinates (repaired code). Note that no
lengths or separators are hashed: different grids may share a hash input (allowed). -/
def Coords.hashInput : Coords → List Tok
  | .regular a => a.map (fun x => Tok.f64 x.delta) ++ a.map (fun x => Tok.i64 x.dim) ++
      a.map (fun x => Tok.f64 x.zero)
  | .separated a => a.flatten.map Tok.f64
  | .unstructured c => c.flatten.map Tok.f64

end HcipyVerif.Grid
