import HcipyVerif.Model.Nft

/-!
# `multiplex_for_tensor_fields` (`fourier_transform.py`)

```
def inner(self, field):
    if field.is_scalar_field:
        return func(self, field)
    f = field.reshape((-1, field.grid.size))
    res = [func(self, ff) for ff in f]
    new_shape = np.concatenate((field.tensor_shape, [-1]))
    return Field(np.array(res).reshape(new_shape), res[0].grid)
```

A tensor field is a C-ordered array of shape `tensor_shape + (n,)`, modelled by its raveled
contents `X : Nat → C` (`X (t·n + j)` = sample `j` of tensor component `t`, `t` the C-order ravel
of the tensor multi-index, `tensorRavel`).  `func` maps `n` samples to `m` samples.  The decorator
wraps `forward`/`backward` of `FastFourierTransform`, `MatrixFourierTransform` and
`NaiveFourierTransform`.
-/
namespace HcipyVerif.Fft

/-- number of tensor components `prod(tensor_shape)` -/
def tensorSize : List Nat → Nat
  | [] => 1
  | t :: ts => t * tensorSize ts

/-- C-order ravel of a tensor multi-index (`np.ravel_multi_index`) -/
def tensorRavel : List Nat → List Nat → Nat
  | _ :: ts, i :: is => i * tensorSize ts + tensorRavel ts is
  | _, _ => 0

/-- `multiplex_for_tensor_fields(func)` on raveled arrays -/
def multiplexTensor {C : Type} (func : (Nat → C) → Nat → C) (ts : List Nat) (n m : Nat) (X : Nat → C) : Nat → C :=
  if ts.isEmpty then func X
  else fun p => func (fun j => X ((p / m) * n + j)) (p % m)

/-! ## executable instance: the NaiveFourierTransform wrapped by the decorator -/

/-- response of the multiplexed NaiveFourierTransform (`fwd`: forward, `mat`: precomputed-matrix
path) to the unit impulse in tensor component `t` (raveled), sample `j`; the whole raveled output -/
def multiplexNftImpulse (fwd mat : Bool) (xs us : List (List Rat)) (w : List Rat) (ts : List Nat) (t j : Nat) : List PSum :=
  let X := xs.map coordOf
  let U := us.map coordOf
  let n := (xs.headD []).length
  let m := (us.headD []).length
  let wf : Nat → PSum := fun i => PSum.ofRat (w.getD i 0)
  let nin := if fwd then n else m
  let nout := if fwd then m else n
  let func : (Nat → PSum) → Nat → PSum := fun f k =>
    if fwd then (if mat then nftForwardMat PSum.rad n U X wf f k else nftForwardFly PSum.rad n U X wf f k)
    else (if mat then nftBackwardMat PSum.rad m U X wf f k else nftBackwardFly PSum.rad m U X wf f k)
  (List.range (tensorSize ts * nout)).map (multiplexTensor func ts nin nout (PSum.impulse (t * nin + j)))

end HcipyVerif.Fft
