import HcipyVerif.Model.FftIndex

/-!
# The FastFourierTransform pipeline on two axes — executable, core Lean only

Arrays are indexed `(iy, ix)` (shape order, `x` fastest).  `pad2`, `ifftshift2`, `fftshift2`,
`crop2` act on both axes at once, as `np.fft.ifftshift(a)` / slicing with a tuple of slices do;
`dft2` is the assumed specification of `fftn` (a separable kernel).  `fastForward2` is the literal
2-D pipeline; `fastForward2Iter` applies the 1-D pipeline along `x` and then along `y`.
-/
namespace HcipyVerif.Fft

section generic
variable {C : Type} [Zero C] [Add C] [Mul C]

def pad2 (Ny My Nx Mx : Nat) (f : Nat → Nat → C) (py px : Nat) : C :=
  if (padStart Ny My ≤ py ∧ py < padStart Ny My + Ny) ∧ (padStart Nx Mx ≤ px ∧ px < padStart Nx Mx + Nx)
  then f (py - padStart Ny My) (px - padStart Nx Mx) else 0

def ifftshift2 (My Mx : Nat) (a : Nat → Nat → C) (iy ix : Nat) : C :=
  a ((iy + My / 2) % My) ((ix + Mx / 2) % Mx)

def fftshift2 (My Mx : Nat) (a : Nat → Nat → C) (iy ix : Nat) : C :=
  a ((iy + (My - My / 2)) % My) ((ix + (Mx - Mx / 2)) % Mx)

/-- `fftn` on a 2-D array: `out[qy,qx] = Σ_py Σ_px a[py,px]·kerY(py·qy)·kerX(px·qx)` -/
def dft2 (My Mx : Nat) (kerY kerX : Int → C) (a : Nat → Nat → C) (qy qx : Nat) : C :=
  sumRange My fun py => sumRange Mx fun px =>
    a py px * (kerY ((py : Int) * (qy : Int)) * kerX ((px : Int) * (qx : Int)))

def crop2 (My Moy Mx Mox : Nat) (a : Nat → Nat → C) (ky kx : Nat) : C :=
  a (ky + padStart Moy My) (kx + padStart Mox Mx)

def core2 (shifts : Bool) (Ny My Moy Nx Mx Mox : Nat) (kerY kerX : Int → C) (f : Nat → Nat → C) :
    Nat → Nat → C :=
  if shifts then crop2 My Moy Mx Mox (fftshift2 My Mx (dft2 My Mx kerY kerX (ifftshift2 My Mx (pad2 Ny My Nx Mx f))))
  else crop2 My Moy Mx Mox (dft2 My Mx kerY kerX (pad2 Ny My Nx Mx f))

end generic

section pipeline
variable {K C : Type} [Add K] [Sub K] [Mul K] [Neg K] [Div K] [NatCast K] [IntCast K]
  [Zero C] [One C] [Add C] [Mul C] [Inv C] [NatCast C]
variable (T E : K → C)

/-- `exp(-i·center·u)` on the 2-D output grid -/
def centrePhase2 (gy gx : Cfg K C) (ky kx : Nat) : C :=
  T (-(gx.centre * gx.a kx + gy.centre * gy.a ky)) * E (-(gx.centre * gx.s + gy.centre * gy.s))

def emuOut2 (gy gx : Cfg K C) (ky kx : Nat) : C :=
  if gx.emu then T (gx.fShift * gx.aInt (kx + padStart gx.Mo gx.M) + gy.fShift * gy.aInt (ky + padStart gy.Mo gy.M))
  else 1

def emuIn2 (gy gx : Cfg K C) (iy ix : Nat) : C :=
  if gx.emu then T (gx.fShift * gx.aInt (ix + padStart gx.N gx.M) + gy.fShift * gy.aInt (iy + padStart gy.N gy.M))
    * T (-(gx.fShift * gx.aInt 0 + gy.fShift * gy.aInt 0))
  else 1

/-- `shift_input` in 2-D; the grid weight is `gy.w·gx.w` -/
def outMult2 (gy gx : Cfg K C) (ky kx : Nat) : C :=
  centrePhase2 T E gy gx ky kx * (centrePhase2 T E gy gx (gy.Mo / 2) (gx.Mo / 2))⁻¹ * emuOut2 T gy gx ky kx
    * (gy.w * gx.w)

/-- `shift_output` in 2-D -/
def inMult2 (gy gx : Cfg K C) (iy ix : Nat) : C :=
  E (-(gx.s * gx.x ix + gy.s * gy.x iy)) * emuIn2 T gy gx iy ix

/-- `FastFourierTransform.forward` on a 2-D grid, literally -/
def fastForward2 (gy gx : Cfg K C) (f : Nat → Nat → C) (ky kx : Nat) : C :=
  core2 (!gx.emu) gy.N gy.M gy.Mo gx.N gx.M gx.Mo (gy.kerF T) (gx.kerF T)
    (fun iy ix => f iy ix * inMult2 T E gy gx iy ix) ky kx * outMult2 T E gy gx ky kx

/-- the 1-D pipeline along `x`, then along `y` -/
def fastForward2Iter (gy gx : Cfg K C) (f : Nat → Nat → C) (ky kx : Nat) : C :=
  fastForward T E gy (fun iy => fastForward T E gx (f iy) kx) ky

end pipeline
end HcipyVerif.Fft
