/-!
# C03 — executable bookkeeping of `FraunhoferPropagator` (core Lean only)

`hcipy/propagation/fraunhofer.py`:

```
uv_grid     = output_grid.scaled(2π / (focal_length · wavelength))
ft          = make_fourier_transform(input_grid, uv_grid)
norm_factor = 1 / (1j · focal_length · wavelength)
forward  E  = ft.forward(E) · norm_factor            (wavelength, Stokes vector copied)
backward E  = ft.backward(E) / norm_factor
```

Everything that is rational is kept exact.  Angular frequencies are carried *in units of 2π*
(`uv/2π = x/(λf)`), kernel phases in *turns* (`-x·u/(λf)`), the norm factor as the exact pair
`(re, im) = (0, -1/(λf))`.  The harness multiplies by 2π / evaluates `exp(2πi·turns)` itself.
Grids are 2-D regular grids in hcipy's `(x, y)` order (`dims[0]` = number of columns, `x` runs
fastest in the raveled field).
-/
namespace HcipyVerif.Fraunhofer

/-- A regular 2-D (or n-D) grid as hcipy's `RegularCoords(delta, dims, zero)` (axis order x, y). -/
structure RegGrid where
  delta : List Rat
  dims : List Nat
  zero : List Rat
deriving Repr, DecidableEq

/-- A propagator instance: wavelength, evaluated focal length, pupil grid. -/
structure Setup where
  lam : Rat
  f : Rat
  pupil : RegGrid
deriving Repr

def prodRat (l : List Rat) : Rat := l.foldl (· * ·) 1
def prodNat (l : List Nat) : Nat := l.foldl (· * ·) 1
def dotRat : List Rat → List Rat → Rat
  | a :: as, b :: bs => a * b + dotRat as bs
  | _, _ => 0

def ratAbs (q : Rat) : Rat := if q < 0 then -q else q

/-- `λ f`. -/
def lamf (s : Setup) : Rat := s.lam * s.f

/-- `uv = 2π · uvScaleTurns · x` : the factor of `output_grid.scaled(2π/(fλ))` in units of 2π. -/
def uvScaleTurns (s : Setup) : Rat := 1 / lamf s

/-- `norm_factor = 1/(i λ f) = -i/(λ f)` as the exact pair (re, im). -/
def normFactor (s : Setup) : Rat × Rat := (0, -(1 / lamf s))

/-- `|norm_factor|²`. -/
def normFactorSq (s : Setup) : Rat := (1 / lamf s) * (1 / lamf s)

/-- Point `k` (per-axis indices) of a regular grid. -/
def RegGrid.point (g : RegGrid) (k : List Nat) : List Rat :=
  (g.zero.zip (g.delta.zip k)).map fun (z, d, i) => z + d * (i : Rat)

/-- Weight of one sample of a regular grid: `∏ |delta|` (hcipy takes `prod(delta)`; the grids met here
have positive spacing, the absolute value is D21's repaired behaviour). -/
def RegGrid.weight (g : RegGrid) : Rat := prodRat (g.delta.map ratAbs)

def RegGrid.ndim (g : RegGrid) : Nat := g.dims.length

/-- `grid.scaled(c)` for a scalar `c`: coordinates times `c`, weights times `|c|^ndim`. -/
def RegGrid.scaled (g : RegGrid) (c : Rat) : RegGrid :=
  { delta := g.delta.map (· * c), dims := g.dims, zero := g.zero.map (· * c) }

/-- `grid.scaled([c₀, c₁, …])` with one factor per axis (`focal_grid.scaled([1, -1])` mirrors the y axis). -/
def RegGrid.scaledAxes (g : RegGrid) (c : List Rat) : RegGrid :=
  { delta := (g.delta.zip c).map fun (d, c) => d * c, dims := g.dims, zero := (g.zero.zip c).map fun (z, c) => z * c }

/-- The uv grid in units of 2π per axis: `focal.scaled(1/(λf))`. -/
def uvGridTurns (s : Setup) (focal : RegGrid) : RegGrid := focal.scaled (uvScaleTurns s)

/-- Ratio `w_uv / w_focal` in units of `(2π)^n`: `|1/(λf)|^n`. -/
def uvWeightFactor (s : Setup) (n : Nat) : Rat := (ratAbs (uvScaleTurns s)) ^ n

/-- Phase of the kernel `exp(-i uv·u)` in turns: `-(x·u)/(λf)`. -/
def kernelTurns (s : Setup) (x u : List Rat) : Rat := -(dotRat x u) / lamf s

/-- Fractional part in `[0,1)` of a rational (turns are only meaningful modulo one). -/
def frac (q : Rat) : Rat := q - (q.floor : Rat)

/-- Response at focal point `x` to a unit impulse at the pupil sample with coordinates `u` and
weight `w`:  `(w/(λf)) · exp(2πi · turns)`, `turns = -1/4 - x·u/(λf)` (the `-1/4` is the `1/i`).
Returned as (amplitude, turns mod 1); the amplitude carries the sign of `λf`. -/
def impulseResponse (s : Setup) (w : Rat) (x u : List Rat) : Rat × Rat :=
  (w / lamf s, frac (-(1/4 : Rat) + kernelTurns s x u))


/-! ### One propagator object used repeatedly: the focal length can be re-assigned between calls -/

/-- The `focal_length` argument: a constant, or a function of the wavelength (here `a + b·λ`). -/
inductive FocalSpec where
  | const (a : Rat)
  | affine (a b : Rat)
deriving Repr, DecidableEq

/-- `evaluate_parameter(self.focal_length, …, wavelength)`. -/
def FocalSpec.eval : FocalSpec → Rat → Rat
  | .const a, _ => a
  | .affine a b, lam => a + b * lam

/-- The state of a `FraunhoferPropagator` object that matters for its results: pupil grid and the
*current* focal length.  (The instance cache is transparent: the setter clears it.) -/
structure Session where
  pupil : RegGrid
  focalLength : FocalSpec
deriving Repr

/-- `prop.focal_length = f` (the setter; clears the cache). -/
def Session.setFocalLength (s : Session) (f : FocalSpec) : Session := { s with focalLength := f }

/-- The instance data used by a call at wavelength `lam`: always derived from the current focal length. -/
def Session.instanceAt (s : Session) (lam : Rat) : Setup :=
  { lam := lam, f := s.focalLength.eval lam, pupil := s.pupil }

/-! ### The two focal-grid constructors of `hcipy/field/util.py` -/

/-- `np.round`: round half to even. -/
def roundHalfEven (q : Rat) : Int :=
  let fl := q.floor
  let r := q - (fl : Rat)
  if r < 1/2 then fl
  else if 1/2 < r then fl + 1
  else if fl % 2 = 0 then fl else fl + 1

/-- Distance of a rational from the nearest integer (0 when it is one): the margin of an
`astype(int)` truncation against float rounding. -/
def truncSlack (q : Rat) : Rat :=
  let r := frac q
  if r < 1 - r then r else 1 - r

/-- Centred zero of a regular grid: `delta·(-dims/2 + (dims mod 2)/2) = -delta·⌊dims/2⌋`. -/
def centredZero (Δ : Rat) (M : Nat) : Rat := -(Δ * ((M / 2 : Nat) : Rat))

/-- `make_focal_grid(q, num_airy, spatial_resolution)` with per-axis (already broadcast) arguments:
`delta = sr/q`, `dims = int(2·num_airy·q)`, centred zero.  Second component: per-axis truncation slack. -/
def makeFocalGrid (q numAiry sr : List Rat) : RegGrid × List Rat :=
  let rows := (q.zip (numAiry.zip sr)).map fun (q, a, r) =>
    let d := 2 * a * q
    (r / q, d.floor.toNat, truncSlack d)
  ({ delta := rows.map (·.1), dims := rows.map (·.2.1),
     zero := rows.map fun (Δ, M, _) => centredZero Δ M },
   rows.map (·.2.2))

/-- `make_focal_grid_from_pupil_grid(pupil, q, num_airy, f, λ)` (`lf = f·λ` of the call):
`uv = make_fft_grid(pupil, q, fov)` scaled by `lf/2π`.  Padded size `M = round(q·N)`;
`fov_i = num_airy/(shape_i/2)` — the code indexes `shape` (numpy order, y first) with the axis
number of `dims` (x first), which is reproduced here; `dims_i = int(M_i·fov_i)`;
`Δ_i = lf/(δ_i M_i)`; centred zero. -/
def focalFromPupil (pupil : RegGrid) (q : Rat) (numAiry : Option Rat) (lf : Rat) : RegGrid × List Rat :=
  let shape := pupil.dims.reverse
  let rows := (pupil.delta.zip (pupil.dims.zip shape)).map fun (δ, N, Nsh) =>
    let M := (roundHalfEven (q * (N : Rat))).toNat
    let fov : Rat := match numAiry with
      | none => 1
      | some a => a / ((Nsh : Rat) / 2)
    let d := (M : Rat) * fov
    (lf / (δ * (M : Rat)), d.floor.toNat, truncSlack d)
  ({ delta := rows.map (·.1), dims := rows.map (·.2.1),
     zero := rows.map fun (Δ, M, _) => centredZero Δ M },
   rows.map (·.2.2))

/-! ### Is the focal grid a native FFT grid of the pupil grid, and is it the *full* conjugate? -/

inductive FocalClass where
  | full      -- full FFT conjugate (fov = 1, no shift) of the pupil zero-padded to `M`
  | native    -- native FFT grid, cropped and/or shifted
  | other     -- not an FFT grid (MFT or naive sum gets used)
deriving Repr, DecidableEq

def FocalClass.show : FocalClass → String
  | .full => "full" | .native => "native" | .other => "other"

/-- Per-axis padded size `M = q·N = λf/(δ_pupil · Δ_focal)` when it is a natural number `≥ N`. -/
def paddedSize (lf δ Δ : Rat) (N : Nat) : Option Nat :=
  if δ * Δ = 0 then none else
  let m := lf / (δ * Δ)
  if m.den = 1 ∧ 0 < m.num ∧ (N : Int) ≤ m.num then some m.num.toNat else none

def paddedSizes (s : Setup) (focal : RegGrid) : Option (List Nat) :=
  ((s.pupil.delta.zip (focal.delta.zip s.pupil.dims)).mapM fun (δ, Δ, N) => paddedSize (lamf s) δ Δ N)

/-- The zero of the unshifted FFT grid: `Δ·(-M/2 + (M mod 2)/2) = -Δ·⌊M/2⌋`. -/
def nativeZero (Δ : Rat) (M : Nat) : Rat := -(Δ * ((M / 2 : Nat) : Rat))

def classify (s : Setup) (focal : RegGrid) : FocalClass × List Nat :=
  if focal.dims.length ≠ s.pupil.dims.length then (.other, []) else
  match paddedSizes s focal with
  | none => (.other, [])
  | some Ms =>
    if (focal.dims.zip Ms).all (fun (d, M) => d ≤ M) then
      let isFull := focal.dims == Ms &&
        ((focal.zero.zip (focal.delta.zip focal.dims)).all fun (z, Δ, M) => z == nativeZero Δ M)
      (if isFull then .full else .native, Ms)
    else (.other, Ms)

/-- Exact power gain `Σ|E_out|² w_focal / Σ|E_in|² w_pupil` on a full conjugate grid with padded
sizes `Ms`, from Parseval for the unnormalised DFT (`Σ_k |Σ_j a_j ω^{jk}|² = M Σ|a_j|²`):
`|norm|² · w_pupil² · ∏M · w_focal / w_pupil`. -/
def powerGain (s : Setup) (focal : RegGrid) (Ms : List Nat) : Rat :=
  normFactorSq s * s.pupil.weight * (prodNat Ms : Rat) * focal.weight

/-! ### Near-miss grids: how far the sampling is from FFT-commensurate, and the loosened test -/

/-- Per axis `|q·N − round(q·N)|` with `q·N = λf/(δ_pupil·Δ_focal)` — the very quantity `get_fft_parameters` compares
with `1e-10`, exact.  `0` on an axis iff `λf/(δΔ)` is an integer there. -/
def commSlack (s : Setup) (focal : RegGrid) : List Rat :=
  (s.pupil.delta.zip focal.delta).map fun (δ, Δ) => truncSlack (lamf s / (δ * Δ))

/-- `paddedSize` with a tolerance: `M = round(λf/(δΔ))` is accepted when `|λf/(δΔ) − M| ≤ atol + rtol·|M|`
(`atol = 1e-10, rtol = 0`: the test `get_fft_parameters` really makes on floats; `atol = 1e-8, rtol = 1e-5`:
`np.allclose`'s defaults). -/
def paddedSizeLoose (atol rtol lf δ Δ : Rat) (N : Nat) : Option Nat :=
  if δ * Δ = 0 then none else
  let m := lf / (δ * Δ)
  let M := roundHalfEven m
  if ratAbs (m - (M : Rat)) ≤ atol + rtol * ratAbs (M : Rat) ∧ 0 < M ∧ (N : Int) ≤ M then some M.toNat else none

/-- `classify` with the tolerant integrality test (everything else as `classify`). -/
def classifyLoose (atol rtol : Rat) (s : Setup) (focal : RegGrid) : FocalClass × List Nat :=
  if focal.dims.length ≠ s.pupil.dims.length then (.other, []) else
  match (s.pupil.delta.zip (focal.delta.zip s.pupil.dims)).mapM
      fun (δ, Δ, N) => paddedSizeLoose atol rtol (lamf s) δ Δ N with
  | none => (.other, [])
  | some Ms =>
    if (focal.dims.zip Ms).all (fun (d, M) => d ≤ M) then
      let isFull := focal.dims == Ms &&
        ((focal.zero.zip (focal.delta.zip focal.dims)).all fun (z, Δ, M) => z == nativeZero Δ M)
      (if isFull then .full else .native, Ms)
    else (.other, Ms)

/-- The focal-plane grid a `FastFourierTransform` built for padded sizes `Ms` evaluates the integral on
(`make_fft_grid(pupil, q = M/N, fov, shift)` scaled back by `λf/2π`): spacing `λf/(δ M)`; the shift is taken from the
supplied grid, `shift = Z − Δ·(−⌊Mo/2⌋)`, so the zero is `Z − (Δ' − Δ)·⌊Mo/2⌋`.  Equal to the supplied grid exactly
when the sampling is commensurate. -/
def snappedGrid (s : Setup) (focal : RegGrid) (Ms : List Nat) : RegGrid :=
  let ds := (s.pupil.delta.zip Ms).map fun (δ, M) => lamf s / (δ * (M : Rat))
  { delta := ds, dims := focal.dims,
    zero := (focal.zero.zip (focal.delta.zip (ds.zip focal.dims))).map
      fun (z, Δ, Δ', Mo) => z - (Δ' - Δ) * ((Mo / 2 : Nat) : Rat) }

end HcipyVerif.Fraunhofer
