import HcipyVerif.Model.FftState

/-!
# Several live FFT objects — executable, core Lean only

A population of `FastFourierTransform` objects (one axis each: `shifts` = real fftshifts, i.e.
`emulate_fftshifts = False`; `N` input samples, `M` internal samples, `Mo` output samples) that are
all alive at the same time, and a history of calls `(object, direction, field)` in any interleaving.
In hcipy every object owns its `internal_array` (`np.zeros(self.internal_shape)` in `__init__`):
`Bufs` maps the object to its array, a call reads and rewrites only its own entry (`callBufs`).
`runOwn` is what the driver op `C01 multi` executes.

`PoolSt` / `runPool` is the defect class "work arrays shared through a module-level pool keyed by the
padded size, and `forward` skips the clearing when the object's own previous call was a `forward`"
(kept for its counterexample).
-/
namespace HcipyVerif.Fft

/-- one live FFT object on one axis -/
structure ObjCfg where
  shifts : Bool
  N : Nat
  M : Nat
  Mo : Nat
deriving Repr, DecidableEq

/-- samples read by a call (`forward`: the input window `N`; `backward`: the output window `Mo`) -/
def ObjCfg.src (o : ObjCfg) (back : Bool) : Nat := if back then o.Mo else o.N
/-- samples returned by a call -/
def ObjCfg.dst (o : ObjCfg) (back : Bool) : Nat := if back then o.N else o.Mo

/-- one call of the history -/
structure MCall (C : Type) where
  obj : Nat
  back : Bool
  f : Nat → C

/-- the internal arrays of the population, per object -/
abbrev Bufs (C : Type) := Nat → Nat → C

section
variable {C : Type} [Zero C] [Add C] [Mul C]

/-- the stateless value of a call: the FFT core of a fresh object (`ker back M` is the DFT kernel of the
direction on `M` samples) -/
def callFresh (cfg : Nat → ObjCfg) (ker : Bool → Nat → Int → C) (c : MCall C) : Nat → C :=
  let o := cfg c.obj
  core o.shifts (o.src c.back) o.M (o.dst c.back) (ker c.back o.M) c.f

/-- the value of a call in the population: the FFT core reading the object's OWN persistent array -/
def callResult (cfg : Nat → ObjCfg) (ker : Bool → Nat → Int → C) (bufs : Bufs C) (c : MCall C) : Nat → C :=
  let o := cfg c.obj
  coreState o.shifts (o.src c.back) o.M (o.dst c.back) (ker c.back o.M) (bufs c.obj) c.f

/-- the arrays after a call: the called object's array holds what was loaded (re-bound to its
`ifftshift` with real fftshifts); every other object's array is untouched -/
def callBufs (cfg : Nat → ObjCfg) (bufs : Bufs C) (c : MCall C) : Bufs C := fun i =>
  if i = c.obj then
    let o := cfg i
    let a := loadArray (o.src c.back) o.M (bufs i) c.f
    if o.shifts then ifftshift o.M a else a
  else bufs i

/-- a history of calls on the population, starting from arbitrary array contents -/
def runOwn (cfg : Nat → ObjCfg) (ker : Bool → Nat → Int → C) : Bufs C → List (MCall C) → List (Nat → C)
  | _, [] => []
  | b, c :: cs => callResult cfg ker b c :: runOwn cfg ker (callBufs cfg b c) cs

/-! ### defect class: a pool of work arrays keyed by the padded size + "my padding is still zero" flags -/

/-- state of the pooled variant: one array per padded size `M`, one flag per object -/
structure PoolSt (C : Type) where
  pool : Nat → Nat → C
  clean : Nat → Bool

/-- one call in the pooled variant: `forward` skips `internal_array[:] = 0` when the flag is set -/
def callPool (cfg : Nat → ObjCfg) (ker : Bool → Nat → Int → C) (s : PoolSt C) (c : MCall C) :
    PoolSt C × (Nat → C) :=
  let o := cfg c.obj
  let n := o.src c.back
  let skip := !c.back && s.clean c.obj
  let res := if skip then coreStateNoClear o.shifts n o.M (o.dst c.back) (ker c.back o.M) (s.pool o.M) c.f
             else coreState o.shifts n o.M (o.dst c.back) (ker c.back o.M) (s.pool o.M) c.f
  let a := if skip then loadArrayNoClear n o.M (s.pool o.M) c.f else loadArray n o.M (s.pool o.M) c.f
  ({ pool := fun m => if m = o.M then a else s.pool m,
     clean := fun i => if i = c.obj then (!c.back && !o.shifts && n != o.M) else s.clean i }, res)

def runPool (cfg : Nat → ObjCfg) (ker : Bool → Nat → Int → C) : PoolSt C → List (MCall C) → List (Nat → C)
  | _, [] => []
  | s, c :: cs => (callPool cfg ker s c).2 :: runPool cfg ker (callPool cfg ker s c).1 cs

end

/-- the population and history given as flat lists (driver front end): unit impulses at `j`,
all arrays initially filled with the garbage value `g` -/
def multiImpulse (cfgs : List ObjCfg) (calls : List (Nat × Bool × Nat)) (g : Rat) : List (List PSum) :=
  let cfg : Nat → ObjCfg := fun i => cfgs.getD i ⟨false, 1, 1, 1⟩
  let ker : Bool → Nat → Int → PSum := fun back M n =>
    PSum.turns ((if back then (n : Rat) else -(n : Rat)) / (M : Rat))
  let cs : List (MCall PSum) := calls.map fun (o, b, j) => ⟨o, b, PSum.impulse j⟩
  let rs := runOwn cfg ker (fun _ _ => PSum.ofRat g) cs
  (calls.zip rs).map fun ((o, b, _), r) => (List.range ((cfg o).dst b)).map r

/-- the same population and history in the pooled variant (arrays shared by padded size, flags) — run by the driver so
that the harness can tell which generated histories discriminate the defect class from the per-object model -/
def multiPoolImpulse (cfgs : List ObjCfg) (calls : List (Nat × Bool × Nat)) (g : Rat) : List (List PSum) :=
  let cfg : Nat → ObjCfg := fun i => cfgs.getD i ⟨false, 1, 1, 1⟩
  let ker : Bool → Nat → Int → PSum := fun back M n =>
    PSum.turns ((if back then (n : Rat) else -(n : Rat)) / (M : Rat))
  let cs : List (MCall PSum) := calls.map fun (o, b, j) => ⟨o, b, PSum.impulse j⟩
  let rs := runPool cfg ker ⟨fun _ _ => PSum.ofRat g, fun _ => false⟩ cs
  (calls.zip rs).map fun ((o, b, _), r) => (List.range ((cfg o).dst b)).map r

end HcipyVerif.Fft
