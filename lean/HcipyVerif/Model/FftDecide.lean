/-!
# The float decisions of `FastFourierTransform.__init__` — executable, core Lean only

`__init__` decides three things by comparing numbers: whether the input must be placed into a larger
zero-padded array, whether the output must be cropped, and whether the phase ramp of the output shift
must be applied.  The repaired code (D65, D66) decides exactly (`shiftNeeded`, `cutoutNeeded`); the old
code used `np.allclose` (`…Old`), whose absolute tolerance `1e-8` and relative tolerance `1e-5` make the
decision depend on the unit of the coordinates and on the length of the axis.
-/
namespace HcipyVerif.Fft

def ratAbs (x : Rat) : Rat := if x < 0 then -x else x

/-- `np.allclose(a, b)` on finite numbers: `|a - b| ≤ atol + rtol·|b|` with the numpy defaults -/
def allclose (a b : Rat) : Bool := decide (ratAbs (a - b) ≤ 1 / 100000000 + 1 / 100000 * ratAbs b)

/-- repaired: the phase ramp is skipped only for a shift that is zero on every axis -/
def shiftNeeded (s : List Rat) : Bool := s.any (fun x => x != 0)

/-- old: `not np.allclose(shift, 0)` -/
def shiftNeededOld (s : List Rat) : Bool := !(s.all (fun x => allclose x 0))

/-- repaired: a cut-out is used unless the two shapes are equal (`np.array_equal`) -/
def cutoutNeeded (M N : List Nat) : Bool := M != N

/-- old: `not np.allclose(internal_shape, shape)` (shapes of equal length) -/
def cutoutNeededOld (M N : List Nat) : Bool := !((M.zip N).all (fun p => allclose (p.1 : Rat) (p.2 : Rat)))

end HcipyVerif.Fft
