/-!
# C06 — a store-effect IR for what one `forward`/`backward` call does to Python objects

A call receives one wavefront object (object `0`, whose electric field lives in buffer `0`) and may
* deep-copy a wavefront (`wf = wavefront.copy()`),
* build a new `Wavefront` around an *existing* array (`Wavefront(wavefront.electric_field, …)`: the
  new object shares the buffer — `Wavefront.electric_field`'s setter uses `astype(copy=False)`),
* build a new wavefront from a computed array (`Wavefront(Field(U_new, grid), …)`),
* bind a second name to an object (`wf = wavefront`),
* update an array in place (`wf.electric_field *= a`, `np.subtract(a, b, out=c)`, `x[:] = …`),
* replace the array of a wavefront (`wf.electric_field = field_dot(J, wf.electric_field)`),
* read an attribute into a local (`wavelength = wavefront.wavelength`), overwrite an attribute with a
  constant (`wavefront.wavelength = 1`) or with a saved local (`wavefront.wavelength = wavelength`),
and finally returns one of its local names.

`Instr`/`Prog` is that vocabulary, `exec` its semantics on an explicit store, `safe` a static
checker.  `safe_sound` (Properties/C06.lean) says a safe program leaves the input object and its
buffer exactly as they were, for every input value and every interpretation `sem` of the array
operations; `repeatable` follows.  Element-internal state (instance caches, cached mirror surfaces)
is *not* part of this model — it is C05's subject and is exercised behaviourally by the C06 harness.
Core Lean only.
-/
namespace HcipyVerif.Effects

abbrev Var := Nat

inductive Attr where
  | wavelength | stokes | grid
  deriving DecidableEq, Repr

/-- A wavefront object: which buffer holds its field, and its other attributes (abstract values). -/
structure Obj where
  buf : Nat
  wavelength : Int
  stokes : Int
  grid : Int
  deriving DecidableEq, Repr

def Obj.get (o : Obj) : Attr → Int
  | .wavelength => o.wavelength
  | .stokes => o.stokes
  | .grid => o.grid

def Obj.set (o : Obj) (a : Attr) (v : Int) : Obj :=
  match a with
  | .wavelength => { o with wavelength := v }
  | .stokes => { o with stokes := v }
  | .grid => { o with grid := v }

inductive Instr where
  /-- `d = s.copy()` : new object, new buffer with the same contents -/
  | copy (d s : Var)
  /-- `d = Wavefront(s.electric_field, …)` : new object sharing `s`'s buffer -/
  | wrap (d s : Var)
  /-- `d = Wavefront(Field(op(args…)), …)` : new object, new buffer; attributes taken from `like` -/
  | newFrom (d : Var) (op : Nat) (args : List Var) (like : Var)
  /-- `d = s` -/
  | bind (d s : Var)
  /-- `t.electric_field <op>= args…` / `np.op(args…, out=t.electric_field)` -/
  | inplace (op : Nat) (t : Var) (args : List Var)
  /-- `t.electric_field = op(args…)` : `t`'s object now points to a new buffer -/
  | setFieldNew (t : Var) (op : Nat) (args : List Var)
  /-- `slot = s.a` -/
  | saveAttr (slot : Nat) (s : Var) (a : Attr)
  /-- `t.a = c` -/
  | setAttrConst (t : Var) (a : Attr) (c : Int)
  /-- `t.a = slot` -/
  | setAttrSlot (t : Var) (a : Attr) (slot : Nat)
  deriving Repr

structure Prog where
  body : List Instr
  ret : Var
  deriving Repr

/-- Value of the wavefront handed to the call. -/
structure InVal where
  field : Int
  wavelength : Int
  stokes : Int
  grid : Int
  deriving DecidableEq, Repr

def InVal.get (v : InVal) : Attr → Int
  | .wavelength => v.wavelength
  | .stokes => v.stokes
  | .grid => v.grid

def InVal.obj (v : InVal) : Obj := ⟨0, v.wavelength, v.stokes, v.grid⟩

/-- The store. Functions rather than arrays: "unchanged at 0" is then a one-line fact. -/
structure St where
  env : Var → Nat
  objs : Nat → Obj
  bufs : Nat → Int
  slots : Nat → Int
  nObj : Nat
  nBuf : Nat
  /-- attribute writes on the input object, most recent first (for the behavioural tie) -/
  writes : List Attr

def upd {α} (f : Nat → α) (k : Nat) (v : α) : Nat → α := fun i => if i = k then v else f i

/-- Every local name initially refers to the input (so reading an unassigned name is harmless
for the checker: it is treated as the input itself). -/
def init (v : InVal) : St :=
  { env := fun _ => 0, objs := fun _ => v.obj, bufs := fun _ => v.field, slots := fun _ => 0,
    nObj := 1, nBuf := 1, writes := [] }

def bufOf (c : St) (x : Var) : Nat := (c.objs (c.env x)).buf
def contents (c : St) (x : Var) : Int := c.bufs (bufOf c x)

/-- One instruction; `sem op args` is the (arbitrary, pure) meaning of array operation `op`. -/
def step (sem : Nat → List Int → Int) (c : St) : Instr → St
  | .copy d s =>
    { c with env := upd c.env d c.nObj,
             objs := upd c.objs c.nObj { c.objs (c.env s) with buf := c.nBuf },
             bufs := upd c.bufs c.nBuf (contents c s),
             nObj := c.nObj + 1, nBuf := c.nBuf + 1 }
  | .wrap d s =>
    { c with env := upd c.env d c.nObj,
             objs := upd c.objs c.nObj (c.objs (c.env s)),
             nObj := c.nObj + 1 }
  | .newFrom d op args like =>
    { c with env := upd c.env d c.nObj,
             objs := upd c.objs c.nObj { c.objs (c.env like) with buf := c.nBuf },
             bufs := upd c.bufs c.nBuf (sem op (args.map (contents c))),
             nObj := c.nObj + 1, nBuf := c.nBuf + 1 }
  | .bind d s => { c with env := upd c.env d (c.env s) }
  | .inplace op t args =>
    { c with bufs := upd c.bufs (bufOf c t) (sem op (contents c t :: args.map (contents c))) }
  | .setFieldNew t op args =>
    { c with objs := upd c.objs (c.env t) { c.objs (c.env t) with buf := c.nBuf },
             bufs := upd c.bufs c.nBuf (sem op (args.map (contents c))),
             nBuf := c.nBuf + 1 }
  | .saveAttr slot s a => { c with slots := upd c.slots slot ((c.objs (c.env s)).get a) }
  | .setAttrConst t a v =>
    { c with objs := upd c.objs (c.env t) ((c.objs (c.env t)).set a v),
             writes := if c.env t = 0 then a :: c.writes else c.writes }
  | .setAttrSlot t a slot =>
    { c with objs := upd c.objs (c.env t) ((c.objs (c.env t)).set a (c.slots slot)),
             writes := if c.env t = 0 then a :: c.writes else c.writes }

def exec (sem : Nat → List Int → Int) (c : St) (p : List Instr) : St := p.foldl (step sem) c

/-- Outcome of a call as the caller can observe it. -/
structure Outcome where
  /-- contents and attributes of the returned wavefront -/
  result : Int × Obj
  /-- the input wavefront afterwards: field contents and object -/
  inputField : Int
  inputObj : Obj
  retIsInput : Bool
  retSharesBuf : Bool
  writes : List Attr

def call (sem : Nat → List Int → Int) (p : Prog) (v : InVal) : Outcome :=
  let c := exec sem (init v) p.body
  { result := (contents c p.ret, { c.objs (c.env p.ret) with buf := 0 }),
    inputField := c.bufs 0, inputObj := c.objs 0,
    retIsInput := c.env p.ret == 0, retSharesBuf := bufOf c p.ret == 0,
    writes := c.writes.reverse }

/-! ## The static checker -/

/-- Abstract state. `isIn x` : name `x` refers to the input object (exact: programs are straight
line). `shares x` : `x`'s object may use the input's buffer. `dirty` : attributes of the input that
have been overwritten and not yet restored. `slots s = some a` : local `s` holds the input's
original attribute `a`. -/
structure Abs where
  isIn : Var → Bool
  shares : Var → Bool
  dirty : List Attr
  slots : Nat → Option Attr

def Abs.init : Abs :=
  { isIn := fun _ => true, shares := fun _ => true, dirty := [], slots := fun _ => none }

def checkStep (A : Abs) : Instr → Option Abs
  | .copy d _ => some { A with isIn := upd A.isIn d false, shares := upd A.shares d false }
  | .wrap d s => some { A with isIn := upd A.isIn d false, shares := upd A.shares d (A.shares s) }
  | .newFrom d _ _ _ => some { A with isIn := upd A.isIn d false, shares := upd A.shares d false }
  | .bind d s => some { A with isIn := upd A.isIn d (A.isIn s), shares := upd A.shares d (A.shares s) }
  | .inplace _ t _ => if A.shares t then none else some A
  | .setFieldNew t _ _ => if A.isIn t then none else some { A with shares := upd A.shares t false }
  | .saveAttr slot s a =>
    some { A with slots := upd A.slots slot (if A.isIn s && !(A.dirty.contains a) then some a else none) }
  | .setAttrConst t a _ => some (if A.isIn t then { A with dirty := a :: A.dirty } else A)
  | .setAttrSlot t a slot =>
    some (if A.isIn t then
            (if A.slots slot = some a then { A with dirty := A.dirty.filter (· ≠ a) }
             else { A with dirty := a :: A.dirty })
          else A)

def check : List Instr → Abs → Option Abs
  | [], A => some A
  | i :: p, A => match checkStep A i with
    | some A' => check p A'
    | none => none

/-- A program is safe when no in-place update can reach the input's buffer, the input's field is
never re-pointed, and every attribute of the input that was overwritten has been restored from a
local that holds its original value by the time the call returns. -/
def safe (p : Prog) : Bool :=
  match check p.body Abs.init with
  | some A => A.dirty.isEmpty
  | none => false

end HcipyVerif.Effects
