/-!
# C06 — a store-effect IR for what one `forward`/`backward` call does to Python objects

A call receives one wavefront object (object `0`, whose electric field lives in buffer `0`) and may
* deep-copy a wavefront (`wf = wavefront.copy()`),
* build a new `Wavefront` around an *existing* array (`Wavefront(wavefront.electric_field, …)`: the
  new object shares the buffer — `Wavefront.electric_field`'s setter uses `astype(copy=False)`),
* build a new wavefront from a computed array (`Wavefront(Field(U_new, grid), …)`),
* bind a second name to an object (`wf = wavefront`),
* update an array in place (`wf.electric_field *= a`, `np.subtract(a, b, out=c)`, `x[:] = …`),
* replace the array of a wavefront (`wf.electric_field = field_dot(J, wf.electric_field)`),
* read an attribute into a local (`wavelength = wavefront.wavelength`), overwrite an attribute with a
  constant (`wavefront.wavelength = 1`) or with a saved local (`wavefront.wavelength = wavelength`),
and finally returns one of its local names.

`Instr`/`Prog` is that vocabulary, `exec` its semantics on an explicit store, `safe` a static
checker.  `safe_sound` (Properties/C06.lean) says a safe program leaves the input object and its
buffer exactly as they were, for every input value and every interpretation `sem` of the array
operations; `repeatable` follows.  Element-internal state (instance caches, cached mirror surfaces)
is *not* part of this model — it is C05's subject and is exercised behaviourally by the C06 harness.
Core Lean only.
-/
namespace HcipyVerif.Effects

abbrev Var := Nat

inductive Attr where
  | wavelength | stokes | grid
  deriving DecidableEq, Repr

/-- A wavefront object: which buffer holds its field, and its other attributes (abstract values). -/
structure Obj where
  buf : Nat
  wavelength : Int
  stokes : Int
  grid : Int
  deriving DecidableEq, Repr

def Obj.get (o : Obj) : Attr → Int
  | .wavelength => o.wavelength
  | .stokes => o.stokes
  | .grid => o.grid

def Obj.set (o : Obj) (a : Attr) (v : Int) : Obj :=
  match a with
  | .wavelength => { o with wavelength := v }
  | .stokes => { o with stokes := v }
  | .grid => { o with grid := v }

inductive Instr where
  /-- `d = s.copy()` : new object, new buffer with the same contents -/
  | copy (d s : Var)
  /-- `d = Wavefront(s.electric_field, …)` : new object sharing `s`'s buffer -/
  | wrap (d s : Var)
  /-- `d = Wavefront(Field(op(args…)), …)` : new object, new buffer; attributes taken from `like` -/
  | newFrom (d : Var) (op : Nat) (args : List Var) (like : Var)
  /-- `d = s` -/
  | bind (d s : Var)
  /-- `t.electric_field <op>= args…` / `np.op(args…, out=t.electric_field)` -/
  | inplace (op : Nat) (t : Var) (args : List Var)
  /-- `t.electric_field = op(args…)` : `t`'s object now points to a new buffer -/
  | setFieldNew (t : Var) (op : Nat) (args : List Var)
  /-- `slot = s.a` -/
  | saveAttr (slot : Nat) (s : Var) (a : Attr)
  /-- `t.a = c` -/
  | setAttrConst (t : Var) (a : Attr) (c : Int)
  /-- `t.a = slot` -/
  | setAttrSlot (t : Var) (a : Attr) (slot : Nat)
  /-- `t.a <op>= …` : in-place update of the *object attached as attribute `a`* (`grid.scale(m)`,
      `input_stokes_vector *= …`); nothing happens to the field arrays -/
  | inplaceAttr (op : Nat) (t : Var) (a : Attr)
  /-- `t.a = t.a.copy()` : a fresh object with the same contents (`grid.scaled(m)` starts with this) -/
  | copyAttr (t : Var) (a : Attr)
  deriving Repr

structure Prog where
  body : List Instr
  ret : Var
  deriving Repr

/-- Value of the wavefront handed to the call. -/
structure InVal where
  field : Int
  wavelength : Int
  stokes : Int
  grid : Int
  deriving DecidableEq, Repr

def InVal.get (v : InVal) : Attr → Int
  | .wavelength => v.wavelength
  | .stokes => v.stokes
  | .grid => v.grid

def InVal.obj (v : InVal) : Obj := ⟨0, v.wavelength, v.stokes, v.grid⟩

/-- What a call is *seen* to do with the wavefront object it was given (for the behavioural tie; the
harness records the same events on the running code with an instrumented `Wavefront`). -/
inductive Touch where
  /-- `.copy()` called on the input object itself -/
  | copyInput
  /-- a new `Wavefront` constructed around the very array of the input -/
  | wrapInput
  /-- an attribute of the input object assigned -/
  | write (a : Attr)
  deriving DecidableEq, Repr

/-- The store. Functions rather than arrays: "unchanged at 0" is then a one-line fact. -/
structure St where
  env : Var → Nat
  objs : Nat → Obj
  bufs : Nat → Int
  slots : Nat → Int
  nObj : Nat
  nBuf : Nat
  /-- attribute writes on the input object, most recent first (for the behavioural tie) -/
  writes : List Attr
  /-- everything done to the input object, most recent first: copies of it, wavefronts wrapped around
      its array, attribute writes (for the behavioural tie) -/
  touches : List Touch

def upd {α} (f : Nat → α) (k : Nat) (v : α) : Nat → α := fun i => if i = k then v else f i

/-- Every local name initially refers to the input (so reading an unassigned name is harmless
for the checker: it is treated as the input itself). -/
def init (v : InVal) : St :=
  { env := fun _ => 0, objs := fun _ => v.obj, bufs := fun _ => v.field, slots := fun _ => 0,
    nObj := 1, nBuf := 1, writes := [], touches := [] }

def bufOf (c : St) (x : Var) : Nat := (c.objs (c.env x)).buf
def contents (c : St) (x : Var) : Int := c.bufs (bufOf c x)

/-- One instruction; `sem op args` is the (arbitrary, pure) meaning of array operation `op`. -/
def step (sem : Nat → List Int → Int) (c : St) : Instr → St
  | .copy d s =>
    { c with env := upd c.env d c.nObj,
             objs := upd c.objs c.nObj { c.objs (c.env s) with buf := c.nBuf },
             bufs := upd c.bufs c.nBuf (contents c s),
             nObj := c.nObj + 1, nBuf := c.nBuf + 1,
             touches := if c.env s = 0 then .copyInput :: c.touches else c.touches }
  | .wrap d s =>
    { c with env := upd c.env d c.nObj,
             objs := upd c.objs c.nObj (c.objs (c.env s)),
             nObj := c.nObj + 1,
             touches := if bufOf c s = 0 then .wrapInput :: c.touches else c.touches }
  | .newFrom d op args like =>
    { c with env := upd c.env d c.nObj,
             objs := upd c.objs c.nObj { c.objs (c.env like) with buf := c.nBuf },
             bufs := upd c.bufs c.nBuf (sem op (args.map (contents c))),
             nObj := c.nObj + 1, nBuf := c.nBuf + 1 }
  | .bind d s => { c with env := upd c.env d (c.env s) }
  | .inplace op t args =>
    { c with bufs := upd c.bufs (bufOf c t) (sem op (contents c t :: args.map (contents c))) }
  | .setFieldNew t op args =>
    { c with objs := upd c.objs (c.env t) { c.objs (c.env t) with buf := c.nBuf },
             bufs := upd c.bufs c.nBuf (sem op (args.map (contents c))),
             nBuf := c.nBuf + 1 }
  | .saveAttr slot s a => { c with slots := upd c.slots slot ((c.objs (c.env s)).get a) }
  | .setAttrConst t a v =>
    { c with objs := upd c.objs (c.env t) ((c.objs (c.env t)).set a v),
             writes := if c.env t = 0 then a :: c.writes else c.writes,
             touches := if c.env t = 0 then .write a :: c.touches else c.touches }
  | .setAttrSlot t a slot =>
    { c with objs := upd c.objs (c.env t) ((c.objs (c.env t)).set a (c.slots slot)),
             writes := if c.env t = 0 then a :: c.writes else c.writes,
             touches := if c.env t = 0 then .write a :: c.touches else c.touches }
  | .inplaceAttr _ _ _ => c
  | .copyAttr _ _ => c

def exec (sem : Nat → List Int → Int) (c : St) (p : List Instr) : St := p.foldl (step sem) c

/-- Outcome of a call as the caller can observe it. -/
structure Outcome where
  /-- contents and attributes of the returned wavefront -/
  result : Int × Obj
  /-- the input wavefront afterwards: field contents and object -/
  inputField : Int
  inputObj : Obj
  retIsInput : Bool
  retSharesBuf : Bool
  writes : List Attr
  /-- copies of / wrappers around / attribute writes on the input object, in program order -/
  touches : List Touch
  /-- number of wavefront objects the call created -/
  created : Nat

def call (sem : Nat → List Int → Int) (p : Prog) (v : InVal) : Outcome :=
  let c := exec sem (init v) p.body
  { result := (contents c p.ret, { c.objs (c.env p.ret) with buf := 0 }),
    inputField := c.bufs 0, inputObj := c.objs 0,
    retIsInput := c.env p.ret == 0, retSharesBuf := bufOf c p.ret == 0,
    writes := c.writes.reverse, touches := c.touches.reverse, created := c.nObj - 1 }

/-! ## The static checker -/

/-- Abstract state. `isIn x` : name `x` refers to the input object (exact: programs are straight
line). `shares x` : `x`'s object may use the input's buffer. `dirty` : attributes of the input that
have been overwritten and not yet restored. `slots s = some a` : local `s` holds the input's
original attribute `a`. -/
structure Abs where
  isIn : Var → Bool
  shares : Var → Bool
  dirty : List Attr
  slots : Nat → Option Attr

def Abs.init : Abs :=
  { isIn := fun _ => true, shares := fun _ => true, dirty := [], slots := fun _ => none }

def checkStep (A : Abs) : Instr → Option Abs
  | .copy d _ => some { A with isIn := upd A.isIn d false, shares := upd A.shares d false }
  | .wrap d s => some { A with isIn := upd A.isIn d false, shares := upd A.shares d (A.shares s) }
  | .newFrom d _ _ _ => some { A with isIn := upd A.isIn d false, shares := upd A.shares d false }
  | .bind d s => some { A with isIn := upd A.isIn d (A.isIn s), shares := upd A.shares d (A.shares s) }
  | .inplace _ t _ => if A.shares t then none else some A
  | .setFieldNew t _ _ => if A.isIn t then none else some { A with shares := upd A.shares t false }
  | .saveAttr slot s a =>
    some { A with slots := upd A.slots slot (if A.isIn s && !(A.dirty.contains a) then some a else none) }
  | .setAttrConst t a _ => some (if A.isIn t then { A with dirty := a :: A.dirty } else A)
  | .setAttrSlot t a slot =>
    some (if A.isIn t then
            (if A.slots slot = some a then { A with dirty := A.dirty.filter (· ≠ a) }
             else { A with dirty := a :: A.dirty })
          else A)
  | .inplaceAttr _ _ _ => some A
  | .copyAttr _ _ => some A

def check : List Instr → Abs → Option Abs
  | [], A => some A
  | i :: p, A => match checkStep A i with
    | some A' => check p A'
    | none => none

/-- A program is safe when no in-place update can reach the input's buffer, the input's field is
never re-pointed, and every attribute of the input that was overwritten has been restored from a
local that holds its original value by the time the call returns. -/
def safe (p : Prog) : Bool :=
  match check p.body Abs.init with
  | some A => A.dirty.isEmpty
  | none => false


/-! ## The objects attached to a wavefront: grid and Stokes vector as heap objects

The grid (`wavefront.electric_field.grid`, with its cached weights) and the Stokes vector are mutable
Python objects of their own; several wavefronts may point to the same one.  Field arrays, grid
objects and Stokes vectors never overlap, so the store is the product of three heaps with the same
shape — *wavefront object → pointer → contents* — and the meaning of an instruction on the heap of
attribute `a` is again a list of instructions of the same language (`viewInstr`):

* `wavefront.copy()` (`copy.deepcopy`) copies the Stokes vector (a `copy` on that heap) but **not the
  grid**: the field is an `ndarray` subclass, `ndarray.__deepcopy__` copies the data and
  `Field.__array_finalize__` hands the *same* grid object to the copy (a `wrap` on the grid heap);
* `Wavefront(s.electric_field, …, s.input_stokes_vector)` and `Wavefront(Field(new, like.grid), …)`
  point to the **same grid object** as `s` / `like` (a `wrap` on the grid heap) and to a **copy** of
  the Stokes vector (`np.array(input_stokes_vector)` in `Wavefront.__init__`: a `copy` on that heap);
* `t.a <op>= …` (`inplaceAttr`) is an in-place update on the heap of `a`; `t.a = t.a.copy()`
  (`copyAttr`) and `t.a = <new object>` (`setAttrConst`) re-point `t` to a fresh cell;
* saving / restoring the pointer itself (`saveAttr`/`setAttrSlot` on `a`) is not supported on the heap
  of `a` (no shipped element does it): the program then has no view and is not accepted.

`safeAttr a p` runs the *same* checker on the view, so `safe_sound` applies verbatim:
`safe_sound_attr` (Properties/C06.lean): the contents of the grid / Stokes vector the caller passed
in are what they were. -/

def viewInstr (a : Attr) : Instr → Option (List Instr)
  | .copy d s => some [if a = .grid then .wrap d s else .copy d s]
  | .wrap d s => some [if a = .grid then .wrap d s else .copy d s]
  | .newFrom d _ _ like => some [if a = .grid then .wrap d like else .copy d like]
  | .bind d s => some [.bind d s]
  | .inplace _ _ _ => some []
  | .setFieldNew _ _ _ => some []
  | .saveAttr _ _ b => if b = a then none else some []
  | .setAttrConst t b _ => if b = a then some [.setFieldNew t 0 []] else some []
  | .setAttrSlot _ b _ => if b = a then none else some []
  | .inplaceAttr op t b => if b = a then some [.inplace op t []] else some []
  | .copyAttr t b => if b = a then some [.setFieldNew t 0 [t]] else some []

/-- the view of an instruction list (`none` as soon as one instruction has no view) -/
def viewList (a : Attr) : List Instr → Option (List Instr)
  | [] => some []
  | i :: l => match viewInstr a i, viewList a l with
    | some x, some y => some (x ++ y)
    | _, _ => none

def viewProg (a : Attr) (p : Prog) : Option Prog :=
  match viewList a p.body with
  | some l => some ⟨l, p.ret⟩
  | none => none

/-- the checker's verdict on what `p` does to the objects attached as attribute `a` -/
def safeAttr (a : Attr) (p : Prog) : Bool :=
  match viewProg a p with
  | some q => safe q
  | none => false

/-- field arrays, grid objects and Stokes vectors -/
def safeAll (p : Prog) : Bool := safe p && safeAttr .grid p && safeAttr .stokes p

/-- Contents, after the call, of the object that was attached to the input as attribute `a` and held
`g` before (`none`: the program has no view). -/
def attrContentsAfter (sem : Nat → List Int → Int) (a : Attr) (p : Prog) (v : InVal) (g : Int) : Option Int :=
  match viewProg a p with
  | some q => some (call sem q { v with field := g }).inputField
  | none => none

/-- does the returned wavefront point to the very object attached to the input as attribute `a`? -/
def retSharesAttr (sem : Nat → List Int → Int) (a : Attr) (p : Prog) (v : InVal) : Option Bool :=
  match viewProg a p with
  | some q => some (call sem q v).retSharesBuf
  | none => none

/-! ## Programs with a loop (multi-scale coronagraphs: one round per scale; layered atmosphere: one per element)

`L.unroll n` is the program with `n` rounds of the loop body.  The checker is run on the programs with
zero and one round (`LoopProg.baseAll`, decidable); that the state the checker reaches after one
round is reproduced by another round (`LoopProg.Fix`) is proved per program
(Lemmas/EffectLoops.lean), and `Lemmas/Effects.lean: loop_safeAll` concludes that every unrolling is
accepted on all three heaps. -/

def rounds (n : Nat) (body : List Instr) : List Instr := (List.replicate n body).flatten

structure LoopProg where
  pre : List Instr
  body : List Instr
  post : List Instr
  ret : Var

def LoopProg.unroll (L : LoopProg) (n : Nat) : Prog := ⟨L.pre ++ rounds n L.body ++ L.post, L.ret⟩

def LoopProg.view (a : Attr) (L : LoopProg) : Option LoopProg :=
  match viewList a L.pre, viewList a L.body, viewList a L.post with
  | some p, some b, some q => some ⟨p, b, q, L.ret⟩
  | _, _, _ => none

/-- the checker's abstract state after instruction list `p` (from the initial state) -/
def stateAfter (p : List Instr) : Abs :=
  match check p Abs.init with
  | some A => A
  | none => Abs.init

/-- the checker's state after one round is reproduced by another round -/
def LoopProg.Fix (L : LoopProg) : Prop :=
  check L.body (stateAfter (L.pre ++ L.body)) = some (stateAfter (L.pre ++ L.body))

/-- … on the field heap and on every heap on which the program has a view -/
def LoopProg.FixAll (L : LoopProg) : Prop := L.Fix ∧ ∀ a L', L.view a = some L' → L'.Fix

/-- decidable part: zero rounds and one round are accepted -/
def LoopProg.base (L : LoopProg) : Bool := safe (L.unroll 0) && safe (L.unroll 1)

/-- … on all three heaps -/
def LoopProg.baseAll (L : LoopProg) : Bool :=
  L.base && [Attr.grid, Attr.stokes].all fun a => match L.view a with
    | some L' => L'.base
    | none => false

/-! # Element-internal cells

What a call may keep *inside the element* between calls.  Two kinds of storage:

* **memo cells** — `cell c` holds a list of `(tag, value)` entries, newest first: values together
  with the key they were computed for (`self._surface` with `_actuators_for_cached_surface`;
  `_achromatic_screen` for the current centre; `InstanceData`s under their (grid, wavelength) keys in
  `_instance_data_cache`; MFT matrices under their dtype).  A cell keeps at most `cap c` entries
  (1 for a single cached value, `max_in_cache = 11` for the instance cache; which entry is evicted
  when the cache is full is C05's subject, histories replayed against the code stay below the cap).
  `memoFill c e` stores `(current key of c, e)` in front, replacing an entry with the same key;
  `memoRead r c fb` yields the value stored under the current key of `c` (a *hit*, `cellHit`) and
  the fallback `fb` (recomputation) when there is none (a *miss*).
* **scratch buffers** — `scratch b` (the `internal_array` of an FFT object, the
  `intermediate_array` of an MFT): overwritten with input data on every call.

A program declares, per memo cell, which *atoms* (element parameters, the input's grid, the input's
wavelength) form its key and the expression `spec c` the cell is a memo of.  `safeInternal` accepts
a program iff every fill and every fallback of `c` is literally `spec c`, `spec c` mentions nothing
but the key atoms of `c` (in particular never the input's field values or a local), cells are never
updated in place or read without comparing the key, and every scratch read is preceded by a write in
the same call.  `history_independent` (Properties/C06.lean): for accepted programs the result of
any call after any history of calls and parameter changes is the result a fresh element gives. -/

inductive Atom where
  | param (i : Nat)
  | grid
  | wavelength
  deriving DecidableEq, Repr

inductive IExpr where
  | atom (a : Atom)
  /-- the field values of the wavefront passed in -/
  | field
  /-- a local of this call -/
  | loc (r : Nat)
  | op1 (f : Nat) (a : IExpr)
  | op2 (f : Nat) (a b : IExpr)
  deriving DecidableEq, Repr

inductive IInstr where
  | letE (r : Nat) (e : IExpr)
  | memoFill (c : Nat) (e : IExpr)
  | memoRead (r : Nat) (c : Nat) (fallback : IExpr)
  /-- `cell.value <op>= e` : in-place update of what is stored, tag untouched (never accepted) -/
  | cellUpdate (c : Nat) (e : IExpr)
  /-- read whatever is stored, whatever key it was stored for (never accepted) -/
  | rawRead (r : Nat) (c : Nat)
  | scratchWrite (b : Nat) (e : IExpr)
  | scratchRead (r : Nat) (b : Nat)
  deriving DecidableEq, Repr

structure IProg where
  keyAtoms : Nat → List Atom
  spec : Nat → IExpr
  body : List IInstr
  ret : IExpr
  /-- number of entries cell `c` keeps -/
  cap : Nat → Nat := fun _ => 1

abbrev Entries := List (List Int × Int)

/-- the value stored under `tag`, if any -/
def lookup (tag : List Int) : Entries → Option Int
  | [] => none
  | (t, v) :: rest => if t = tag then some v else lookup tag rest

/-- store `(tag, v)` in front, dropping an older entry with the same tag, keep at most `cap`. -/
def insertEntry (cap : Nat) (tag : List Int) (v : Int) (l : Entries) : Entries :=
  ((tag, v) :: l.filter (fun e => e.1 ≠ tag)).take cap

/-- Interpretation of the opaque operations. -/
structure ISem where
  s1 : Nat → Int → Int
  s2 : Nat → Int → Int → Int

/-- The element between calls. -/
structure EState where
  params : Nat → Int
  cells : Nat → Entries
  scratch : Nat → Int

def EState.fresh (params : Nat → Int) : EState :=
  { params := params, cells := fun _ => [], scratch := fun _ => 0 }

def atomEnv (params : Nat → Int) (v : InVal) : Atom → Int
  | .param i => params i
  | .grid => v.grid
  | .wavelength => v.wavelength

def evalI (S : ISem) (ρ : Atom → Int) (fld : Int) (loc : Nat → Int) : IExpr → Int
  | .atom a => ρ a
  | .field => fld
  | .loc r => loc r
  | .op1 f a => S.s1 f (evalI S ρ fld loc a)
  | .op2 f a b => S.s2 f (evalI S ρ fld loc a) (evalI S ρ fld loc b)

/-- Running state of one call. -/
structure IRun where
  cells : Nat → Entries
  scratch : Nat → Int
  loc : Nat → Int

def stepI (S : ISem) (p : IProg) (ρ : Atom → Int) (fld : Int) (c : IRun) : IInstr → IRun
  | .letE r e => { c with loc := upd c.loc r (evalI S ρ fld c.loc e) }
  | .memoFill k e =>
    { c with cells := upd c.cells k (insertEntry (p.cap k) ((p.keyAtoms k).map ρ) (evalI S ρ fld c.loc e) (c.cells k)) }
  | .memoRead r k fb =>
    match lookup ((p.keyAtoms k).map ρ) (c.cells k) with
    | some val => { c with loc := upd c.loc r val }
    | none => { c with loc := upd c.loc r (evalI S ρ fld c.loc fb) }
  | .cellUpdate k e =>
    match c.cells k with
    | (tag, _) :: rest => { c with cells := upd c.cells k ((tag, evalI S ρ fld c.loc e) :: rest) }
    | [] => c
  | .rawRead r k =>
    match c.cells k with
    | (_, val) :: _ => { c with loc := upd c.loc r val }
    | [] => { c with loc := upd c.loc r 0 }
  | .scratchWrite b e => { c with scratch := upd c.scratch b (evalI S ρ fld c.loc e) }
  | .scratchRead r b => { c with loc := upd c.loc r (c.scratch b) }

def execI (S : ISem) (p : IProg) (ρ : Atom → Int) (fld : Int) (c : IRun) (body : List IInstr) : IRun :=
  body.foldl (stepI S p ρ fld) c

/-- One `forward`/`backward` on an element in state `E`: the result and the element afterwards. -/
def callI (S : ISem) (p : IProg) (E : EState) (v : InVal) : Int × EState :=
  let ρ := atomEnv E.params v
  let c := execI S p ρ v.field ⟨E.cells, E.scratch, fun _ => 0⟩ p.body
  (evalI S ρ v.field c.loc p.ret, { E with cells := c.cells, scratch := c.scratch })

/-- **Hit or miss**: does cell `c` of the element in state `E` hold a value for the key of a call with
input `v`?  (What the harness observes on the code as "nothing recomputed" / "`make_instance` ran",
"`linear_combination` ran".) -/
def cellHit (p : IProg) (E : EState) (v : InVal) (c : Nat) : Bool :=
  (lookup ((p.keyAtoms c).map (atomEnv E.params v)) (E.cells c)).isSome

/-- What can happen to an element between two observations. -/
inductive Event where
  | call (v : InVal)
  | setParam (i : Nat) (x : Int)

def applyEvent (S : ISem) (p : IProg) (E : EState) : Event → EState
  | .call v => (callI S p E v).2
  | .setParam i x => { E with params := upd E.params i x }

def runHistory (S : ISem) (p : IProg) (E : EState) (h : List Event) : EState := h.foldl (applyEvent S p) E

/-- `e` mentions only atoms from `allowed`: no field values, no locals. -/
def closedOver (allowed : List Atom) : IExpr → Bool
  | .atom a => allowed.contains a
  | .field => false
  | .loc _ => false
  | .op1 _ a => closedOver allowed a
  | .op2 _ a b => closedOver allowed a && closedOver allowed b

/-- Checker: walks the body carrying the scratch buffers written so far in this call. -/
def checkI (p : IProg) : List IInstr → List Nat → Bool
  | [], _ => true
  | .letE _ _ :: rest, w => checkI p rest w
  | .memoFill c e :: rest, w => (e == p.spec c) && closedOver (p.keyAtoms c) (p.spec c) && checkI p rest w
  | .memoRead _ c fb :: rest, w => (fb == p.spec c) && closedOver (p.keyAtoms c) (p.spec c) && checkI p rest w
  | .cellUpdate _ _ :: _, _ => false
  | .rawRead _ _ :: _, _ => false
  | .scratchWrite b _ :: rest, w => checkI p rest (b :: w)
  | .scratchRead _ b :: rest, w => w.contains b && checkI p rest w

def safeInternal (p : IProg) : Bool := checkI p p.body []

/-- Memo cells and scratch buffers a program touches (what the harness compares with the attributes
it sees change on the real element). -/
def memoCells (p : IProg) : List Nat :=
  (p.body.filterMap fun i => match i with
    | .memoFill c _ => some c | .cellUpdate c _ => some c | _ => none).eraseDups

def scratchCells (p : IProg) : List Nat :=
  (p.body.filterMap fun i => match i with
    | .scratchWrite b _ => some b | _ => none).eraseDups

end HcipyVerif.Effects
