import HcipyVerif.Model.Binning

/-!
# Detectors (C17): `hcipy.optics.detector.NoiselessDetector` / `NoisyDetector`

Images are values (flat lists of pixels, hcipy order).  The accumulator is `none` while it is
the scalar `0` of the Python code (after construction and after every read-out) and `some img`
once something has been integrated.

The model is that of the *repaired* code (pending fixes D15, D29, D30, D31):
* `integrate p dt w` bins the power onto the detector grid (`statistic='sum'`, factor `s`) and
  adds `p·dt·w` pixel by pixel; a power of the wrong size is refused (`reshape` raises) and
  leaves the state alone;
* `readOut` returns the accumulator — the zero image when nothing was integrated — and resets it.

`…Old` definitions keep the behaviour of the unrepaired tree: `readOutOld` fails on an empty
accumulator (D15) and `integrateOld` does not bin (D29).
-/
namespace HcipyVerif.Detector
open HcipyVerif.Binning

/-- Static description of a detector: coarse shape (slowest axis first) and subsampling. -/
structure Geom where
  dims : List Nat
  s : Nat := 1
deriving Repr

def Geom.npix (g : Geom) : Nat := size g.dims
def Geom.ninput (g : Geom) : Nat := fineSize g.s g.dims

section
variable {K : Type} [Add K] [Zero K] [Mul K]

/-- the detector state: the accumulated charge, `none` = the scalar 0 -/
structure St (K : Type) where
  acc : Option (List K) := none

/-- one operation of a history -/
inductive Op (K : Type) where
  | integrate (p : List K) (dt w : K)
  | readOut

/-- what one operation lets the caller observe -/
inductive Obs (K : Type) where
  | done                      -- integrate returned
  | refused                   -- integrate raised (wrong input size); state unchanged
  | image (img : List K)      -- read_out returned this image
  | failed                    -- read_out raised (only in the `Old` model)
  | random                    -- read_out with photon or read noise switched on: not deterministic
deriving DecidableEq

/-- `power * dt * weight`, pixel by pixel (in that order, as the code multiplies) -/
def charge (p : List K) (dt w : K) : List K := p.map fun x => x * dt * w

/-- `0 + img = img`, otherwise pixelwise sum -/
def accAdd (acc : Option (List K)) (img : List K) : List K :=
  match acc with
  | none => img
  | some a => vadd a img

def integrate (g : Geom) (st : St K) (p : List K) (dt w : K) : St K × Obs K :=
  if p.length = g.ninput then
    ({ acc := some (accAdd st.acc (charge (binND g.s g.dims p) dt w)) }, .done)
  else (st, .refused)

def readOut (g : Geom) (st : St K) : St K × Obs K :=
  ({ acc := none }, .image (st.acc.getD (vzero g.npix)))

def step (g : Geom) (st : St K) : Op K → St K × Obs K
  | .integrate p dt w => integrate g st p dt w
  | .readOut => readOut g st

/-- run a history, collecting the observations -/
def run (g : Geom) : St K → List (Op K) → St K × List (Obs K)
  | st, [] => (st, [])
  | st, op :: ops =>
    let r := step g st op
    let rs := run g r.1 ops
    (rs.1, r.2 :: rs.2)

/-- the observations of the read-outs of a history (noiseless detector) -/
def reads (g : Geom) : St K → List (Op K) → List (Obs K)
  | _, [] => []
  | st, .readOut :: ops => (step g st .readOut).2 :: reads g (step g st .readOut).1 ops
  | st, op :: ops => reads g (step g st op).1 ops

/-! ### the unrepaired tree -/

/-- D29: `NoiselessDetector.integrate` accumulated the supersampled power as is -/
def integrateOld (g : Geom) (st : St K) (p : List K) (dt w : K) : St K × Obs K :=
  if p.length = g.ninput then ({ acc := some (accAdd st.acc (charge p dt w)) }, .done)
  else (st, .refused)

/-- D15: `0.copy()` raises -/
def readOutOld (st : St K) : St K × Obs K :=
  match st.acc with
  | none => (st, .failed)
  | some a => ({ acc := none }, .image a)

def stepOld (g : Geom) (st : St K) : Op K → St K × Obs K
  | .integrate p dt w => integrateOld g st p dt w
  | .readOut => readOutOld st

def runOld (g : Geom) : St K → List (Op K) → St K × List (Obs K)
  | st, [] => (st, [])
  | st, op :: ops =>
    let r := stepOld g st op
    let rs := runOld g r.1 ops
    (rs.1, r.2 :: rs.2)

/-! ### the noisy detector with its parameters as mutable state (setters between operations)

`flat_field`, `dark_current_rate`, `read_noise` and `include_photon_noise` are public attributes that
can be assigned at any time.  The dark current enters at `integrate` (with the rate in force *then*),
flat field, photon noise and read noise at `read_out` (with the values in force *then*).  Scalars
are sent to the model already broadcast to one value per pixel (`flat_field = 0` is the unit map). -/

inductive POp (K : Type) where
  | integrate (p : List K) (dt w : K)
  | readOut
  | setFlat (m : List K)
  | setDark (d : List K)
  | setSigma (s : List K)
  | setPhoton (b : Bool)

structure PSt (K : Type) where
  acc : Option (List K) := none
  flat : List K
  dark : List K
  sigma : List K
  photon : Bool := false
  /-- ghost: no dark current has entered the exposure in progress -/
  clean : Bool := true

section
variable [DecidableEq K] [One K]

/-- every noise source is off *now* and the exposure in progress is free of dark current -/
def PSt.off (g : Geom) (st : PSt K) : Bool :=
  st.clean && !st.photon && decide (st.flat = List.replicate g.npix 1) && decide (st.sigma = vzero g.npix)

/-- a read-out is deterministic when photon noise is off and the read noise is zero -/
def PSt.deterministic (g : Geom) (st : PSt K) : Bool :=
  !st.photon && decide (st.sigma = vzero g.npix)

def pStep (g : Geom) (st : PSt K) : POp K → PSt K × Obs K
  | .integrate p dt w =>
    if p.length = g.ninput then
      let a1 := accAdd st.acc (charge (binND g.s g.dims p) dt w)
      ({ st with acc := some (List.zipWith (fun a d => a + d * dt * w) a1 st.dark),
                 clean := st.clean && decide (st.dark = vzero g.npix) }, .done)
    else (st, .refused)
  | .readOut =>
    let st' := { st with acc := none, clean := true }
    if st.deterministic g then
      (st', .image (List.zipWith (· * ·) (st.acc.getD (vzero g.npix)) st.flat))
    else (st', .random)
  | .setFlat m => ({ st with flat := m }, .done)
  | .setDark d => ({ st with dark := d }, .done)
  | .setSigma s => ({ st with sigma := s }, .done)
  | .setPhoton b => ({ st with photon := b }, .done)

/-- the read-outs of a history with setters: for each one, whether everything was off, and what
was observed -/
def pReads (g : Geom) : PSt K → List (POp K) → List (Bool × Obs K)
  | _, [] => []
  | st, .readOut :: ops => (st.off g, (pStep g st .readOut).2) :: pReads g (pStep g st .readOut).1 ops
  | st, op :: ops => pReads g (pStep g st op).1 ops

/-- run a history of the noisy detector (with setters), collecting the observations; this is the
fold of `pStep` the driver executes line by line -/
def pRun (g : Geom) : PSt K → List (POp K) → PSt K × List (Obs K)
  | st, [] => (st, [])
  | st, op :: ops =>
    let r := pStep g st op
    let rs := pRun g r.1 ops
    (rs.1, r.2 :: rs.2)

/-- an `integrate` / `read_out` call as an operation of the noisy detector -/
def lift : Op K → POp K
  | .integrate p dt w => .integrate p dt w
  | .readOut => .readOut

/-- the state of `NoisyDetector(grid, dark_current_rate=dark, read_noise=0, flat_field=<map>,
include_photon_noise=False)` right after construction (scalars broadcast to one value per pixel) -/
def pInit (g : Geom) (dark : K) (flat : List K) : PSt K :=
  { flat := flat, dark := List.replicate g.npix dark, sigma := vzero g.npix }

/-- the freshly constructed noisy detector with every noise source off -/
def allOff (g : Geom) : PSt K := pInit g 0 (List.replicate g.npix 1)

/-- an operation that does not switch any noise source on: integrations, read-outs, and
assignments of the "off" value of a parameter (unit flat field, zero dark current, zero read noise,
no photon noise) -/
def OffOp (g : Geom) : POp K → Bool
  | .setFlat m => decide (m = List.replicate g.npix 1)
  | .setDark d => decide (d = vzero g.npix)
  | .setSigma s => decide (s = vzero g.npix)
  | .setPhoton b => !b
  | _ => true

/-- forget the setters: the history a noiseless detector would see -/
def strip : List (POp K) → List (Op K)
  | [] => []
  | .integrate p dt w :: ops => .integrate p dt w :: strip ops
  | .readOut :: ops => .readOut :: strip ops
  | _ :: ops => strip ops

end

/-! ### the specification side: what a read-out has to be -/

/-- the integrations of a history that count for the *next* read-out: those after the last
`readOut` (refused ones excluded), oldest first; `cur` are the ones pending before the history -/
def pendingFrom (g : Geom) : List (List K × K × K) → List (Op K) → List (List K × K × K)
  | cur, [] => cur
  | _, .readOut :: ops => pendingFrom g [] ops
  | cur, .integrate p dt w :: ops =>
    if p.length = g.ninput then pendingFrom g (cur ++ [(p, dt, w)]) ops else pendingFrom g cur ops

/-- `Σ_j bin(p_j)·dt_j·w_j` as an image of `n` pixels (the empty sum is the zero image) -/
def sumCharges (g : Geom) (l : List (List K × K × K)) : List K :=
  l.foldl (fun a (x : List K × K × K) => vadd a (charge (binND g.s g.dims x.1) x.2.1 x.2.2)) (vzero g.npix)

/-- split a history into the list of completed exposures (the integrations before each
read-out) -/
def exposures (g : Geom) : List (List K × K × K) → List (Op K) → List (List (List K × K × K))
  | _, [] => []
  | cur, .readOut :: ops => cur :: exposures g [] ops
  | cur, .integrate p dt w :: ops =>
    if p.length = g.ninput then exposures g (cur ++ [(p, dt, w)]) ops else exposures g cur ops

/-- the images a history returns, in order -/
def images : List (Obs K) → List (List K)
  | [] => []
  | .image i :: r => i :: images r
  | _ :: r => images r

end

end HcipyVerif.Detector
