import HcipyVerif.Model.Binning

/-!
# Detectors (C17): `hcipy.optics.detector.NoiselessDetector` / `NoisyDetector`

Images are values (flat lists of pixels, hcipy order).  The accumulator is `none` while it is
the scalar `0` of the Python code (after construction and after every read-out) and `some img`
once something has been integrated.

The model is that of the *repaired* code (pending fixes D15, D29, D30, D31):
* `integrate p dt w` bins the power onto the detector grid (`statistic='sum'`, per-axis factors `ss`) and
  adds `p·dt·w` pixel by pixel; a power of the wrong size is refused (`reshape` raises) and
  leaves the state alone;
* `readOut` returns the accumulator — the zero image when nothing was integrated — and resets it.

The behaviour of the unrepaired tree (`readOutOld`, D15; `integrateOld`, D29; `relabelOld`, D170) and a detector that
aliases (`rStepBad`) are kept in `Model/DetectorOld.lean`, namespace `HcipyVerif.Detector.Old`: documentation, no
driver op runs them and no property theorem is about them.
-/
namespace HcipyVerif.Detector
open HcipyVerif.Binning

/-- Static description of a detector: coarse shape (slowest axis first) and one subsampling factor per
axis, in the same order (`Detector(grid, subsamping=<array>)`, D181; the reverse of `grid.dims`). -/
structure Geom where
  dims : List Nat
  ss : List Nat
  hl : ss.length = dims.length := by decide

/-- a detector with one common subsampling factor `s` (`subsamping=<scalar>`): the factor on every axis -/
def Geom.uniform (dims : List Nat) (s : Nat := 1) : Geom :=
  { dims := dims, ss := dims.map fun _ => s, hl := by simp }

def Geom.npix (g : Geom) : Nat := size g.dims
def Geom.ninput (g : Geom) : Nat := fineSizes g.ss g.dims

section
variable {K : Type} [Add K] [Zero K] [Mul K]

/-- the detector state: the accumulated charge, `none` = the scalar 0 -/
structure St (K : Type) where
  acc : Option (List K) := none

/-- one operation of a history -/
inductive Op (K : Type) where
  | integrate (p : List K) (dt w : K)
  | readOut

/-- what one operation lets the caller observe -/
inductive Obs (K : Type) where
  | done                      -- integrate returned
  | refused                   -- integrate raised (wrong input size); state unchanged
  | image (img : List K)      -- read_out returned this image
  | failed                    -- read_out raised (only in the `Old` model)
  | random                    -- read_out with photon or read noise switched on: not deterministic
deriving DecidableEq

/-- `power * dt * weight`, pixel by pixel (in that order, as the code multiplies) -/
def charge (p : List K) (dt w : K) : List K := p.map fun x => x * dt * w

/-- `0 + img = img`, otherwise pixelwise sum -/
def accAdd (acc : Option (List K)) (img : List K) : List K :=
  match acc with
  | none => img
  | some a => vadd a img

def integrate (g : Geom) (st : St K) (p : List K) (dt w : K) : St K × Obs K :=
  if p.length = g.ninput then
    ({ acc := some (accAdd st.acc (charge (binNDs g.ss g.dims p) dt w)) }, .done)
  else (st, .refused)

def readOut (g : Geom) (st : St K) : St K × Obs K :=
  ({ acc := none }, .image (st.acc.getD (vzero g.npix)))

def step (g : Geom) (st : St K) : Op K → St K × Obs K
  | .integrate p dt w => integrate g st p dt w
  | .readOut => readOut g st

/-- run a history, collecting the observations -/
def run (g : Geom) : St K → List (Op K) → St K × List (Obs K)
  | st, [] => (st, [])
  | st, op :: ops =>
    let r := step g st op
    let rs := run g r.1 ops
    (rs.1, r.2 :: rs.2)

/-- the observations of the read-outs of a history (noiseless detector) -/
def reads (g : Geom) : St K → List (Op K) → List (Obs K)
  | _, [] => []
  | st, .readOut :: ops => (step g st .readOut).2 :: reads g (step g st .readOut).1 ops
  | st, op :: ops => reads g (step g st op).1 ops

/-! ### reference-level model: arrays live in a heap, the caller holds handles (aliasing)

`run` above treats images as values, so "a later integration cannot change an image already returned" and
"the detector never writes into the array it was given" are true of it by construction.  Here arrays are
cells of a heap, addressed by index; the caller creates power buffers (`alloc`), may overwrite in place any
array it holds a handle on (`write`: a buffer it passed in, an image it got back), and the detector
* `integrate buf dt w`: reads the buffer, allocates `acc + bin(power)·dt·w` as a **new** array and rebinds
  its accumulator to it (`self.accumulated_charge = self.accumulated_charge + …`, never `+=`);
* `readOut`: allocates a copy of the accumulator (`.copy()`, or `np.zeros` when nothing was integrated),
  hands that out and rebinds the accumulator to the scalar 0.
`known` lists the references handed to the caller, in order (its position in the list is the handle the
driver protocol uses). -/

structure RSt (K : Type) where
  heap : List (List K) := []
  acc : Option Nat := none
  known : List Nat := []

inductive ROp (K : Type) where
  | alloc (v : List K)
  | write (r : Nat) (v : List K)
  | integrate (buf : Nat) (dt w : K)
  | readOut

inductive RObs where
  | ref (r : Nat)     -- `alloc` / `read_out` handed out the reference `r`
  | done
  | refused           -- integrate raised (wrong size) / write to a reference the caller does not hold
deriving DecidableEq

/-- the array a reference points to (`[]` for a dangling one) -/
def RSt.at (st : RSt K) (r : Nat) : List K := st.heap.getD r []

/-- the accumulator as a value -/
def RSt.accVal (st : RSt K) : Option (List K) := st.acc.map st.at

def rStep (g : Geom) (st : RSt K) : ROp K → RSt K × RObs
  | .alloc v => ({ st with heap := st.heap ++ [v], known := st.known ++ [st.heap.length] }, .ref st.heap.length)
  | .write r v =>
    if st.known.contains r then ({ st with heap := st.heap.set r v }, .done) else (st, .refused)
  | .integrate buf dt w =>
    let p := st.at buf
    if p.length = g.ninput then
      ({ st with heap := st.heap ++ [accAdd st.accVal (charge (binNDs g.ss g.dims p) dt w)],
                 acc := some st.heap.length }, .done)
    else (st, .refused)
  | .readOut =>
    ({ heap := st.heap ++ [st.accVal.getD (vzero g.npix)], acc := none,
       known := st.known ++ [st.heap.length] }, .ref st.heap.length)

def rRun (g : Geom) : RSt K → List (ROp K) → RSt K × List RObs
  | st, [] => (st, [])
  | st, op :: ops =>
    let r := rStep g st op
    let rs := rRun g r.1 ops
    (rs.1, r.2 :: rs.2)

/-- the images the read-outs of a history return, each as it is *when it is returned* -/
def rImages (g : Geom) : RSt K → List (ROp K) → List (List K)
  | _, [] => []
  | st, .readOut :: ops => (rStep g st .readOut).1.at st.heap.length :: rImages g (rStep g st .readOut).1 ops
  | st, op :: ops => rImages g (rStep g st op).1 ops

/-- the history the value model sees: every integration with the content its buffer has *at the call* -/
def valueOps (g : Geom) : RSt K → List (ROp K) → List (Op K)
  | _, [] => []
  | st, .readOut :: ops => .readOut :: valueOps g (rStep g st .readOut).1 ops
  | st, .integrate buf dt w :: ops => .integrate (st.at buf) dt w :: valueOps g (rStep g st (.integrate buf dt w)).1 ops
  | st, op :: ops => valueOps g (rStep g st op).1 ops

/-! ### which grid the image is labelled with

hcipy Fields carry a grid; `a + b` of two Fields keeps the grid of the left operand, `0 + b` that of `b`.
`integrate` relabels the (binned) power with the detector grid before accumulating — `subsample_field(…,
new_grid=self.detector_grid)` when binning, `Field(power, self.detector_grid)` otherwise (D170) — and an
empty read-out builds its zero image on the detector grid. -/

inductive GTag where
  | detector | input | foreign
deriving DecidableEq, Repr

/-- what the caller hands to `integrate`: a Field on the input grid, a Field on some other grid, a plain array -/
inductive PTag where
  | onInput | onForeign | plain
deriving DecidableEq, Repr

/-- grid of `acc + img` -/
def tagAdd : Option GTag → GTag → GTag
  | none, t => t
  | some a, _ => a

structure TSt where
  acc : Option GTag := none

inductive TOp where
  | integrate (p : PTag)
  | readOut

/-- the grid the power carries when it reaches the accumulation, repaired code -/
def relabel (_ : PTag) : GTag := .detector

def tStepWith (lab : PTag → GTag) (st : TSt) : TOp → TSt × Option GTag
  | .integrate p => ({ acc := some (tagAdd st.acc (lab p)) }, none)
  | .readOut => ({ acc := none }, some (st.acc.getD .detector))

def tStep : TSt → TOp → TSt × Option GTag := tStepWith relabel

/-- the grid tags of the images a history returns -/
def tRunWith (lab : PTag → GTag) : TSt → List TOp → List GTag
  | _, [] => []
  | st, op :: ops =>
    match (tStepWith lab st op).2 with
    | some t => t :: tRunWith lab (tStepWith lab st op).1 ops
    | none => tRunWith lab (tStepWith lab st op).1 ops

/-! ### the noisy detector with its parameters as mutable state (setters between operations)

`flat_field`, `dark_current_rate`, `read_noise` and `include_photon_noise` are public attributes that
can be assigned at any time.  The dark current enters at `integrate` (with the rate in force *then*),
flat field, photon noise and read noise at `read_out` (with the values in force *then*).  Scalars
are sent to the model already broadcast to one value per pixel (`flat_field = 0` is the unit map). -/

inductive POp (K : Type) where
  | integrate (p : List K) (dt w : K)
  | readOut
  | setFlat (m : List K)
  | setDark (d : List K)
  | setSigma (s : List K)
  | setPhoton (b : Bool)

structure PSt (K : Type) where
  acc : Option (List K) := none
  flat : List K
  dark : List K
  sigma : List K
  photon : Bool := false
  /-- ghost: no dark current has entered the exposure in progress -/
  clean : Bool := true

section
variable [DecidableEq K] [One K]

/-- every noise source is off *now* and the exposure in progress is free of dark current -/
def PSt.off (g : Geom) (st : PSt K) : Bool :=
  st.clean && !st.photon && decide (st.flat = List.replicate g.npix 1) && decide (st.sigma = vzero g.npix)

/-- a read-out is deterministic when photon noise is off and the read noise is zero -/
def PSt.deterministic (g : Geom) (st : PSt K) : Bool :=
  !st.photon && decide (st.sigma = vzero g.npix)

def pStep (g : Geom) (st : PSt K) : POp K → PSt K × Obs K
  | .integrate p dt w =>
    if p.length = g.ninput then
      let a1 := accAdd st.acc (charge (binNDs g.ss g.dims p) dt w)
      ({ st with acc := some (List.zipWith (fun a d => a + d * dt * w) a1 st.dark),
                 clean := st.clean && decide (st.dark = vzero g.npix) }, .done)
    else (st, .refused)
  | .readOut =>
    let st' := { st with acc := none, clean := true }
    if st.deterministic g then
      (st', .image (List.zipWith (· * ·) (st.acc.getD (vzero g.npix)) st.flat))
    else (st', .random)
  | .setFlat m => ({ st with flat := m }, .done)
  | .setDark d => ({ st with dark := d }, .done)
  | .setSigma s => ({ st with sigma := s }, .done)
  | .setPhoton b => ({ st with photon := b }, .done)

/-! #### read-out with the noise sources *on*: the random draws are inputs

`NoisyDetector.read_out` consumes random numbers in a fixed order: `large_poisson(charge)` when
`include_photon_noise` (one Poisson draw per pixel, expectation = the accumulated charge, i.e. binned power **and**
dark current, before the flat field), then `* flat_field`, then `+ np.random.normal(0, read_noise, npix)`, then the
reset.  The model takes the outcome of the draws as arguments: `δ` = (Poisson draw − its expectation) per pixel, `z` =
the standard-normal deviates of the read noise.  The harness substitutes a recording stand-in for `np.random` that
returns `lam + δ` / `loc + scale·z` and compares the arguments the real code hands to it, the call order and the image
with this definition (driver op `readrng`). -/

/-- elementwise product -/
def vmul (a b : List K) : List K := List.zipWith (· * ·) a b

/-- what the photon-noise stage is handed (`large_poisson(lam)`): the accumulated charge -/
def PSt.lam (g : Geom) (st : PSt K) : List K := st.acc.getD (vzero g.npix)

/-- the image of a read-out whose random draws came out as `δ` (photon noise) and `z` (read noise) -/
def noisyImage (g : Geom) (st : PSt K) (δ z : List K) : List K :=
  vadd (vmul (if st.photon then vadd (st.lam g) δ else st.lam g) st.flat) (vmul st.sigma z)

/-- `read_out()` with the draws `δ`, `z`: the image, and the reset -/
def pReadOutRng (g : Geom) (st : PSt K) (δ z : List K) : PSt K × List K :=
  ({ st with acc := none, clean := true }, noisyImage g st δ z)

/-- integrate all of `l`, in order, on a noisy detector -/
def pIntegrateAll (g : Geom) (pst : PSt K) (l : List (List K × K × K)) : PSt K :=
  l.foldl (fun st x => (pStep g st (.integrate x.1 x.2.1 x.2.2)).1) pst

/-- the read-outs of a history with setters: for each one, whether everything was off, and what
was observed -/
def pReads (g : Geom) : PSt K → List (POp K) → List (Bool × Obs K)
  | _, [] => []
  | st, .readOut :: ops => (st.off g, (pStep g st .readOut).2) :: pReads g (pStep g st .readOut).1 ops
  | st, op :: ops => pReads g (pStep g st op).1 ops

/-- run a history of the noisy detector (with setters), collecting the observations; this is the
fold of `pStep` the driver executes line by line -/
def pRun (g : Geom) : PSt K → List (POp K) → PSt K × List (Obs K)
  | st, [] => (st, [])
  | st, op :: ops =>
    let r := pStep g st op
    let rs := pRun g r.1 ops
    (rs.1, r.2 :: rs.2)

/-- an `integrate` / `read_out` call as an operation of the noisy detector -/
def lift : Op K → POp K
  | .integrate p dt w => .integrate p dt w
  | .readOut => .readOut

/-- the state of `NoisyDetector(grid, dark_current_rate=dark, read_noise=0, flat_field=<map>,
include_photon_noise=False)` right after construction (scalars broadcast to one value per pixel) -/
def pInit (g : Geom) (dark : K) (flat : List K) : PSt K :=
  { flat := flat, dark := List.replicate g.npix dark, sigma := vzero g.npix }

/-- the freshly constructed noisy detector with every noise source off -/
def allOff (g : Geom) : PSt K := pInit g 0 (List.replicate g.npix 1)

/-- an operation that does not switch any noise source on: integrations, read-outs, and
assignments of the "off" value of a parameter (unit flat field, zero dark current, zero read noise,
no photon noise) -/
def OffOp (g : Geom) : POp K → Bool
  | .setFlat m => decide (m = List.replicate g.npix 1)
  | .setDark d => decide (d = vzero g.npix)
  | .setSigma s => decide (s = vzero g.npix)
  | .setPhoton b => !b
  | _ => true

/-- forget the setters: the history a noiseless detector would see -/
def strip : List (POp K) → List (Op K)
  | [] => []
  | .integrate p dt w :: ops => .integrate p dt w :: strip ops
  | .readOut :: ops => .readOut :: strip ops
  | _ :: ops => strip ops

end

/-! ### the specification side: what a read-out has to be -/

/-- the integrations of a history that count for the *next* read-out: those after the last
`readOut` (refused ones excluded), oldest first; `cur` are the ones pending before the history -/
def pendingFrom (g : Geom) : List (List K × K × K) → List (Op K) → List (List K × K × K)
  | cur, [] => cur
  | _, .readOut :: ops => pendingFrom g [] ops
  | cur, .integrate p dt w :: ops =>
    if p.length = g.ninput then pendingFrom g (cur ++ [(p, dt, w)]) ops else pendingFrom g cur ops

/-- `Σ_j bin(p_j)·dt_j·w_j` as an image of `n` pixels (the empty sum is the zero image) -/
def sumCharges (g : Geom) (l : List (List K × K × K)) : List K :=
  l.foldl (fun a (x : List K × K × K) => vadd a (charge (binNDs g.ss g.dims x.1) x.2.1 x.2.2)) (vzero g.npix)

/-- `Σ_j dt_j·w_j`: the weighted duration of an exposure (what the dark current is multiplied with) -/
def darkTime (l : List (List K × K × K)) : K := (l.map fun x => x.2.1 * x.2.2).sum

/-- split a history into the list of completed exposures (the integrations before each
read-out) -/
def exposures (g : Geom) : List (List K × K × K) → List (Op K) → List (List (List K × K × K))
  | _, [] => []
  | cur, .readOut :: ops => cur :: exposures g [] ops
  | cur, .integrate p dt w :: ops =>
    if p.length = g.ninput then exposures g (cur ++ [(p, dt, w)]) ops else exposures g cur ops

/-- the images a history returns, in order -/
def images : List (Obs K) → List (List K)
  | [] => []
  | .image i :: r => i :: images r
  | _ :: r => images r

end

/-! ### Wavefront objects that are re-used between integrations (round 6, seeded class C17-10)

`integrate(wf, dt, w)` asks the wavefront for its power **at the call**: `|E|²·weights` of what the object holds
then.  The caller may keep the object, change its electric field (item assignment, `*=`, the setter, the array the
wavefront wraps) or the weights of its grid, and integrate it again.  Nothing is memoised: `Wf.power` is a function of
the current contents. -/

section
variable {K : Type} [Add K] [Zero K] [Mul K]

/-- a Wavefront object: real and imaginary part of the electric field, and the weights of its grid -/
structure Wf (K : Type) where
  re : List K
  im : List K
  wt : List K

/-- `Wavefront.power` = `|E|² · grid.weights`, pixel by pixel -/
def Wf.power (f : Wf K) : List K :=
  List.zipWith (· * ·) (List.zipWith (fun a b => a * a + b * b) f.re f.im) f.wt

inductive WOp (K : Type) where
  | create (re im wt : List K)              -- a new Wavefront object (handle = number of objects before)
  | setField (j : Nat) (re im : List K)     -- any change of the electric field of object `j` (in place or through the setter)
  | setWeights (j : Nat) (wt : List K)      -- `wf.grid.weights = …`, `wf.electric_field.grid = …`
  | integrate (j : Nat) (dt w : K)          -- `det.integrate(wf_j, dt, w)`
  | readOut

def wfAt (l : List (Wf K)) (j : Nat) : Wf K := l.getD j ⟨[], [], []⟩

/-- the caller's side of an operation: what it does to the wavefront objects -/
def wfsStep (l : List (Wf K)) : WOp K → List (Wf K)
  | .create re im wt => l ++ [⟨re, im, wt⟩]
  | .setField j re im => l.set j { wfAt l j with re := re, im := im }
  | .setWeights j wt => l.set j { wfAt l j with wt := wt }
  | _ => l

structure WSt (K : Type) where
  det : St K := {}
  wfs : List (Wf K) := []

def wStep (g : Geom) (st : WSt K) (op : WOp K) : WSt K × Option (Obs K) :=
  match op with
  | .integrate j dt w =>
    let r := step g st.det (.integrate (wfAt st.wfs j).power dt w)
    ({ det := r.1, wfs := st.wfs }, some r.2)
  | .readOut =>
    let r := step g st.det .readOut
    ({ det := r.1, wfs := st.wfs }, some r.2)
  | op => ({ det := st.det, wfs := wfsStep st.wfs op }, none)

/-- the observations of a history with re-used wavefront objects -/
def wRun (g : Geom) : WSt K → List (WOp K) → List (Obs K)
  | _, [] => []
  | st, op :: ops =>
    match (wStep g st op).2 with
    | some o => o :: wRun g (wStep g st op).1 ops
    | none => wRun g (wStep g st op).1 ops

/-- the same history at the value level: every integration sees the power of what its wavefront holds at the call -/
def wValueOps : List (Wf K) → List (WOp K) → List (Op K)
  | _, [] => []
  | l, .integrate j dt w :: ops => .integrate (wfAt l j).power dt w :: wValueOps l ops
  | l, .readOut :: ops => .readOut :: wValueOps l ops
  | l, op :: ops => wValueOps (wfsStep l op) ops

end

/-! ### the grid label through the noisy pipeline, parameters given as Fields on any grid (round 6, seeded class C17-11)

A binary operation of hcipy Fields keeps the grid of its **first** Field operand; a plain array or scalar has no
grid (`none`).  `NoisyDetector`: `acc = acc + binned·dt·w` (binned is on the detector grid), `acc = acc + dark·dt·w`,
read-out: `out = acc.copy()` (or zeros on the detector grid), `out = out * flat`, `out = out + normal(…)` (an ndarray). -/

/-- grid of `a ∘ b`: the first operand that has one -/
def tagOp : Option GTag → Option GTag → Option GTag
  | some a, _ => some a
  | none, b => b

structure NTSt where
  acc : Option GTag := none
  dark : Option GTag := none
  flat : Option GTag := none
  sigma : Option GTag := none

inductive NTOp where
  | integrate (p : PTag)
  | readOut
  | setDark (m : Option GTag)
  | setFlat (m : Option GTag)
  | setSigma (m : Option GTag)

def ntStep (st : NTSt) : NTOp → NTSt × Option GTag
  | .integrate p => ({ st with acc := tagOp (tagOp st.acc (some (relabel p))) st.dark }, none)
  | .readOut => ({ st with acc := none }, tagOp (tagOp (some (st.acc.getD .detector)) st.flat) none)
  | .setDark m => ({ st with dark := m }, none)
  | .setFlat m => ({ st with flat := m }, none)
  | .setSigma m => ({ st with sigma := m }, none)

/-- the grid tags of the images a history of the noisy detector returns -/
def ntRun : NTSt → List NTOp → List GTag
  | _, [] => []
  | st, op :: ops =>
    match (ntStep st op).2 with
    | some t => t :: ntRun (ntStep st op).1 ops
    | none => ntRun (ntStep st op).1 ops

end HcipyVerif.Detector
