/-!
# MatrixFourierTransform: the `precompute_matrices` / `allocate_intermediate` switches as a state machine

`matrix_fourier_transform.py`: every `forward`/`backward` of a scalar field (a tensor field makes one
such call per component, `multiplex_for_tensor_fields`) runs

```
_compute_matrices(field.dtype):
    if self.matrices_dtype != complex_dtype:      (re)build weights, M / M1, M2; matrices_dtype = complex_dtype
    if self.intermediate_dtype != complex_dtype:
        if self.ndim == 2: intermediate_array = np.empty(...); intermediate_dtype = complex_dtype
<the products: gemm(..., c=intermediate_array.T, overwrite_c=True); res = gemm(alpha, intermediate_array.T, …)>
_remove_matrices():
    if not precompute_matrices: M… = None; matrices_dtype = None
    if not allocate_intermediate and ndim == 2: intermediate_array = None; intermediate_dtype = None
```

The state keeps, next to the two dtype tags, *what the stored objects are*: the matrices as the value
`α` they were built to (`build d` for the precision `d` of the call that built them) and the
precision of the intermediate buffer.  `Prec` is the bit depth `_get_float_and_complex_dtype` maps the
field's dtype to.
-/
namespace HcipyVerif.Fft

inductive Prec | single | double
deriving DecidableEq, Repr

structure MftCfg where
  pre : Bool          -- precompute_matrices
  alloc : Bool        -- allocate_intermediate
  ndim : Nat
deriving Repr

structure MftSt (α : Type) where
  matricesDtype : Option Prec       -- self.matrices_dtype
  matrices : Option (Prec × α)      -- self.M / self.M1, self.M2 with their dtype; none = None
  interDtype : Option Prec          -- self.intermediate_dtype
  inter : Option Prec               -- dtype of self.intermediate_array; none = None

/-- the state `__init__` leaves (`matrices_dtype = intermediate_dtype = None`, `_remove_matrices()`);
with both switches on the attributes are not even created — observed as "absent" -/
def MftSt.init {α : Type} : MftSt α := ⟨none, none, none, none⟩

structure MftEvent where
  rebuilt : Bool      -- the matrices were (re)built in this call
  realloc : Bool      -- the intermediate array was (re)allocated in this call
deriving DecidableEq, Repr

section
variable {α : Type}

/-- `_compute_matrices(dtype)` -/
def mftCompute (c : MftCfg) (build : Prec → α) (s : MftSt α) (d : Prec) : MftSt α × MftEvent :=
  let rebuilt := s.matricesDtype != some d
  let s1 : MftSt α := if rebuilt then { s with matricesDtype := some d, matrices := some (d, build d) } else s
  let realloc := s1.interDtype != some d && c.ndim == 2
  let s2 : MftSt α := if realloc then { s1 with interDtype := some d, inter := some d } else s1
  (s2, ⟨rebuilt, realloc⟩)

/-- `_remove_matrices()` -/
def mftRemove (c : MftCfg) (s : MftSt α) : MftSt α :=
  let s1 : MftSt α := if c.pre then s else { s with matricesDtype := none, matrices := none }
  if !c.alloc && c.ndim == 2 then { s1 with interDtype := none, inter := none } else s1

/-- one call on a scalar field of precision `d`: the state at the moment the products are taken, the
state the call leaves, and what was rebuilt -/
def mftCall (c : MftCfg) (build : Prec → α) (s : MftSt α) (d : Prec) : MftSt α × MftSt α × MftEvent :=
  let (su, ev) := mftCompute c build s d
  (su, mftRemove c su, ev)

/-- a history of calls: for every call the state at use, the state left, the event -/
def mftHistory (c : MftCfg) (build : Prec → α) : MftSt α → List Prec → List (MftSt α × MftSt α × MftEvent)
  | _, [] => []
  | s, d :: ds =>
    let r := mftCall c build s d
    r :: mftHistory c build r.2.1 ds

/-- what a call computes from the stored matrices: `run` (the products) applied to whatever the
state holds at use — `none` when the products could not be taken as the code takes them (no matrices, or,
on two axes, no intermediate buffer of the precision of the call, in which case the BLAS wrapper
writes into a copy and the code reads a stale buffer) -/
def mftResult {β γ : Type} (c : MftCfg) (run : α → Prec → β → γ) (su : MftSt α) (d : Prec) (f : β) : Option γ :=
  match su.matrices with
  | some (dm, a) => if dm = d ∧ (c.ndim = 2 → su.inter = some d) then some (run a d f) else none
  | none => none

end

/-! ## executable instance: matrices tagged by the precision they were built for -/

def Prec.show : Prec → String
  | .single => "c64"
  | .double => "c128"

def showOptPrec : Option Prec → String
  | none => "none"
  | some p => p.show

/-- trace of a history: per call `rebuilt realloc | at use: matrices_dtype M.dtype intermediate_dtype buffer.dtype | left: the same |
usable` where `usable` says whether `mftResult` could take the products from the state at use (matrices and, on two
axes, buffer of the precision of the call) -/
def mftTrace (c : MftCfg) (ds : List Prec) : List String :=
  ((mftHistory c (fun d => d) (MftSt.init (α := Prec)) ds).zip ds).map fun (r, d) =>
    let su := r.1; let sl := r.2.1; let ev := r.2.2
    let usable := (mftResult c (fun (a : Prec) (d' : Prec) (_ : Unit) => a == d') su d ()) == some true
    let sh := fun (s : MftSt Prec) =>
      s!"{showOptPrec s.matricesDtype},{showOptPrec (s.matrices.map Prod.fst)},{showOptPrec s.interDtype},{showOptPrec s.inter}"
    s!"{if ev.rebuilt then 1 else 0}{if ev.realloc then 1 else 0}/{sh su}/{sh sl}/{if usable then 1 else 0}"

end HcipyVerif.Fft
