import HcipyVerif.Model.FraunhoferPipe
import HcipyVerif.Model.Nft

/-!
# C03 — the propagator *object* and the wavefront record, executable (core Lean only)

`LensProp` is the state of a `FraunhoferPropagator` that decides its results: pupil grid, focal grid (regular,
separated or an arbitrary list of points — unstructured and polar grids), the `focal_length` argument (a function
of the wavelength) and, per wavelength, what `make_fourier_transform` returned for the instance (`Plan`: method,
padded sizes of `get_fft_parameters`, and for the naive transform which of its two code paths runs).
`LensProp.forward/backward` are `FraunhoferPropagator.forward/backward` on a whole `Wavefront` record `Wf`:
every tensor component goes through the selected pipeline (`multiplex_for_tensor_fields`), wavelength and Stokes
vector are handed to the constructor of the result.

Scalar-polymorphic: the native driver runs these very functions at `K = Rat`, `C = PSum` (`Scalars` = turns
characters, `unit = 1`; driver op `obj`), the theorems of `Properties/C03.lean` are about the same constants at
`ℝ`/`ℂ` (`scalarsR`: `expT`, `expE`, `unit = 2π`).

Second part: object identity.  `forward`/`backward` build a *new* field array and `Wavefront.__init__` copies the
Stokes vector (`np.array(input_stokes_vector)`): `Heap`/`WfRef` model which ndarray objects a call history
creates, so that "nothing is shared between results, inputs and earlier results" is a statement about an executed
definition (driver op `alias`, compared with `np.shares_memory` on the real objects).
-/
namespace HcipyVerif.Fraunhofer
open HcipyVerif.Fft

/-- the scalar-dependent ingredients of the pipeline -/
structure Scalars (K C : Type) where
  /-- character in turns -/
  T : K → C
  /-- character in `unit`s -/
  E : K → C
  cj : C → C
  unit : K
  ofK : K → C
  absK : K → K
  /-- `norm_factor = 1/(1j · focal_length · wavelength)` as a function of `(wavelength, focal_length)` -/
  norm : K → K → C

/-- the focal grid handed to the propagator -/
inductive FocalGrid (K : Type) where
  /-- `CartesianGrid(RegularCoords)` -/
  | regular (Fy Fx : Ax K)
  /-- `CartesianGrid(SeparatedCoords((X, Y)))` -/
  | separated (nY nX : Nat) (Y X : Nat → K)
  /-- any other grid, given by the Cartesian coordinates and weights of its `n` points (unstructured, polar) -/
  | points (n : Nat) (X Y w : Nat → K)

/-- what `make_fourier_transform(pupil, uv)` returned for one wavelength -/
structure Plan where
  m : Method
  My : Nat := 0
  Mx : Nat := 0
  /-- `NaiveFourierTransform.precompute_matrices` -/
  mat : Bool := false
deriving Repr

/-- `Wavefront`: electric field (one 2-D array per tensor component `τ`; a point-list grid uses row 0),
wavelength, optional input Stokes vector -/
structure Wf (τ K C : Type) where
  field : τ → Nat → Nat → C
  wavelength : K
  stokes : Option (K × K × K × K)

/-- the propagator object -/
structure LensProp (K : Type) where
  py : Ax K
  px : Ax K
  focal : FocalGrid K
  focalLength : K → K
  plan : K → Plan
  emu : Bool

section poly
variable {τ K C : Type} [Zero K] [Add K] [Sub K] [Mul K] [Neg K] [Div K] [One K] [NatCast K] [IntCast K]
  [Zero C] [One C] [Add C] [Mul C] [Inv C] [NatCast C]

/-- an `(ny, nx)` array: nothing outside its shape -/
def clip2 (ny nx : Nat) (F : Nat → Nat → C) (i j : Nat) : C := if i < ny ∧ j < nx then F i j else 0

/-- raveled pupil coordinates (x fastest) -/
def pupilX (px : Ax K) (j : Nat) : K := px.x (j % px.n)
def pupilY (py px : Ax K) (j : Nat) : K := py.x (j / px.n)

/-- **`NaiveFourierTransform(pupil, focal.scaled(2π/lf)).forward`** — C01's model of both code paths
(`nftForwardFly`: on the fly; `nftForwardMat`: precomputed matrix) on the raveled regular pupil grid, output
coordinates in units of 2π (`X/lf`), pupil weight `δy·δx`. -/
def lensNaiveForward (T : K → C) (mat : Bool) (ofK : K → C) (py px : Ax K) (X Y : Nat → K) (lf : K)
    (field : Nat → Nat → C) (k : Nat) : C :=
  let us : List (Nat → K) := [fun k => X k / lf, fun k => Y k / lf]
  let xs : List (Nat → K) := [pupilX px, pupilY py px]
  let w : Nat → C := fun _ => ofK (py.δ * px.δ)
  let f : Nat → C := fun i => field (i / px.n) (i % px.n)
  if mat then nftForwardMat T (py.n * px.n) us xs w f k else nftForwardFly T (py.n * px.n) us xs w f k

/-- **`….backward`**: `weights_output = uv.weights/(2π)² = w_k/lf²`. -/
def lensNaiveBackward (T : K → C) (mat : Bool) (ofK : K → C) (py px : Ax K) (n : Nat) (X Y w : Nat → K) (lf : K)
    (field : Nat → C) (j : Nat) : C :=
  let us : List (Nat → K) := [fun k => X k / lf, fun k => Y k / lf]
  let xs : List (Nat → K) := [pupilX px, pupilY py px]
  let wOut : Nat → C := fun k => ofK ((1 / lf) * (1 / lf) * w k)
  if mat then nftBackwardMat T n us xs wOut field j else nftBackwardFly T n us xs wOut field j

/-- **`FraunhoferPropagator.forward(wavefront)`**: instance for the wavefront's wavelength (focal length evaluated
there, transform of the plan), every tensor component through `ft.forward(·)·norm_factor`, then
`Wavefront(Field(U_new, output_grid), wavefront.wavelength, wavefront.input_stokes_vector)`. -/
def LensProp.forward (S : Scalars K C) (P : LensProp K) (wf : Wf τ K C) : Wf τ K C :=
  let lam := wf.wavelength
  let f := P.focalLength lam
  let pl := P.plan lam
  { field := fun t =>
      match P.focal with
      | .regular Fy Fx => clip2 Fy.n Fx.n <|
        lensForward S.T S.E S.unit S.ofK (S.norm lam f) pl.m P.emu P.py P.px Fy Fx (lam * f) pl.My pl.Mx (wf.field t)
      | .separated nY nX Y X => clip2 nY nX fun ky kx =>
        lensMftForward S.T P.px.n P.py.n nX nY P.px.x P.py.x X Y (lam * f) (.scalar (S.ofK (P.py.δ * P.px.δ)))
          (fun i => wf.field t (i / P.px.n) (i % P.px.n)) (ky * nX + kx) * S.norm lam f
      | .points n X Y _ => clip2 1 n fun _ k =>
        lensNaiveForward S.T pl.mat S.ofK P.py P.px X Y (lam * f) (wf.field t) k * S.norm lam f
    wavelength := lam
    stokes := wf.stokes }

/-- **`FraunhoferPropagator.backward(wavefront)`** (regular and point-list focal grids). -/
def LensProp.backward (S : Scalars K C) (P : LensProp K) (wf : Wf τ K C) : Wf τ K C :=
  let lam := wf.wavelength
  let f := P.focalLength lam
  let pl := P.plan lam
  { field := fun t => clip2 P.py.n P.px.n <|
      match P.focal with
      | .regular Fy Fx =>
        lensBackward S.T S.E S.cj S.unit S.ofK S.absK (S.norm lam f) pl.m P.emu P.py P.px Fy Fx (lam * f) pl.My pl.Mx
          (wf.field t)
      | .separated _ _ _ _ => fun _ _ => 0      -- needs the automatic weights of a separated grid (C11); not modelled
      | .points n X Y w => fun jy jx =>
        lensNaiveBackward S.T pl.mat S.ofK P.py P.px n X Y w (lam * f) (wf.field t 0) (jy * P.px.n + jx) * (S.norm lam f)⁻¹
    wavelength := lam
    stokes := wf.stokes }

/-- `prop.focal_length = g` (the setter clears the cache: the plans are those of the new focal length) -/
def LensProp.setFocalLength (P : LensProp K) (g : K → K) (plan' : K → Plan) : LensProp K :=
  { P with focalLength := g, plan := plan' }

end poly

/-! ## the executable instance -/

/-- turns characters, `unit = 1`, `norm_factor = (1/λf)·exp(2πi·3/4)` -/
def scalarsQ : Scalars Rat PSum :=
  { T := PSum.turns, E := PSum.turns, cj := PSum.conj, unit := 1, ofK := PSum.ofRat, absK := ratAbs,
    norm := fun lam f => ⟨[⟨1 / (lam * f), 3 / 4, 0⟩]⟩ }

/-- the focal grid of a case: a regular grid (`RegGrid`, x first), or coordinate lists -/
inductive FocalSpecGrid where
  | regular (g : RegGrid)
  | separated (X Y : List Rat)
  | points (X Y w : List Rat)

/-- what `make_fourier_transform` returns for the instance `s`: C01's `choose detectFix` on the descriptors, with the
exact `classify` as numerical part of `get_fft_parameters` (regular focal grids only) -/
def planOf (s : Setup) (focal : FocalSpecGrid) (cheaper mat : Bool) : Plan :=
  match focal with
  | .regular g =>
    let (Mx, My) := match (classify s g).2 with
      | [Mx, My] => (Mx, My)
      | _ => (0, 0)
    { m := (lensMethod s g cheaper).getD .naive, My := My, Mx := Mx, mat := mat }
  | .separated _ _ => { m := (lensMethodSep s 2 cheaper).getD .naive, mat := mat }
  | .points _ _ _ =>
    { m := ((choose detectFix ⟨.regular, true, s.pupil.ndim⟩ (some ⟨⟨.unstructured, true, 2⟩, false⟩) cheaper).map
        (·.method)).getD .naive, mat := mat }

def axesOf (g : RegGrid) : Option (Ax Rat × Ax Rat) :=
  match g.delta, g.dims, g.zero with
  | [δx, δy], [Nx, Ny], [zx, zy] => some (⟨Ny, δy, zy⟩, ⟨Nx, δx, zx⟩)
  | _, _, _ => none

/-- **the object the driver runs**: session (pupil grid + current `focal_length`), focal grid, planner oracle -/
def lensObj (ss : Session) (focal : FocalSpecGrid) (cheaper mat emu : Bool) : Option (LensProp Rat) :=
  match axesOf ss.pupil with
  | none => none
  | some (py, px) =>
    let fg : Option (FocalGrid Rat) := match focal with
      | .regular g => (axesOf g).map fun (Fy, Fx) => .regular Fy Fx
      | .separated X Y => some (.separated Y.length X.length (coordOf Y) (coordOf X))
      | .points X Y w => some (.points X.length (coordOf X) (coordOf Y) (coordOf w))
    fg.map fun fg =>
      { py := py, px := px, focal := fg, focalLength := ss.focalLength.eval,
        plan := fun lam => planOf (ss.instanceAt lam) focal cheaper mat, emu := emu }

/-- **the object after a history of `prop.focal_length = g` assignments**: the executed setter applied to the object
built for the constructor argument; each assignment installs the plans of the new focal length (cache cleared) -/
def lensObjAfter (ss0 : Session) (sets : List FocalSpec) (focal : FocalSpecGrid) (cheaper mat emu : Bool) :
    Option (LensProp Rat) :=
  (lensObj ss0 focal cheaper mat emu).map fun P0 =>
    sets.foldl (fun P g => P.setFocalLength g.eval
      (fun lam => planOf ((ss0.setFocalLength g).instanceAt lam) focal cheaper mat)) P0

/-- a wavefront whose tensor component `t` is `amp_t` times the unit impulse at sample `(iy_t, ix_t)` -/
def impulseWf (comps : List (Nat × Nat × Rat)) (lam : Rat) (stokes : Option (Rat × Rat × Rat × Rat)) :
    Wf Nat Rat PSum :=
  { field := fun t iy ix =>
      match comps[t]? with
      | some (jy, jx, a) => if iy = jy ∧ ix = jx then PSum.ofRat a else 0
      | none => 0
    wavelength := lam
    stokes := stokes }

/-! ## object identity of what a call history creates -/

/-- the heap of ndarray objects: only the allocation counter matters -/
structure Heap where
  next : Nat
deriving Repr, DecidableEq

/-- a `Wavefront` object as the ids of its ndarray attributes -/
structure WfRef where
  field : Nat
  stokes : Option Nat
deriving Repr, DecidableEq

/-- a user-made wavefront: `Wavefront(field, λ, stokes)` — the field array is the user's, the Stokes vector is
copied by `np.array(input_stokes_vector)` -/
def Heap.newWavefront (h : Heap) (hasStokes : Bool) : Heap × WfRef :=
  if hasStokes then (⟨h.next + 2⟩, ⟨h.next, some (h.next + 1)⟩) else (⟨h.next + 1⟩, ⟨h.next, none⟩)

/-- `prop.forward(w)` / `prop.backward(w)`: `U_new = ft.forward(E) * norm_factor` is a new array, the result's
Stokes vector a new copy; the input is not touched -/
def Heap.propagate (h : Heap) (w : WfRef) : Heap × WfRef :=
  match w.stokes with
  | some _ => (⟨h.next + 2⟩, ⟨h.next, some (h.next + 1)⟩)
  | none => (⟨h.next + 1⟩, ⟨h.next, none⟩)

/-- the ndarray ids of a wavefront -/
def WfRef.ids (w : WfRef) : List Nat := w.field :: w.stokes.toList

/-- a history: each step either makes a new user wavefront (with or without Stokes vector) and propagates it, or
propagates the result of an earlier call (`chain i`: wavefront number `i` of the log) -/
inductive Call where
  | fresh (hasStokes : Bool)
  | chain (i : Nat)
deriving Repr, DecidableEq

/-- runs a history; the log lists every wavefront object in order of creation (inputs and results) -/
def runCalls : Heap → List WfRef → List Call → Heap × List WfRef
  | h, log, [] => (h, log)
  | h, log, .fresh s :: cs =>
    let (h1, w) := h.newWavefront s
    let (h2, r) := h1.propagate w
    runCalls h2 (log ++ [w, r]) cs
  | h, log, .chain i :: cs =>
    match log[i]? with
    | some w =>
      let (h2, r) := h.propagate w
      runCalls h2 (log ++ [r]) cs
    | none => runCalls h log cs

end HcipyVerif.Fraunhofer
