import HcipyVerif.Model.Jones
import HcipyVerif.Model.FftIndex
import HcipyVerif.Model.NearField

/-!
# Passive optics (executable model for the passive half of C07) — core Lean only

Scalar-polymorphic like `Model/Jones.lean`: run at `Rat` by `Driver/C07.lean` (ops `mask`, `fibre`,
`knife`, `knifet`, `maskpol`), proved about at `ℝ`/`ℂ` in `Properties/C07.lean`.  A field of `n` pixels is a function
`Nat → Cx K` read on `0 … n-1`; sums are `Fft.sumRange` (shared with the FFT model of C01/C02).

* `maskFwd / maskBwd`   — `Apodizer.forward / backward`: `E·t`, `E·conj t`; the grid (weights) is returned unchanged;
* `power`               — `Wavefront.total_power` of a scalar wavefront: `Σ |E_i|² w_i`;
* `fibreAmp / fibreBack`— `SingleModeFiberInjection.forward / backward`: `a = Σ conj(E_i) w_i m_i` on a one-pixel
  grid of weight 1, and `a·m_i`;
* `knifeRow`            — one row of `KnifeEdgeLyotCoronagraph.forward`: write the row into the zeroed internal
  array at `start`, `fft`, multiply by the (pre-shifted) focal mask, `ifft`, read the cut-out back.  The FFT is the
  DFT specification `Fft.dft` of C01/C02 with the kernel supplied (`gaussKerF/B` for `M ∣ 4`, where all roots of
  unity are Gaussian integers, so the model runs exactly at `Rat`).
-/
namespace HcipyVerif.Passive
open HcipyVerif.Jones HcipyVerif.Fft

section
variable {K : Type} [Zero K] [Add K] [Sub K] [Mul K] [Neg K]

instance : Zero (Cx K) := ⟨⟨0, 0⟩⟩

/-- `Σ_{i<n} |E_i|² w_i` -/
def power (E : Nat → Cx K) (w : Nat → K) (n : Nat) : K := sumRange n fun i => (E i).normSq * w i

/-- `Apodizer.forward` (also every phase-only element, with a unimodular `t`) -/
def maskFwd (t E : Nat → Cx K) : Nat → Cx K := fun i => E i * t i

/-- `Apodizer.backward` -/
def maskBwd (t E : Nat → Cx K) : Nat → Cx K := fun i => E i * (t i).conj

/-- A scalar transmission acting on one pixel of a Jones-matrix (partially polarised) wavefront: every entry times `t`
(`Apodizer.forward`: `electric_field *= apodization` broadcasts over the tensor indices). -/
def maskJ (t : Cx K) (e : J2 K) : J2 K := e.scale t

/-- … of a Jones-vector wavefront. -/
def maskV (t : Cx K) (e : V2 K) : V2 K := ⟨e.x * t, e.y * t⟩

/-- `Wavefront.total_power` of a Jones-matrix wavefront with input Stokes vector `s`: `Σ I_i w_i`, `I` the intensity of
`J C(S) Jᴴ`. -/
def powerJ [Zero K] [Div K] [OfNat K 2] (e : Nat → J2 K) (s : S4 K) (w : Nat → K) (n : Nat) : K :=
  sumRange n fun i => (jonesStokes (e i) s).i * w i

/-- … of a Jones-vector wavefront. -/
def powerV (e : Nat → V2 K) (w : Nat → K) (n : Nat) : K := sumRange n fun i => (vecStokes (e i)).i * w i

/-- `np.dot(E.conj() * weights, mode)` -/
def fibreAmp (E m : Nat → Cx K) (w : Nat → K) (n : Nat) : Cx K :=
  sumRange n fun i => Cx.smul (w i) (E i).conj * m i

/-- `SingleModeFiberInjection.backward`: the amplitude re-expanded on the mode -/
def fibreBack (a : Cx K) (m : Nat → Cx K) : Nat → Cx K := fun i => a * m i

end

section knife
variable {C : Type} [Zero C] [Add C] [Mul C]

/-- `internal[:] = 0; internal[start : start+N] = x` -/
def padAt (N start : Nat) (x : Nat → C) (p : Nat) : C :=
  if start ≤ p ∧ p < start + N then x (p - start) else 0

/-- One row of the knife-edge coronagraph: `ifft(fft(pad x) · mask)[start + j]`; `invM` is `1/M`. -/
def knifeRow (N M start : Nat) (kerF kerB : Int → C) (invM : C) (mask x : Nat → C) (j : Nat) : C :=
  invM * dft M kerB (fun q => mask q * dft M kerF (padAt N start x) q) (j + start)

end knife

section gauss
variable {K : Type} [Zero K] [One K] [Neg K]

/-- `i^k` -/
def iPow (k : Nat) : Cx K :=
  match k % 4 with
  | 0 => ⟨1, 0⟩
  | 1 => ⟨0, 1⟩
  | 2 => ⟨-1, 0⟩
  | _ => ⟨0, -1⟩

/-- `exp(-2πi n/M)` for `M ∣ 4` (Gaussian integers) -/
def gaussKerF (M : Nat) (n : Int) : Cx K := iPow ((-(n * ((4 / M : Nat) : Int)) % 4).toNat)

/-- `exp(+2πi n/M)` for `M ∣ 4` -/
def gaussKerB (M : Nat) (n : Int) : Cx K := iPow (((n * ((4 / M : Nat) : Int)) % 4).toNat)

end gauss
/-! ### Round 5: the knife-edge row exactly, for every internal length

`knifeRow` at the formal phase sums `Fft.PSum` (finite sums of `c·exp(2πi t)`, `c`, `t` rational, exact `+` and `·`; the scalar type the
C01/C04 drivers run their FFT pipelines at): the DFT kernels `exp(∓2πi n/M)` are monomials for *every* `M` (`NearField.pKerF/pKerB`), a
Gaussian rational `a + b i` is `a + b·exp(2πi/4)`.  Driver op `knifep`. -/

def cxToPSum (z : Cx Rat) : Fft.PSum := NearField.psumOfGRat ⟨z.re, z.im⟩

/-- `lyot · crop(ifft(fft(pad(x · apod)) · mask))`, one output pixel, as a formal phase sum. -/
def knifeRowP (N M start : Nat) (mask apod lyot x : Nat → Cx Rat) (j : Nat) : Fft.PSum :=
  cxToPSum (lyot j) * knifeRow N M start (NearField.psumScalar.kerF M) (NearField.psumScalar.kerB M) (Fft.PSum.ofRat (1 / ((M : Nat) : Rat)))
    (fun q => cxToPSum (mask q)) (fun i => cxToPSum (x i) * cxToPSum (apod i)) j

end HcipyVerif.Passive
