/-!
# Binning (C17, C18): `hcipy.field.util.subsample_field`, `evaluate_supersampled`

A field is its flat list of samples in hcipy order (x fastest), i.e. the C-order flatIdx of
`field.shaped`, whose axes are `(…, y, x)`; a tensor field has the tensor indices in front
(slowest).  `subsample_field(field, s, new_grid, statistic)` reshapes to
`(tensor…, n_1, s, n_2, s, …)` with `(n_1, n_2, …) = new_grid.shape` and reduces over the `s`
axes.  `binND` is that index map written by recursion on the axes: split into rows, group `s`
consecutive rows, add them elementwise, recurse into the row.

Everything is polymorphic in the scalar (`Rat` when executed, any field when proved about).
-/
namespace HcipyVerif.Binning

section
variable {α : Type}

/-- `chunks m k v`: the first `k` consecutive blocks of length `m` of `v`. -/
def chunks (m : Nat) : Nat → List α → List (List α)
  | 0, _ => []
  | k + 1, v => v.take m :: chunks m k (v.drop m)

end

section
variable {K : Type} [Add K] [Zero K]

/-- elementwise sum of two images -/
def vadd (a b : List K) : List K := List.zipWith (· + ·) a b

/-- the zero image with `n` pixels -/
def vzero (n : Nat) : List K := List.replicate n 0

/-- elementwise sum of a list of images of `m` pixels each -/
def vsum (m : Nat) (l : List (List K)) : List K := l.foldr vadd (vzero m)

/-- number of samples of the fine array whose coarse shape is `dims` -/
def fineSize (s : Nat) (dims : List Nat) : Nat := (dims.map (· * s)).foldr (· * ·) 1

/-- number of samples of an array of shape `dims` -/
def size (dims : List Nat) : Nat := dims.foldr (· * ·) 1

/-- `statistic='sum'` binning by the factor `s` along every axis; `dims` is the *coarse* shape
(slowest axis first, i.e. `new_grid.shape`). -/
def binND (s : Nat) : List Nat → List K → List K
  | [], v => v
  | n :: rest, v =>
    let m := fineSize s rest
    (chunks s n (chunks m (n * s) v)).flatMap fun g => binND s rest (vsum m g)

/-- number of samples of the fine array for per-axis factors `ss` (same order as `dims`) -/
def fineSizes (ss dims : List Nat) : Nat := (List.zipWith (· * ·) dims ss).foldr (· * ·) 1

/-- `statistic='sum'` binning with one factor per axis (`subsample_field(field, array)`, D180): `ss`
lists the factors in the order of `dims` (slowest axis first, i.e. the reverse of `grid.dims`). -/
def binNDs : List Nat → List Nat → List K → List K
  | s :: ss, n :: rest, v =>
    let m := fineSizes ss rest
    (chunks s n (chunks m (n * s) v)).flatMap fun g => binNDs ss rest (vsum m g)
  | _, _, v => v

/-! ### Spec: which fine samples a coarse pixel adds up (closed form of the index map)

`boxSums dims ss c get` is `Σ_{r_0 < s_0} Σ_{r_1 < s_1} … get(flatIdx fine (c·s + r))`, the sum of the fine samples
`get f` over the box of sub-pixels of the coarse pixel with multi-index `c` (slowest axis first, like `dims`
and `ss`); `flatIdx dims c` is the flat index of `c`.  `Lemmas/Binning.lean: binNDs_getD` proves that pixel
`flatIdx dims c` of `binNDs ss dims v` is `boxSums dims ss c v[·]`; the driver op `binpix` runs `boxSums`. -/

/-- flat (C-order) index of the multi-index `c` in an array of shape `dims` -/
def flatIdx : List Nat → List Nat → Nat
  | [], _ => 0
  | _ :: rest, c => c.headD 0 * size rest + flatIdx rest c.tail

/-- `c` is a valid multi-index of an array of shape `dims` -/
def InBounds : List Nat → List Nat → Prop
  | [], _ => True
  | n :: rest, c => c.headD 0 < n ∧ InBounds rest c.tail

instance : (dims c : List Nat) → Decidable (InBounds dims c)
  | [], _ => isTrue trivial
  | n :: rest, c =>
    have := instDecidableInBounds rest c.tail
    inferInstanceAs (Decidable (c.headD 0 < n ∧ InBounds rest c.tail))

/-- sum of `get` over the fine flat indices of the sub-pixels of coarse pixel `c` -/
def boxSums : List Nat → List Nat → List Nat → (Nat → K) → K
  | [], _, _, get => get 0
  | _ :: rest, ss, c, get =>
    ((List.range (ss.headD 1)).map fun r0 =>
      boxSums rest ss.tail c.tail fun f => get ((c.headD 0 * ss.headD 1 + r0) * fineSizes ss.tail rest + f)).sum

/-- the shape check `reshape` performs: the field must have exactly `fineSize` samples -/
def binSum? (s : Nat) (dims : List Nat) (v : List K) : Option (List K) :=
  if v.length = fineSize s dims then some (binND s dims v) else none

/-- tensor fields: `ncomp` components stored one after the other, each binned on its own -/
def binTensor (s : Nat) (dims : List Nat) (ncomp : Nat) (v : List K) : List K :=
  (chunks (fineSize s dims) ncomp v).flatMap (binND s dims)

/-- tensor fields, literally as the code does it: *one* reshape of the whole array to
`tensor_shape + (n_1, s_1, n_2, s_2, …)` and one reduction over the `s` axes — the tensor axes are leading
axes of the array that are not binned (factor 1).  `Lemmas/Binning.lean: binTensorL_eq` proves that this is
component-wise binning. -/
def binTensorL (ss dims tshape : List Nat) (v : List K) : List K :=
  binNDs (tshape.map (fun _ => 1) ++ ss) (tshape ++ dims) v

def binTensor? (s : Nat) (dims : List Nat) (ncomp : Nat) (v : List K) : Option (List K) :=
  if v.length = ncomp * fineSize s dims then some (binTensor s dims ncomp v) else none

end

section
variable {K : Type} [Add K] [Zero K] [Mul K] [Div K] [NatCast K]

/-- `statistic='mean'` on a regular grid: the sum divided by the number of sub-pixels `s^d`. -/
def binMean (s : Nat) (dims : List Nat) (v : List K) : List K :=
  (binND s dims v).map (· / ((s ^ dims.length : Nat) : K))

/-- `statistic='mean'` with per-axis factors (regular grids): the sum divided by `Π ss` -/
def binMeans (ss dims : List Nat) (v : List K) : List K :=
  (binNDs ss dims v).map (· / ((ss.foldr (· * ·) 1 : Nat) : K))

/-- `statistic='mean'` on a non-regular grid: weighted mean with the grid weights `w`. -/
def binWMean (s : Nat) (dims : List Nat) (v w : List K) : List K :=
  List.zipWith (· / ·) (binND s dims (List.zipWith (· * ·) v w)) (binND s dims w)

/-- the weighted mean with one factor per axis (`subsample_field(field, array, new_grid, 'mean')` on a non-regular
grid): `Σ_bin v·w / Σ_bin w`, whatever the size of the weights (no threshold below which weights "are equal") -/
def binWMeans (ss dims : List Nat) (v w : List K) : List K :=
  List.zipWith (· / ·) (binNDs ss dims (List.zipWith (· * ·) v w)) (binNDs ss dims w)

end

/-! ## Dithered supersampling (`evaluate_supersampled` on separated grids) -/
section
variable {α : Type}

/-- all points of a tensor grid, first axis slowest; a point lists its coordinates in axis order -/
def tensorPts : List (List α) → List (List α)
  | [] => [[]]
  | ax :: rest => ax.flatMap fun t => (tensorPts rest).map (t :: ·)

/-- hcipy's point order for separated coordinates `[x-axis, y-axis, …]`: x fastest -/
def gridPts (sep : List (List α)) : List (List α) := (tensorPts sep.reverse).map List.reverse

end

section
variable {K : Type} [Add K] [Zero K] [Mul K] [Div K] [Sub K] [NatCast K]

/-- `make_uniform_grid(n, 1)` along one axis: `(j + 1/2)/n - 1/2`, `j < n` -/
def dithers1 (n : Nat) : List K :=
  (List.range n).map fun j => ((2 * j + 1 : Nat) : K) / ((2 * n : Nat) : K) - (1 : Nat) / (2 : Nat)

/-- `make_supersampled_grid(grid, n)` along one axis of a regular grid (`zero`, `delta`, `dim` points): `dim·n` points
with spacing `delta/n` starting at `zero - delta/2 + (delta/n)/2` -/
def superAxis (zero delta : K) (dim n : Nat) : List K :=
  (List.range (dim * n)).map fun (k : Nat) =>
    (zero - delta / ((2 : Nat) : K) + delta / (n : K) / ((2 : Nat) : K)) + (k : K) * (delta / (n : K))

/-- the per-point cell widths `evaluate_supersampled` uses along one axis:
`x₁-x₀`, then `(x_{i+1}-x_{i-1})/2`, then `x_{n-1}-x_{n-2}` -/
def deltasInner : List K → List K
  | a :: b :: c :: rest => (c - a) / ((2 : Nat) : K) :: deltasInner (b :: c :: rest)
  | [a, b] => [b - a]
  | _ => []

def deltas : List K → List K
  | a :: b :: rest => (b - a) :: deltasInner (a :: b :: rest)
  | _ => []

/-- dot product of two coordinate lists -/
def dot (c x : List K) : K := (List.zipWith (· * ·) c x).sum

/-- the polynomial generators used by the correspondence: `c0 + Σ c_k x_k + Σ q_k x_k²` -/
def poly (c0 : K) (c q : List K) (x : List K) : K :=
  c0 + dot c x + dot q (List.zipWith (· * ·) x x)

/-- the affine function `c0 + Σ c_k x_k` -/
def affine (c0 : K) (c : List K) (x : List K) : K := c0 + dot c x

/-- shift a point by the dither `d` scaled with the local cell widths `δ` -/
def dithered (x δ d : List K) : List K := List.zipWith (· + ·) x (List.zipWith (· * ·) d δ)

/-- mean of `f` over the dithered copies of one point -/
def superMean (f : List K → K) (ds : List (List K)) (x δ : List K) : K :=
  (ds.map fun d => f (dithered x δ d)).sum / (ds.length : K)

/-- `evaluate_supersampled(f, grid, n, 'mean')` for separated coordinates `sep` (x-axis first)
and per-axis oversampling `ns`; result in hcipy order. -/
def evalSupersampled (f : List K → K) (sep : List (List K)) (ns : List Nat) : List K :=
  let ds := tensorPts (ns.map dithers1)
  let axes := sep.map fun ax => List.zip ax (deltas ax)
  (gridPts axes).map fun pt => superMean f ds (pt.map Prod.fst) (pt.map Prod.snd)

end

/-! ### the dithered sub-grids themselves (round 6, seeded class C18-11)

`evaluate_supersampled` hands the generator one grid per dither: `grid.__class__(SeparatedCoords(x + d_k·δ))` — the
same class (coordinate system) as the grid, every axis shifted by the dither times the local cell widths. -/

/-- the class of a grid object = its coordinate system -/
inductive Sys where
  | cartesian | polar | base
deriving DecidableEq, Repr

/-- a grid with separated coordinates (x-axis first) and its class -/
structure SGrid (K : Type) where
  sys : Sys
  sep : List (List K)

section
variable {K : Type} [Add K] [Zero K] [Mul K] [Div K] [Sub K] [NatCast K]

/-- the sub-grid for the dither `d` (one offset per axis) -/
def ditherGrid (g : SGrid K) (d : List K) : SGrid K :=
  { sys := g.sys
    sep := List.zipWith (fun ax dk => List.zipWith (fun x w => x + dk * w) ax (deltas ax)) g.sep d }

/-- all sub-grids, in the order of `make_uniform_grid(oversampling, 1).points` (x fastest) -/
def subGrids (g : SGrid K) (ns : List Nat) : List (SGrid K) :=
  (gridPts (ns.map dithers1)).map (ditherGrid g)

end

end HcipyVerif.Binning
