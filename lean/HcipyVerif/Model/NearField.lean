/-!
# C04 — executable bookkeeping of `FresnelPropagator` / `AngularSpectrumPropagator` (core Lean only)

Both propagators build `FourierFilter(input_grid, transfer_function, q)`:

* padded (internal) size per axis `M = round(q·N)` (`np.round`, half to even) with `q` per axis (a scalar `zero_padding` is broadcast,
  an array pads each axis by its own factor — possibly only one axis); Fresnel takes
  `q = zero_padding`, angular spectrum always `q = 2`;
* the input is written into `internal[start : start+N]`, `start = ⌊M/2⌋ - ⌊N/2⌋` (no cut-out when
  `M = N`), transformed with `fftn`, multiplied by the transfer function sampled on the internal
  frequency grid (`Δk = 2π/(δ M)`, `zero = -Δk ⌊M/2⌋`), transformed back, cropped;
* the regime switch: `np.any(delta < λ|z|/L_max)`, `L_max = max(dims·delta)` selects the
  *impulse response* branch, otherwise the *transfer function* branch is sampled directly and
  averaged over `s × s` sub-samples (`evaluate_supersampled`, dithers `(j+½)/s - ½`).

Frequencies are carried in cycles per unit length `ν = k⊥/2π`, phases in turns:

* Fresnel   `D = exp(i k z) · exp(-i z k⊥²/(2k))`, `k = 2π n/λ`   ⇒  turns `n z/λ - z λ ν²/(2 n)`;
* angular   `D = exp(i k_z z)`, `k_z = 2π √((n/λ)² - ν²)`          ⇒  radicand `(n/λ)² - ν²`
  (negative radicand = evanescent wave: `D = exp(-2π √(-radicand) · evanescentZ)`).
-/
namespace HcipyVerif.NearField

inductive Kind where
  | fresnel | angular
deriving Repr, DecidableEq

structure Params where
  kind : Kind
  nx : Nat
  ny : Nat
  dx : Rat
  dy : Rat
  lam : Rat
  z : Rat
  n : Rat          -- refractive index
  qx : Rat         -- zero_padding along x (ignored for angular: 2); a scalar argument is broadcast
  qy : Rat         -- zero_padding along y
  sx : Nat         -- num_oversampling along x (already rounded to an integer ≥ 1); a scalar is broadcast
  sy : Nat         -- num_oversampling along y
deriving Repr

def ratAbs (q : Rat) : Rat := if q < 0 then -q else q
def ratMax (a b : Rat) : Rat := if a < b then b else a
def ratMin (a b : Rat) : Rat := if b < a then b else a

/-- `np.round`: round half to even. -/
def roundHalfEven (q : Rat) : Int :=
  let fl := q.floor
  let r := q - (fl : Rat)
  if r < 1/2 then fl
  else if 1/2 < r then fl + 1
  else if fl % 2 = 0 then fl else fl + 1

def effQx (p : Params) : Rat := match p.kind with | .fresnel => p.qx | .angular => 2
def effQy (p : Params) : Rat := match p.kind with | .fresnel => p.qy | .angular => 2

/-- Padded size of one axis: `round(q·N)` (the repaired, integer `make_fft_grid`; the unrepaired
float recomputation `int(N·(round(qN)/N))` can land one short — finding D4, owned by C01). -/
def padded (q : Rat) (N : Nat) : Nat := (roundHalfEven (q * (N : Rat))).toNat

def mx (p : Params) : Nat := padded (effQx p) p.nx
def my (p : Params) : Nat := padded (effQy p) p.ny

/-- `L_max = max(dims · delta)`. -/
def lmax (p : Params) : Rat := ratMax ((p.nx : Rat) * p.dx) ((p.ny : Rat) * p.dy)

/-- `λ |z| / L_max`. -/
def threshold (p : Params) : Rat := p.lam * ratAbs p.z / lmax p

/-- The branch taken by `make_instance`: `true` = impulse response (under-sampled transfer function). -/
def impulseBranch (p : Params) : Bool := p.dx < threshold p || p.dy < threshold p

/-- Distance of the decision from its boundary (for boundary skipping by the harness). -/
def branchSlack (p : Params) : Rat := ratMin p.dx p.dy - threshold p

/-- The regime as the property words it: pixel ≥ λ|z|/extent and pixel ≥ λ/2. -/
def statedRegime (p : Params) : Bool :=
  !impulseBranch p && decide (p.lam / 2 ≤ p.dx) && decide (p.lam / 2 ≤ p.dy)

/-- Cut-out start of one axis, `none` when nothing is padded. -/
def cutStart (M N : Nat) : Nat := M / 2 - N / 2

/-- `(start_y, end_y, start_x, end_x)` in numpy shape order, or `none` (no cut-out). -/
def cutout (p : Params) : Option (Nat × Nat × Nat × Nat) :=
  if mx p = p.nx ∧ my p = p.ny then none
  else some (cutStart (my p) p.ny, cutStart (my p) p.ny + p.ny, cutStart (mx p) p.nx, cutStart (mx p) p.nx + p.nx)

/-- Spacing of the internal frequency grid in cycles per unit: `1/(δ M)` (`Δk = 2π` times this). -/
def nuDelta (δ : Rat) (M : Nat) : Rat := 1 / (δ * (M : Rat))

/-- Dither offsets of `evaluate_supersampled`: `(j + ½)/s - ½`, `j < s`, in units of the spacing. -/
def dithers (s : Nat) : List Rat :=
  (List.range s).map fun (j : Nat) => ((j : Rat) + 1/2) / (s : Rat) - 1/2

/-- Frequency (cycles/unit) of internal index `m` (centred layout, before `ifftshift`) and dither `d`. -/
def nu (δ : Rat) (M : Nat) (m : Nat) (d : Rat) : Rat :=
  ((m : Rat) - ((M / 2 : Nat) : Rat) + d) * nuDelta δ M

/-- Fresnel transfer-function phase in turns at frequency `(νx, νy)`. -/
def fresnelTurns (p : Params) (νx νy : Rat) : Rat :=
  p.n * p.z / p.lam - p.z * p.lam * (νx * νx + νy * νy) / (2 * p.n)

/-- Angular-spectrum radicand `(n/λ)² - ν²`; `k_z = 2π √radicand`. -/
def radicand (p : Params) (νx νy : Rat) : Rat :=
  (p.n / p.lam) * (p.n / p.lam) - (νx * νx + νy * νy)

def frac (q : Rat) : Rat := q - (q.floor : Rat)

/-- All sub-sample frequencies of internal pixel `(ix, iy)`, in the order in which
`make_uniform_grid(oversampling, 1).points` enumerates the dithers (x fastest). -/
def subFreqs (p : Params) (ix iy : Nat) : List (Rat × Rat) :=
  (dithers p.sy).flatMap fun dy => (dithers p.sx).map fun dx =>
    (nu p.dx (mx p) ix dx, nu p.dy (my p) iy dy)

/-- Fresnel: phases (turns mod 1) of the sub-samples whose mean is the transfer function at `(ix,iy)`. -/
def fresnelSubTurns (p : Params) (ix iy : Nat) : List Rat :=
  (subFreqs p ix iy).map fun (a, b) => frac (fresnelTurns p a b)

/-- Angular spectrum: radicands of the sub-samples of pixel `(ix,iy)`. -/
def angularSubRadicands (p : Params) (ix iy : Nat) : List Rat :=
  (subFreqs p ix iy).map fun (a, b) => radicand p a b

/-! ### impulse-response branch

`transfer_function = FastFourierTransform(enlarged_grid).forward(evaluate_supersampled(impulse_response,
enlarged_grid, s))`, `enlarged_grid = make_fft_grid(internal_grid)`: spacing `δ`, `M` samples, centred
(`x_j = (j - ⌊M/2⌋)·δ`).  So `D(ν_i) = δx δy · Σ_j mean_sub h(x_j + dither·δ) · exp(-2πi (i-⌊M/2⌋)(j-⌊M/2⌋)/M)`.

* Fresnel `h = exp(i k z)/(i λ z) · exp(i k r²/(2z))`  ⇒  amplitude `1/(λ z)`, turns `-1/4 + n z/λ + n r²/(2 λ z)`;
* angular `h = cosθ/(2π) · exp(i k R) (1/R² - i k/R)`, `R² = r² + z²` (the model returns `R²`). -/

/-- Coordinate of enlarged-grid index `j` displaced by dither `d`. -/
def xCoord (δ : Rat) (M j : Nat) (d : Rat) : Rat := ((j : Rat) - ((M / 2 : Nat) : Rat) + d) * δ

def fresnelIrAmp (p : Params) : Rat := 1 / (p.lam * p.z)

def fresnelIrTurns (p : Params) (x y : Rat) : Rat :=
  -(1/4 : Rat) + p.n * p.z / p.lam + p.n * (x * x + y * y) / (2 * p.lam * p.z)

/-- Sub-sample points of row `jy` of the enlarged grid: for every `jx`, all `s²` dithers. -/
def irRowPoints (p : Params) (jy : Nat) : List (Rat × Rat) :=
  (List.range (mx p)).flatMap fun jx =>
    (dithers p.sy).flatMap fun dy => (dithers p.sx).map fun dx =>
      (xCoord p.dx (mx p) jx dx, xCoord p.dy (my p) jy dy)

def fresnelIrRow (p : Params) (jy : Nat) : List Rat :=
  (irRowPoints p jy).map fun (x, y) => frac (fresnelIrTurns p x y)

def angularIrRow (p : Params) (jy : Nat) : List Rat :=
  (irRowPoints p jy).map fun (x, y) => x * x + y * y + p.z * p.z

/-- Distance that multiplies `|k_z|` in the decay `exp(-|k_z|·…)` of an evanescent component.
Repaired code (finding D30): `k_z` is conjugated for negative distances, so evanescent waves decay with `|z|`
in either direction and `D_{-z} = conj D_z` holds at every frequency. -/
def evanescentZ (p : Params) : Rat := ratAbs p.z

/-- Unrepaired behaviour: `exp(i k_z z)` with `k_z = +i|k_z|` — grows like `exp(|k_z||z|)` for `z < 0`. -/
def evanescentZOld (p : Params) : Rat := p.z

/-- Largest `|ν|` sampled along one axis (over all pixels and dithers). -/
def nuMaxAbs (δ : Rat) (M s : Nat) : Rat :=
  match dithers s with
  | [] => 0
  | d0 :: ds =>
    let dl := ds.getLastD d0
    ratMax (ratAbs (nu δ M 0 d0)) (ratAbs (nu δ M (M - 1) dl))

/-- Smallest radicand over everything the transfer function samples. -/
def minRadicand (p : Params) : Rat :=
  let a := nuMaxAbs p.dx (mx p) p.sx
  let b := nuMaxAbs p.dy (my p) p.sy
  radicand p a b

/-- No evanescent wave is sampled (`k_z` real everywhere). -/
def noEvanescent (p : Params) : Bool := decide (0 ≤ minRadicand p)

/-! ### One propagator object used repeatedly: the setters between calls

`distance`, `num_oversampling`, `zero_padding`, `refractive_index` have setters that clear the instance
cache; the wavelength comes with each wavefront.  What a call computes is a function of the *current*
parameters only (`withParam` then any of the functions above). -/

inductive Setter where
  | distance (z : Rat)
  | refractiveIndex (n : Rat)
  | oversampling (sx sy : Nat)
  | zeroPadding (qx qy : Rat)
  | wavelength (lam : Rat)
deriving Repr

def withParam (p : Params) : Setter → Params
  | .distance z => { p with z := z }
  | .refractiveIndex n => { p with n := n }
  | .oversampling sx sy => { p with sx := sx, sy := sy }
  | .zeroPadding qx qy => { p with qx := qx, qy := qy }
  | .wavelength lam => { p with lam := lam }

/-- The parameters in force after a sequence of setter calls. -/
def afterSetters (p : Params) (l : List Setter) : Params := l.foldl withParam p

end HcipyVerif.NearField
