import HcipyVerif.Model.FftIndex2

/-!
# C04 — executable bookkeeping of `FresnelPropagator` / `AngularSpectrumPropagator` (core Lean only)

Both propagators build `FourierFilter(input_grid, transfer_function, q)`:

* padded (internal) size per axis `M = round(q·N)` (`np.round`, half to even) with `q` per axis (a scalar `zero_padding` is broadcast,
  an array pads each axis by its own factor — possibly only one axis); Fresnel takes
  `q = zero_padding`, angular spectrum always `q = 2`;
* the input is written into `internal[start : start+N]`, `start = ⌊M/2⌋ - ⌊N/2⌋` (no cut-out when
  `M = N`), transformed with `fftn`, multiplied by the transfer function sampled on the internal
  frequency grid (`Δk = 2π/(δ M)`, `zero = -Δk ⌊M/2⌋`), transformed back, cropped;
* the regime switch: `np.any(delta < λ|z|/L_max)`, `L_max = max(dims·delta)` selects the
  *impulse response* branch, otherwise the *transfer function* branch is sampled directly and
  averaged over `s × s` sub-samples (`evaluate_supersampled`, dithers `(j+½)/s - ½`).

Frequencies are carried in cycles per unit length `ν = k⊥/2π`, phases in turns:

* Fresnel   `D = exp(i k z) · exp(-i z k⊥²/(2k))`, `k = 2π n/λ`   ⇒  turns `n z/λ - z λ ν²/(2 n)`;
* angular   `D = exp(i k_z z)`, `k_z = 2π √((n/λ)² - ν²)`          ⇒  radicand `(n/λ)² - ν²`
  (negative radicand = evanescent wave: `D = exp(-2π √(-radicand) · evanescentZ)`).
-/
namespace HcipyVerif.NearField

inductive Kind where
  | fresnel | angular
deriving Repr, DecidableEq

structure Params where
  kind : Kind
  nx : Nat
  ny : Nat
  dx : Rat
  dy : Rat
  lam : Rat
  z : Rat
  n : Rat          -- refractive index
  qx : Rat         -- zero_padding along x (ignored for angular: 2); a scalar argument is broadcast
  qy : Rat         -- zero_padding along y
  sx : Nat         -- num_oversampling along x (already rounded to an integer ≥ 1); a scalar is broadcast
  sy : Nat         -- num_oversampling along y
deriving Repr

def ratAbs (q : Rat) : Rat := if q < 0 then -q else q
def ratMax (a b : Rat) : Rat := if a < b then b else a
def ratMin (a b : Rat) : Rat := if b < a then b else a

/-- `np.round`: round half to even. -/
def roundHalfEven (q : Rat) : Int :=
  let fl := q.floor
  let r := q - (fl : Rat)
  if r < 1/2 then fl
  else if 1/2 < r then fl + 1
  else if fl % 2 = 0 then fl else fl + 1

def effQx (p : Params) : Rat := match p.kind with | .fresnel => p.qx | .angular => 2
def effQy (p : Params) : Rat := match p.kind with | .fresnel => p.qy | .angular => 2

/-- Padded size of one axis: `round(q·N)` (the repaired, integer `make_fft_grid`; the unrepaired
float recomputation `int(N·(round(qN)/N))` can land one short — finding D4, owned by C01). -/
def padded (q : Rat) (N : Nat) : Nat := (roundHalfEven (q * (N : Rat))).toNat

def mx (p : Params) : Nat := padded (effQx p) p.nx
def my (p : Params) : Nat := padded (effQy p) p.ny

/-- `L_max = max(dims · delta)`. -/
def lmax (p : Params) : Rat := ratMax ((p.nx : Rat) * p.dx) ((p.ny : Rat) * p.dy)

/-- `λ |z| / L_max`. -/
def threshold (p : Params) : Rat := p.lam * ratAbs p.z / lmax p

/-- The branch taken by `make_instance`: `true` = impulse response (under-sampled transfer function). -/
def impulseBranch (p : Params) : Bool := p.dx < threshold p || p.dy < threshold p

/-- Distance of the decision from its boundary (for boundary skipping by the harness). -/
def branchSlack (p : Params) : Rat := ratMin p.dx p.dy - threshold p

/-- The regime as the property words it: pixel ≥ λ|z|/extent and pixel ≥ λ/2. -/
def statedRegime (p : Params) : Bool :=
  !impulseBranch p && decide (p.lam / 2 ≤ p.dx) && decide (p.lam / 2 ≤ p.dy)

/-- Cut-out start of one axis, `none` when nothing is padded. -/
def cutStart (M N : Nat) : Nat := M / 2 - N / 2

/-- `(start_y, end_y, start_x, end_x)` in numpy shape order, or `none` (no cut-out). -/
def cutout (p : Params) : Option (Nat × Nat × Nat × Nat) :=
  if mx p = p.nx ∧ my p = p.ny then none
  else some (cutStart (my p) p.ny, cutStart (my p) p.ny + p.ny, cutStart (mx p) p.nx, cutStart (mx p) p.nx + p.nx)

/-- Internal index (one axis) of input index `i`: `internal[start + i] = input[i]`, `start = cutStart M N`.
This is the map the slice `start : start+N` of `FourierFilter.cutout` realises; with nothing padded
(`M = N`) `start = 0` and it is the identity (the code then skips the copy altogether). -/
def embAxis (M N i : Nat) : Nat := cutStart M N + i

/-- Internal row of input row `iy` / internal column of input column `ix`. -/
def embY (p : Params) (iy : Nat) : Nat := embAxis (my p) p.ny iy
def embX (p : Params) (ix : Nat) : Nat := embAxis (mx p) p.nx ix

/-- The complete cut-out as the driver prints it: internal rows of input rows `0 … ny-1`, internal columns
of input columns `0 … nx-1` (the embedding is the product of the two). -/
def embRows (p : Params) : List Nat := (List.range p.ny).map (embY p)
def embCols (p : Params) : List Nat := (List.range p.nx).map (embX p)

/-- What the driver (and hcipy's constructors) insist on: a non-empty grid and padding factors `≥ 1`. -/
def padOK (p : Params) : Bool :=
  decide (0 < p.nx) && decide (0 < p.ny) && decide (1 ≤ effQx p) && decide (1 ≤ effQy p)

/-- Spacing of the internal frequency grid in cycles per unit: `1/(δ M)` (`Δk = 2π` times this). -/
def nuDelta (δ : Rat) (M : Nat) : Rat := 1 / (δ * (M : Rat))

/-- Dither offsets of `evaluate_supersampled`: `(j + ½)/s - ½`, `j < s`, in units of the spacing. -/
def dithers (s : Nat) : List Rat :=
  (List.range s).map fun (j : Nat) => ((j : Rat) + 1/2) / (s : Rat) - 1/2

/-- Frequency (cycles/unit) of internal index `m` (centred layout, before `ifftshift`) and dither `d`. -/
def nu (δ : Rat) (M : Nat) (m : Nat) (d : Rat) : Rat :=
  ((m : Rat) - ((M / 2 : Nat) : Rat) + d) * nuDelta δ M

/-- Fresnel transfer-function phase in turns at frequency `(νx, νy)`. -/
def fresnelTurns (p : Params) (νx νy : Rat) : Rat :=
  p.n * p.z / p.lam - p.z * p.lam * (νx * νx + νy * νy) / (2 * p.n)

/-- Angular-spectrum radicand `(n/λ)² - ν²`; `k_z = 2π √radicand`. -/
def radicand (p : Params) (νx νy : Rat) : Rat :=
  (p.n / p.lam) * (p.n / p.lam) - (νx * νx + νy * νy)

def frac (q : Rat) : Rat := q - (q.floor : Rat)

/-- All sub-sample frequencies of internal pixel `(ix, iy)`, in the order in which
`make_uniform_grid(oversampling, 1).points` enumerates the dithers (x fastest). -/
def subFreqs (p : Params) (ix iy : Nat) : List (Rat × Rat) :=
  (dithers p.sy).flatMap fun dy => (dithers p.sx).map fun dx =>
    (nu p.dx (mx p) ix dx, nu p.dy (my p) iy dy)

/-- `np.fft.ifftshift` along one axis of length `M`: `ifftshift(a)[q] = a[(q + ⌊M/2⌋) mod M]` — the centred index
whose transfer-function sample multiplies FFT bin `q`. -/
def ifftshiftIdx (M q : Nat) : Nat := (q + M / 2) % M

/-- Fresnel: phases (turns mod 1) of the sub-samples whose mean is the transfer function at `(ix,iy)`. -/
def fresnelSubTurns (p : Params) (ix iy : Nat) : List Rat :=
  (subFreqs p ix iy).map fun (a, b) => frac (fresnelTurns p a b)

/-- Angular spectrum: radicands of the sub-samples of pixel `(ix,iy)`. -/
def angularSubRadicands (p : Params) (ix iy : Nat) : List Rat :=
  (subFreqs p ix iy).map fun (a, b) => radicand p a b

/-! ### impulse-response branch

`transfer_function = FastFourierTransform(enlarged_grid).forward(evaluate_supersampled(impulse_response,
enlarged_grid, s))`, `enlarged_grid = make_fft_grid(internal_grid)`: spacing `δ`, `M` samples, centred
(`x_j = (j - ⌊M/2⌋)·δ`).  So `D(ν_i) = δx δy · Σ_j mean_sub h(x_j + dither·δ) · exp(-2πi (i-⌊M/2⌋)(j-⌊M/2⌋)/M)`.

* Fresnel `h = exp(i k z)/(i λ z) · exp(i k r²/(2z))`  ⇒  amplitude `1/(λ z)`, turns `-1/4 + n z/λ + n r²/(2 λ z)`;
* angular `h = cosθ/(2π) · exp(i k R) (1/R² - i k/R)`, `R² = r² + z²` (the model returns `R²`). -/

/-- Coordinate of enlarged-grid index `j` displaced by dither `d`. -/
def xCoord (δ : Rat) (M j : Nat) (d : Rat) : Rat := ((j : Rat) - ((M / 2 : Nat) : Rat) + d) * δ

def fresnelIrAmp (p : Params) : Rat := 1 / (p.lam * p.z)

def fresnelIrTurns (p : Params) (x y : Rat) : Rat :=
  -(1/4 : Rat) + p.n * p.z / p.lam + p.n * (x * x + y * y) / (2 * p.lam * p.z)

/-- Sub-sample points of row `jy` of the enlarged grid: for every `jx`, all `s²` dithers. -/
def irRowPoints (p : Params) (jy : Nat) : List (Rat × Rat) :=
  (List.range (mx p)).flatMap fun jx =>
    (dithers p.sy).flatMap fun dy => (dithers p.sx).map fun dx =>
      (xCoord p.dx (mx p) jx dx, xCoord p.dy (my p) jy dy)

def fresnelIrRow (p : Params) (jy : Nat) : List Rat :=
  (irRowPoints p jy).map fun (x, y) => frac (fresnelIrTurns p x y)

def angularIrRow (p : Params) (jy : Nat) : List Rat :=
  (irRowPoints p jy).map fun (x, y) => x * x + y * y + p.z * p.z

/-- Distance that multiplies `|k_z|` in the decay `exp(-|k_z|·…)` of an evanescent component.
Repaired code (finding D30): `k_z` is conjugated for negative distances, so evanescent waves decay with `|z|`
in either direction and `D_{-z} = conj D_z` holds at every frequency. -/
def evanescentZ (p : Params) : Rat := ratAbs p.z

/-- Unrepaired behaviour: `exp(i k_z z)` with `k_z = +i|k_z|` — grows like `exp(|k_z||z|)` for `z < 0`. -/
def evanescentZOld (p : Params) : Rat := p.z

/-- Largest `|ν|` sampled along one axis (over all pixels and dithers). -/
def nuMaxAbs (δ : Rat) (M s : Nat) : Rat :=
  match dithers s with
  | [] => 0
  | d0 :: ds =>
    let dl := ds.getLastD d0
    ratMax (ratAbs (nu δ M 0 d0)) (ratAbs (nu δ M (M - 1) dl))

/-- Smallest radicand over everything the transfer function samples. -/
def minRadicand (p : Params) : Rat :=
  let a := nuMaxAbs p.dx (mx p) p.sx
  let b := nuMaxAbs p.dy (my p) p.sy
  radicand p a b

/-- No evanescent wave is sampled (`k_z` real everywhere). -/
def noEvanescent (p : Params) : Bool := decide (0 ≤ minRadicand p)

/-! ### Stokes-`I` intensity of a Jones-matrix wavefront with an input Stokes vector

`Wavefront.I` (hcipy/optics/wavefront.py l.121-139), written exactly as the code writes it, for the Jones
matrix `(x y; z w)` (real and imaginary parts separately) and the Stokes vector `(a, b, c, d)`; polymorphic in
the scalar so that the driver runs it at `Rat` and `stokes_power_nonincreasing` is about it at `ℝ`. -/

def stokesI {K : Type} [Add K] [Sub K] [Mul K] [Neg K] [Div K] [OfNat K 2]
    (a b c d xr xi yr yi zr zi wr wi : K) : K :=
  let m11 := (xr * xr + xi * xi) + (yr * yr + yi * yi) + (zr * zr + zi * zi) + (wr * wr + wi * wi)
  let m12 := (xr * xr + xi * xi) - (yr * yr + yi * yi) + (zr * zr + zi * zi) - (wr * wr + wi * wi)
  let m13 := 2 * (xr * yr + xi * yi + zr * wr + zi * wi)
  let m14 := 2 * (-xr * yi + xi * yr - zr * wi + zi * wr)
  (m11 * a + m12 * b + m13 * c + m14 * d) / 2

/-- The Stokes vectors for which `I` is a positive semi-definite form (degree of polarisation `≤ 1`). -/
def stokesPhysical (a b c d : Rat) : Bool := decide (0 ≤ a) && decide (b * b + c * c + d * d ≤ a * a)

/-! ### matrix-valued transfer function (`FourierFilter` with a tensor transfer function)

`FourierFilter._operation` (fourier_operations.py l.127-139): when the transfer function is a matrix field the
point-wise product is `field_dot(tf, f)` — at every internal sample the matrix `D` times the vector (or matrix)
of field components — and the adjoint uses `field_conjugate_transpose(tf)`.  Polymorphic in the scalar: the
driver runs it on Gaussian rationals, `filterM_adjoint` is about it at `ℂ`. -/

/-- `Σ_{j<n} f j`. -/
def sumFin {K : Type} [Add K] [Zero K] (n : Nat) (f : Fin n → K) : K := ((List.finRange n).map f).sum

/-- `field_dot(D, v)` at one sample: matrix times vector. -/
def matVec {K : Type} [Add K] [Mul K] [Zero K] {n : Nat} (D : Fin n → Fin n → K) (v : Fin n → K) : Fin n → K :=
  fun i => sumFin n fun j => D i j * v j

/-- `field_conjugate_transpose(D)` at one sample (`cj` = complex conjugation of the scalar). -/
def conjT {K : Type} {n : Nat} (cj : K → K) (D : Fin n → Fin n → K) : Fin n → Fin n → K :=
  fun i j => cj (D j i)

/-- Gaussian rationals: the exact complex numbers the driver computes with. -/
structure GRat where
  re : Rat
  im : Rat
deriving Repr, DecidableEq

instance : Add GRat := ⟨fun a b => ⟨a.re + b.re, a.im + b.im⟩⟩
instance : Mul GRat := ⟨fun a b => ⟨a.re * b.re - a.im * b.im, a.re * b.im + a.im * b.re⟩⟩
instance : Zero GRat := ⟨⟨0, 0⟩⟩
def GRat.conj (a : GRat) : GRat := ⟨a.re, -a.im⟩

/-- Row-major list of `n²` entries as a matrix, list of `n` entries as a vector (`0` beyond the end). -/
def matOfList (n : Nat) (l : List GRat) : Fin n → Fin n → GRat := fun i j => l.getD (i.val * n + j.val) 0
def vecOfList (n : Nat) (l : List GRat) : Fin n → GRat := fun i => l.getD i.val 0
def listOfVec {n : Nat} (v : Fin n → GRat) : List GRat := (List.finRange n).map v

/-- `field_dot(D, v)` (`adjoint = false`) or `field_dot(field_conjugate_transpose(D), v)` (`adjoint = true`)
at one sample, entries as lists. -/
def mdot (n : Nat) (adjoint : Bool) (D v : List GRat) : List GRat :=
  let Dm := matOfList n D
  listOfVec (matVec (if adjoint then conjT GRat.conj Dm else Dm) (vecOfList n v))

/-! ### The `FourierFilter._operation` pipeline itself (fourier_operations.py l.88-153), executable

`f[:] = 0; f[cutout] = field` → `fftn` → multiply by the `ifftshift`ed transfer function → `ifftn` → `[cutout]`.
Polymorphic in the scalar and in the DFT kernels (`Fft.dft2`, the specification of `fftn` shared with C01/C02):
the driver op `filt` runs *these definitions* on Gaussian rationals with the exact kernels of the sizes 1, 2, 4
(`gKerF`, `gKerB`: powers of `i`) and the harness compares the output with the real `FourierFilter.forward/backward`;
at `ℂ` with the kernels `exp(∓2πi n/M)` they are the operator `filter (dftPair2 …) (cutoutEmb p h)` of the theorems
(`filter_dft2_eq_filterP` in `Properties/C04.lean`). -/

section pipeline
variable {C : Type} [Zero C] [Add C] [Mul C]

/-- `internal[:] = 0; internal[sy:sy+ny, sx:sx+nx] = f`. -/
def padAt (sy sx ny nx : Nat) (f : Nat → Nat → C) (py px : Nat) : C :=
  if (sy ≤ py ∧ py < sy + ny) ∧ (sx ≤ px ∧ px < sx + nx) then f (py - sy) (px - sx) else 0

/-- `internal[sy:sy+ny, sx:sx+nx]`. -/
def cropAt (sy sx : Nat) (a : Nat → Nat → C) (ky kx : Nat) : C := a (sy + ky) (sx + kx)

/-- `np.fft.ifftshift(transfer_function)`: the array that multiplies FFT bin `(qy,qx)`, from the centred one. -/
def shiftD (My Mx : Nat) (Dc : Nat → Nat → C) (qy qx : Nat) : C := Dc (ifftshiftIdx My qy) (ifftshiftIdx Mx qx)

/-- `FourierFilter._operation`: `crop (scale · ifftn (D · fftn (pad x)))`; `D` in FFT layout, `scale = 1/(My·Mx)`,
`kF*` / `kB*` the forward / inverse DFT kernels of the two axes. -/
def filterN (My Mx : Nat) (kFy kFx kBy kBx : Int → C) (scale : C) (sy sx ny nx : Nat)
    (D x : Nat → Nat → C) : Nat → Nat → C :=
  cropAt sy sx fun qy qx => scale * Fft.dft2 My Mx kBy kBx
    (fun py px => D py px * Fft.dft2 My Mx kFy kFx (padAt sy sx ny nx x) py px) qy qx

/-- `FourierFilter.backward`: the same pipeline with the conjugated transfer function (`cj` = conjugation). -/
def filterNBackward (cj : C → C) (My Mx : Nat) (kFy kFx kBy kBx : Int → C) (scale : C) (sy sx ny nx : Nat)
    (D x : Nat → Nat → C) : Nat → Nat → C :=
  filterN My Mx kFy kFx kBy kBx scale sy sx ny nx (fun py px => cj (D py px)) x

/-- The pipeline with the sizes and the cut-out of the propagator / filter described by `p`. -/
def filterP (p : Params) (kFy kFx kBy kBx : Int → C) (scale : C) (D x : Nat → Nat → C) : Nat → Nat → C :=
  filterN (my p) (mx p) kFy kFx kBy kBx scale (cutStart (my p) p.ny) (cutStart (mx p) p.nx) p.ny p.nx D x

def filterPBackward (cj : C → C) (p : Params) (kFy kFx kBy kBx : Int → C) (scale : C) (D x : Nat → Nat → C) :
    Nat → Nat → C :=
  filterNBackward cj (my p) (mx p) kFy kFx kBy kBx scale (cutStart (my p) p.ny) (cutStart (mx p) p.nx) p.ny p.nx D x

end pipeline

/-- `i^k` as a Gaussian rational. -/
def gPowI (k : Int) : GRat :=
  match (k % 4).toNat with
  | 0 => ⟨1, 0⟩
  | 1 => ⟨0, 1⟩
  | 2 => ⟨-1, 0⟩
  | _ => ⟨0, -1⟩

/-- Inverse-DFT kernel `exp(+2πi n/M)` for `M ∣ 4` (exact: a power of `i`). -/
def gKerB (M : Nat) (n : Int) : GRat := gPowI (n * ((4 / M : Nat) : Int))

/-- Forward-DFT kernel `exp(-2πi n/M)` for `M ∣ 4`. -/
def gKerF (M : Nat) (n : Int) : GRat := gPowI (-(n * ((4 / M : Nat) : Int)))

/-- Row-major list (row length `w`) as an array (`0` beyond the end). -/
def gratArr (w : Nat) (l : List GRat) : Nat → Nat → GRat := fun iy ix => l.getD (iy * w + ix) 0

/-- What the driver op `filt` computes: `FourierFilter(grid, D, q).forward(x)` (`back = false`) or `.backward(x)`
for the filter described by `p` (internal sizes in `{1,2,4}`), `D` the centred transfer function on the internal
grid (row-major, `My·Mx` entries), `x` the input (row-major, `ny·nx` entries); output row-major. -/
def filtOp (p : Params) (back : Bool) (D x : List GRat) : List GRat :=
  let My := my p
  let Mx := mx p
  let sc : GRat := ⟨1 / ((My * Mx : Nat) : Rat), 0⟩
  let Ds := shiftD My Mx (gratArr Mx D)
  let r := if back then filterPBackward GRat.conj p (gKerF My) (gKerF Mx) (gKerB My) (gKerB Mx) sc Ds (gratArr p.nx x)
           else filterP p (gKerF My) (gKerF Mx) (gKerB My) (gKerB Mx) sc Ds (gratArr p.nx x)
  (List.range p.ny).flatMap fun iy => (List.range p.nx).map fun ix => r iy ix

/-! ### the same pipeline on formal phase sums: any internal size

`Fft.PSum` (`Model/FftIndex.lean`, the scalar type the C01 driver runs the FFT pipeline at): finite sums of
`c·exp(2πi t)`, `c, t` rational, exact `+` and `·`.  The DFT kernels of *every* size are monomials, a Gaussian rational
`a + b i` is `a + b·exp(2πi/4)`.  The driver op `filtp` runs `filterP` / `filterPBackward` at this scalar type;
`filtp_*_denotes_complex_pipeline` (Properties) says its output evaluates to the complex pipeline of the theorems. -/

def psumOfGRat (g : GRat) : Fft.PSum := Fft.PSum.ofRat g.re + Fft.PSum.ofRat g.im * Fft.PSum.turns (1 / 4)

/-- complex conjugation of a formal phase sum: negate every phase -/
def psumConj (a : Fft.PSum) : Fft.PSum := ⟨a.terms.map fun x => ⟨x.c, Fft.fracPart (-x.t), -x.r⟩⟩

/-! ### one definition of the propagators, parametrised by the scalar type and its character

`Scalar C` is what the pipeline needs of the numbers it computes with besides `0, +, ·`: the embedding of the rationals,
the character `t ↦ exp(2πi t)` (phases in turns) and complex conjugation.  `fourierFilter`, `fourierFilterBackward`,
`fresnelForward`, `fresnelBackward`, `fourierFilterM`, `fourierFilterMBackward` below are *the* model of
`FourierFilter.forward/backward` and `FresnelPropagator.forward/backward` (transfer-function branch): the driver ops
`filtp`, `prop`, `filtmp` run them at `psumScalar` (formal phase sums, exact for every size) and the harness compares the
result with the running code; the property theorems of `Properties/C04.lean` are stated about the same definitions at
`cScalar` (`ℂ`, `exp(2πi t)`; `Lemmas/NearFieldScalar.lean`). -/

structure Scalar (C : Type) where
  ofRat : Rat → C
  turns : Rat → C
  conj : C → C

section scalarPipeline
variable {C : Type} [Zero C] [Add C] [Mul C]

/-- forward / inverse DFT kernels `exp(∓2πi n/M)` -/
def Scalar.kerF (S : Scalar C) (M : Nat) (n : Int) : C := S.turns (-((n : Rat) / (M : Rat)))
def Scalar.kerB (S : Scalar C) (M : Nat) (n : Int) : C := S.turns ((n : Rat) / (M : Rat))

/-- `FourierFilter(grid, D, q).forward(x)`: `crop (ifftn (D · fftn (pad x)))` with the sizes and the cut-out of `p`;
`D` in FFT layout. -/
def fourierFilter (S : Scalar C) (p : Params) (D x : Nat → Nat → C) : Nat → Nat → C :=
  filterP p (S.kerF (my p)) (S.kerF (mx p)) (S.kerB (my p)) (S.kerB (mx p))
    (S.ofRat (1 / ((my p * mx p : Nat) : Rat))) D x

/-- `FourierFilter(grid, D, q).backward(x)`: the same with the conjugated transfer function. -/
def fourierFilterBackward (S : Scalar C) (p : Params) (D x : Nat → Nat → C) : Nat → Nat → C :=
  filterPBackward S.conj p (S.kerF (my p)) (S.kerF (mx p)) (S.kerB (my p)) (S.kerB (mx p))
    (S.ofRat (1 / ((my p * mx p : Nat) : Rat))) D x

/-- mean of `exp(2πi t)` over a list of phases in turns (`evaluate_supersampled`: the sub-pixel average) -/
def meanTurns (S : Scalar C) (l : List Rat) : C :=
  S.ofRat (1 / (l.length : Rat)) * (l.map S.turns).foldr (· + ·) 0

/-- The Fresnel transfer function that multiplies FFT bin `(qy,qx)` (`ifftshift` applied): the sub-pixel mean of
`exp(2πi · fresnelTurns)` over the executable sample frequencies of the centred pixel. -/
def fresnelTF (S : Scalar C) (p : Params) (qy qx : Nat) : C :=
  meanTurns S (fresnelSubTurns p (ifftshiftIdx (mx p) qx) (ifftshiftIdx (my p) qy))

/-- `FresnelPropagator.forward` on a scalar field (transfer-function branch of `make_instance`). -/
def fresnelForward (S : Scalar C) (p : Params) (x : Nat → Nat → C) : Nat → Nat → C :=
  fourierFilter S p (fresnelTF S p) x

/-- `FresnelPropagator.backward`. -/
def fresnelBackward (S : Scalar C) (p : Params) (x : Nat → Nat → C) : Nat → Nat → C :=
  fourierFilterBackward S p (fresnelTF S p) x

/-! #### the impulse-response branch of `FresnelPropagator.make_instance`, and the regime switch

`transfer_function = FastFourierTransform(enlarged_grid).forward(evaluate_supersampled(impulse_response, enlarged_grid, s))`:
the impulse response `exp(ikz)/(iλz)·exp(ik r²/2z)` has the *rational* amplitude `fresnelIrAmp` and the rational phase
`fresnelIrTurns` (turns), so its sub-pixel mean is `fresnelIrAmp · meanTurns`, and the centred discrete transform
`δx δy Σ_j h_j exp(-2πi (i-⌊M/2⌋)(j-⌊M/2⌋)/M)` of `FastFourierTransform.forward` is a finite sum of such terms: the whole
transfer function of this branch is a formal phase sum as well. -/

/-- phases (turns mod 1) of the `sx·sy` sub-samples of the impulse response at pixel `(jx,jy)` of the enlarged grid -/
def fresnelIrSubTurns (p : Params) (jx jy : Nat) : List Rat :=
  (dithers p.sy).flatMap fun dy => (dithers p.sx).map fun dx =>
    frac (fresnelIrTurns p (xCoord p.dx (mx p) jx dx) (xCoord p.dy (my p) jy dy))

/-- offset of index `i` from the centre `⌊M/2⌋` of an axis of length `M` -/
def centred (M i : Nat) : Int := (i : Int) - ((M / 2 : Nat) : Int)

/-- The transfer function of the impulse-response branch at the *centred* internal pixel `(iy,ix)`:
`δx δy /(λ z) · Σ_{jy,jx} mean_sub exp(2πi·fresnelIrTurns) · exp(-2πi (iy-cy)(jy-cy)/My) · exp(-2πi (ix-cx)(jx-cx)/Mx)`. -/
def fresnelIrTFc (S : Scalar C) (p : Params) (iy ix : Nat) : C :=
  S.ofRat (p.dx * p.dy * fresnelIrAmp p) *
    Fft.sumRange (my p) fun jy => Fft.sumRange (mx p) fun jx =>
      meanTurns S (fresnelIrSubTurns p jx jy) *
        (S.kerF (my p) (centred (my p) jy * centred (my p) iy) * S.kerF (mx p) (centred (mx p) jx * centred (mx p) ix))

/-- … as it multiplies FFT bin `(qy,qx)` (`ifftshift` applied by `FourierFilter`). -/
def fresnelIrTF (S : Scalar C) (p : Params) (qy qx : Nat) : C :=
  fresnelIrTFc S p (ifftshiftIdx (my p) qy) (ifftshiftIdx (mx p) qx)

/-- The transfer function `FresnelPropagator.make_instance` hands to `FourierFilter`, **with the regime switch**
`np.any(input_grid.delta < wavelength * abs(distance) / L_max)` (`impulseBranch`; the *vacuum* wavelength — the refractive
index does not enter the decision). -/
def fresnelTFSwitched (S : Scalar C) (p : Params) (qy qx : Nat) : C :=
  if impulseBranch p then fresnelIrTF S p qy qx else fresnelTF S p qy qx

/-- `FresnelPropagator.forward` on a scalar field, either branch of `make_instance`. -/
def fresnelPropagatorForward (S : Scalar C) (p : Params) (x : Nat → Nat → C) : Nat → Nat → C :=
  if impulseBranch p then fourierFilter S p (fresnelIrTF S p) x else fresnelForward S p x

/-- `FresnelPropagator.backward`, either branch. -/
def fresnelPropagatorBackward (S : Scalar C) (p : Params) (x : Nat → Nat → C) : Nat → Nat → C :=
  if impulseBranch p then fourierFilterBackward S p (fresnelIrTF S p) x else fresnelBackward S p x

end scalarPipeline

/-- The regime switch as it would be with the wavelength *inside the medium* `λ/n` (the variant argued for by the seeded
patch C04-11).  Not what the code does; kept to state the difference (`Alt.*` theorems). -/
def impulseBranchMedium (p : Params) : Bool :=
  p.dx < (p.lam / p.n) * ratAbs p.z / lmax p || p.dy < (p.lam / p.n) * ratAbs p.z / lmax p

/-- the executable instance: formal phase sums -/
def psumScalar : Scalar Fft.PSum := ⟨Fft.PSum.ofRat, Fft.PSum.turns, psumConj⟩

/-- What the driver op `filtp` computes (as `filtOp`, any internal size): one formal phase sum per output pixel. -/
def filtOpP (p : Params) (back : Bool) (D x : List GRat) : List Fft.PSum :=
  let My := my p
  let Mx := mx p
  let Ds := shiftD My Mx (fun a b => psumOfGRat (gratArr Mx D a b))
  let xs := fun a b => psumOfGRat (gratArr p.nx x a b)
  let r := if back then fourierFilterBackward psumScalar p Ds xs else fourierFilter psumScalar p Ds xs
  (List.range p.ny).flatMap fun iy => (List.range p.nx).map fun ix => r iy ix

/-! ### the Fresnel propagator itself, exactly

On the transfer-function branch the Fresnel transfer function at an internal pixel is the mean of `exp(2πi t)` over the
rational phases `fresnelSubTurns` — a formal phase sum.  So the whole `FresnelPropagator.forward` is computed exactly. -/

/-- What the driver op `prop` computes: `FresnelPropagator(...).forward(x)` / `.backward(x)` (either branch of the regime switch) on
formal phase sums; `x` row-major `ny·nx` Gaussian rationals. -/
def propOpP (p : Params) (back : Bool) (x : List GRat) : List Fft.PSum :=
  let xs := fun a b => psumOfGRat (gratArr p.nx x a b)
  let r := if back then fresnelPropagatorBackward psumScalar p xs else fresnelPropagatorForward psumScalar p xs
  (List.range p.ny).flatMap fun iy => (List.range p.nx).map fun ix => r iy ix

/-- What the driver op `irtf` computes: the transfer function of the set-up Fresnel propagator at FFT bin `(qy,qx)`
as `FourierFilter` multiplies with it, whichever branch `make_instance` takes. -/
def tfOpP (p : Params) (qy qx : Nat) : Fft.PSum := fresnelTFSwitched psumScalar p qy qx

/-! ### the pipeline with a matrix-valued transfer function (`field_dot(tf, ·)` between the transforms) -/

section pipelineM
variable {C : Type} [Zero C] [Add C] [Mul C] {n : Nat}

/-- `FourierFilter._operation` with a tensor transfer function on a vector field: component `t` of
`crop (scale · ifftn (field_dot(D, fftn (pad x))))`; `D py px` is the matrix at internal sample `(py,px)` (FFT layout). -/
def filterMN (My Mx : Nat) (kFy kFx kBy kBx : Int → C) (scale : C) (sy sx ny nx : Nat)
    (D : Nat → Nat → Fin n → Fin n → C) (x : Fin n → Nat → Nat → C) : Fin n → Nat → Nat → C :=
  fun t => cropAt sy sx fun qy qx => scale * Fft.dft2 My Mx kBy kBx
    (fun py px => matVec (D py px) (fun j => Fft.dft2 My Mx kFy kFx (padAt sy sx ny nx (x j)) py px) t) qy qx

/-- `.backward`: the same with `field_conjugate_transpose(D)`. -/
def filterMNBackward (cj : C → C) (My Mx : Nat) (kFy kFx kBy kBx : Int → C) (scale : C) (sy sx ny nx : Nat)
    (D : Nat → Nat → Fin n → Fin n → C) (x : Fin n → Nat → Nat → C) : Fin n → Nat → Nat → C :=
  filterMN My Mx kFy kFx kBy kBx scale sy sx ny nx (fun py px => conjT cj (D py px)) x

def filterMP (p : Params) (kFy kFx kBy kBx : Int → C) (scale : C)
    (D : Nat → Nat → Fin n → Fin n → C) (x : Fin n → Nat → Nat → C) : Fin n → Nat → Nat → C :=
  filterMN (my p) (mx p) kFy kFx kBy kBx scale (cutStart (my p) p.ny) (cutStart (mx p) p.nx) p.ny p.nx D x

def filterMPBackward (cj : C → C) (p : Params) (kFy kFx kBy kBx : Int → C) (scale : C)
    (D : Nat → Nat → Fin n → Fin n → C) (x : Fin n → Nat → Nat → C) : Fin n → Nat → Nat → C :=
  filterMNBackward cj (my p) (mx p) kFy kFx kBy kBx scale (cutStart (my p) p.ny) (cutStart (mx p) p.nx) p.ny p.nx D x

/-- `FourierFilter(grid, tensor D, q).forward(x)` / `.backward(x)` on a vector field, at the scalar `S`. -/
def fourierFilterM (S : Scalar C) (p : Params) (D : Nat → Nat → Fin n → Fin n → C) (x : Fin n → Nat → Nat → C) :
    Fin n → Nat → Nat → C :=
  filterMP p (S.kerF (my p)) (S.kerF (mx p)) (S.kerB (my p)) (S.kerB (mx p))
    (S.ofRat (1 / ((my p * mx p : Nat) : Rat))) D x

def fourierFilterMBackward (S : Scalar C) (p : Params) (D : Nat → Nat → Fin n → Fin n → C)
    (x : Fin n → Nat → Nat → C) : Fin n → Nat → Nat → C :=
  filterMPBackward S.conj p (S.kerF (my p)) (S.kerF (mx p)) (S.kerB (my p)) (S.kerB (mx p))
    (S.ofRat (1 / ((my p * mx p : Nat) : Rat))) D x

end pipelineM

/-- What the driver op `filtmp` computes: `FourierFilter(grid, D, q).forward(x)` / `.backward(x)` for an `n×n` matrix
transfer function `D` (centred; list index `(i·n + j)·My·Mx + pixel`) and a vector field `x` (list index
`t·ny·nx + pixel`), on formal phase sums; output index `t·ny·nx + pixel`. -/
def filtMOpP (p : Params) (n : Nat) (back : Bool) (D x : List GRat) : List Fft.PSum :=
  let My := my p
  let Mx := mx p
  let Dc : Nat → Nat → Fin n → Fin n → Fft.PSum := fun a b i j => psumOfGRat (D.getD ((i.val * n + j.val) * (My * Mx) + (a * Mx + b)) 0)
  let Ds : Nat → Nat → Fin n → Fin n → Fft.PSum := fun qy qx => Dc (ifftshiftIdx My qy) (ifftshiftIdx Mx qx)
  let xs : Fin n → Nat → Nat → Fft.PSum := fun t a b => psumOfGRat (x.getD (t.val * (p.ny * p.nx) + (a * p.nx + b)) 0)
  let r := if back then fourierFilterMBackward psumScalar p Ds xs else fourierFilterM psumScalar p Ds xs
  (List.finRange n).flatMap fun t => (List.range p.ny).flatMap fun iy => (List.range p.nx).map fun ix => r t iy ix

/-! ### One propagator object used repeatedly: the setters between calls

`distance`, `num_oversampling`, `zero_padding`, `refractive_index` have setters that clear the instance
cache; the wavelength comes with each wavefront.  What a call computes is a function of the *current*
parameters only (`withParam` then any of the functions above). -/

inductive Setter where
  | distance (z : Rat)
  | refractiveIndex (n : Rat)
  | oversampling (sx sy : Nat)
  | zeroPadding (qx qy : Rat)
  | wavelength (lam : Rat)
deriving Repr

def withParam (p : Params) : Setter → Params
  | .distance z => { p with z := z }
  | .refractiveIndex n => { p with n := n }
  | .oversampling sx sy => { p with sx := sx, sy := sy }
  | .zeroPadding qx qy => { p with qx := qx, qy := qy }
  | .wavelength lam => { p with lam := lam }

/-- The parameters in force after a sequence of setter calls. -/
def afterSetters (p : Params) (l : List Setter) : Params := l.foldl withParam p

/-! ### dtype / tensor-shape bookkeeping of one `FourierFilter` object (`_compute_functions`, fourier_operations.py l.40-56)

The object caches the `ifftshift`ed transfer function cast to the dtype of the last field (`_transfer_function`) and a
scratch array per dtype and tensor shape (`internal_array`).  A call with a field of dtype `dt` and tensor shape `ts`
recomputes the transfer function *from its source* when none is cached or the cached dtype differs, and reallocates the
scratch array when none exists or its rank, dtype or tensor shape differ.  Driver op `dtypes`; compared with the
attributes of the real object after every call of a session. -/

inductive Dt where
  | c64 | c128
deriving Repr, DecidableEq

structure FState where
  tf : Option Dt := none                  -- dtype of the cached `_transfer_function`
  arr : Option (Dt × List Nat) := none    -- dtype and tensor shape of `internal_array`
deriving Repr, DecidableEq

structure Call where
  dt : Dt
  ts : List Nat
deriving Repr, DecidableEq

/-- is the transfer function recomputed from its source by this call? -/
def tfRecomputed (s : FState) (c : Call) : Bool :=
  match s.tf with
  | none => true
  | some d => decide (d ≠ c.dt)

/-- is the scratch array reallocated by this call? -/
def arrRecomputed (s : FState) (c : Call) : Bool :=
  match s.arr with
  | none => true
  | some (d, ts) => decide (ts.length ≠ c.ts.length) || decide (d ≠ c.dt) || decide (ts ≠ c.ts)

def callStep (s : FState) (c : Call) : FState :=
  { tf := if tfRecomputed s c then some c.dt else s.tf,
    arr := if arrRecomputed s c then some (c.dt, c.ts) else s.arr }

def runCalls (s : FState) (l : List Call) : FState := l.foldl callStep s

/-- what the driver prints: per call the two recompute flags and the state after the call -/
def traceCalls : FState → List Call → List (Bool × Bool × FState)
  | _, [] => []
  | s, c :: l => (tfRecomputed s c, arrRecomputed s c, callStep s c) :: traceCalls (callStep s c) l

end HcipyVerif.NearField
