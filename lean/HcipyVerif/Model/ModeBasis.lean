/-!
# C14 — model of `ModeBasis` (hcipy/mode_basis/mode_basis.py)

A mode basis is a transformation matrix with `npix` rows (points of the grid) and `nmodes`
columns (the modes).  The code keeps it in one of two storages:

* **dense** – a NumPy array `(npix, nmodes)`; modelled as the list of its rows;
* **sparse** – a SciPy CSC matrix; modelled as the list of its columns, each column the list of
  its stored `(row index, value)` pairs *in storage order* (explicit zeros and duplicate
  entries are allowed: SciPy sums duplicates whenever it evaluates the matrix).  The flat CSC
  triple `(indptr, indices, data)` is cut into columns by `splitCSC`.

The four input forms of `ModeBasis.__init__` (dense matrix, sparse matrix, list of fields, list
of sparse row vectors) are the four functions `fromDense`, `fromCSC`, `fromFields`,
`fromSparseRows`.  Everything is polymorphic in the scalar `K` through plain notation classes
(`Zero`, `Add`, `Mul`, …) so that it *runs* at `CRat` (Gaussian rationals, below; a real number
is `⟨q, 0⟩`) and is *proved about* over any commutative ring / field.

SciPy/NumPy kernels are modelled by their specification (DESIGN.md section 5): `.dot` is the
matrix–vector product, `hstack`/`concatenate(axis=-1)` glue columns, `csc_matrix(A)` +
`eliminate_zeros` keeps the non-zero entries, `todense` sums the stored entries per cell,
column indexing follows Python's int / slice / index-list / mask rules.

`getItem` is the **repaired** `__getitem__` (pending_fixes/D22): whether a single mode or a
`ModeBasis` comes back is decided by the index expression.  `getItemOld` is the code as pinned:
a sparse basis returns a single mode whenever the selection happens to have exactly one column.
-/
namespace HcipyVerif.ModeBasis

/-! ## Gaussian rationals (execution only) -/

structure CRat where
  re : Rat
  im : Rat
deriving DecidableEq, Repr

namespace CRat
instance : Zero CRat := ⟨⟨0, 0⟩⟩
instance : One CRat := ⟨⟨1, 0⟩⟩
instance : Add CRat := ⟨fun a b => ⟨a.re + b.re, a.im + b.im⟩⟩
instance : Sub CRat := ⟨fun a b => ⟨a.re - b.re, a.im - b.im⟩⟩
instance : Neg CRat := ⟨fun a => ⟨-a.re, -a.im⟩⟩
instance : Mul CRat := ⟨fun a b => ⟨a.re * b.re - a.im * b.im, a.re * b.im + a.im * b.re⟩⟩
def conj (a : CRat) : CRat := ⟨a.re, -a.im⟩
def normSq (a : CRat) : Rat := a.re * a.re + a.im * a.im
instance : NatCast CRat := ⟨fun n => ⟨(n : Rat), 0⟩⟩
instance : Div CRat := ⟨fun a b =>
  let d := normSq b
  ⟨(a.re * b.re + a.im * b.im) / d, (a.im * b.re - a.re * b.im) / d⟩⟩
end CRat

section
variable {K : Type}

/-! ## Dense linear algebra on lists -/

/-- `Σ rᵢ·cᵢ` -/
def dot [Zero K] [Add K] [Mul K] (r c : List K) : K := (List.zipWith (· * ·) r c).sum

/-- matrix (list of rows) times vector -/
def matvec [Zero K] [Add K] [Mul K] (rows : List (List K)) (c : List K) : List K :=
  rows.map (dot · c)

/-- the `n × m` table of a function -/
def table (n m : Nat) (f : Nat → Nat → K) : List (List K) :=
  (List.range n).map fun i => (List.range m).map fun j => f i j

/-- entry `(i, j)` of a list-of-rows matrix (zero outside) -/
def rowsEntry [Zero K] (rows : List (List K)) (i j : Nat) : K := (rows.getD i []).getD j 0

/-! ## Storage forms -/

/-- a stored sparse column: `(row index, value)` pairs in storage order -/
abbrev SCol (K : Type) := List (Nat × K)

/-- value of a sparse column at row `i`: the sum of the stored entries with that row index -/
def colEntry [Zero K] [Add K] (col : SCol K) (i : Nat) : K :=
  ((col.filter fun p => p.1 == i).map (·.2)).sum

inductive Basis (K : Type) where
  | dense (npix nmodes : Nat) (rows : List (List K))
  | sparse (npix nmodes : Nat) (cols : List (SCol K))
deriving Repr

namespace Basis
def npix : Basis K → Nat
  | dense n _ _ => n
  | sparse n _ _ => n
def nmodes : Basis K → Nat
  | dense _ m _ => m
  | sparse _ m _ => m
def isSparse : Basis K → Bool
  | dense .. => false
  | sparse .. => true
end Basis

/-- entry `(pixel i, mode j)` of the transformation matrix -/
def ent [Zero K] [Add K] : Basis K → Nat → Nat → K
  | .dense _ _ rows, i, j => rowsEntry rows i j
  | .sparse _ _ cols, i, j => colEntry (cols.getD j []) i

/-- The denotation shared by all storage forms: the transformation matrix as a list of rows. -/
def toDense [Zero K] [Add K] (b : Basis K) : List (List K) := table b.npix b.nmodes (ent b)

/-- mode `j` as a vector of length `npix` -/
def column [Zero K] [Add K] (b : Basis K) (j : Nat) : List K :=
  (List.range b.npix).map fun i => ent b i j

/-- shapes are what NumPy/SciPy guarantee -/
def WF : Basis K → Prop
  | .dense n m rows => rows.length = n ∧ ∀ r ∈ rows, r.length = m
  | .sparse n m cols => cols.length = m ∧ ∀ c ∈ cols, ∀ p ∈ c, p.1 < n

/-! ## The four constructors -/

/-- `ModeBasis(ndarray of shape (npix, nmodes))` -/
def fromDense (npix nmodes : Nat) (rows : List (List K)) : Basis K := .dense npix nmodes rows

/-- cut a flat CSC triple into its columns -/
def splitCSC (nmodes : Nat) (indptr : List Nat) (indices : List Nat) (data : List K) : List (SCol K) :=
  (List.range nmodes).map fun j =>
    ((indices.zip data).drop (indptr.getD j 0)).take (indptr.getD (j + 1) 0 - indptr.getD j 0)

/-- `ModeBasis(scipy.sparse matrix)` (`.tocsc()`) -/
def fromCSC (npix nmodes : Nat) (indptr indices : List Nat) (data : List K) : Basis K :=
  .sparse npix nmodes (splitCSC nmodes indptr indices data)

/-- `ModeBasis([field₀, field₁, …])`: `np.stack(modes, axis=-1)` -/
def fromFields [Zero K] (npix : Nat) (modes : List (List K)) : Basis K :=
  .dense npix modes.length (table npix modes.length fun i j => (modes.getD j []).getD i 0)

/-- `ModeBasis([sparse row₀, sparse row₁, …])`: `vstack` then transpose; the column index of an
entry of row vector `j` becomes its row (pixel) index in column `j`. -/
def fromSparseRows (npix : Nat) (modes : List (SCol K)) : Basis K :=
  .sparse npix modes.length modes

/-! ## The constructor dispatch (`ModeBasis.__init__`, l.24-58)

`Input` describes the Python object handed to the constructor; `fromInput` is the decision the
constructor takes on it (`issparse(matrix)`, `issparse(matrix[0])`, "every element has one row",
`isinstance(matrix, (list, tuple))`) followed by the conversion of the chosen branch
(`csc_matrix(…)`, `vstack(…).T.tocsc()`, `np.stack(…, axis=-1)`, `np.asarray`).  `none` stands
for the `ValueError` raised by `np.stack` / `scipy.sparse.vstack` on an empty, ragged or mixed
list.  Outside the model (not generated by the harness): a list whose first element is a sparse
matrix and that contains a sparse matrix of more than one row (the code then stacks the objects
into a useless object array without raising), and mixed lists over a grid of one point (a
length-one vector passes the `shape[0] == 1` test for sparse rows). -/

inductive SpFmt where
  | csc | csr | coo
deriving Repr, DecidableEq

/-- one element of a list / tuple handed to the constructor -/
inductive Mode (K : Type) where
  /-- an array_like / `Field`: one value per grid point -/
  | vec (v : List K)
  /-- a SciPy sparse matrix of shape `(nrows, ncols)`; for a row vector (`nrows = 1`) `entries`
  are its stored `(column index, value)` pairs -/
  | sp (nrows ncols : Nat) (entries : SCol K)
deriving Repr

inductive Input (K : Type) where
  /-- a two-dimensional `ndarray` -/
  | ndarray (npix nmodes : Nat) (rows : List (List K))
  /-- a SciPy sparse matrix: CSC `(indptr, indices, data)`, CSR `(indptr, indices, data)` or
  COO `(row, col, data)` -/
  | spmat (fmt : SpFmt) (npix nmodes : Nat) (p q : List Nat) (data : List K)
  /-- a Python list (`isTuple = false`) or tuple of modes -/
  | seq (isTuple : Bool) (items : List (Mode K))
deriving Repr

/-- `csc_matrix(A)` for a CSR matrix `A` given as its list of stored rows: column `j` collects,
row by row, the stored entries with column index `j`. -/
def transposeRows (m : Nat) (rows : List (SCol K)) : List (SCol K) :=
  (List.range m).map fun j =>
    (List.range rows.length).flatMap fun i =>
      ((rows.getD i []).filter fun p => p.1 == j).map fun p => (i, p.2)

/-- `csc_matrix(A)` for a COO matrix: column `j` collects the triples with column index `j` -/
def cooCols (m : Nat) (row col : List Nat) (data : List K) : List (SCol K) :=
  (List.range m).map fun j =>
    ((col.zip (row.zip data)).filter fun t => t.1 == j).map fun t => t.2

/-- every element a dense vector of the given length (`np.stack` accepts the list) -/
def allVec (n : Nat) : List (Mode K) → Option (List (List K))
  | [] => some []
  | .vec v :: rest => if v.length = n then (allVec n rest).map (v :: ·) else none
  | .sp .. :: _ => none

/-- every element a sparse matrix with one row and `n` columns (`vstack` accepts the list and
the constructor takes it for a list of sparse modes) -/
def allRow (n : Nat) : List (Mode K) → Option (List (SCol K))
  | [] => some []
  | .sp nr nc e :: rest => if nr = 1 ∧ nc = n then (allRow n rest).map (e :: ·) else none
  | .vec _ :: _ => none

def fromInput [Zero K] : Input K → Option (Basis K)
  | .ndarray n m rows => some (fromDense n m rows)
  | .spmat .csc n m ip ix d => some (fromCSC n m ip ix d)
  | .spmat .csr n m ip ix d => some (.sparse n m (transposeRows m (splitCSC n ip ix d)))
  | .spmat .coo n m r c d => some (.sparse n m (cooCols m r c d))
  | .seq _ [] => none
  | .seq _ (.sp nr nc e :: rest) => (allRow nc (.sp nr nc e :: rest)).map (fromSparseRows nc)
  | .seq _ (.vec v :: rest) => (allVec v.length (.vec v :: rest)).map (fromFields v.length)

/-- What NumPy/SciPy guarantee about the object an `Input` describes (shapes of an ndarray,
lengths and index ranges of the arrays of a sparse matrix).  The driver evaluates this very
predicate on every `new` request and answers `bad-op` when it fails — so every basis the driver
ever builds comes from a valid input, and `Properties/C14.lean` (`fromInput_WF`) proves that
this makes the basis well-formed (`WF`, the hypothesis of the basis theorems). -/
def Mode.valid : Mode K → Bool
  | .vec _ => true
  | .sp _ nc e => e.all fun p => p.1 < nc

def Input.valid : Input K → Bool
  | .ndarray n m rows => rows.length == n && rows.all (·.length == m)
  | .spmat .csc n m p q d =>
    p.length == m + 1 && q.length == d.length && q.all (· < n) && p.getLast? == some d.length
  | .spmat .csr n m p q d =>
    p.length == n + 1 && q.length == d.length && q.all (· < m) && p.getLast? == some d.length
  | .spmat .coo n m p q d =>
    p.length == d.length && q.length == d.length && p.all (· < n) && q.all (· < m)
  | .seq _ items => items.all Mode.valid

/-! ## Operations -/

/-- `linear_combination`: `transformation_matrix.dot(coefficients)`.  Dense: row-by-row dot
products.  Sparse: column-by-column accumulation (`y += c_j · column_j`). -/
def linComb [Zero K] [Add K] [Mul K] : Basis K → List K → List K
  | .dense _ _ rows, c => matvec rows c
  | .sparse n _ cols, c =>
    (List.range n).map fun i => (List.zipWith (fun col cj => colEntry col i * cj) cols c).sum

/-- `to_dense()` -/
def densify [Zero K] [Add K] (b : Basis K) : Basis K :=
  match b with
  | .dense .. => b
  | .sparse n m _ => .dense n m (toDense b)

/-- the non-zero entries of column `j` of a list-of-rows matrix -/
def compressCol [Zero K] [DecidableEq K] (rows : List (List K)) (j : Nat) : SCol K :=
  ((List.range rows.length).map fun i => (i, rowsEntry rows i j)).filter fun p => p.2 ≠ 0

/-- `to_sparse()`: `csc_matrix(T)` followed by `eliminate_zeros()` -/
def sparsify [Zero K] [DecidableEq K] (b : Basis K) : Basis K :=
  match b with
  | .sparse .. => b
  | .dense n m rows => .sparse n m ((List.range m).map (compressCol rows))

/-- `a + b` (`__add__`): `np.concatenate(axis=-1)` when both are dense, else
`scipy.sparse.hstack(..., 'csc')`; a differing number of pixels is a `ValueError` (`none`). -/
def add [Zero K] [Add K] [DecidableEq K] (a b : Basis K) : Option (Basis K) :=
  if a.npix ≠ b.npix then none else
  match a, b with
  | .dense n m ra, .dense _ m' rb => some (.dense n (m + m') (List.zipWith (· ++ ·) ra rb))
  | _, _ =>
    match sparsify a, sparsify b with
    | .sparse n m ca, .sparse _ m' cb => some (.sparse n (m + m') (ca ++ cb))
    | _, _ => none

/-- `a.extend(b)` (in place; the storage form of `a` is kept): dense `a` concatenates the
densified modes of `b` along the last axis, sparse `a` `hstack`s. -/
def extend [Zero K] [Add K] [DecidableEq K] (a b : Basis K) : Option (Basis K) :=
  if a.npix ≠ b.npix then none else
  match a with
  | .dense n m ra => some (.dense n (m + b.nmodes) (List.zipWith (· ++ ·) ra (toDense b)))
  | .sparse n m ca =>
    match sparsify b with
    | .sparse _ m' cb => some (.sparse n (m + m') (ca ++ cb))
    | _ => none

/-- `a.append(mode)` (in place): one more column -/
def append [Zero K] [Add K] [DecidableEq K] (a : Basis K) (v : List K) : Option (Basis K) :=
  if v.length ≠ a.npix then none else extend a (.dense a.npix 1 (v.map fun x => [x]))

/-! ### Index expressions -/

inductive Index where
  | int (k : Int)
  | slice (start stop step : Option Int)
  | list (l : List Int)
  | mask (l : List Bool)
deriving Repr, DecidableEq

inductive IdxErr where
  | index   -- IndexError
  | value   -- ValueError (slice step zero)
deriving Repr, DecidableEq

/-- Python's normalisation of one integer index against length `n` -/
def normIndex (n : Nat) (k : Int) : Option Nat :=
  if 0 ≤ k then (if k < n then some k.toNat else none)
  else (if 0 ≤ k + n then some (k + n).toNat else none)

/-- CPython's `slice(start, stop, step).indices(n)` (`PySlice_Unpack` + `PySlice_AdjustIndices`):
the normalised triple `(start, stop, step)`; `none` = `ValueError` (step zero).  A missing step is
1; a missing start / stop is the end of the range the step walks away from / towards
(`lower`/`upper`, which are `0`/`n` for a positive and `-1`/`n-1` for a negative step); a negative
start / stop counts from the end and is clamped to `lower`, a too large one to `upper`. -/
def sliceIndices (n : Nat) (start stop step : Option Int) : Option (Int × Int × Int) :=
  let st := step.getD 1
  if st = 0 then none else
  let lower : Int := if st < 0 then -1 else 0
  let upper : Int := if st < 0 then (n : Int) - 1 else n
  let adj (x : Int) : Int :=
    if x < 0 then (if x + n < lower then lower else x + n) else (if x > upper then upper else x)
  let s := match start with | none => (if st < 0 then upper else lower) | some x => adj x
  let e := match stop with | none => (if st < 0 then lower else upper) | some x => adj x
  some (s, e, st)

/-- `len(range(s, e, st))` as CPython computes it (`st ≠ 0`) -/
def rangeLen (s e st : Int) : Nat :=
  if st > 0 then (if s < e then ((e - s + st - 1) / st).toNat else 0)
  else (if e < s then ((s - e - st - 1) / (-st)).toNat else 0)

/-- `list(range(s, e, st))` for a range that stays inside the naturals -/
def rangeList (s e st : Int) : List Nat :=
  (List.range (rangeLen s e st)).map fun (k : Nat) => (s + (k : Int) * st).toNat

/-- the positions a slice selects: `range(*slice(start, stop, step).indices(n))` -/
def sliceIdx (n : Nat) (start stop step : Option Int) : Option (List Nat) :=
  (sliceIndices n start stop step).map fun t => rangeList t.1 t.2.1 t.2.2

/-- positions selected by a list-like index expression -/
def selIdx (n : Nat) : Index → Except IdxErr (List Nat)
  | .int k => match normIndex n k with | some i => .ok [i] | none => .error .index
  | .slice a b c => match sliceIdx n a b c with | some l => .ok l | none => .error .value
  | .list l => match l.mapM (normIndex n) with | some l => .ok l | none => .error .index
  | .mask l => if l.length = n then
      .ok (((List.range n).zip l).filterMap fun p => if p.2 then some p.1 else none)
    else .error .index

/-- `T[..., idx]` on the stored matrix (storage form kept) -/
def selectCols [Zero K] : Basis K → List Nat → Basis K
  | .dense n _ rows, idx => .dense n idx.length (rows.map fun r => idx.map fun j => r.getD j 0)
  | .sparse n _ cols, idx => .sparse n idx.length (idx.map fun j => cols.getD j [])

inductive Item (K : Type) where
  | mode (v : List K)
  | basis (b : Basis K)
deriving Repr

/-- Repaired `__getitem__`: an integer index returns that mode (densified), every other index
expression returns a `ModeBasis` in the same storage form. -/
def getItem [Zero K] [Add K] (b : Basis K) (ix : Index) : Except IdxErr (Item K) :=
  match selIdx b.nmodes ix with
  | .error e => .error e
  | .ok idx =>
    match ix with
    | .int _ => .ok (.mode (column b (idx.getD 0 0)))
    | _ => .ok (.basis (selectCols b idx))

/-- `__getitem__` as pinned (defect D22): a sparse basis decides by the *shape of the result*. -/
def getItemOld [Zero K] [Add K] (b : Basis K) (ix : Index) : Except IdxErr (Item K) :=
  match selIdx b.nmodes ix with
  | .error e => .error e
  | .ok idx =>
    match b with
    | .dense .. =>
      (match ix with
       | .int _ => .ok (.mode (column b (idx.getD 0 0)))
       | _ => .ok (.basis (selectCols b idx)))
    | .sparse .. =>
      if idx.length = 1 then .ok (.mode (column b (idx.getD 0 0)))
      else .ok (.basis (selectCols b idx))

/-! ### Least squares (`coefficients_for`, executable reference)

`x = argmin ‖A x − b‖²` through the normal equations `Aᴴ A x = Aᴴ b`, solved exactly by
Gauss–Jordan elimination; `none` when `Aᴴ A` is singular (dependent modes).  `conj` is complex
conjugation (`id` for a real scalar).  The driver certifies every result it prints by evaluating
`certified conj b x y` (`normalResidual conj b x y = 0` and `x.length = nmodes`, exactly; defined
below); `Properties/C14.lean` proves that this evaluation never fails (`lstsq_sound`: the Gauss–Jordan model is
sound) and that `lstsq` always answers for independent modes (`lstsq_complete`, so
`lstsq_total`: `lstsq conj b (A·c) = some c`), that `certified … = true` makes `x` a minimiser of the residual (`normal_eq_minimises`, `…_complex`), hence
equal to `c` when `y = A·c` with independent modes (`lstsq_certified_recovers`), and that the
result does not depend on the storage form (`coefficients_storage_independent`). -/

def elimRow [Zero K] [Sub K] [Mul K] (k : Nat) (p r : List K) : List K :=
  let f := r.getD k 0
  List.zipWith (fun a q => a - f * q) r p

def pivotStep [Zero K] [Sub K] [Mul K] [Div K] [DecidableEq K] (M : List (List K)) (k : Nat) :
    Option (List (List K)) :=
  let top := M.take k
  let rest := M.drop k
  match rest.find? (fun r => r.getD k 0 ≠ 0) with
  | none => none
  | some p =>
    let pv := p.getD k 0
    let pn := p.map (· / pv)
    let rest' := rest.eraseP (fun r => r.getD k 0 ≠ 0)
    some (top.map (elimRow k pn) ++ [pn] ++ rest'.map (elimRow k pn))

def gaussJordan [Zero K] [Sub K] [Mul K] [Div K] [DecidableEq K] (n : Nat) (M : List (List K)) :
    Option (List K) :=
  ((List.range n).foldlM pivotStep M).map fun M' => M'.map (·.getD n 0)

/-- conjugate transpose of the table of a basis, as rows of `Aᴴ` -/
def adjRows [Zero K] [Add K] (conj : K → K) (b : Basis K) : List (List K) :=
  (List.range b.nmodes).map fun j => (column b j).map conj

def lstsq [Zero K] [Add K] [Sub K] [Mul K] [Div K] [DecidableEq K] (conj : K → K) (b : Basis K)
    (y : List K) : Option (List K) :=
  let AH := adjRows conj b
  let cols := (List.range b.nmodes).map (column b)
  let G := AH.map fun r => cols.map fun c => dot r c
  let h := matvec AH y
  gaussJordan b.nmodes (List.zipWith (fun g hi => g ++ [hi]) G h)

/-- `Aᴴ (A x − y)`: zero exactly when `x` solves the normal equations -/
def normalResidual [Zero K] [Add K] [Sub K] [Mul K] (conj : K → K) (b : Basis K) (x y : List K) :
    List K :=
  matvec (adjRows conj b) (List.zipWith (· - ·) (matvec (toDense b) x) y)

/-- The exact certificate the driver evaluates on the output `x` of `lstsq` before it answers
`coefficients_for` with it: the normal equations hold exactly and `x` has one coefficient per
mode.  `Properties/C14.lean` states the least-squares theorems about this very predicate. -/
def certified [Zero K] [Add K] [Sub K] [Mul K] [DecidableEq K] (conj : K → K) (b : Basis K)
    (x y : List K) : Bool :=
  (normalResidual conj b x y).all (· == 0) && x.length == b.nmodes

end

end HcipyVerif.ModeBasis
