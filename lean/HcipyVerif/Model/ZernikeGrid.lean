import HcipyVerif.Model.Zernike

/-!
Round 6 — the grid as an *object with a history*.  `Grid.reverse / scale / shift / rotate` change the points of a grid in place
(and `reversed / scaled / …` do the same on a deep copy); a Zernike mode evaluated afterwards is the mode at the **current**
points.  The operations on exact rational points (Cartesian: `(x, y)`; polar: `(r, cos θ, sin θ)`; separated polar: the two axes),
and the mode lists the driver answers with (`C13 mode` after any number of `C13 gop …`).
-/
namespace HcipyVerif.Zernike

/-- in-place transformations of a grid (`scale` per axis on Cartesian grids; `rotate` by the angle with `(cos, sin) = (c, s)`) -/
inductive GOp where
  | reverse
  | scale (kx ky : Rat)
  | shift (dx dy : Rat)
  | rotate (c s : Rat)

/-- `CartesianGrid.{reverse, scale, shift, rotate}` on the list of points -/
def GOp.xy : GOp → List (Rat × Rat) → List (Rat × Rat)
  | .reverse, p => p.reverse
  | .scale kx ky, p => p.map fun q => (kx * q.1, ky * q.2)
  | .shift dx dy, p => p.map fun q => (q.1 + dx, q.2 + dy)
  | .rotate c s, p => p.map fun q => (c * q.1 - s * q.2, s * q.1 + c * q.2)

/-- `PolarGrid.{reverse, scale, rotate}` on `(r, cos θ, sin θ)`; a polar grid is scaled by one factor only, and a shift leaves
the exact representation (`none`) -/
def GOp.polar : GOp → List (Rat × Rat × Rat) → Option (List (Rat × Rat × Rat))
  | .reverse, p => some p.reverse
  | .scale kx ky, p => if kx = ky then some (p.map fun q => (kx * q.1, q.2.1, q.2.2)) else none
  | .shift _ _, _ => none
  | .rotate c s, p => some (p.map fun q => (q.1, q.2.1 * c - q.2.2 * s, q.2.2 * c + q.2.1 * s))

/-- the same on the axes of a separated polar grid (`SeparatedCoords.reverse` reverses every axis) -/
def GOp.sep : GOp → List Rat × List (Rat × Rat) → Option (List Rat × List (Rat × Rat))
  | .reverse, (R, d) => some (R.reverse, d.reverse)
  | .scale kx ky, (R, d) => if kx = ky then some (R.map (kx * ·), d) else none
  | .shift _ _, _ => none
  | .rotate c s, (R, d) => some (R, d.map fun q => (q.1 * c - q.2 * s, q.2 * c + q.1 * s))

/-- a whole history of in-place operations -/
def runOpsXY (ops : List GOp) (p : List (Rat × Rat)) : List (Rat × Rat) := ops.foldl (fun p o => o.xy p) p

/-- rational factor of `zernike(n, m, D, grid, cutoff)` on a Cartesian grid with points `p` (what `C13 mode` answers) -/
def modesXY (n : Nat) (m : Int) (D : Rat) (cut : Bool) (p : List (Rat × Rat)) : List Rat :=
  p.map fun q => modeQXYCut n m D q.1 q.2 cut

/-- … on an unstructured polar grid -/
def modesPolar (n : Nat) (m : Int) (D : Rat) (cut : Bool) (p : List (Rat × Rat × Rat)) : List Rat :=
  p.map fun q => modeQCut n m D q.1 q.2.1 q.2.2 cut

end HcipyVerif.Zernike
