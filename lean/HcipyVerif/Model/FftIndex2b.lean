import HcipyVerif.Model.FftIndex2

/-!
# `FastFourierTransform.backward` on two axes — executable, core Lean only

The literal 2-D pipeline (`ifftn` carries the factor `1/(My·Mx)`), and the 1-D pipeline applied
along `x` and then along `y`.
-/
namespace HcipyVerif.Fft

section pipeline
variable {K C : Type} [Add K] [Sub K] [Mul K] [Neg K] [Div K] [NatCast K] [IntCast K]
  [Zero C] [One C] [Add C] [Mul C] [Inv C] [NatCast C]
variable (T E : K → C)

/-- `FastFourierTransform.backward` on a 2-D grid, literally: divide by `shift_input`, pad into
the internal array, (`ifftshift`,) `ifftn`, (`fftshift`,) cut out the input window, divide by
`shift_output`. -/
def fastBackward2 (gy gx : Cfg K C) (F : Nat → Nat → C) (jy jx : Nat) : C :=
  ((gy.M : C) * (gx.M : C))⁻¹ *
    core2 (!gx.emu) gy.Mo gy.M gy.N gx.Mo gx.M gx.N (gy.kerB T) (gx.kerB T)
      (fun ky kx => F ky kx * (outMult2 T E gy gx ky kx)⁻¹) jy jx
    * (inMult2 T E gy gx jy jx)⁻¹

/-- the 1-D backward pipeline along `x`, then along `y` -/
def fastBackward2Iter (gy gx : Cfg K C) (F : Nat → Nat → C) (jy jx : Nat) : C :=
  fastBackward T E gy (fun ky => fastBackward T E gx (F ky) jx) jy

end pipeline
end HcipyVerif.Fft
