/-!
# Phase-only and passive optics (model for C07) — core Lean only

A phase-only element multiplies every pixel by `exp(i · κ · unit · p)` where `p` is the exposed
per-pixel parameter (phase, surface sag, mirror surface, lenslet OPD, layer phase·λ), `unit` is
`1`, `2π/λ` or `1/λ`, and `κ` is the rational coefficient modelled here, for `forward` and `backward`.
The magnifier rescales the grid by `(M₁, M₂)`, multiplies the weights by `|M₁ M₂|` and divides the field
by `sqrt |M₁ M₂|`.
-/
namespace HcipyVerif.PhaseOptics

inductive Family
  | phaseApodizer      -- PhaseApodizer, PhaseGrating:          exp(i φ)
  | surfaceApodizer    -- SurfaceApodizer, ThinLens, tilts, prisms: exp(i (n−1) (2π/λ) sag)
  | deformableMirror   -- DeformableMirror:                     exp(2 i (2π/λ) surface)
  | segmentedMirror    -- SegmentedDeformableMirror
  | tipTiltMirror      -- TipTiltMirror
  | microLensArray     -- MicroLensArray = SurfaceApodizer(mla_opd, n = 2)
  | atmosphericLayer   -- AtmosphericLayer: exp(i phase_for(λ)), phase_for(λ) = phase_for(1)/λ
  -- round 4: identified on their own (parameter = the element's own sag / phase formula)
  | thinLens           -- ThinLens: sag −r²/(2 f (n₀−1)), exp(i (n−1) (2π/λ) sag)
  | tiltElement        -- TiltElement: sag y'·tan(angle)
  | thinPrism          -- ThinPrism
  | prism              -- Prism: its prism_sag
  | phaseGrating       -- PhaseGrating: exp(i·amplitude·sin(2π y'/period))
  | unimodularApodizer -- Apodizer(exp(iφ)): forward exp(iφ), backward conj
  | multiLayerAtmosphere -- MultiLayerAtmosphere(scintillation=False): exp(i Σ phase_for(1)/λ)
deriving DecidableEq, Repr

inductive Dir
  | fwd
  | bwd
deriving DecidableEq, Repr

/-- κ of the forward multiplier; `n` is the refractive index (used by the refractive family only). -/
def coefFwd (f : Family) (n : Rat) : Rat :=
  match f with
  | .phaseApodizer => 1
  | .surfaceApodizer => n - 1
  | .deformableMirror => 2
  | .segmentedMirror => 2
  | .tipTiltMirror => 2
  | .microLensArray => 2 - 1
  | .atmosphericLayer => 1
  | .thinLens => n - 1
  | .tiltElement => n - 1
  | .thinPrism => n - 1
  | .prism => n - 1
  | .phaseGrating => 1
  | .unimodularApodizer => 1
  | .multiLayerAtmosphere => 1

/-- κ of either direction: backward is the conjugate multiplier. -/
def coef (f : Family) (d : Dir) (n : Rat) : Rat :=
  match d with
  | .fwd => coefFwd f n
  | .bwd => -coefFwd f n

def parseFamily? : String → Option Family
  | "phaseApodizer" => some .phaseApodizer
  | "surfaceApodizer" => some .surfaceApodizer
  | "deformableMirror" => some .deformableMirror
  | "segmentedMirror" => some .segmentedMirror
  | "tipTiltMirror" => some .tipTiltMirror
  | "microLensArray" => some .microLensArray
  | "atmosphericLayer" => some .atmosphericLayer
  | "thinLens" => some .thinLens
  | "tiltElement" => some .tiltElement
  | "thinPrism" => some .thinPrism
  | "prism" => some .prism
  | "phaseGrating" => some .phaseGrating
  | "unimodularApodizer" => some .unimodularApodizer
  | "multiLayerAtmosphere" => some .multiLayerAtmosphere
  | _ => none

/-! ### Magnifier -/

def absRat (q : Rat) : Rat := if q < 0 then -q else q

/-- factor applied to the grid weights by `grid.scaled((M₁, M₂))` -/
def magWeightFactor (m1 m2 : Rat) : Rat := absRat (m1 * m2)

/-- square of the divisor applied to the field (repaired code: `sqrt |M₁ M₂|`) -/
def magDivisorSq (m1 m2 : Rat) : Rat := absRat (m1 * m2)

/-- the unrepaired code takes `sqrt (M₁ M₂)`, which is not a real number for a negative product -/
def magDivisorSqOld (m1 m2 : Rat) : Option Rat := if m1 * m2 < 0 then none else some (m1 * m2)

/-- Round 5: the cell areas of the grid `Magnifier.forward` returns (`grid.scaled(M)` multiplies every weight — a scalar, or one
per point — by the Jacobian `|M₁ M₂|`); the input grid's own weights are an argument, nothing is remembered between calls. -/
def magWeights (m1 m2 : Rat) (w : Nat → Rat) : Nat → Rat := fun i => w i * magWeightFactor m1 m2

/-- … and of the grid `Magnifier.backward` returns (`grid.scaled(1/M)`). -/
def magWeightsBack (m1 m2 : Rat) (w : Nat → Rat) : Nat → Rat := fun i => w i / magWeightFactor m1 m2

/-! ### Round 6: lazily materialised grid weights (`Grid.weights`, `CartesianGrid.scale`)

The `_weights` slot of a grid is empty until somebody reads `grid.weights`; the read fills it with the automatic weights computed from
the coordinates or — for unstructured coordinates, which have none (`grid.rotated()`, `polar.as_('cartesian')`) — with `1` per point.
`CartesianGrid.scale` reads the slot and multiplies it by the Jacobian.  Whether a caller looked at `wf.power` before the call must
not matter. -/

/-- the `_weights` slot: not materialised yet, a scalar, or one value per point -/
inductive LazyW where
  | unset : LazyW
  | scalar (w : Rat) : LazyW
  | points (ws : List Rat) : LazyW
deriving Repr, DecidableEq

/-- `Grid.weights` (the property) as a state change: an empty slot is filled with the automatic weight `auto` of the coordinates,
`none` (unstructured coordinates) meaning "count every point with 1". -/
def LazyW.read (auto : Option Rat) : LazyW → LazyW
  | .unset => .scalar (auto.getD 1)
  | s => s

/-- the weight a reader sees at point `i` (reading materialises) -/
def LazyW.seen (auto : Option Rat) (s : LazyW) (i : Nat) : Rat :=
  match s.read auto with
  | .scalar w => w
  | .points ws => ws.getD i 0
  | .unset => 0

/-- `CartesianGrid.scale`: `self.weights *= |prod scale|` — the property is read (and thereby materialised) first. -/
def LazyW.scale (auto : Option Rat) (j : Rat) (s : LazyW) : LazyW :=
  match s.read auto with
  | .scalar w => .scalar (w * j)
  | .points ws => .points (ws.map (· * j))
  | .unset => .unset

/-- the variant "rescale only what has been materialised" (seeded regression C07-10): kept for its counterexample. -/
def LazyW.scaleOld (j : Rat) : LazyW → LazyW
  | .unset => .unset
  | .scalar w => .scalar (w * j)
  | .points ws => .points (ws.map (· * j))

end HcipyVerif.PhaseOptics
