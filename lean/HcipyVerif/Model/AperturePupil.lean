import HcipyVerif.Model.Aperture

/-!
# C12 — the hexagonally segmented telescope pupils of hcipy/aperture/realistic.py inside the model

`make_luvoir_a_aperture`, `make_luvoir_b_aperture`, `make_elt_aperture`, `make_tmt_aperture`,
`make_keck_aperture` (all one `make_segmented_aperture` over a clipped `make_hexagonal_grid`, an optional
central obscuration and infinite spiders) and `make_hicat_aperture` (two segmented apertures, a central
hexagon) — with the *parameter derivation* executed here:

* the segment-centre lattice (`hexPositions`, integer ring arithmetic) and **which segments are dropped**:
  `Grid.subset` with the criteria the makers use (`Sel`), evaluated by the model's own aperture code
  (`evalPts` of a circle / hexagon on the unstructured grid of segment centres),
* the composition (obscuration, spiders in product or loop form, the option flags),
* the list of segments `return_segments=True` gives, with the decorations each maker adds.

Float constants (pitch, apothem, the hexagon's circum-radius/apothem/side directions, radii, direction
cosines) enter as the rationals the floats are; everything derived from them is computed here.

Core Lean only (linked into the native driver).
-/
namespace HcipyVerif.Aperture

/-! ## `Grid.subset`: which segment centres are kept -/

/-- a criterium handed to `segment_positions.subset(…)` -/
inductive Sel where
  /-- `subset(aperture)` with a callable: `criterium(grid) != 0` (LUVOIR A/B outer clip) -/
  | nonzero (s : Shape)
  /-- `subset(lambda grid: ~(aperture(grid) > 0))` (LUVOIR A: the central segment) -/
  | notPos (s : Shape)
  /-- `subset((1 - aperture(positions)) > 0)` (ELT, TMT: the segments under the central hexagon) -/
  | complPos (s : Shape)
  /-- `subset(aperture(positions) > 0)` (TMT: the inscribed circle) -/
  | pos (s : Shape)
  /-- `subset(m1 * m2 * … > 0)` with `m = abs(a x + b y) < c` (ELT: the pointy tops) -/
  | strips (l : List (Rat × Rat × Rat))

/-- the boolean index array of the subset; the apertures see the unstructured grid of segment centres -/
def selMask : Sel → List Pt → List Bool
  | .nonzero s, pos => (evalPts s pos).map fun v => decide (v ≠ 0)
  | .notPos s, pos => (evalPts s pos).map fun v => !decide (v > 0)
  | .complPos s, pos => (evalPts s pos).map fun v => decide (1 - v > 0)
  | .pos s, pos => (evalPts s pos).map fun v => decide (v > 0)
  | .strips l, pos => pos.map fun p => l.all fun t => decide (rabs (t.1 * p.1 + t.2.1 * p.2) < t.2.2)

/-- `[c[indices] for c in self.coords]` -/
def applySel (s : Sel) (pos : List Pt) : List Pt := compress (selMask s pos) pos

/-- the successive `subset` calls of a maker -/
def selectPositions (sels : List Sel) (pos : List Pt) : List Pt :=
  sels.foldl (fun p s => applySel s p) pos

/-! ## the composed pupil -/

/-- an infinite spider as the makers create it: start point `(px, py)` as handed to
`make_spider_infinite`, direction cosines `(c, s)` -/
abbrev SpiderI := Rat × Rat × Rat × Rat

def spiderI (hw : Rat) (q : SpiderI) : Shape := .spiderInf q.1 q.2.1 q.2.2.1 q.2.2.2 hw

/-- `acc * spider_k(grid) * …` (left associated) -/
def spiderChain (hw : Rat) (spiders : List SpiderI) (acc : Shape) : Shape :=
  spiders.foldl (fun acc q => Shape.mul acc (spiderI hw q)) acc

/-- `loop = true`: `for spider in spiders: aperture *= spider(grid)` (ELT, TMT);
`loop = false`: `res *= spider1(grid) * spider2(grid) * …` (LUVOIR A, Keck, HiCAT) -/
def withSpiders (loop : Bool) (hw : Rat) (spiders : List SpiderI) (body : Shape) : Shape :=
  if loop then spiderChain hw spiders body
  else
    match spiders with
    | [] => body
    | q0 :: rest => .mul body (spiderChain hw rest (spiderI hw q0))

structure HexCfg where
  /-- `make_hexagonal_grid(pitch, rings)`; `ap` is the float `pitch·√3/4` -/
  rings : Nat
  pitch : Rat
  ap : Rat
  /-- the `subset` calls, in order -/
  sels : List Sel
  /-- the segment shape (a hexagon at the origin) -/
  segment : Shape
  /-- `np.ones(size) * segment_transmissions` -/
  trs : List Rat
  /-- `* (1 - make_circular_aperture(2·obs)(grid))` (TMT, Keck) -/
  obs : Option Rat
  /-- no spiders: the empty list -/
  spiders : List SpiderI
  hw : Rat
  loop : Bool

namespace HexCfg

/-- the segment centres the maker hands to `make_segmented_aperture` -/
def positions (c : HexCfg) : List Pt := selectPositions c.sels (hexPositions c.rings c.pitch c.ap)

def segs (c : HexCfg) : List (Pt × Rat) := c.positions.zip c.trs

def body (c : HexCfg) : Shape :=
  match c.obs with
  | none => .seg c.segs c.segment
  | some R => .mul (.seg c.segs c.segment) (.compl (.disk R))

/-- **the pupil** -/
def shape (c : HexCfg) : Shape := withSpiders c.loop c.hw c.spiders c.body

end HexCfg

/-- `seg(grid, p, t) = segment_shape(grid.shifted(-p)) * t` of `make_segmented_aperture(return_segments=True)` -/
def baseSegment (segment : Shape) (pt : Pt × Rat) : Shape :=
  .mul (.shift pt.1.1 pt.1.2 segment) (.const pt.2)

/-- what the makers wrap around a returned segment: product-form makers (LUVOIR A, Keck) write
`segment(grid) * spider1(grid) * …`, loop-form makers (ELT, TMT) `segment(grid) * spider_func(grid)` with
`spider_func = grid.ones() * spider1 * …` -/
def spiderDecor (c : HexCfg) (b : Shape) : Shape :=
  match c.spiders with
  | [] => b
  | q0 :: rest =>
    if c.loop then Shape.mul b (spiderChain c.hw (q0 :: rest) (.const 1))
    else spiderChain c.hw (q0 :: rest) b

/-- … then `* (1 − circular(obs))` where there is an obscuration (TMT, Keck) -/
def decorateSegment (c : HexCfg) (b : Shape) : Shape :=
  match c.obs with
  | none => spiderDecor c b
  | some R => .mul (spiderDecor c b) (.compl (.disk R))

/-- all segments of `return_segments=True` -/
def HexCfg.segmentShapes (c : HexCfg) : List Shape :=
  c.segs.map fun pt => decorateSegment c (baseSegment c.segment pt)

/-! ## HiCAT: contour − central segment, × segmentation, × spiders -/

structure HicatCfg where
  /-- `segmentation`: `make_hexagonal_grid(pitchA, 3, False)` -/
  pitchA : Rat
  apA : Rat
  segA : Shape
  /-- `contour`: `make_hexagonal_grid(pitchB, 3)` -/
  pitchB : Rat
  apB : Rat
  segB : Shape
  central : Shape
  gaps : Bool
  spiders : List SpiderI
  hw : Rat

namespace HicatCfg

def contourSegs (c : HicatCfg) : List (Pt × Rat) := (hexPositions 3 c.pitchB c.apB).map fun p => (p, 1)

def shape (c : HicatCfg) : Shape :=
  let res := Shape.sub (.seg c.contourSegs c.segB) c.central
  let res := if c.gaps then Shape.mul res (.seg ((hexPositions 3 c.pitchA c.apA).map fun p => (p, 1)) c.segA) else res
  withSpiders false c.hw c.spiders res

/-- `func(grid) * seg(grid)` -/
def segmentShapes (c : HicatCfg) : List Shape :=
  c.contourSegs.map fun pt => Shape.mul c.shape (baseSegment c.segB pt)

end HicatCfg

end HcipyVerif.Aperture
