import HcipyVerif.Model.FftGrid

/-!
# Which Fourier transform `make_fourier_transform` builds (C01) — executable, core Lean only

Model of `hcipy/fourier/fourier_transform.py:make_fourier_transform` (planner `'estimate'`) and of
`hcipy/fourier/fast_fourier_transform.py:get_fft_parameters`.

Two layers.

* **Descriptor layer.**  A grid is described by what the code inspects: the kind of its coordinates
  (`regular ⊂ separated ⊂ any`), whether it is Cartesian, its number of dimensions.  `choose` follows the
  code line by line and returns the method *and* where the constructor gets its output grid from
  (`Via.params`: `make_fft_grid(input_grid, q, fov, shift)`; `Via.grid`: the very object the caller
  passed).  `none` is the `ValueError` "a Fourier transform is required to have an output_grid".
  `makeFT` additionally runs the constructor's precondition checks (they raise `ValueError`).
  Two inputs are oracles: `numFft` (the numerical part of `get_fft_parameters` succeeded; its
  per-axis exact model is `getFftParameters` below and `numFftAxes` ties the two) and `fftCheaper`
  (the outcome of the planner's floating-point comparison: `fftCheaper = false` is the code's
  `fft > mft`.  The estimate uses float `log2` and is not modelled; when `ndim ∉ {1,2}` it is not
  consulted).
* **Axis layer.**  `getFftParameters` is `get_fft_parameters` on one axis in exact arithmetic with
  the output grid given *in turns* (`Δ = 2π·dT`, `zero = 2π·zeroT + s`).  The reconstructed shift is
  `2π·shiftT + s`.

`detectLit` is the detection of FFT grids as the code performs it.  It neither looks at the
coordinate system of the requested grid nor at its number of dimensions (numpy broadcasting lets a
one-axis grid through); `detectFix` is the proposed repair (both checks added).
-/
namespace HcipyVerif.Fft

inductive GridKind | regular | separated | unstructured
deriving DecidableEq, Repr

inductive Method | fft | mft | naive
deriving DecidableEq, Repr

/-- what `make_fourier_transform` and the constructors inspect of a grid -/
structure GridDesc where
  kind : GridKind
  cartesian : Bool
  ndim : Nat
deriving DecidableEq, Repr

def GridDesc.isRegular (g : GridDesc) : Bool :=
  match g.kind with
  | .regular => true
  | _ => false

def GridDesc.isSeparated (g : GridDesc) : Bool :=
  match g.kind with
  | .unstructured => false
  | _ => true

/-- an explicit `output_grid` argument, with the outcome of the numerical part of
`get_fft_parameters(output_grid, input_grid)` (all checks on `q`, `q·N`, `fov`; meaningful when both
grids are regular) -/
structure OutReq where
  grid : GridDesc
  numFft : Bool
deriving DecidableEq, Repr

/-- where the constructor gets its output grid from -/
inductive Via | params | grid
deriving DecidableEq, Repr

structure Choice where
  method : Method
  via : Via
deriving DecidableEq, Repr

/-- `get_fft_parameters` does not raise — as written: input regular, output regular, the numbers
fit, and the inner `make_fft_grid(input_grid, q, fov)` accepts the input (regular and Cartesian). -/
def detectLit (i o : GridDesc) (numFft : Bool) : Bool :=
  i.isRegular && o.isRegular && numFft && i.cartesian

/-- proposed repair: an FFT grid is also Cartesian and has the dimension of the input -/
def detectFix (i o : GridDesc) (numFft : Bool) : Bool :=
  detectLit i o numFft && o.cartesian && o.ndim == i.ndim

/-- `make_fourier_transform` up to (excluding) the constructor call. -/
def choose (detect : GridDesc → GridDesc → Bool → Bool) (i : GridDesc) (o : Option OutReq)
    (fftCheaper : Bool) : Option Choice :=
  -- `try: q, fov, shift = get_fft_parameters(...); output_grid = None`
  let o' : Option GridDesc :=
    match o with
    | none => none
    | some r => if detect i r.grid r.numFft then none else some r.grid
  match o' with
  | none =>
    if !(i.isRegular && i.cartesian) then none
    else if !(i.ndim == 1 || i.ndim == 2) then some ⟨.fft, .params⟩
    else if fftCheaper then some ⟨.fft, .params⟩ else some ⟨.mft, .params⟩
  | some g =>
    if i.isSeparated && i.cartesian && g.isSeparated && g.cartesian && (i.ndim == 1 || i.ndim == 2)
    then some ⟨.mft, .grid⟩ else some ⟨.naive, .grid⟩

/-- the grid `make_fft_grid(input_grid, …)` returns: `CartesianGrid(RegularCoords(…))` with one
axis per input axis -/
def fftGridDesc (i : GridDesc) : GridDesc := ⟨.regular, true, i.ndim⟩

/-- the grid the caller asked for: the explicit one, or the FFT grid of the parameters -/
def requestedDesc (i : GridDesc) (o : Option OutReq) : GridDesc :=
  match o with
  | some r => r.grid
  | none => fftGridDesc i

/-- the grid handed to the constructor = the `output_grid` attribute of the object
(`FastFourierTransform` computes `make_fft_grid(input_grid, q, fov, shift)` itself;
`MatrixFourierTransform`/`NaiveFourierTransform` store the argument). -/
def ctorGrid (i : GridDesc) (o : Option OutReq) (c : Choice) : GridDesc :=
  match c.via with
  | .params => fftGridDesc i
  | .grid => requestedDesc i o

/-- `FastFourierTransform.__init__`: regular and Cartesian input (value conditions on `q`, `fov`
are on the axis layer: `FftValuePre`) -/
def fftPre (i : GridDesc) : Prop := i.isRegular = true ∧ i.cartesian = true

/-- `MatrixFourierTransform.__init__` -/
def mftPre (i g : GridDesc) : Prop :=
  i.isSeparated = true ∧ i.cartesian = true ∧ g.isSeparated = true ∧ g.cartesian = true ∧
  (i.ndim = 1 ∨ i.ndim = 2) ∧ i.ndim = g.ndim

/-- `NaiveFourierTransform.__init__` -/
def naivePre (i g : GridDesc) : Prop := i.ndim = g.ndim

def ctorPre (i : GridDesc) (o : Option OutReq) (c : Choice) : Prop :=
  match c.method with
  | .fft => fftPre i
  | .mft => mftPre i (ctorGrid i o c)
  | .naive => naivePre i (ctorGrid i o c)

instance (i : GridDesc) (o : Option OutReq) (c : Choice) : Decidable (ctorPre i o c) := by
  unfold ctorPre fftPre mftPre naivePre; cases c.method <;> infer_instance

/-- The whole function: the choice, then the constructor (which raises `ValueError` when its
precondition fails). -/
def makeFT (detect : GridDesc → GridDesc → Bool → Bool) (i : GridDesc) (o : Option OutReq)
    (fftCheaper : Bool) : Except String Choice :=
  match choose detect i o fftCheaper with
  | none => .error "value"
  | some c => if ctorPre i o c then .ok c else .error "value"

/-! ## one axis of `get_fft_parameters`, exactly -/

/-- input axis: `N` points at spacing `δ` -/
structure InAxis where
  N : Nat
  delta : Rat
deriving Repr

/-- requested output axis: `Mo` points, spacing `2π·dT`, zero `2π·zeroT + s` -/
structure OutAxis where
  Mo : Nat
  dT : Rat
  zeroT : Rat
  s : Rat
deriving Repr

/-- reconstructed parameters of one axis; the shift is `2π·shiftT + s` -/
structure FftParams where
  q : Rat
  fov : Rat
  shiftT : Rat
  s : Rat
deriving Repr, DecidableEq

/-- `fov = dims / zeropadded_dims` -/
def fovPlain (Mo : Nat) (zp : Rat) : Rat := (Mo : Rat) / zp

/-- the correction `fov = (dims + 0.5) / (input_dims · q)` the code applies on the axes where the
floating-point `make_fft_grid(input_grid, q, fov)` does not reproduce `dims` -/
def fovCorrected (Mo N : Nat) (q : Rat) : Rat := ((Mo : Rat) + 1 / 2) / ((N : Rat) * q)

/-- `get_fft_parameters` on one axis.  `q = (2π/(δ·N)) / Δ = 1/(δ·N·dT)`.
The code accepts `|q·N − round(q·N)| ≤ 1e-10`; the exact model is the limit: `q·N` is an integer.
The last line of the code, `zero − Δ·(−Mo/2 + (Mo mod 2)/2)`, is `zero + Δ·⌊Mo/2⌋`. -/
def getFftParameters (a : InAxis) (o : OutAxis) : Option FftParams :=
  let q := 1 / (a.delta * (a.N : Rat) * o.dT)
  if q < 1 then none else
  let zp := q * (a.N : Rat)
  if zp ≠ ((roundHalfEven zp : Int) : Rat) then none else
  if (zp + 1 / 2).floor < (o.Mo : Int) then none else
  let fov := fovPlain o.Mo zp
  let fov' := if outSize (paddedSize a.N q) fov ≠ o.Mo then fovCorrected o.Mo a.N q else fov
  some { q := q, fov := fov', shiftT := o.zeroT + o.dT * ((o.Mo / 2 : Nat) : Rat), s := o.s }

/-- the request `FastFourierTransform(input_grid, q, fov, shift)` for one axis, the shift's part in
radians (`s`) in the `shift` field; the part in turns is `FftParams.shiftT` -/
def FftParams.toAxisIn (p : FftParams) (a : InAxis) (zero : Rat) : AxisIn :=
  { N := a.N, delta := a.delta, zero := zero, q := p.q, fov := p.fov, shift := p.s }

/-- the numerical part of `get_fft_parameters` on grids of equal dimension: every axis passes -/
def numFftAxes : List InAxis → List OutAxis → Bool
  | [], [] => true
  | a :: as, o :: os => (getFftParameters a o).isSome && numFftAxes as os
  | _, _ => false

/-- value preconditions of `FastFourierTransform.__init__` on one axis: `q ≥ 1`, `fov ≥ 0`, and the
output not larger than the padded array -/
def FftValuePre (a : AxisIn) : Prop :=
  1 ≤ a.q ∧ 0 ≤ a.fov ∧ (plan a).Mo ≤ (plan a).M

/-- The `FastFourierTransform` built for axis `a` (zero `z`) from the reconstructed parameters `p`
reports exactly the requested axis `o`: same number of points, same spacing (in turns), same zero
(`2π·(zeroT of the plan + shiftT) + s`). -/
def AxisReproduced (a : InAxis) (z : Rat) (o : OutAxis) (p : FftParams) : Prop :=
  (plan (p.toAxisIn a z)).N = a.N ∧ (plan (p.toAxisIn a z)).Mo = o.Mo ∧
  (plan (p.toAxisIn a z)).dT = o.dT ∧ (plan (p.toAxisIn a z)).zeroT + p.shiftT = o.zeroT ∧
  (plan (p.toAxisIn a z)).shift = o.s

/-- every axis has reconstructed parameters, they satisfy the value preconditions of
`FastFourierTransform`, and the grid built from them is the requested one -/
def AxesReproduced : List InAxis → List OutAxis → Prop
  | [], [] => True
  | a :: as, o :: os =>
    (∃ p, getFftParameters a o = some p ∧
      ∀ z, AxisReproduced a z o p ∧ FftValuePre (p.toAxisIn a z)) ∧ AxesReproduced as os
  | _, _ => False

end HcipyVerif.Fft
