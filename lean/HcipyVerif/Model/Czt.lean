import HcipyVerif.Model.FftIndex

/-!
# `ChirpZTransform.__call__` on one axis (Bluestein's algorithm) — executable, core Lean only

`hcipy/fourier/chirp_z_transform.py`:

```
k     = arange(max(m, n));  wk2 = w**(k**2 / 2);  nfft = next_fast_len(n + m - 1)
Awk2  = a**-k[:n] * wk2[:n]
Fwk2  = fft(1 / hstack((wk2[n-1:0:-1], wk2[:m])), nfft)        # kernel, zero padded to nfft
res   = ifft(fft(x * Awk2, nfft) * Fwk2)
out   = res[n-1 : n+m-1] * wk2[:m]
```

Powers of `w` and `a` enter through one abstract character `W : K → C` with `w = W ω`, `a = W α`:
`w**(k²/2) = W(ω·k²/2)`, `a**(-i) = W(-(α·i))`, `w**(i·k) = W(ω·i·k)`.
(The half-integer power `w**(k²/2)` is numpy's principal-branch power; any `ω` with `W ω = w`
that represents this branch will do — the defining sum `cztSum` only depends on `W ω`, see
`cztSum_congr` in `Lemmas/Czt.lean`.)

The only property of `next_fast_len` used is `n + m - 1 ≤ nfft`.
-/
namespace HcipyVerif.Fft

section generic
variable {C : Type} [Zero C] [Add C] [Mul C]

/-- `hstack((wk2inv[n-1:0:-1], wk2inv[:m]))` zero padded (by `fft(…, nfft)`): position `r` holds
lag `r - (n-1)`, i.e. `wk2inv[|r - (n-1)|]`; zero from position `n + m - 1` on.
(`wk2inv = 1/wk2`; the reciprocal is taken elementwise so it commutes with the `hstack`.) -/
def cztKernel (n m : Nat) (wk2inv : Nat → C) (r : Nat) : C :=
  if r < n + m - 1 then
    (if r + 1 < n then wk2inv (n - 1 - r) else wk2inv (r - (n - 1)))
  else 0

/-- zero padding at the end: `fft(y, nfft)` with `len y = n ≤ nfft` -/
def padEnd (n : Nat) (y : Nat → C) (r : Nat) : C := if r < n then y r else 0

/-- Circular convolution of length `nfft`:
`circConv nfft y v t = Σ_{r<nfft} y r · v ((t - r) mod nfft)`.

This is the ASSUMED specification of `ifft(fft(y, nfft) * fft(v, nfft))[t]` for `t < nfft`.
It follows from the DFT specification `dft` of `fft`/`ifft` by the convolution theorem
(`circ_conv_theorem` in `Lemmas/Czt.lean`). -/
def circConv (nfft : Nat) (y v : Nat → C) (t : Nat) : C :=
  sumRange nfft fun r => y r * v ((t + nfft - r) % nfft)

end generic

section pipeline
variable {K C : Type} [Mul K] [Neg K] [Div K] [NatCast K]
  [Zero C] [Add C] [Mul C] [Inv C]

/-- `wk2[i] = w**(i**2 / 2) = W(ω·i²/2)` -/
def cztWk2 (W : K → C) (ω : K) (i : Nat) : C := W (ω * ((i * i : Nat) : K) / ((2 : Nat) : K))

/-- `Awk2[i] = a**(-i) * wk2[i]` -/
def cztAwk2 (W : K → C) (ω α : K) (i : Nat) : C := W (-(α * (i : K))) * cztWk2 W ω i

/-- `ChirpZTransform.__call__` on one axis: output sample `k` (`k < m`). -/
def cztBluestein (n m nfft : Nat) (W : K → C) (ω α : K) (x : Nat → C) (k : Nat) : C :=
  circConv nfft (padEnd n fun i => x i * cztAwk2 W ω α i)
      (cztKernel n m fun i => (cztWk2 W ω i)⁻¹) (n - 1 + k)
    * cztWk2 W ω k

/-- The same pipeline with `fft`/`ifft` modelled by their DFT specification (`dft`, forward kernel
`ker j = exp(-2πi·j/nfft)`, inverse kernel `ker (-j)` and the factor `1/nfft`) instead of the
circular-convolution specification.  (Proof-side link only: the formal phase sums `PSum` do not
know `Σ_q exp(2πi·q·d/nfft) = 0`, so differential tests run `cztBluestein`;
`czt_fft_eq_sum` shows both agree over a field with a primitive kernel.) -/
def cztBluesteinFft [NatCast C] (n m nfft : Nat) (ker : Int → C) (W : K → C) (ω α : K)
    (x : Nat → C) (k : Nat) : C :=
  ((nfft : C))⁻¹ * dft nfft (fun j => ker (-j))
      (fun q => dft nfft ker (padEnd n fun i => x i * cztAwk2 W ω α i) q
        * dft nfft ker (cztKernel n m fun i => (cztWk2 W ω i)⁻¹) q) (n - 1 + k)
    * cztWk2 W ω k

/-- The defining sum of the chirp Z-transform: `X_k = Σ_{i<n} x_i · a^{-i} · w^{i·k}`
(`= Σ x_i z_k^{-i}`, `z_k = a·w^{-k}`). -/
def cztSum (n : Nat) (W : K → C) (ω α : K) (x : Nat → C) (k : Nat) : C :=
  sumRange n fun i => x i * W (-(α * (i : K))) * W (ω * (i : K) * (k : K))

end pipeline

section zoom
variable {K C : Type} [Add K] [Mul K] [Neg K] [Div K] [NatCast K]
  [Zero C] [Add C] [Mul C] [Inv C]

/-- One axis of `ZoomFastFourierTransform.forward` (after the input weights):
`czt(f) * shift`, with `w = exp(-i·Δ·δ)`, `a = exp(i·u0·δ)`, `shift_k = exp(-i·u_k·x0)`,
`u_k = u0 + k·Δ`; `E r = exp(i·r)`.  Input grid `(x0, δ)`, output grid `(u0, Δ)`. -/
def zoomAxis (n m nfft : Nat) (E : K → C) (x0 δ u0 Δ : K) (f : Nat → C) (k : Nat) : C :=
  cztBluestein n m nfft E (-(Δ * δ)) (u0 * δ) f k * E (-((u0 + (k : K) * Δ) * x0))

/-- The defining Fourier sum on one axis: `Σ_{i<n} f_i · exp(-i·u_k·x_i)`, `x_i = x0 + i·δ`. -/
def zoomSum (n : Nat) (E : K → C) (x0 δ u0 Δ : K) (f : Nat → C) (k : Nat) : C :=
  sumRange n fun i => f i * E (-((u0 + (k : K) * Δ) * (x0 + (i : K) * δ)))

end zoom

end HcipyVerif.Fft
