import HcipyVerif.Model.Binning

/-!
# Interpolation (C18): `hcipy.interpolation.linear` / `nearest`

* separated (and regular) source grids: SciPy's `RegularGridInterpolator` on the axes in
  `(…, y, x)` order with the values `field.shaped`; the model is the tensor-product
  piecewise-linear interpolant written by recursion on the axes (`interpFlat`), the wrapper
  `linearSeparated` does hcipy's re-ordering (axes reversed, points flipped);
* unstructured source grids: barycentric interpolation on the simplex SciPy's Delaunay
  triangulation picks (the triangulation itself is library behaviour: the simplex is an input of
  the model), nearest neighbour as the arg-min of the squared distance.

`linearSeparatedOld` keeps the unrepaired axis order (D11), `nearestUnstructuredOld` the
ignored evaluation grid (D12).
-/
namespace HcipyVerif.Interp
open HcipyVerif.Binning

/-- where an evaluation point lies with respect to the convex hull of the samples (see `hullLoc`) -/
inductive Loc where
  | outside | boundary | inside
  deriving DecidableEq, Repr

def Loc.name : Loc → String
  | .outside => "outside"
  | .boundary => "boundary"
  | .inside => "inside"

section
variable {K : Type} [Add K] [Zero K] [Mul K] [Sub K] [Div K] [NatCast K] [LE K] [DecidableLE K]

/-- the straight line through `(x0, v0)` and `(x1, v1)` at `x` -/
def lerp (x0 x1 v0 v1 x : K) : K := v0 + (v1 - v0) * (x - x0) / (x1 - x0)

/-- `x` is on the inner side of the cell end `a` (the other end being `b`): the knots may ascend
or descend (SciPy accepts strictly descending axes and flips them internally). -/
def inLo (a b x : K) : Bool := if a ≤ b then decide (a ≤ x) else decide (x ≤ a)

/-- `x` is on the inner side of the cell end `b` -/
def inHi (a b x : K) : Bool := if a ≤ b then decide (x ≤ b) else decide (b ≤ x)

/-- One axis of the tensor-product interpolant.  `knots` are the remaining knots (strictly
monotone, ascending or descending), `vals` the remaining values (blocks of `m` samples per knot,
interpolated further by `rec`); `first` tells whether the current cell is the first one; `ext` =
extrapolate outside the knots (`fill_value=None`), otherwise a point outside yields `none` (the
fill value). -/
def interpAxis (ext : Bool) (m : Nat) (rec : List K → Option K) :
    Bool → List K → List K → K → Option K
  | first, a :: b :: knots, vals, x =>
    let last := knots.isEmpty
    if ((ext && first) || inLo a b x) && ((ext && last) || inHi a b x) then
      match rec (vals.take m), rec ((vals.drop m).take m) with
      | some va, some vb => some (lerp a b va vb x)
      | _, _ => none
    else interpAxis ext m rec false (b :: knots) (vals.drop m) x
  | _, _, _, _ => none

/-- Tensor-product piecewise-linear interpolation: `axes` slowest first, `vals` the C-order
flat array of shape `axes.map length`, `p` the point in the same axis order. -/
def interpFlat (ext : Bool) : List (List K) → List K → List K → Option K
  | [], [v], [] => some v
  | ax :: rest, vals, x :: p =>
    interpAxis ext (size (rest.map List.length)) (fun v => interpFlat ext rest v p) true ax vals x
  | _, _, _ => none

/-- an affine function `c0 + Σ c_k x_k` sampled on the tensor grid `axes` (slowest axis first),
as the C-order flat array — the specification side of "interpolating an affine field" -/
def sampleAffine : List (List K) → K → List K → List K
  | [], c0, _ => [c0]
  | ax :: rest, c0, c :: cs => ax.flatMap fun t => sampleAffine rest (c0 + c * t) cs
  | _ :: _, _, [] => []

/-- the shape check: every axis needs two knots and the values must fill the grid -/
def shapeOk (axes : List (List K)) (vals : List K) : Bool :=
  axes.all (fun ax => decide (2 ≤ ax.length)) && decide (vals.length = size (axes.map List.length))

/-- `make_linear_interpolator_separated(field)(point)` for separated coordinates
`sep = [x-axis, y-axis, …]`, `vals` in hcipy order, `p = [x, y, …]`. -/
def linearSeparated (ext : Bool) (sep : List (List K)) (vals : List K) (p : List K) : Option K :=
  interpFlat ext sep.reverse vals p.reverse

/-- `np.array(separated_coords)` only succeeds when all axes have the same number of points -/
def sameLengths (sep : List (List K)) : Bool :=
  match sep with
  | [] => true
  | ax :: rest => rest.all fun b => b.length == ax.length

/-- D11: the axes were handed over un-reversed while values and points are in `(y, x)` order.
`none` also stands for the exception SciPy raises when the shapes do not match. -/
def linearSeparatedOld (ext : Bool) (sep : List (List K)) (vals : List K) (p : List K) : Option K :=
  if sameLengths sep then interpFlat ext sep vals p.reverse else none

/-! ### nearest neighbour on separated grids -/

/-- index of the knot nearest to `x`; `none` outside the knots.  Ties go to the knot with the
*smaller coordinate*: SciPy's `yi <= .5` picks the lower index on ascending axes, and descending
axes are flipped before that rule is applied. -/
def nearestAxis : List K → K → Option Nat
  | a :: b :: knots, x =>
    if inLo a b x && inHi a b x then
      (if a ≤ b then (if (x - a) + (x - a) ≤ b - a then some 0 else some 1)
       else (if (x - b) + (x - b) ≤ a - b then some 1 else some 0))
    else (nearestAxis (b :: knots) x).map (· + 1)
  | _, _ => none

/-- flat C-order index from per-axis indices (slowest first) -/
def ravel : List Nat → List Nat → Nat
  | _ :: dims, i :: idx => i * size dims + ravel dims idx
  | _, _ => 0

/-- per-axis nearest indices, slowest axis first -/
def nearestIdx : List (List K) → List K → Option (List Nat)
  | [], [] => some []
  | ax :: rest, x :: p =>
    match nearestAxis ax x, nearestIdx rest p with
    | some i, some idx => some (i :: idx)
    | _, _ => none
  | _, _ => none

def nearestSeparated (sep : List (List K)) (vals : List K) (p : List K) : Option K :=
  match nearestIdx sep.reverse p.reverse with
  | some idx => vals[ravel (sep.reverse.map List.length) idx]?
  | none => none

def nearestSeparatedOld (sep : List (List K)) (vals : List K) (p : List K) : Option K :=
  if sameLengths sep then
    match nearestIdx sep p.reverse with
    | some idx => vals[ravel (sep.map List.length) idx]?
    | none => none
  else none

/-! ### unstructured grids -/

/-- squared Euclidean distance -/
def dist2 (p q : List K) : K := (List.zipWith (fun a b => (a - b) * (a - b)) p q).sum

/-- index of the first point of `pts` at minimal squared distance from `p`, together with that
distance; `i0` is the index of the head of the list -/
def argminFrom (p : List K) : Nat → List (List K) → Option (Nat × K)
  | _, [] => none
  | i0, q :: pts =>
    match argminFrom p (i0 + 1) pts with
    | none => some (i0, dist2 q p)
    | some (j, d) => if dist2 q p ≤ d then some (i0, dist2 q p) else some (j, d)

def nearestUnstructuredIdx (pts : List (List K)) (p : List K) : Option Nat :=
  (argminFrom p 0 pts).map Prod.fst

/-- indices of *all* minimisers (SciPy's k-d tree may return any of them) -/
def minimisers [DecidableEq K] (pts : List (List K)) (p : List K) : List Nat :=
  match argminFrom p 0 pts with
  | none => []
  | some (_, d) => (List.range pts.length).filter fun j => dist2 (pts.getD j []) p == d

def nearestUnstructured (pts : List (List K)) (vals : List K) (p : List K) : Option K :=
  match nearestUnstructuredIdx pts p with
  | some i => vals[i]?
  | none => none

/-- D12: the interpolator evaluated SciPy at the *source* points: the `k`-th output is the
`k`-th source sample, whatever the evaluation grid. -/
def nearestUnstructuredOld (_pts : List (List K)) (vals : List K) (k : Nat) (_p : List K) : Option K :=
  vals[k]?

/-- weighted combination `Σ λ_i v_i` of values -/
def combine (lam vals : List K) : K := dot lam vals

/-! ### barycentric coordinates on a `d`-simplex, any `d` (executed by the driver ops `lin-simplex`, `simplex-loc`)

`LinearNDInterpolator` evaluates `Σ λ_i f(v_i)` with the barycentric coordinates `λ` of the point in the Delaunay
simplex that contains it.  `baryN` computes them exactly: Cramer's rule on the edge matrix `(v_i - v_0)`, the
determinants by Laplace expansion (any size), and then *checks* `Σ λ = 1` and `Σ λ_i v_i = p` exactly, so that whatever
it returns are barycentric coordinates (`Properties/C18.lean: baryN_sound`); for `d = 1, 2, 3` it is proved to succeed
on every non-degenerate simplex (`baryN_defined_d1/2/3`). -/

/-- `Σ_i λ_i v_i` for points `v_i` with `n` coordinates -/
def wsum (n : Nat) : List K → List (List K) → List K
  | l :: lam, v :: verts => vadd (v.map (l * ·)) (wsum n lam verts)
  | _, _ => vzero n

/-- Laplace expansion along the first row: `Σ_j sgn·(-1)^j · a_j · minor j` -/
def laplace (minor : Nat → K) : Nat → K → List K → K
  | _, _, [] => 0
  | j, sgn, a :: row => sgn * a * minor j + laplace minor (j + 1) (0 - sgn) row

/-- determinant of an `n × n` matrix given as its list of rows -/
def detN : Nat → List (List K) → K
  | n + 1, row :: rest => laplace (fun j => detN n (rest.map (·.eraseIdx j))) 0 ((1 : Nat) : K) row
  | _, _ => ((1 : Nat) : K)

/-- componentwise difference of two points -/
def vsub (a b : List K) : List K := List.zipWith (· - ·) a b

/-- the edge matrix of a simplex: rows `v_i - v_0`, `i ≥ 1` -/
def edges : List (List K) → List (List K)
  | [] => []
  | v0 :: rest => rest.map (vsub · v0)

/-- the determinant whose vanishing means "degenerate simplex" (`d! ·` signed volume) -/
def simplexDet (verts : List (List K)) : K := detN (edges verts).length (edges verts)

/-- Cramer's rule: `λ_1 … λ_d` from the edge matrix `E` and the right-hand side `r = p - v_0`, then `λ_0 = 1 - Σ` -/
def cramer (E : List (List K)) (r : List K) : List K :=
  let D := detN E.length E
  let tl := (List.range E.length).map fun i => detN E.length (E.set i r) / D
  (((1 : Nat) : K) - tl.sum) :: tl

/-- barycentric coordinates of `p` in the simplex `verts` (`d + 1` points with `d` coordinates each); `none` for a
malformed or degenerate simplex.  The answer is verified before it is returned. -/
def baryN [DecidableEq K] (verts : List (List K)) (p : List K) : Option (List K) :=
  match verts with
  | [] => none
  | v0 :: rest =>
    if rest.length ≠ p.length || !(verts.all fun v => v.length == p.length) then none else
    let E := edges verts
    if detN E.length E = 0 then none else
    let lam := cramer E (vsub p v0)
    if lam.sum = ((1 : Nat) : K) ∧ wsum p.length lam verts = p then some lam else none

/-- `LinearNDInterpolator` at `p`, given the simplex that contains it and the samples at its vertices -/
def linearSimplex [DecidableEq K] (verts : List (List K)) (vals : List K) (p : List K) : Option K :=
  (baryN verts p).map fun lam => combine lam vals

/-- the point is in the closed simplex -/
def inSimplex (lam : List K) : Bool := lam.all fun l => decide (0 ≤ l)

/-- where a point with barycentric coordinates `lam` in the simplex with vertex numbers `ids` lies with respect to
the convex hull whose facets are `facets` (each a list of vertex numbers, `Delaunay.convex_hull`):
`outside` of the simplex (some `λ_i < 0`); on the `boundary` of the hull — all `λ ≥ 0` and every vertex that carries
weight (`λ_i ≠ 0`) belongs to one common hull facet, i.e. the point lies in that facet (hull vertices and points on hull
edges of a 3-D cloud included): exactly the points where SciPy's point location may answer -1; or `inside`. -/
def hullLoc [DecidableEq K] (lam : List K) (ids : List Nat) (facets : List (List Nat)) : Loc :=
  if !inSimplex lam then Loc.outside
  else if facets.any (fun G => (List.zip lam ids).all fun li => decide (li.1 = 0) || G.contains li.2) then Loc.boundary
  else Loc.inside

/-- barycentric coordinates of `p` in the triangle `a b c` (Cramer's rule); `none` when the
triangle is degenerate -/
def bary2 [DecidableEq K] (a b c p : K × K) : Option (List K) :=
  let det := (b.1 - a.1) * (c.2 - a.2) - (c.1 - a.1) * (b.2 - a.2)
  if det = 0 then none else
    let l1 := ((p.1 - a.1) * (c.2 - a.2) - (c.1 - a.1) * (p.2 - a.2)) / det
    let l2 := ((b.1 - a.1) * (p.2 - a.2) - (p.1 - a.1) * (b.2 - a.2)) / det
    some [((1 : Nat) : K) - l1 - l2, l1, l2]

/-- `LinearNDInterpolator` at `p` given the simplex that contains it -/
def linearTriangle [DecidableEq K] (a b c : K × K) (va vb vc : K) (p : K × K) : Option K :=
  (bary2 a b c p).map fun lam => combine lam [va, vb, vc]

end

end HcipyVerif.Interp
